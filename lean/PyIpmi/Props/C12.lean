/-
  C12 — SEL retrieval is exact and get-and-clear is atomic.

  Objects: `SelXfer.*` is the model of pyipmi/sel.py (Model/SelXfer.lean), `Spec.Sel.respond` the
  byte-level reference SEL device (Spec/SelDevice.lean: log of 16-byte records, partial-read limit,
  optional whole-record reads, reservation, script of concurrent changes, deletion record),
  `selCfg` the constants extracted from the working tree (Gen/Loops10.lean).

  * `constants_ok`        — the extracted constants are the ones the proofs are made for
                            (ENTIRE_RECORD FFh, fallback 16, record length 16, decrement 1, CAh shrinks,
                            C5h restarts, record ids 0 / FFFFh).  Re-decided whenever the source changes.
  * `get_entry_exact`     — get_sel_entry returns the stored record and the successor's id, for EVERY
                            partial-read limit ≥ 1, with or without whole-record support.
  * `entries_exact`       — get_sel_entries returns the log: every record, once, in order, for every
                            log of well-formed records with pairwise distinct ids, every limit ≥ 1.
  * `truncating_device_read_exactly` — "partial reads of any size" the other way round: a device that answers
                            every Get SEL Entry "completed" with FEWER bytes than asked for (any sizes ≥ 1, changing
                            from answer to answer; Model/SelScript.lean, C13's scripted device) instead of refusing
                            with CAh is read exactly too, in at most 16 requests.
  * `empty_log_nothing`   — an empty log yields [] after the single Get SEL Info exchange.
  * `entries_exact_after_history`, `get_entry_exact_after_history`, `get_and_clear_after_history`
                          — the same for a call made after ANY history of operations on the same Ipmi object (whatever
                            their outcome: RetryError, CompletionCodeError, DecodingError) once the device is healthy:
                            the model of a call takes the device and nothing else; `source_variant` ties that to the tree.
  * `source_variant`      — what the theorems need of the variant read from today's pyipmi/sel.py (they are
                            stated for THAT variant, `selVariant`): a floor of max_req_len, where there is
                            one, leaves the 1-byte request possible; get_and_clear_sel_entry has a retry budget.
  * `get_and_clear_atomic`— for EVERY finite script of concurrent changes (reservation cancelled,
                            record appended, oldest record removed — before any request), every limit,
                            every addressing mode (id, first, last) and EVERY retry budget: the call
                            terminates (no fuel hypothesis: an exhausted budget is RetryError); if it
                            returns a record then that record is the one and only record the device
                            deleted for it; if it raises, the device deleted nothing.
  * `get_and_clear_repeats_both_steps` — "both steps are repeated": while the addressed record is still in
                            the log after every change and the script holds fewer changes than the budget
                            has rounds, the call SUCCEEDS (returns a record, exactly that one deleted).
  * `get_and_clear_same_reservation` — for EVERY peer: a call that returns ended with
                            Reserve SEL → r, ≥ 1 Get SEL Entry all carrying r, Delete SEL Entry
                            carrying r, with nothing in between.
  * `get_and_clear_unbounded_as_shipped` — the pinned `while True`: for every n a script of 2·n
                            cancellations costs n rounds and the loop is still not done (the model is out
                            of fuel whatever fuel it gets); the repaired loop ends the same scripts with
                            RetryError after 2·budget requests.
  * `entry_view_*`        — the decoded SelEntry (record id, type, timestamp, generator, EvM rev, sensor type /
                            number, event direction / type, event data; OEM layouts) against IPMI table 32-1..3.
-/
import PyIpmi.Lemmas.XferSel
import PyIpmi.Lemmas.SelScript
import PyIpmi.Gen.Loops10
namespace PyIpmi.Props.C12
open PyIpmi PyIpmi.SelXfer PyIpmi.Spec.Sel
open PyIpmi.FruXfer (Wire Xchg Send World Res xchg)
open PyIpmi.Gen.Loops10 (selCfg selVariant)

theorem constants_ok : selCfg = stdCfg := by decide

/-- What this property needs of today's pyipmi/sel.py (`selVariant`, read from the source on this run):
where get_sel_entry has a floor for max_req_len it is not above 0 - a request of ONE byte is still
made, so that a device with a partial-read limit of 1 byte is read (limits 1..16) -, and
get_and_clear_sel_entry runs on a retry budget, so that it terminates whatever the peer does
(`get_and_clear_atomic` has no fuel hypothesis); and a call of the retrieval functions sees nothing an
earlier call left on the Ipmi object (`selStateless`: `self.max_req_len = ENTIRE_RECORD` is an unconditional
statement in front of the loop of get_sel_entry, nothing else is kept) - the models take the device and nothing
else, so the theorems hold for EVERY call of a history (`…_after_history`), the ones behind a call that ended in
RetryError / CompletionCodeError / DecodingError included.  A regression of any of the three stops the build here.
(That the floor EXISTS is C13's clause: Props.C13.source_variant.) -/
theorem source_variant : floorOkB selVariant = true ∧ selVariant.budget.isSome = true ∧
    Gen.Loops10.selStateless = true := by decide

theorem floor_ok : FloorOk selVariant := floorOk_of_B source_variant.1

/-- the variant of the theorems below: the one of today's source -/
abbrev V : Variant := selVariant

/-- the repaired variant (the non-vacuity examples run on it whatever the tree says) -/
abbrev VI : Variant := Variant.intended

/-- `get_sel_entry(record_id, reservation)` on a device nobody else touches: the stored record and
the id of the record after it (FFFFh after the last). -/
theorem get_entry_exact (d : SelDev) (r rid : Nat) (e : List Nat) (next : Nat) (tr : List Xchg)
    (hquiet : d.evs = []) (hvalid : d.valid = true) (hcur : d.cur = r) (hr1 : 1 ≤ r) (hr : r < 65536)
    (hrid : rid < 65536) (hlimit : 1 ≤ d.limit) (hfind : find d.log rid = some (e, next))
    (hrec : entryOk e = true) (hnext : next < 65536) :
    (getSelEntry selCfg V respond ⟨d, tr⟩ rid r).out = .ok (e, next) := by
  rw [constants_ok]
  exact (getSelEntry_exact d r rid e next hquiet hvalid hcur hr1 hr hrid hfind hrec hnext hlimit V floor_ok
    ⟨d, tr⟩ rfl).1

/-- `get_sel_entries()` returns every record exactly as stored, once each, in log order — whether
the device serves whole records or only partial reads of any size ≥ 1 (a limit of one byte included:
the floor of the request length is below 1). -/
theorem entries_exact (d : SelDev) (tr : List Xchg) (hquiet : d.evs = []) (hlimit : 1 ≤ d.limit)
    (hrec : ∀ e ∈ d.log, entryOk e = true) (hids : (d.log.map entryId).Nodup)
    (hlen : d.log.length < 65536) :
    (selEntries selCfg V respond ⟨d, tr⟩).out = .ok d.log := by
  rw [constants_ok]
  exact selEntries_exact d hquiet hlimit hrec hids hlen V floor_ok ⟨d, tr⟩ rfl

/-- **"… or only partial reads of any size": a device that TRUNCATES instead of answering CAh.**  Not
the reference device (which refuses what exceeds its limit) but the scripted one of Model/SelScript.lean:
every Get SEL Entry is "completed" and carries only as many bytes as the device cares to send - any
sequence of sizes ≥ 1 (`cp.Positive`), changing from answer to answer.  The record (16 bytes, known type)
and the next record id come back exactly as stored, after at most 16 requests.  (With a size of 0 the
read cannot be completed: C13, `sel_entry_empty_answer_gives_up` / `sel_entry_unbounded_on_empty_answers`.) -/
theorem truncating_device_read_exactly (e : List Nat) (next rid res r0 : Nat) (cp : Caps)
    (rp : List PyIpmi.Model.Retry.Letter) (hlen : e.length = 16) (hty : typeOk e) (hnext : next < 65536)
    (hcp : cp.Positive) :
    (runEntry selCfg V ⟨⟨[], .completed⟩, cp, rp, r0, e, next⟩ rid res).out = .ok (e, next) ∧
    (runEntry selCfg V ⟨⟨[], .completed⟩, cp, rp, r0, e, next⟩ rid res).w.trace.length ≤ 16 := by
  rw [constants_ok]
  have := entry_exact_truncated V entryFuel ⟨⟨⟨[], .completed⟩, cp, rp, r0, e, next⟩, []⟩ res rid [] rfl hcp hlen hty
    hnext (by simp) (by simp) (by decide)
  have hdef : runEntry stdCfg V ⟨⟨[], .completed⟩, cp, rp, r0, e, next⟩ rid res =
      entryLoop stdCfg V scriptSend entryFuel ⟨⟨⟨[], .completed⟩, cp, rp, r0, e, next⟩, []⟩ res rid ((255 : Nat) : Int) [] := rfl
  rw [hdef]
  simpa using this

/-! ## Histories on one Ipmi object

The retrieval functions keep no state between calls (`source_variant`, third clause): whatever operations came
before on the same object - and however they ended - a call sees the device as it stands and nothing else. -/

/-- an operation of the SEL retrieval interface -/
inductive Op where
  | entries
  | get (rid res : Nat)
  | gac (rid retry : Nat)

/-- the world (device, exchanges so far) after an operation; its result - a value or ANY exception - is dropped -/
def Op.run (w : World SelDev) : Op → World SelDev
  | .entries => (selEntries selCfg V respond w).w
  | .get rid res => (getSelEntry selCfg V respond w rid res).w
  | .gac rid retry => (getAndClear selCfg V respond retry w rid).w

/-- a history of operations on one object -/
def runHist (w : World SelDev) (ops : List Op) : World SelDev := ops.foldl Op.run w

/-- the device as a history left it, healthy (again): nothing pending in the script of concurrent changes,
partial reads of up to `l` bytes served, whole-record reads iff `wh`; `f` = whatever else happened to the device
in the meantime (a record repaired, the reservation counter moved on) -/
def healthyAfter (w : World SelDev) (f : SelDev → SelDev) (l : Nat) (wh : Bool) : SelDev :=
  { f w.dev with limit := l, whole := wh, evs := [] }

/-- After ANY history of operations on the object (each of which may have ended in RetryError - a device that
refused every length down to one byte, a used-up budget -, CompletionCodeError or DecodingError) against ANY
earlier behaviour of the device: once the device serves partial reads of `l ≥ 1` bytes (or whole records), the
listing is the log as it then stands - every record, once, in order. -/
theorem entries_exact_after_history (w0 : World SelDev) (ops : List Op) (f : SelDev → SelDev) (l : Nat) (wh : Bool)
    (hl : 1 ≤ l)
    (hrec : ∀ e ∈ (healthyAfter (runHist w0 ops) f l wh).log, entryOk e = true)
    (hids : ((healthyAfter (runHist w0 ops) f l wh).log.map entryId).Nodup)
    (hlen : (healthyAfter (runHist w0 ops) f l wh).log.length < 65536) :
    (selEntries selCfg V respond ⟨healthyAfter (runHist w0 ops) f l wh, (runHist w0 ops).trace⟩).out =
      .ok (healthyAfter (runHist w0 ops) f l wh).log :=
  entries_exact _ _ rfl hl hrec hids hlen

/-- … and so is a single read under a valid reservation … -/
theorem get_entry_exact_after_history (w0 : World SelDev) (ops : List Op) (f : SelDev → SelDev) (l : Nat) (wh : Bool)
    (hl : 1 ≤ l) (r rid : Nat) (e : List Nat) (next : Nat)
    (hvalid : (healthyAfter (runHist w0 ops) f l wh).valid = true)
    (hcur : (healthyAfter (runHist w0 ops) f l wh).cur = r) (hr1 : 1 ≤ r) (hr : r < 65536) (hrid : rid < 65536)
    (hfind : find (healthyAfter (runHist w0 ops) f l wh).log rid = some (e, next))
    (hrec : entryOk e = true) (hnext : next < 65536) :
    (getSelEntry selCfg V respond ⟨healthyAfter (runHist w0 ops) f l wh, (runHist w0 ops).trace⟩ rid r).out =
      .ok (e, next) :=
  get_entry_exact _ r rid e next _ rfl hvalid hcur hr1 hr hrid hl hfind hrec hnext

/-- … and get-and-clear is atomic there (stated below for any device; here for the one a history left). -/
theorem get_and_clear_after_history (w0 : World SelDev) (ops : List Op) (f : SelDev → SelDev) (l : Nat) (wh : Bool)
    (rid retry : Nat) (hrid : rid < 65536)
    (hwf : WF { healthyAfter (runHist w0 ops) f l wh with deleted := [] }) (hfew : 0 < retry)
    (havail : Always (Avail rid) (healthyAfter (runHist w0 ops) f l wh).log []) :
    ∃ e r, (getAndClear selCfg V respond retry
        ⟨{ healthyAfter (runHist w0 ops) f l wh with deleted := [] }, (runHist w0 ops).trace⟩ rid).out = .ok e ∧
      (getAndClear selCfg V respond retry
        ⟨{ healthyAfter (runHist w0 ops) f l wh with deleted := [] }, (runHist w0 ops).trace⟩ rid).w.dev.deleted = [(e, r)] := by
  rw [constants_ok]
  exact getAndClear_succeeds rid hrid V floor_ok retry _ hwf rfl (by simpa [healthyAfter, nch] using hfew) havail

/-- An empty log: nothing is returned and nothing but Get SEL Info is asked. -/
theorem empty_log_nothing (d : SelDev) (tr : List Xchg) (hquiet : d.evs = []) (hempty : d.log = []) :
    (selEntries selCfg V respond ⟨d, tr⟩).out = .ok [] ∧
    ∃ rsp, (selEntries selCfg V respond ⟨d, tr⟩).w.trace = tr ++ [⟨infoReq, rsp⟩] := by
  rw [constants_ok]
  have htick : tick d = d := tick_nil d hquiet
  unfold selEntries
  simp only [xchg, respond_info, htick, hempty, List.length_nil, Nat.zero_mod, Nat.zero_div]
  have := decodeInfo_ok 0 (by omega)
  simp only [Nat.zero_mod, Nat.zero_div] at this
  simp only [this, if_true]
  first | exact ⟨rfl, _, rfl⟩ | exact ⟨trivial, _, rfl⟩

/-- `get_and_clear_sel_entry(record_id, retry)` is atomic under every finite script of concurrent log
changes and for EVERY retry budget: it terminates (the model never runs out of fuel - an exhausted
budget is RetryError), and either returns exactly the record the device deleted (one deletion,
carrying a reservation id `r`), or raises with nothing deleted. -/
theorem get_and_clear_atomic (d : SelDev) (tr : List Xchg) (rid retry : Nat) (hrid : rid < 65536)
    (hwf : WF d) (hnone : d.deleted = []) :
    let res := getAndClear selCfg V respond retry ⟨d, tr⟩ rid
    (∃ e r, res.out = .ok e ∧ res.w.dev.deleted = [(e, r)]) ∨
    ((∀ e, res.out ≠ .ok e) ∧ res.out ≠ .pyError "nontermination" ∧ res.w.dev.deleted = []) := by
  rw [constants_ok]
  exact getAndClear_atomic rid hrid V floor_ok retry ⟨d, tr⟩ hwf hnone (Or.inl source_variant.2.1)

/-- **"Both steps are repeated."**  If the addressed record is still in the log after every change
of the script (`Always (Avail rid)`: `rid` - an id, 0000h "first" or FFFFh "last" - designates a
record and every record is of a known type, now and after each further change), and the script
holds fewer changes than the call has rounds, get-and-clear SUCCEEDS: it returns a record, and
the device has deleted exactly that record - however the cancellations fall between Reserve,
the partial reads and the Delete. -/
theorem get_and_clear_repeats_both_steps (d : SelDev) (tr : List Xchg) (rid retry : Nat) (hrid : rid < 65536)
    (hwf : WF d) (hnone : d.deleted = []) (hfew : nch d.evs < retry) (havail : Always (Avail rid) d.log d.evs) :
    ∃ e r, (getAndClear selCfg V respond retry ⟨d, tr⟩ rid).out = .ok e ∧
      (getAndClear selCfg V respond retry ⟨d, tr⟩ rid).w.dev.deleted = [(e, r)] := by
  rw [constants_ok]
  exact getAndClear_succeeds rid hrid V floor_ok retry ⟨d, tr⟩ hwf hnone hfew havail

/-- Whatever the peer does: a `get_and_clear_sel_entry` that returns has ended with a Reserve SEL
answered `r`, then one or more Get SEL Entry requests for `rid` all carrying `r`, then the
(acknowledged) Delete SEL Entry for `rid` carrying `r` — the delete is issued under the same
reservation as the read, and after a cancellation both steps were repeated from the reserve. -/
theorem get_and_clear_same_reservation {σ} (send : Send σ) (dev : σ) (rid retry : Nat) (e : List Nat)
    (h : (getAndClear selCfg V send retry ⟨dev, []⟩ rid).out = .ok e) :
    ∃ pre rspR r gets rspD,
      (getAndClear selCfg V send retry ⟨dev, []⟩ rid).w.trace =
        pre ++ ⟨reserveReq, rspR⟩ :: (gets ++ [⟨deleteReq r rid, rspD⟩]) ∧
      decodeU16Rsp rspR = .ok r ∧ (∀ x ∈ gets, ∃ off len, x.req = getReq r rid off len) ∧ gets ≠ [] ∧
      ∃ v, decodeU16Rsp rspD = .ok v :=
  getAndClear_trace selCfg V send rid retry ⟨dev, []⟩ e h

/-- a device on which another party cancels the reservation before each of the next 2·n requests -/
def cancelling (n : Nat) (d : SelDev) : SelDev := { d with evs := List.replicate (2 * n) (some .cancel) }

/-- **As shipped** get_and_clear_sel_entry is `while True`: for every n the script of 2·n
cancellations costs n complete rounds (2·n requests: Reserve SEL, Get SEL Entry answered C5h) and the
loop is still not done - whatever fuel the model is given, some finite script uses it up, i.e. the
number of requests is not bounded by anything but the peer.  The repaired loop ends the very same
scripts with RetryError after 2·retry requests. -/
theorem get_and_clear_unbounded_as_shipped (d : SelDev) (rid n : Nat) (hrid : rid < 65536) :
    (getAndClear selCfg .asShipped respond n ⟨cancelling n d, []⟩ rid).out = .pyError "nontermination" ∧
    (getAndClear selCfg .asShipped respond n ⟨cancelling n d, []⟩ rid).w.trace.length = 2 * n ∧
    (getAndClear selCfg VI respond n ⟨cancelling n d, []⟩ rid).out = .retryError ∧
    (getAndClear selCfg VI respond n ⟨cancelling n d, []⟩ rid).w.trace.length = 2 * n := by
  rw [constants_ok]
  have a := getAndClear_cancelled_rounds .asShipped rid hrid n ⟨cancelling n d, []⟩ rfl
  have b := getAndClear_cancelled_rounds VI rid hrid n ⟨cancelling n d, []⟩ rfl
  exact ⟨a.1, by simpa using a.2, b.1, by simpa using b.2⟩

/-! ### record decoding: the SelEntry object against the record formats of IPMI §32 -/

section decoding
open PyIpmi.Spec.SelRecord

/-- **System event record (type 02h, table 32-1).**  Every field of the view comes back in the
attribute of that name: record id, timestamp, generator id (16 bit), EvM rev, sensor type, sensor
number, event direction (bit 7 of byte 13: deassertion), event type (bits 6:0), event data 1..3 -
and `data` is the 16 bytes. -/
theorem entry_view_system (id ts gen evm st sn : Nat) (de : Bool) (et d1 d2 d3 : Nat)
    (h : (RecView.system id ts gen evm st sn de et d1 d2 d3).Wf) :
    decodeEntry (RecView.system id ts gen evm st sn de et d1 d2 d3).encode =
      .ok ⟨(RecView.system id ts gen evm st sn de et d1 d2 d3).encode, id, 2, ts, gen, evm, st, sn, de, et, [d1, d2, d3]⟩ :=
  decode_system id ts gen evm st sn de et d1 d2 d3 h

/-- **OEM records (tables 32-2, 32-3).**  Timestamped (C0h–DFh): accepted, `data` the 16 bytes,
record id, type and timestamp as laid out; non-timestamped (E0h–FFh): accepted, `data`, record id and
type.  (The manufacturer id / OEM bytes have no attribute of their own; they are in `data`.) -/
theorem entry_view_oem (id t ts mfg o1 o2 o3 o4 o5 o6 o7 o8 o9 o10 o11 o12 o13 : Nat) :
    ((RecView.oemTimestamped id t ts mfg [o1, o2, o3, o4, o5, o6]).Wf →
      ∃ a, decodeEntry (RecView.oemTimestamped id t ts mfg [o1, o2, o3, o4, o5, o6]).encode = .ok a ∧
        a.data = (RecView.oemTimestamped id t ts mfg [o1, o2, o3, o4, o5, o6]).encode ∧
        a.recordId = id ∧ a.type = t ∧ a.timestamp = ts) ∧
    ((RecView.oemPlain id t [o1, o2, o3, o4, o5, o6, o7, o8, o9, o10, o11, o12, o13]).Wf →
      ∃ a, decodeEntry (RecView.oemPlain id t [o1, o2, o3, o4, o5, o6, o7, o8, o9, o10, o11, o12, o13]).encode = .ok a ∧
        a.data = (RecView.oemPlain id t [o1, o2, o3, o4, o5, o6, o7, o8, o9, o10, o11, o12, o13]).encode ∧
        a.recordId = id ∧ a.type = t) :=
  ⟨decode_oemTimestamped id t ts mfg o1 o2 o3 o4 o5 o6,
   decode_oemPlain id t o1 o2 o3 o4 o5 o6 o7 o8 o9 o10 o11 o12 o13⟩

/-- Only 16 bytes of a record type the specification defines are accepted, and they are kept as
they are; what `get_sel_entry` returns IS that decoding (`selEntry` of the transfer model). -/
theorem entry_decoding_strict (data : List Nat) (next : Nat) :
    (∀ a, decodeEntry data = .ok a →
      data.length = 16 ∧ (data.getD 2 0 = 2 ∨ (0xC0 ≤ data.getD 2 0 ∧ data.getD 2 0 < 0x100)) ∧ a.data = data ∧
        a.type = data.getD 2 0) ∧
    selEntry data next = (match decodeEntry data with
      | .ok a => .ok (a.data, next)
      | _ => .decodingError) :=
  ⟨fun a h => decode_strict data a h, selEntry_decode data next⟩

end decoding

/-! ### non-vacuity -/

def recA : List Nat := [0x34, 0x12, 0x02, 1, 2, 3, 4, 0x20, 0x41, 4, 0x0C, 0x10, 0xEF, 0xA1, 0xB2, 0xC3]
def recB : List Nat := [0x01, 0x00, 0xC5, 9, 9, 9, 9, 7, 7, 7, 7, 7, 7, 0xFF, 0xFE, 0xFD]
def recC : List Nat := [0xFE, 0xFF, 0xE0, 0, 0, 0, 0, 0, 0, 0, 0, 0, 0, 0, 0, 1]

/-- record A is the system event "id 1234h, time 04030201h, generator 4120h, EvM 4, sensor type 0Ch
number 10h, deassertion of event type 6Fh, data A1 B2 C3" -/
example : recA = (Spec.SelRecord.RecView.system 0x1234 0x04030201 0x4120 4 0x0C 0x10 true 0x6F 0xA1 0xB2 0xC3).encode ∧
    (Spec.SelRecord.RecView.system 0x1234 0x04030201 0x4120 4 0x0C 0x10 true 0x6F 0xA1 0xB2 0xC3).Wf := by
  refine ⟨by decide, ?_⟩
  simp [Spec.SelRecord.RecView.Wf]
example : decodeEntry recA = .ok ⟨recA, 0x1234, 2, 0x04030201, 0x4120, 4, 0x0C, 0x10, true, 0x6F, [0xA1, 0xB2, 0xC3]⟩ := by
  decide
example : decodeEntry (recA.set 2 0x03) = .decodingError ∧ decodeEntry (recA ++ [0]) = .decodingError := by decide

/-- three records (system event, OEM timestamped, OEM non-timestamped), ids 1234h, 0001h, FFFEh,
partial reads of at most 5 bytes, no whole-record reads, reservation counter about to wrap -/
def demoDev : SelDev := ⟨[recA, recB, recC], 5, false, 0xFFFF, false, [], []⟩

example : (∀ e ∈ demoDev.log, entryOk e = true) ∧ (demoDev.log.map entryId).Nodup := by decide
example : (selEntries selCfg VI respond ⟨demoDev, []⟩).out = .ok [recA, recB, recC] := by decide

/-- sizes 5, 1, then 4 for ever: FFh is asked at the offsets 0, 5, 6, 10, 14 -/
example : (runEntry selCfg VI ⟨⟨[], .completed⟩, ⟨[some 5, some 1], some 4⟩, [], 0, recA, 2⟩ 1 7).out = .ok (recA, 2) ∧
    ((runEntry selCfg VI ⟨⟨[], .completed⟩, ⟨[some 5, some 1], some 4⟩, [], 0, recA, 2⟩ 1 7).w.trace.map
      fun x => (x.req.payload.getD 4 0, x.req.payload.getD 5 0)) = [(0, 255), (5, 255), (6, 255), (10, 255), (14, 255)] := by
  decide

/-- Get SEL Info, Reserve SEL, then per record: FFh, 16, 15, …, 6 refused (12), 5+5+5+1 served (4) -/
example : (selEntries selCfg VI respond ⟨demoDev, []⟩).w.trace.length = 2 + 3 * 16 := by decide
/-- a device that serves one byte at a time is still read completely: FFh, 16 … 2 refused, 16 × 1 byte -/
example : (selEntries selCfg VI respond ⟨{ demoDev with limit := 1 }, []⟩).out = .ok [recA, recB, recC] ∧
    (selEntries selCfg VI respond ⟨{ demoDev with limit := 1 }, []⟩).w.trace.length = 2 + 3 * 32 := by decide
/-- … and one that serves nothing at all (limit 0, outside the property) is given up on after FFh,
16 … 1 with RetryError; as shipped the next request asked for 0 bytes (refused CCh by this device) -/
example : (getSelEntry selCfg VI respond ⟨{ demoDev with limit := 0, valid := true }, []⟩ 0 0xFFFF).out = .retryError ∧
    (getSelEntry selCfg VI respond ⟨{ demoDev with limit := 0, valid := true }, []⟩ 0 0xFFFF).w.trace.length = 17 ∧
    (getSelEntry selCfg .asShipped respond ⟨{ demoDev with limit := 0, valid := true }, []⟩ 0 0xFFFF).out = .ccError 0xCC ∧
    (getSelEntry selCfg .asShipped respond ⟨{ demoDev with limit := 0, valid := true }, []⟩ 0 0xFFFF).w.trace.length = 18 := by
  decide

example : WF demoDev := ⟨by decide, (by intro e h; simp [demoDev] at h), by decide⟩

/-- the reservation is cancelled before the 5th request, and a record is appended before the 23rd (the latter falls
between the completed read and the delete of the second round): three rounds, record B returned
and deleted, under reservation 3 -/
def script : List (Option Change) :=
  (List.replicate 4 none) ++ [some .cancel] ++ (List.replicate 17 none) ++ [some (.add recC)]

example : (getAndClear selCfg VI respond 5 ⟨{ demoDev with log := [recA, recB], evs := script }, []⟩ 1).out
    = .ok recB := by decide
example : (getAndClear selCfg VI respond 5 ⟨{ demoDev with log := [recA, recB], evs := script }, []⟩ 1).w.dev.deleted
    = [(recB, 3)] := by decide
example : (getAndClear selCfg VI respond 5 ⟨{ demoDev with log := [recA, recB], evs := script }, []⟩ 1).w.dev.log
    = [recA, recC] := by decide
/-- the hypotheses of `get_and_clear_repeats_both_steps` hold for it: 2 changes < 5 rounds, record 0001h always there -/
example : nch script < 5 ∧ nch script = 2 := by decide

/-- "first record" while another party removes the oldest record during the read: the read is
repeated and the record returned is the one deleted (B), not the one whose first bytes were
already in hand (A) -/
example : (getAndClear selCfg VI respond 5
    ⟨{ demoDev with log := [recA, recB], evs := List.replicate 15 none ++ [some .delFirst] }, []⟩ 0).out
    = .ok recB := by decide
example : (getAndClear selCfg VI respond 5
    ⟨{ demoDev with log := [recA, recB], evs := List.replicate 15 none ++ [some .delFirst] }, []⟩ 0).w.dev.deleted
    = [(recB, 2)] := by decide

/-- a record that is not there: the device's CBh is raised, nothing deleted -/
example : (getAndClear selCfg VI respond 5 ⟨demoDev, []⟩ 0x7777).out = .ccError 0xCB := by decide

/-- five cancellations in a row exhaust the default budget: RetryError, nothing deleted, 10 requests -/
example : (getAndClear selCfg VI respond 5 ⟨cancelling 5 demoDev, []⟩ 1).out = .retryError ∧
    (getAndClear selCfg VI respond 5 ⟨cancelling 5 demoDev, []⟩ 1).w.dev.deleted = [] := by decide

end PyIpmi.Props.C12
