/-
  C05 — LAN datagrams are well-formed and authenticated over exactly what they carry.

  Model: `PyIpmi.RmcpWire` (mirrors `RmcpMsg` / `IpmiMsg` / `AsfMsg` / `Rmcp._send_ipmi_msg` /
  `_receive_ipmi_msg`, formats and constants generated from the source).
  Spec:  `PyIpmi.Spec.Lan` (parser of the IPMI v1.5 packet figure, AuthCode definition, ASF).
  `md5` is any digest function with 16-byte output (hypothesis `hmd5`); the theorems are about
  WHAT is hashed.  All statements hold for every payload length ≤ 255, every 32-bit session id
  and sequence number, every password of at most 16 bytes, every RMCP sequence byte.

  sent
  * `pack_wellformed`        the datagram of `_send_ipmi_msg` parses (specification parser) to
                             version 6, class IPMI, the session's authentication type, the sequence
                             number AFTER the increment done inside `pack`, the session id (both
                             little-endian), the authentication code the specification demands for
                             exactly those header values, length byte = payload length, payload unchanged
  * `pack_wellformed_nosession`  same without a session object: type none, id 0, sequence 0
  * `seq_after_pack`         the number carried is `nextSeq` of the stored one iff the session is activated
  * `auth_password`          code = password zero-padded to 16
  * `auth_md5`               code = MD5(pw16 ‖ sid ‖ payload ‖ seq ‖ pw16) over the SAME sid / seq that
                             the parser finds in the header of that datagram
  * `sent_ok`                the run-time oracle `Spec.Lan.sentOk` accepts every model datagram
  * `unsupported_auth`       any other authentication type: NotSupportedError, nothing sent
  received
  * `receive_refines_spec`   for EVERY datagram (any bytes, any length) and both settings of the
                             length quirk: the specification accepts with payload p ⇒ the code
                             delivers exactly p; the specification rejects ⇒ the code raises
  * `unpack_rejects`         wrong RMCP version, wrong class, or length byte ≠ actual length
                             (check not disabled) ⇒ never accepted
  * `unpack_ignore_len`      check disabled ⇒ everything after the header is the payload
  * `unpack_pack`            receiving what was sent gives back the payload
  * `receive_empty_payload_asShipped_counterexample`   as shipped, a valid datagram with an empty
                             payload is NOT unwrapped (TypeError from the debug line) although the
                             specification accepts it
  * `receive_empty_payload_intended`   the intended variant hands on the empty payload (None)
  ASF
  * `asf_ping_format`        `ping()` sends exactly the ASF presence ping of the figure
  * `parsePong_iff`          the oracle `Spec.Lan.parsePong` answers `some p` exactly on the datagram of a
                             well-formed pong `p` (Spec.Lan.Pong / WellFormed / pongDatagram are written from
                             ASF 2.0 §3.2.4.3 and IPMI v2.0 table 13-6)
  * `wellformed_pong_accepted`   EVERY well-formed pong - any tag, OEM number, supported-entities and
                             supported-interactions byte - is accepted by the intended
                             `_receive_asf_msg(AsfPong)` and unwrapped to exactly its fields
  * `pong_interactions_asShipped_counterexample`   as shipped, the pong of a BMC that advertises the RMCP
                             security extensions (interactions 80h) is refused with DecodingError
  * `wellformed_pong_asShipped_iff`   as shipped a well-formed pong is accepted iff that byte is 0
  * `receivePongV_variants_agree`     the two variants differ on nothing else
  * `ping_pong_exchange`     `ping()` as a whole: figure ping out, any well-formed pong echoing its tag in
  * `pong_accepts_iff`       exactly which datagrams `_receive_asf_msg(AsfPong)` accepts (either variant),
                             and the attributes of the object
  * `pong_rejects_non_pong`  anything that has not the presence-pong format is rejected (either variant)
  * `pong_spec_accepted`     the byte-list form used by the reference BMC of C06, any interactions byte
  * `pong_pack_wellformed`   `AsfPong.pack()` (intended, fixes/C05-3.diff) of ANY well-formed content - every tag, OEM
                             number, entities and interactions byte - is, behind the RMCP header, exactly the
                             datagram of ASF 2.0 3.2.4.3 (`Spec.Lan.pongDatagram`)
  * `pong_pack_parsed_and_accepted`   ... so the specification's parser reads exactly that pong from it and the
                             library's own `_receive_asf_msg(AsfPong)` accepts it with exactly those fields
  * `pong_pack_asShipped_counterexample`   as shipped a fresh `AsfPong().pack()` is the 16 data bytes without the
                             ASF header: not a presence pong, refused by the library's own unpack
  * `pong_pack_asShipped_never_pong`   as shipped NO attribute values give a presence pong (16 bytes, always)
  * `pong_pack_variants`     the variants build the same data block, intended = 8-byte ASF header ++ that
  tie
  * `gen_unpack_layout_known`   the slices / indices `IpmiMsg.unpack` uses today are the ones the
                             hand-written `ipmiUnpack` mirrors
-/
import PyIpmi.Lemmas.RmcpWire
import PyIpmi.Model.Md5
import PyIpmi.Model.PongPack
namespace PyIpmi.Props.C05
open PyIpmi PyIpmi.RmcpWire PyIpmi.Gen.RmcpFormats PyIpmi.Spec.Lan

/-- sequence number a datagram of session `s` carries -/
def carriedSeq (s : Sess) : Nat := if s.activated then incSeq s.seq else s.seq

theorem incSeq_lt (n : Nat) : incSeq n < 4294967296 := by
  unfold incSeq; split <;> omega

theorem carriedSeq_lt (s : Sess) (h : s.seq < 4294967296) : carriedSeq s < 4294967296 := by
  unfold carriedSeq; split
  · exact incSeq_lt _
  · exact h

theorem seq_after_pack (s : Sess) (h : s.seq < 4294967296) :
    carriedSeq s = if s.activated then nextSeq s.seq else s.seq := by
  unfold carriedSeq incSeq nextSeq
  cases s.activated <;> simp
  split <;> split <;> omega

theorem ipmiPack_some (md5 : List Nat → List Nat) (s : Sess) (sdu : List Nat) :
    ipmiPack md5 (some s) sdu = ipmiPackCore md5 s.auth s.sid (carriedSeq s) s.pw sdu := by
  obtain ⟨auth, sid, seq, act, pw⟩ := s
  cases act <;> simp [ipmiPack, sessAfterPack, carriedSeq]

theorem pack_wellformed (md5 : List Nat → List Nat) (hmd5 : ∀ x, (md5 x).length = 16)
    (s : Sess) (sdu : List Nat) (rs : Nat)
    (hauth : s.auth = 0 ∨ s.auth = 4 ∨ s.auth = 2) (hsid : s.sid < 4294967296)
    (hseq : s.seq < 4294967296) (hpw : s.pw.length ≤ 16) (hlen : sdu.length ≤ 255) (hrs : rs < 256) :
    ∃ d code, sendIpmi md5 rs (some s) sdu = .ok d ∧
      expectedCode md5 s.auth s.pw s.sid (carriedSeq s) sdu = some code ∧
      parseLan d = some { ver := 6, rsvd := 0, rmcpSeq := rs, cls := 7, auth := s.auth,
                          seq := carriedSeq s, sid := s.sid, code := code,
                          len := sdu.length, payload := sdu } := by
  have hcs := carriedSeq_lt s hseq
  obtain ⟨code, h1, h2⟩ := ipmiPackCore_ok md5 s.auth s.sid (carriedSeq s) s.pw sdu hauth hsid hcs hpw hlen
  have hpack := ipmiPack_some md5 s sdu
  refine ⟨[6, 0, rs, classIpmi] ++ ([s.auth] ++ leBytes 4 (carriedSeq s) ++ leBytes 4 s.sid ++ codeBytes code ++
    [sdu.length] ++ sdu), code, ?_, h1, ?_⟩
  · simp only [sendIpmi, hpack, h2, Outcome.bind_eq, Outcome.bind_ok]
    exact rmcpPack_ok classIpmi rs _ (by decide) hrs
  · have hc0 : s.auth = 0 ↔ code = none := by
      rcases hauth with h | h | h <;> rw [h] at h1 <;>
        simp [expectedCode, Spec.Lan.authNone, Spec.Lan.authPassword, Spec.Lan.authMd5] at h1 <;>
        subst h1 <;> simp [h]
    have hc : ∀ c, code = some c → c.length = 16 := by
      intro c hcode
      subst hcode
      rcases hauth with h | h | h <;> rw [h] at h1 <;>
        simp [expectedCode, Spec.Lan.authNone, Spec.Lan.authPassword, Spec.Lan.authMd5] at h1
      · subst h1; exact pad16_length _ hpw
      · subst h1; exact hmd5 _
    have := parseLan_packet 6 0 rs 7 s.auth (carriedSeq s) s.sid sdu.length code sdu hsid hcs hc0 hc
    simpa [classIpmi] using this

theorem pack_wellformed_nosession (md5 : List Nat → List Nat) (sdu : List Nat) (rs : Nat)
    (hlen : sdu.length ≤ 255) (hrs : rs < 256) :
    ∃ d, sendIpmi md5 rs none sdu = .ok d ∧
      parseLan d = some { ver := 6, rsvd := 0, rmcpSeq := rs, cls := 7, auth := 0, seq := 0, sid := 0,
                          code := none, len := sdu.length, payload := sdu } := by
  obtain ⟨code, h1, h2⟩ := ipmiPackCore_ok md5 0 0 0 [] sdu (Or.inl rfl) (by decide) (by decide) (by decide) hlen
  have hcode : code = none := by
    simp [expectedCode, Spec.Lan.authNone] at h1; exact h1.symm
  subst hcode
  refine ⟨[6, 0, rs, classIpmi] ++ ([0] ++ leBytes 4 0 ++ leBytes 4 0 ++ codeBytes none ++ [sdu.length] ++ sdu), ?_, ?_⟩
  · simp only [sendIpmi, ipmiPack, sessAfterPack, Gen.RmcpFormats.authNone, h2, Outcome.bind_eq, Outcome.bind_ok]
    exact rmcpPack_ok classIpmi rs _ (by decide) hrs
  · have := parseLan_packet 6 0 rs 7 0 0 0 sdu.length none sdu (by decide) (by decide) (by simp) (by simp)
    simpa [classIpmi] using this

/-- password authentication: the code is the zero-padded password -/
theorem auth_password (md5 : List Nat → List Nat) (hmd5 : ∀ x, (md5 x).length = 16)
    (s : Sess) (sdu : List Nat) (rs : Nat) (hauth : s.auth = 4) (hsid : s.sid < 4294967296)
    (hseq : s.seq < 4294967296) (hpw : s.pw.length ≤ 16) (hlen : sdu.length ≤ 255) (hrs : rs < 256) :
    ∃ d p, sendIpmi md5 rs (some s) sdu = .ok d ∧ parseLan d = some p ∧
      p.code = some (s.pw ++ List.replicate (16 - s.pw.length) 0) := by
  obtain ⟨d, code, h1, h2, h3⟩ := pack_wellformed md5 hmd5 s sdu rs (Or.inr (Or.inl hauth)) hsid hseq hpw hlen hrs
  refine ⟨d, _, h1, h3, ?_⟩
  rw [hauth] at h2
  simp [expectedCode, Spec.Lan.authNone, Spec.Lan.authPassword, pad16] at h2
  exact h2.symm

/-- MD5 authentication: the code is the digest of password, session id, payload, sequence
number, password — with the session id and sequence number that THE SAME datagram carries in
its header (`p.sid`, `p.seq`), the latter being the number after the increment. -/
theorem auth_md5 (md5 : List Nat → List Nat) (hmd5 : ∀ x, (md5 x).length = 16)
    (s : Sess) (sdu : List Nat) (rs : Nat) (hauth : s.auth = 2) (hsid : s.sid < 4294967296)
    (hseq : s.seq < 4294967296) (hpw : s.pw.length ≤ 16) (hlen : sdu.length ≤ 255) (hrs : rs < 256) :
    ∃ d p, sendIpmi md5 rs (some s) sdu = .ok d ∧ parseLan d = some p ∧
      p.seq = carriedSeq s ∧ p.sid = s.sid ∧ p.payload = sdu ∧
      p.code = some (md5 (pad16 s.pw ++ leBytes 4 p.sid ++ p.payload ++ leBytes 4 p.seq ++ pad16 s.pw)) := by
  obtain ⟨d, code, h1, h2, h3⟩ := pack_wellformed md5 hmd5 s sdu rs (Or.inr (Or.inr hauth)) hsid hseq hpw hlen hrs
  refine ⟨d, _, h1, h3, rfl, rfl, rfl, ?_⟩
  rw [hauth] at h2
  simp [expectedCode, Spec.Lan.authNone, Spec.Lan.authPassword, Spec.Lan.authMd5, md5Preimage] at h2
  simp [← h2]

/-- the run-time oracle accepts every datagram the model sends -/
theorem sent_ok (md5 : List Nat → List Nat) (hmd5 : ∀ x, (md5 x).length = 16)
    (s : Sess) (sdu : List Nat) (rs : Nat)
    (hauth : s.auth = 0 ∨ s.auth = 4 ∨ s.auth = 2) (hsid : s.sid < 4294967296)
    (hseq : s.seq < 4294967296) (hpw : s.pw.length ≤ 16) (hlen : sdu.length ≤ 255) (hrs : rs < 256) :
    ∃ d, sendIpmi md5 rs (some s) sdu = .ok d ∧
      sentOk md5 s.auth s.pw s.sid (carriedSeq s) sdu d = true := by
  obtain ⟨d, code, h1, h2, h3⟩ := pack_wellformed md5 hmd5 s sdu rs hauth hsid hseq hpw hlen hrs
  exact ⟨d, h1, by simp [sentOk, h3, expectedPacket, h2]⟩

/-- authentication types `IpmiMsg.pack` does not implement: NotSupportedError, nothing is sent -/
theorem unsupported_auth (md5 : List Nat → List Nat) (s : Sess) (sdu : List Nat) (rs : Nat)
    (hauth : s.auth ≠ 0 ∧ s.auth ≠ 4 ∧ s.auth ≠ 2) (ha : s.auth < 256) (hsid : s.sid < 4294967296)
    (hseq : s.seq < 4294967296) :
    sendIpmi md5 rs (some s) sdu = .notSupported := by
  have hcs := carriedSeq_lt s hseq
  have hpack := ipmiPack_some md5 s sdu
  have hh := header_eq s.auth s.sid (carriedSeq s) s.pw sdu ha hsid hcs
  simp only [Outcome.bind_eq] at hh
  obtain ⟨vs, hvs, hsp⟩ := bind_ok_inv hh
  have hc : authCode md5 s.auth s.sid (carriedSeq s) s.pw sdu = .notSupported := by
    simp [authCode, packAuth, lookupCode, hauth.1, hauth.2.1, hauth.2.2,
      Ne.symm hauth.1, Ne.symm hauth.2.1, Ne.symm hauth.2.2]
  simp [sendIpmi, hpack, ipmiPackCore, hvs, hsp, hc, Outcome.bind]

/-! ### received datagrams -/

/-- For every datagram: what the specification accepts is delivered exactly (`delivered`: the
payload, an empty one being Python's `None`, which the shipped code turns into TypeError); what
the specification rejects makes the code raise. -/
theorem receive_refines_spec (v : EmptyRx) (ignore : Bool) (d : List Nat) :
    match Spec.Lan.receive ignore d with
    | some p => receiveIpmi v ignore d = delivered v p
    | none => ∀ x, receiveIpmi v ignore d ≠ .ok x :=
  receive_spec v ignore d

theorem unpack_rejects (v : EmptyRx) (ignore : Bool) (d : List Nat) (p : LanPacket)
    (hp : parseLan d = some p)
    (hbad : p.ver ≠ 6 ∨ p.cls ≠ 7 ∨ (ignore = false ∧ p.len ≠ p.payload.length)) :
    ∀ x, receiveIpmi v ignore d ≠ .ok x := by
  have h := receive_spec v ignore d
  have hn : Spec.Lan.receive ignore d = none := by
    simp only [Spec.Lan.receive, hp]
    rcases hbad with h1 | h1 | ⟨h1, h2⟩
    · simp [h1]
    · by_cases h0 : p.ver = 6 <;> simp [h0, h1]
    · by_cases h0 : p.ver = 6 <;> by_cases h3 : p.cls = 7 <;> simp [h0, h3, h1, h2]
  rw [hn] at h
  exact h

theorem unpack_ignore_len (v : EmptyRx) (d : List Nat) (p : LanPacket) (hp : parseLan d = some p)
    (hver : p.ver = 6) (hcls : p.cls = 7) (hne : p.payload ≠ []) :
    receiveIpmi v true d = .ok (some p.payload) := by
  have h := receive_spec v true d
  simp [Spec.Lan.receive, hp, hver, hcls] at h
  simp [h, delivered, hne]

/-- what was sent is received back as exactly the payload -/
theorem unpack_pack (md5 : List Nat → List Nat) (hmd5 : ∀ x, (md5 x).length = 16)
    (v : EmptyRx) (ignore : Bool) (s : Sess) (sdu : List Nat) (rs : Nat)
    (hauth : s.auth = 0 ∨ s.auth = 4 ∨ s.auth = 2) (hsid : s.sid < 4294967296)
    (hseq : s.seq < 4294967296) (hpw : s.pw.length ≤ 16) (hlen : sdu.length ≤ 255) (hrs : rs < 256)
    (hne : sdu ≠ []) :
    ∃ d, sendIpmi md5 rs (some s) sdu = .ok d ∧ receiveIpmi v ignore d = .ok (some sdu) := by
  obtain ⟨d, code, h1, _, h3⟩ := pack_wellformed md5 hmd5 s sdu rs hauth hsid hseq hpw hlen hrs
  refine ⟨d, h1, ?_⟩
  have h := receive_spec v ignore d
  simp [Spec.Lan.receive, h3] at h
  simp [h, delivered, hne]

/-- the datagram `06 00 ff 07 | 00 | 00000000 | 00000000 | 00`: a session header without payload -/
def emptyPayloadDatagram : List Nat := [6, 0, 0xff, 7, 0, 0, 0, 0, 0, 0, 0, 0, 0, 0]

theorem receive_empty_payload_asShipped_counterexample :
    Spec.Lan.receive false emptyPayloadDatagram = some [] ∧
    receiveIpmi .asShipped false emptyPayloadDatagram = .pyError "TypeError" := by
  constructor
  · decide
  · have h := receive_spec .asShipped false emptyPayloadDatagram
    have hs : Spec.Lan.receive false emptyPayloadDatagram = some [] := by decide
    rw [hs] at h
    simpa [delivered] using h

theorem receive_empty_payload_intended (ignore : Bool) (d : List Nat)
    (h : Spec.Lan.receive ignore d = some []) : receiveIpmi .intended ignore d = .ok none := by
  have h' := receive_spec .intended ignore d
  rw [h] at h'
  simpa [delivered] using h'

/-! ### ASF -/

theorem asf_ping_format (rs : Nat) (h : rs < 256) :
    pingDatagram rs = .ok [6, 0, rs, 6, 0, 0, 0x11, 0xbe, 0x80, 0, 0, 0] := by
  simpa [pingBytes] using pingDatagram_eq rs h

/-- Exactly which datagrams `_receive_asf_msg(AsfPong)` accepts (either variant of `check_data`), and
what the `AsfPong` object then holds. -/
theorem pong_accepts_iff (v : PongCheck) (d : List Nat) (f : PongFields) :
    receivePongV v d = .ok f ↔
      ∃ p, parseAsf d = some p ∧ p.ver = 6 ∧ p.cls = 6 ∧ p.type = 0x40 ∧ p.dlen = 16 ∧
        p.data.length = 16 ∧ pongContentOk v p.data ∧
        f = ⟨p.iana, p.type, p.tag, beVal (p.data.take 4), beVal ((p.data.drop 4).take 4),
              (p.data.drop 8).headD 0, (p.data.drop 9).headD 0⟩ := by
  rcases d with _ | ⟨a0, _ | ⟨a1, _ | ⟨a2, _ | ⟨a3, sdu⟩⟩⟩⟩
  case cons.cons.cons.cons =>
    rw [receivePongV_cons]
    rcases sdu with _ | ⟨n3, _ | ⟨n2, _ | ⟨n1, _ | ⟨n0, _ | ⟨ty, _ | ⟨tag, _ | ⟨r, _ | ⟨dl, data⟩⟩⟩⟩⟩⟩⟩⟩
    case cons.cons.cons.cons.cons.cons.cons.cons =>
      have hi : beVal [n3, n2, n1, n0] = u32le n0 n1 n2 n3 := by
        simp [beVal, leVal, u32le]; omega
      by_cases h0 : a0 = 6 <;> by_cases h3 : a3 = 6 <;>
        simp [h0, h3, pongUnpackV_cons, parseAsf, pongFieldsOf, hi]
    all_goals
      (by_cases h0 : a0 = 6 <;> by_cases h3 : a3 = 6 <;>
        simp [h0, h3, parseAsf, pongUnpackV_short])
  all_goals (simp [parseAsf, receivePongV, rmcpUnpack_short, Outcome.bind])

theorem pong_rejects_non_pong (v : PongCheck) (d : List Nat) (h : isPongFormat d = false) (f : PongFields) :
    receivePongV v d ≠ .ok f := by
  intro hok
  obtain ⟨p, hp, h1, h2, h3, h4, h5, _⟩ := (pong_accepts_iff v d f).mp hok
  simp [isPongFormat, hp, h1, h2, h3, h4, h5] at h

/-- the oracle `parsePong` says `some p` exactly for the datagram of a well-formed pong `p` -/
theorem parsePong_iff (d : List Nat) (p : Pong) :
    parsePong d = some p ↔ p.WellFormed ∧ d = pongDatagram p := by
  constructor
  · intro h
    unfold parsePong at h
    split at h
    · dsimp only at h
      split at h
      · rename_i hw
        cases h
        exact hw
      · cases h
    · cases h
  · rintro ⟨hw, rfl⟩
    obtain ⟨tag, oi, od, en, ia⟩ := p
    obtain ⟨h1, h2, h3, h4, h5, h6⟩ := hw
    simp only at h1 h2 h3 h4 h5 h6
    have e1 := u32le_be32 oi h2
    have e2 := u32le_be32 od h3
    simp only [parsePong, pongDatagram, be32, List.cons_append, List.nil_append, e1, e2]
    simpa [Pong.WellFormed, h1, h2, h3, h4, h5] using h6

/-- THE CLAUSE "presence pong messages follow the ASF format", receiving side: every well-formed
pong - any message tag, any OEM number with its OEM-defined field, EVERY value of the Supported
Entities and Supported Interactions bytes - is accepted by the intended `_receive_asf_msg(AsfPong)`
and unwrapped to exactly its fields. -/
theorem wellformed_pong_accepted (p : Pong) (hw : p.WellFormed) :
    receivePongV .intended (pongDatagram p) =
      .ok ⟨4542, 0x40, p.tag, p.oemIana, p.oemDefined, p.entities, p.interactions⟩ := by
  obtain ⟨_, h2, h3, _, _, h6⟩ := hw
  obtain ⟨f1, f2, f3, f4, f5⟩ := pongData16_fields p h2 h3
  rw [pong_accepts_iff]
  refine ⟨_, parseAsf_pongDatagram p, rfl, rfl, rfl, rfl, f1, ⟨?_, fun h => by cases h⟩, ?_⟩
  · rw [f2, f3]
    exact fun ⟨ha, hb⟩ => hb (h6 ha)
  · simp only [f2, f3, f4, f5]

/-- What the shipped `check_data` does with the same pongs: it accepts a well-formed pong if and only
if its Supported Interactions byte is 0 - 255 of the 256 values are refused. -/
theorem wellformed_pong_asShipped_iff (p : Pong) (hw : p.WellFormed) :
    (∃ f, receivePongV .asShipped (pongDatagram p) = .ok f) ↔ p.interactions = 0 := by
  obtain ⟨_, h2, h3, _, _, h6⟩ := hw
  obtain ⟨f1, f2, f3, f4, f5⟩ := pongData16_fields p h2 h3
  constructor
  · rintro ⟨f, hf⟩
    obtain ⟨q, hq, _, _, _, _, _, hc, _⟩ := (pong_accepts_iff _ _ f).mp hf
    rw [parseAsf_pongDatagram] at hq
    cases hq
    have := hc.2 rfl
    rwa [f5] at this
  · intro hia
    refine ⟨_, (pong_accepts_iff _ _ _).mpr ⟨_, parseAsf_pongDatagram p, rfl, rfl, rfl, rfl, f1, ⟨?_, fun _ => ?_⟩, rfl⟩⟩
    · rw [f2, f3]
      exact fun ⟨ha, hb⟩ => hb (h6 ha)
    · rw [f5]; exact hia

/-- the pong of a BMC that supports IPMI, ASF 1.0 and the RMCP security extensions of ASF 2.0 -/
def secExtPong : Pong := ⟨0, 4542, 0, 0x81, 0x80⟩

/-- AS SHIPPED the clause fails: this well-formed pong - the answer to `ping()`'s own ping, tag 0 - is
refused with DecodingError, so `establish_session`, which starts with `ping()`, cannot log into such
a BMC.  (`06 00 ff 06 | 00 00 11 be 40 00 00 10 | 00 00 11 be 00 00 00 00 81 80 00 00 00 00 00 00`) -/
theorem pong_interactions_asShipped_counterexample :
    secExtPong.WellFormed ∧ parsePong (pongDatagram secExtPong) = some secExtPong ∧
    receivePongV .asShipped (pongDatagram secExtPong) = .decodingError ∧
    receivePongV .intended (pongDatagram secExtPong) = .ok ⟨4542, 0x40, 0, 4542, 0, 0x81, 0x80⟩ := by
  decide

/-- the two variants differ on nothing else: a datagram whose byte 21 (Supported Interactions) is 0 or
absent is treated alike -/
theorem receivePongV_variants_agree (d : List Nat) (h : (d.drop 21).headD 0 = 0) :
    receivePongV .asShipped d = receivePongV .intended d := by
  rcases d with _ | ⟨a0, _ | ⟨a1, _ | ⟨a2, _ | ⟨a3, sdu⟩⟩⟩⟩
  case cons.cons.cons.cons =>
    rw [receivePongV_cons, receivePongV_cons]
    rcases sdu with _ | ⟨n3, _ | ⟨n2, _ | ⟨n1, _ | ⟨n0, _ | ⟨ty, _ | ⟨tag, _ | ⟨r, _ | ⟨dl, data⟩⟩⟩⟩⟩⟩⟩⟩
    case cons.cons.cons.cons.cons.cons.cons.cons =>
      rw [pongUnpackV_agree _ _ _ _ _ _ _ _ _ (by simpa using h)]
    all_goals simp [pongUnpackV_short]
  all_goals (simp [receivePongV, rmcpUnpack_short, Outcome.bind])

/-- `Rmcp.ping()` as a whole, intended: the ping of the figure goes out and whatever well-formed
pong echoes its tag is accepted -/
theorem ping_pong_exchange (rs : Nat) (hrs : rs < 256) (p : Pong) (hw : p.WellFormed) (ht : p.tag = 0) :
    pingDatagram rs = .ok (pingBytes rs p.tag) ∧ receivePong (pongDatagram p) = .ok () := by
  refine ⟨by rw [ht]; exact pingDatagram_eq rs hrs, ?_⟩
  rw [receivePong_ok_iff]
  exact ⟨_, wellformed_pong_accepted p hw⟩

/-- the older form, on the byte lists the reference BMC of C06 uses: any interactions byte -/
theorem pong_spec_accepted (tag i3 i2 i1 i0 o3 o2 o1 o0 entities interactions : Nat)
    (hoem : ¬ (beVal [i3, i2, i1, i0] = 4542 ∧ beVal [o3, o2, o1, o0] ≠ 0)) :
    receivePong (pongBytes tag [i3, i2, i1, i0] [o3, o2, o1, o0] entities interactions) = .ok () := by
  rw [receivePong_ok_iff]
  refine ⟨_, (pong_accepts_iff _ _ _).mpr ⟨_, rfl, rfl, rfl, rfl, rfl, rfl, ?_, rfl⟩⟩
  exact ⟨by simpa using hoem, fun h => by cases h⟩

/-! ### the pong the library BUILDS (`AsfPong.pack`, sent by pyipmi/emulation.py) -/

/-- the RMCP header in front of an ASF message (version 6, reserved, sequence FFh = no ACK, class ASF) -/
def rmcpAsfHeader : List Nat := [6, 0, 0xff, 6]

/-- `AsfPong.pack` (intended) of any well-formed content is, behind the RMCP header, byte for byte the datagram of
ASF 2.0 3.2.4.3: header 4542 / 40h / tag / 00h / 10h, then the 16 data bytes. -/
theorem pong_pack_wellformed (p : Pong) (hw : p.WellFormed) :
    ∃ sdu, pongPackV .intended p.tag p.oemIana p.oemDefined p.entities p.interactions = .ok sdu ∧
      rmcpAsfHeader ++ sdu = pongDatagram p := by
  obtain ⟨h1, h2, h3, h4, h5, _⟩ := hw
  simp [pongPackV, asfPack, structPack, pongData, asfHeader, packItems, intBytes, h1, h2, h3, h4, h5, beBytes,
    leBytes, Outcome.bind, pongDatagram, be32, rmcpAsfHeader, Gen.RmcpFormats.asfIana, Spec.Lan.asfIana, asfPong,
    Nat.div_div_eq_div_mul]

/-- As shipped: a fresh `AsfPong().pack()` is the 16 data bytes alone; behind the RMCP header that is not a presence pong
for the specification's parser, and the library's own `_receive_asf_msg(AsfPong)` refuses it ('SDU has extra bytes':
the first data bytes are read as a header announcing 0 data bytes). -/
theorem pong_pack_asShipped_counterexample :
    pongPackV .asShipped 0 4542 0 0 0 = .ok [0, 0, 0x11, 0xbe, 0, 0, 0, 0, 0, 0, 0, 0, 0, 0, 0, 0] ∧
    parsePong (rmcpAsfHeader ++ [0, 0, 0x11, 0xbe, 0, 0, 0, 0, 0, 0, 0, 0, 0, 0, 0, 0]) = none ∧
    isPongFormat (rmcpAsfHeader ++ [0, 0, 0x11, 0xbe, 0, 0, 0, 0, 0, 0, 0, 0, 0, 0, 0, 0]) = false ∧
    receivePongV .intended (rmcpAsfHeader ++ [0, 0, 0x11, 0xbe, 0, 0, 0, 0, 0, 0, 0, 0, 0, 0, 0, 0]) = .decodingError := by
  refine ⟨by decide, by decide, by decide, by decide⟩

/-- The pong the (intended) library builds from any well-formed content is read by the specification's parser as
exactly that pong, and the library's own receive path accepts it with exactly those fields. -/
theorem pong_pack_parsed_and_accepted (p : Pong) (hw : p.WellFormed) :
    ∃ sdu, pongPackV .intended p.tag p.oemIana p.oemDefined p.entities p.interactions = .ok sdu ∧
      parsePong (rmcpAsfHeader ++ sdu) = some p ∧ isPongFormat (rmcpAsfHeader ++ sdu) = true ∧
      receivePongV .intended (rmcpAsfHeader ++ sdu) =
        .ok ⟨4542, 0x40, p.tag, p.oemIana, p.oemDefined, p.entities, p.interactions⟩ := by
  obtain ⟨sdu, h, e⟩ := pong_pack_wellformed p hw
  refine ⟨sdu, h, ?_, ?_, ?_⟩
  · rw [e]; exact (parsePong_iff _ _).mpr ⟨hw, rfl⟩
  · rw [e]
    have := wellformed_pong_accepted p hw
    cases hf : isPongFormat (pongDatagram p)
    · exact absurd this (pong_rejects_non_pong _ _ hf _)
    · rfl
  · rw [e]; exact wellformed_pong_accepted p hw

/-- As shipped NO content helps: whatever the attributes are, what `pack` returns is 16 bytes, and no 20-byte
datagram has the format of a presence pong. -/
theorem pong_pack_asShipped_never_pong (tag oi od en ia : Nat) (sdu : List Nat)
    (h : pongPackV .asShipped tag oi od en ia = .ok sdu) :
    sdu.length = 16 ∧ isPongFormat (rmcpAsfHeader ++ sdu) = false ∧ parsePong (rmcpAsfHeader ++ sdu) = none := by
  by_cases h2 : oi < 4294967296 <;> by_cases h3 : od < 4294967296 <;> by_cases h4 : en < 256 <;>
    by_cases h5 : ia < 256 <;>
    simp [pongPackV, structPack, pongData, packItems, intBytes, h2, h3, h4, h5, beBytes, leBytes, Outcome.bind] at h
  subst h
  simp [rmcpAsfHeader, isPongFormat, parseAsf, parsePong]

/-- the two variants build the same data block; the intended one puts the ASF header in front -/
theorem pong_pack_variants (tag oi od en ia : Nat) (data : List Nat) (ht : tag < 256)
    (h : pongPackV .asShipped tag oi od en ia = .ok data) :
    pongPackV .intended tag oi od en ia = .ok ([0, 0, 0x11, 0xbe, 0x40, tag, 0, 16] ++ data) := by
  have hl := (pong_pack_asShipped_never_pong tag oi od en ia data h).1
  simp only [pongPackV] at h ⊢
  cases hs : structPack pongData [.int oi, .int od, .int en, .int ia] <;> simp [hs, Outcome.bind] at h ⊢
  subst h
  simp [asfPack, structPack, asfHeader, packItems, intBytes, ht, hl, beBytes, leBytes, Outcome.bind,
    Gen.RmcpFormats.asfIana, asfPong]

/-- non-vacuity: a pong with an OEM block, IPMI + ASF 1.0, security extensions, tag FFh -/
example : (⟨0xff, 343, 0xdeadbeef, 0x81, 0x80⟩ : Pong).WellFormed ∧
    pongPackV .intended 0xff 343 0xdeadbeef 0x81 0x80 =
      .ok [0, 0, 0x11, 0xbe, 0x40, 0xff, 0, 0x10, 0, 0, 1, 0x57, 0xde, 0xad, 0xbe, 0xef, 0x81, 0x80, 0, 0, 0, 0, 0, 0] := by
  refine ⟨by decide, by decide⟩

/-! ### tie to the generated tables -/

/-- `IpmiMsg.unpack` reads the authenticated header through these slices / indices today; the
hand-written `ipmiUnpack` (length tests 25 / 26, length byte at 25) mirrors exactly these. -/
theorem gen_unpack_layout_known :
    unpackSlices = [(1, 5, ⟨true, [.u32]⟩), (5, 9, ⟨true, [.u32]⟩),
      (9, 25, ⟨true, [.u8, .u8, .u8, .u8, .u8, .u8, .u8, .u8, .u8, .u8, .u8, .u8, .u8, .u8, .u8, .u8]⟩)] ∧
    unpackIdx = [0, 0, 25] ∧ calcsize hdrAuth = 26 ∧ calcsize hdrNoAuth = 10 := by
  decide

/-! ### non-vacuity: the hypotheses are satisfiable and the functions compute -/

example : (PyIpmi.Md5.md5 [1, 2, 3]).length = 16 := PyIpmi.Md5.md5_length _

/-- an activated MD5 session at the wrap boundary -/
def demoSess : Sess := ⟨2, 0x02f99b85, 0xffffffff, true, [0x61, 0x64, 0x6d, 0x69, 0x6e]⟩

example : carriedSeq demoSess = 1 := by decide
example : sendIpmi (fun _ => List.replicate 16 7) 255 (some demoSess) [0x20, 0x18, 0xc8] =
    .ok ([6, 0, 255, 7, 2, 1, 0, 0, 0, 0x85, 0x9b, 0xf9, 0x02] ++ List.replicate 16 7 ++ [3, 0x20, 0x18, 0xc8]) := by
  decide
example : receiveIpmi .asShipped false [6, 0, 255, 7, 0, 1, 0, 0, 0, 2, 0, 0, 0, 2, 0xaa, 0xbb] =
    .ok (some [0xaa, 0xbb]) := by decide
example : receiveIpmi .asShipped false [6, 0, 255, 7, 0, 1, 0, 0, 0, 2, 0, 0, 0, 3, 0xaa, 0xbb] =
    .decodingError := by decide
example : receiveIpmi .asShipped true [6, 0, 255, 7, 0, 1, 0, 0, 0, 2, 0, 0, 0, 3, 0xaa, 0xbb] =
    .ok (some [0xaa, 0xbb]) := by decide
example : receivePong (pongBytes 0 [0, 0, 0x11, 0xbe] [0, 0, 0, 0] 0x81 0) = .ok () := by decide
example : (⟨7, 343, 0xdeadbeef, 0x01, 0xa0⟩ : Pong).WellFormed := by decide
example : parsePong (pongDatagram ⟨7, 343, 0xdeadbeef, 0x01, 0xa0⟩) = some ⟨7, 343, 0xdeadbeef, 0x01, 0xa0⟩ := by decide
example : parsePong (pongDatagram ⟨0, 4542, 5, 0x81, 0⟩) = none := by decide

end PyIpmi.Props.C05
