/-
  C01 — Message codec is lossless for every defined IPMI message.

  Property theorems only (helper lemmas live in Lemmas/).  `Gen.Registry` is regenerated
  from the live registry of the working tree on every run, so `registry_*` are re-checked
  against what the code says now.

  Reading guide
  * `roundtrip`               ∀ well-formed layout, ∀ Fits assignment: decode ∘ encode = id
  * `registry_wf`             every class of today's registry is constructible and well-formed
  * `registry_roundtrip`      hence the round trip holds for every registered class
  * `encode_declaration_order`, `uint_little_endian`, `bitfield_lsb_first`,
    `bitfield_bytes_little_endian`, `bitfield_members_independent`     the wire format
  * `registry_paired`, `registry_exactly_one_counterpart`, `cmdKey_injective`    request/response pairing
  * `registry_lookup`         what the registry's lookup functions RETURN (by id, by name, by the
                              counterpart's name, create_response_message) is that pairing
  * `nonok_cc_encoded_and_stops`, `registry_cc_placement`, `registry_nonok_cc`     completion codes 1..255
-/
import PyIpmi.Lemmas.Codec
import PyIpmi.Gen.Registry
import PyIpmi.Gen.RegistryLookup
namespace PyIpmi.Props.C01
open PyIpmi PyIpmi.Codec

/-- Encoding any in-range assignment succeeds, decoding the bytes yields the same field
values with nothing left over; re-encoding the decoded values therefore yields the same
bytes (second conjunct restated for the decoded value list). -/
theorem roundtrip (l : Layout) (vs : List Val) (hwf : l.wf = true) (hfit : Fits l vs = true) :
    ∃ bs, encode l vs = .ok bs ∧ Bytes bs ∧
      ∃ vs', decode l bs = .ok vs' ∧ vs' = vs ∧ encode l vs' = .ok bs := by
  obtain ⟨bs, h1, h2, h3⟩ := roundtrip_layout l vs hwf hfit
  exact ⟨bs, h1, h2, vs, h3, rfl, h1⟩

/-- Every registered class can be constructed (`malformed = false`: the translator
instantiated it and its `__fields__` is a tuple of known field kinds) and has a well-formed
layout. -/
def registryOk (all : List MsgSpec) : Bool :=
  all.all fun m => !m.malformed && m.layout.wf

theorem registry_wf : registryOk PyIpmi.Gen.Registry.all = true := by decide +kernel

/-- The round trip for *every class present in the registry of the current tree*. -/
theorem registry_roundtrip (m : MsgSpec) (hm : m ∈ PyIpmi.Gen.Registry.all) (vs : List Val)
    (hfit : Fits m.layout vs = true) :
    ∃ bs, encode m.layout vs = .ok bs ∧ Bytes bs ∧ decode m.layout bs = .ok vs := by
  have h := registry_wf
  unfold registryOk at h
  rw [List.all_eq_true] at h
  have hm' := h m hm
  simp only [Bool.and_eq_true] at hm'
  exact roundtrip_layout m.layout vs hm'.2 hfit

/-! ### wire format -/

/-- Fields appear in declaration order: the encoding is the concatenation, in order, of the
encodings of the individual fields (each depending only on the values of earlier fields). -/
theorem encode_declaration_order_aux (env : List Val) (fs : List Field) (vs : List Val)
    (bs : List Nat) (h : encAux env fs vs = .ok bs) :
    ∃ parts : List (List Nat), parts.length = fs.length ∧ bs = parts.flatten ∧
      ∀ i, i < fs.length → ∃ f v p, fs[i]? = some f ∧ vs[i]? = some v ∧ parts[i]? = some p ∧
        encField (env ++ vs.take i) f v = .ok p := by
  induction fs generalizing env vs bs with
  | nil =>
    simp [encAux] at h
    exact ⟨[], rfl, by simp [h], by intro i hi; simp at hi⟩
  | cons f fs ih =>
    cases vs with
    | nil => simp [encAux] at h
    | cons v vs =>
      simp only [encAux] at h
      cases he : encField env f v with
      | ok e =>
        rw [he] at h
        simp only [Outcome.bind_ok] at h
        cases hes : encAux (env ++ [v]) fs vs with
        | ok es =>
          rw [hes] at h
          simp only [Outcome.bind_ok] at h
          injection h with h
          obtain ⟨parts, hl, hfl, hall⟩ := ih (env ++ [v]) vs es hes
          refine ⟨e :: parts, by simp [hl], by simp [← h, hfl], ?_⟩
          intro i hi
          cases i with
          | zero => exact ⟨f, v, e, rfl, rfl, rfl, by simpa using he⟩
          | succ i =>
            obtain ⟨f', v', p, h1, h2, h3, h4⟩ := hall i (by simpa using hi)
            refine ⟨f', v', p, by simpa using h1, by simpa using h2, by simpa using h3, ?_⟩
            simpa [List.append_assoc] using h4
        | _ => rw [hes] at h; simp [Outcome.bind] at h
      | _ => rw [he] at h; simp [Outcome.bind] at h

theorem encode_declaration_order (l : Layout) (vs : List Val) (bs : List Nat)
    (h : encode l vs = .ok bs) :
    ∃ parts : List (List Nat), parts.length = l.length ∧ bs = parts.flatten ∧
      ∀ i, i < l.length → ∃ f v p, l[i]? = some f ∧ vs[i]? = some v ∧ parts[i]? = some p ∧
        encField (vs.take i) f v = .ok p := by
  simpa using encode_declaration_order_aux [] l vs bs h

/-- Integers are little-endian: byte `i` of an `n`-byte integer field holding `v` is
`v / 256^i mod 256`. -/
theorem uint_little_endian (env : List Val) (n v i : Nat) (hi : i < n) :
    ∃ bs, encPrim env (.uint n) (.int v) = .ok bs ∧ bs.length = n ∧ bs[i]? = some (v / 256 ^ i % 256) := by
  refine ⟨leBytes n v, rfl, leBytes_length n v, ?_⟩
  rw [List.getElem?_eq_getElem (by simpa using hi), leBytes_getElem n v i hi]

/-- start position of member `i` of a bit-field = sum of the widths declared before it -/
def offsetOf (ws : List Nat) (i : Nat) : Nat := (ws.take i).sum

/-- Bit-fields are packed least-significant bit first in declaration order: bit `j` of
member `i` is bit `offsetOf ws i + j` of the packed integer — whatever the neighbours hold. -/
theorem bitfield_lsb_first (ws vs : List Nat) (i j : Nat) (w v : Nat)
    (hw : ws[i]? = some w) (hv : vs[i]? = some v) (hj : j < w) :
    (packBits ws vs).testBit (offsetOf ws i + j) = v.testBit j := by
  induction ws generalizing vs i with
  | nil => simp at hw
  | cons w0 ws ih =>
    cases vs with
    | nil => simp at hv
    | cons v0 vs =>
      have hlt : v0 % 2 ^ w0 < 2 ^ w0 := Nat.mod_lt _ (Nat.two_pow_pos _)
      simp only [packBits]
      rw [Nat.add_comm, Nat.testBit_two_pow_mul_add _ hlt]
      cases i with
      | zero =>
        simp at hw hv
        subst hw hv
        simp [offsetOf, hj]
      | succ i =>
        simp only [List.getElem?_cons_succ] at hw hv
        have hoff : offsetOf (w0 :: ws) (i + 1) = w0 + offsetOf ws i := by
          simp [offsetOf]
        rw [hoff]
        have : ¬ (w0 + offsetOf ws i + j < w0) := by omega
        simp only [this, if_false]
        have hsub : w0 + offsetOf ws i + j - w0 = offsetOf ws i + j := by omega
        rw [hsub]
        exact ih vs i hw hv

/-- … and the packed integer is written as `n` little-endian bytes. -/
theorem bitfield_bytes_little_endian (env : List Val) (n : Nat) (ws vs : List Nat) (k : Nat)
    (hk : k < n) :
    ∃ bs, encPrim env (.bits n ws) (.bits vs) = .ok bs ∧
      bs[k]? = some (packBits ws vs / 256 ^ k % 256) := by
  refine ⟨leBytes n (packBits ws vs), rfl, ?_⟩
  rw [List.getElem?_eq_getElem (by simpa using hk), leBytes_getElem n _ k hk]

/-- Neighbouring members do not disturb each other: every in-range member value is recovered
exactly from the packed integer, for all values of all other members. -/
theorem bitfield_members_independent (ws vs : List Nat) (h : fitsBits ws vs = true) :
    unpackBits ws (packBits ws vs) = vs := unpack_pack ws vs h

/-! ### request / response pairing -/

/-- (netfn/2, cmd, group extension) as one number (group `none` ↦ 0, `some g` ↦ g+1):
the id of a *command*, shared by its request and its response -/
def cmdKey (m : MsgSpec) : Nat :=
  (m.netfn / 2) * 65536 + m.cmd * 256 + (match m.group with | none => 0 | some g => g + 1)

def inRange (m : MsgSpec) : Bool :=
  decide (m.cmd < 256) && (match m.group with | none => true | some g => decide (g < 255))

/-- The registry, listed in id order (the translator sorts it), is a sequence
request, response, request, response, … in which each response has its request's command
and group extension and the request's network function plus one, the command ids strictly
increase from pair to pair, and a class is named `…Req` exactly if its netfn is even.
So every request has exactly one response counterpart and vice versa, and no id is
registered twice. -/
def pairOk (prev : Option Nat) (a b : MsgSpec) : Bool :=
  inRange a && inRange b
  && decide (a.netfn % 2 = 0) && decide (b.netfn = a.netfn + 1)
  && decide (b.cmd = a.cmd) && decide (b.group = a.group)
  && a.isReq && !b.isReq
  && (match prev with | none => true | some k => decide (k < cmdKey a))

def pairedFrom (prev : Option Nat) : List MsgSpec → Bool
  | a :: b :: rest => pairOk prev a b && pairedFrom (some (cmdKey a)) rest
  | [] => true
  | [_] => false

def pairedOk (all : List MsgSpec) : Bool := pairedFrom none all

theorem registry_paired : pairedOk PyIpmi.Gen.Registry.all = true := by decide +kernel

/-- `cmdKey` is injective on the checked range, so strictly increasing keys mean pairwise
different (netfn/2, cmd, group) ids. -/
theorem cmdKey_injective (a b : MsgSpec) (ha : inRange a = true) (hb : inRange b = true)
    (h : cmdKey a = cmdKey b) : a.netfn / 2 = b.netfn / 2 ∧ a.cmd = b.cmd ∧ a.group = b.group := by
  unfold cmdKey at h
  unfold inRange at ha hb
  simp only [Bool.and_eq_true, decide_eq_true_eq] at ha hb
  cases hga : a.group <;> cases hgb : b.group <;> simp only [hga, hgb] at h ha hb
  · exact ⟨by omega, by omega, rfl⟩
  · have := hb.2; simp at this; omega
  · have := ha.2; simp at this; omega
  · have h1 := ha.2; have h2 := hb.2; simp at h1 h2
    refine ⟨by omega, by omega, ?_⟩
    congr 1; omega

/-- request ↦ netfn + 1, response ↦ netfn − 1 -/
def counterpartNetfn (nf : Nat) : Nat := if nf % 2 = 0 then nf + 1 else nf - 1

/-- `r` is registered under `m`'s command and group extension with the counterpart network
function (request ↦ netfn + 1, response ↦ netfn − 1) -/
def isCounterpart (m r : MsgSpec) : Bool :=
  decide (r.netfn = counterpartNetfn m.netfn) && decide (r.cmd = m.cmd) && decide (r.group = m.group)

theorem counterpart_key {m r : MsgSpec} (h : isCounterpart m r = true) : cmdKey r = cmdKey m := by
  unfold isCounterpart at h
  simp only [Bool.and_eq_true, decide_eq_true_eq] at h
  obtain ⟨⟨h1, h2⟩, h3⟩ := h
  have hn : r.netfn / 2 = m.netfn / 2 := by
    rw [h1]; unfold counterpartNetfn; split <;> omega
  unfold cmdKey
  rw [hn, h2, h3]

theorem pairedFrom_above : ∀ (prev : Option Nat) (l : List MsgSpec), pairedFrom prev l = true →
    ∀ k, prev = some k → ∀ x ∈ l, k < cmdKey x
  | _, [], _, _, _, x, hx => by cases hx
  | _, [_], h, _, _, _, _ => by simp [pairedFrom] at h
  | prev, a :: b :: rest, h, k, hk, x, hx => by
    simp only [pairedFrom, Bool.and_eq_true] at h
    obtain ⟨hp, hrest⟩ := h
    unfold pairOk at hp
    simp only [Bool.and_eq_true, decide_eq_true_eq] at hp
    obtain ⟨⟨⟨⟨⟨⟨⟨⟨_, _⟩, hae⟩, hbn⟩, hbc⟩, hbg⟩, _⟩, _⟩, hprev⟩ := hp
    subst hk
    simp only [decide_eq_true_eq] at hprev
    have hab : cmdKey b = cmdKey a := by
      have hn : b.netfn / 2 = a.netfn / 2 := by omega
      unfold cmdKey; rw [hn, hbc, hbg]
    simp only [List.mem_cons] at hx
    rcases hx with rfl | rfl | hx
    · exact hprev
    · rw [hab]; exact hprev
    · have := pairedFrom_above (some (cmdKey a)) rest hrest (cmdKey a) rfl x hx
      omega

theorem no_counterpart_above (m : MsgSpec) (l : List MsgSpec) (h : ∀ x ∈ l, cmdKey m < cmdKey x) :
    l.filter (isCounterpart m) = [] := by
  rw [List.filter_eq_nil_iff]
  intro x hx hc
  have := counterpart_key hc
  have := h x hx
  omega

/-- **Pairing, as the property states it**: in a registry accepted by `pairedOk`, every class
has exactly one counterpart (same command and group extension, network function ± 1). -/
theorem paired_count : ∀ (prev : Option Nat) (l : List MsgSpec), pairedFrom prev l = true →
    ∀ m ∈ l, (l.filter (isCounterpart m)).length = 1
  | _, [], _, m, hm => by cases hm
  | _, [_], h, _, _ => by simp [pairedFrom] at h
  | prev, a :: b :: rest, h, m, hm => by
    simp only [pairedFrom, Bool.and_eq_true] at h
    obtain ⟨hp, hrest⟩ := h
    unfold pairOk at hp
    simp only [Bool.and_eq_true, decide_eq_true_eq] at hp
    obtain ⟨⟨⟨⟨⟨⟨⟨⟨_, _⟩, hae⟩, hbn⟩, hbc⟩, hbg⟩, _⟩, _⟩, _⟩ := hp
    have hab : cmdKey b = cmdKey a := by
      have hn : b.netfn / 2 = a.netfn / 2 := by omega
      unfold cmdKey; rw [hn, hbc, hbg]
    have habove := pairedFrom_above (some (cmdKey a)) rest hrest (cmdKey a) rfl
    have haa : isCounterpart a a = false := by
      unfold isCounterpart counterpartNetfn; simp [hae]
    have hbb : isCounterpart b b = false := by
      unfold isCounterpart counterpartNetfn
      have : ¬ (b.netfn % 2 = 0) := by omega
      simp [this]; omega
    have hab' : isCounterpart a b = true := by
      unfold isCounterpart counterpartNetfn; simp [hae, hbn, hbc, hbg]
    have hba' : isCounterpart b a = true := by
      unfold isCounterpart counterpartNetfn
      have : ¬ (b.netfn % 2 = 0) := by omega
      simp [hbn, hbc, hbg]
      omega
    simp only [List.mem_cons] at hm
    rcases hm with rfl | rfl | hm
    · have := no_counterpart_above m rest habove
      simp [haa, hab', this]
    · have := no_counterpart_above m rest (by intro x hx; rw [hab]; exact habove x hx)
      simp [hbb, hba', this]
    · have hk := habove m hm
      have hma : isCounterpart m a = false := by
        cases hc : isCounterpart m a with
        | false => rfl
        | true => have := counterpart_key hc; omega
      have hmb : isCounterpart m b = false := by
        cases hc : isCounterpart m b with
        | false => rfl
        | true => have := counterpart_key hc; omega
      have := paired_count (some (cmdKey a)) rest hrest m hm
      simp [hma, hmb, this]

theorem registry_exactly_one_counterpart (m : MsgSpec) (hm : m ∈ PyIpmi.Gen.Registry.all) :
    (PyIpmi.Gen.Registry.all.filter (isCounterpart m)).length = 1 :=
  paired_count none _ registry_paired m hm

/-! ### the lookup side of the registry

`registry_paired` is about the ids the CLASSES carry.  `Gen.RegistryLookup` (regenerated on
every run) records what the registry's dict and its `create_*` functions RETURN, as indices
into `Gen.Registry.all`.  In that listing position `2k` is a request and `2k+1` its response
(`registry_paired`), so "the neighbour" below is the counterpart. -/

open PyIpmi.Gen in
/-- * `registry[name]`, `registry[(netfn, cmd, group)]` and `create_message(netfn, cmd, group)` give
  class `i` itself for the name / ids of class `i`;
* `create_request_by_name(stem)` / `create_response_by_name(stem)` with `stem` = the name of class `i`
  without its `Req`/`Rsp` suffix give the request / the response of `i`'s pair: `FooReq` and `FooRsp`
  are counterparts by NAME exactly as by id;
* `create_response_message(request i)` gives its response;
* the dict has one name key and one id key per class and no others, every id key being the ids of
  the class stored under it. -/
def lookupOk (all : List MsgSpec) : Bool :=
  let idl := List.range all.length
  RegistryLookup.byName == idl && RegistryLookup.byId == idl && RegistryLookup.created == idl
  && RegistryLookup.requestOf == idl.map (fun i => i - i % 2)
  && RegistryLookup.responseOf == idl.map (fun i => i - i % 2 + 1)
  && RegistryLookup.responseTo == idl.map (fun i => if i % 2 = 0 then i + 1 else RegistryLookup.missing)
  && RegistryLookup.nameKeys == all.length
  && RegistryLookup.idKeys == (all.zip idl).map (fun mi => (mi.1.netfn, mi.1.cmd, mi.1.group, mi.2))

theorem registry_lookup : lookupOk PyIpmi.Gen.Registry.all = true := by decide +kernel

/-! ### completion codes 1..255

`Fits` (hence `roundtrip`) demands completion code 0: a non-OK code stops decoding by design
(C02.cc_stops), so the round trip cannot hold there.  What does hold — and is the part of
"every in-range assignment" that `Fits` cuts away — is stated here: the code is ENCODED as
the first byte whatever it is, and decoding the encoding stops at it. -/

/-- a response layout: its first field is the (plain) completion code -/
def leadsWithCc : Layout → Bool
  | f :: _ => decide (f.prim = .cc) && isPlain f.wrap
  | [] => false

/-- In-range assignment of a response layout carrying completion code `c`: `c` is a byte and
the remaining fields fit (lengths / conditions evaluated with `c` as the value of field 0). -/
def FitsCc : Layout → Nat → List Val → Bool
  | f :: fs, c, rest =>
    decide (f.prim = .cc) && isPlain f.wrap && decide (c < 256) && fitsAux [.int c] fs rest
  | [], _, _ => false

/-- for code 0 this is `Fits` -/
theorem fitsCc_zero (l : Layout) (rest : List Val) (h : leadsWithCc l = true) :
    FitsCc l 0 rest = Fits l (.int 0 :: rest) := by
  cases l with
  | nil => simp [leadsWithCc] at h
  | cons f fs =>
    simp only [leadsWithCc, Bool.and_eq_true, decide_eq_true_eq] at h
    obtain ⟨hp, hw⟩ := h
    have hpl : f.wrap = .plain := by
      cases hfw : f.wrap <;> simp_all [isPlain]
    simp [FitsCc, Fits, fitsAux, fitsField, fitsPrim, hp, hpl, isPlain]

/-- **Non-OK completion codes are encoded, and decoding stops at them**: for every
well-formed response layout, every code `c ≠ 0` and every in-range assignment of the other
fields, encoding succeeds, the first byte IS `c`, and decoding the encoding yields `c`
followed by the creation defaults of all later fields (not the values that were encoded —
which is why the round trip is stated for code 0 only). -/
theorem nonok_cc_encoded_and_stops (l : Layout) (c : Nat) (rest : List Val) (hwf : l.wf = true)
    (hfit : FitsCc l c rest = true) (hc : c ≠ 0) :
    ∃ tail, encode l (.int c :: rest) = .ok (c :: tail) ∧ Bytes (c :: tail) ∧
      decode l (c :: tail) = .ok (.int c :: (defaults l).tail) := by
  cases l with
  | nil => simp [FitsCc] at hfit
  | cons f fs =>
    simp only [FitsCc, Bool.and_eq_true, decide_eq_true_eq] at hfit
    obtain ⟨⟨⟨hp, hw⟩, hlt⟩, hr⟩ := hfit
    have hpl : f.wrap = .plain := by
      cases hfw : f.wrap <;> simp_all [isPlain]
    unfold Layout.wf at hwf
    simp only [Bool.and_eq_true] at hwf
    have hwf1 := hwf.1
    simp only [wfAux, Bool.and_eq_true] at hwf1
    obtain ⟨_, hrest⟩ := hwf1
    obtain ⟨es, he1, he2, _⟩ := roundtrip_aux ([] ++ [f]) _ ([] ++ [.int c]) fs rest hrest hr
    simp only [List.nil_append] at he1
    have hmod : c % 256 = c := Nat.mod_eq_of_lt hlt
    have hstop : isCcStop f (.int c) = true := by
      simp [isCcStop, hp, hc]
    refine ⟨es, ?_, Bytes.cons hlt he2, ?_⟩
    · simp [encode, encAux, encField, hpl, hp, encPrim, leBytes, he1, hmod]
    · simp [decode, decAux, decField, hpl, hp, decPrim, popN, leVal, hstop, defaults]

/-- every response class of today's registry that has a layout leads with the completion
code, and no request class has a completion-code field at all -/
def ccPlacementOk (all : List MsgSpec) : Bool :=
  all.all fun m =>
    if m.isReq then m.layout.all (fun f => decide (f.prim ≠ .cc))
    else m.layout.isEmpty || (leadsWithCc m.layout && m.layout.tail.all (fun f => decide (f.prim ≠ .cc)))

theorem registry_cc_placement : ccPlacementOk PyIpmi.Gen.Registry.all = true := by decide +kernel

/-- … so the statement holds for every registered response class with fields. -/
theorem registry_nonok_cc (m : MsgSpec) (hm : m ∈ PyIpmi.Gen.Registry.all) (c : Nat)
    (rest : List Val) (hfit : FitsCc m.layout c rest = true) (hc : c ≠ 0) :
    ∃ tail, encode m.layout (.int c :: rest) = .ok (c :: tail) ∧ Bytes (c :: tail) ∧
      decode m.layout (c :: tail) = .ok (.int c :: (defaults m.layout).tail) := by
  have h := registry_wf
  unfold registryOk at h
  rw [List.all_eq_true] at h
  have hm' := h m hm
  simp only [Bool.and_eq_true] at hm'
  exact nonok_cc_encoded_and_stops m.layout c rest hm'.2 hfit hc

/-! ### non-vacuity: concrete, non-trivial objects meeting the hypotheses -/

/-- a layout with every construct (cc, bit-field, conditional, optional tail) -/
def demoLayout : Layout := [
  ⟨"completion_code", .plain, .cc, .int 0⟩,
  ⟨"flags", .plain, .bits 1 [1, 2, 5], .bits [0, 0, 0]⟩,
  ⟨"count", .plain, .uint 1, .int 0⟩,
  ⟨"data", .plain, .varBytes 2, .none⟩,
  ⟨"extra", .cond (.bitEq 1 0 1), .uint 2, .int 0⟩,
  ⟨"opt1", .optional, .uint 1, .none⟩,
  ⟨"opt2", .optional, .remaining, .none⟩]

example : demoLayout.wf = true := by decide
example : Fits demoLayout [.int 0, .bits [1, 3, 31], .int 2, .arr [7, 255], .int 0xBEEF, .int 9, .none] = true := by
  decide
example : encode demoLayout [.int 0, .bits [1, 3, 31], .int 2, .arr [7, 255], .int 0xBEEF, .int 9, .none]
    = .ok [0, 0xFF, 2, 7, 255, 0xEF, 0xBE, 9] := by decide
example : ∃ m ∈ PyIpmi.Gen.Registry.all, m.name = "GetFruLedStateRsp" ∧
    Fits m.layout [.int 0, .int 0, .bits [1, 1, 0, 3], .int 1, .int 2, .int 3, .int 4, .int 5, .int 6, .int 0] = true := by
  decide +kernel
example : FitsCc demoLayout 0xC1 [.bits [1, 3, 31], .int 2, .arr [7, 255], .int 0xBEEF, .int 9, .none] = true := by
  decide
example : encode demoLayout [.int 0xC1, .bits [1, 3, 31], .int 2, .arr [7, 255], .int 0xBEEF, .int 9, .none]
    = .ok [0xC1, 0xFF, 2, 7, 255, 0xEF, 0xBE, 9] := by decide
example : decode demoLayout [0xC1, 0xFF, 2, 7, 255, 0xEF, 0xBE, 9]
    = .ok [.int 0xC1, .bits [0, 0, 0], .int 0, .none, .int 0, .none, .none] := by decide
example : ∃ m ∈ PyIpmi.Gen.Registry.all, m.name = "GetDeviceIdRsp" ∧ leadsWithCc m.layout = true := by
  decide +kernel

end PyIpmi.Props.C01
