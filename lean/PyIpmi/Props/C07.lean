/-
  C07 — High-level API operations mean what they say to a conforming BMC.

  Objects.
  * `Spec.Bmc` (lean/PyIpmi/Spec/Bmc.lean): byte-level reference BMC `handle : BmcState → Req → BmcState × bytes`
    with abstract accessors `get_X` / `set_X`; `Spec.Bmc.run : Call → BmcState → BmcState × Result` says what
    each API call denotes (the oracle the real code is judged against on every check run).
  * `Model.Api` (lean/PyIpmi/Model/Api/*.lean): each API operation of `pyipmi.Ipmi` as ONE `Exchange`
    (request class + field values from the arguments, response class, result decoding), over the GENERATED
    message layouts and conversion tables (`Gen/Registry.lean`, `Gen/Tables.lean`).  `x.run s` encodes the
    request, hands the bytes to `handle s`, decodes the reply, checks the completion code.
  * `s.Wf`: every stored value of the BMC fits the wire field that reports it (the only assumption on states);
    `c.InRange`: the arguments are values the real code puts on the wire unchanged.

  Theorems (all for ALL in-range arguments and ALL conforming BMC states; the sum type `Call` has a constructor for
  every single-exchange operation of the harness' op table, and every one is proved.  One `_partial`:
  get_dcmi_sensor_record_ids, a sequence of three exchanges outside `Call`, refines the BMC only while no entity has
  more than 8 sensors - the library does not page, `dcmi_sensor_ids_not_paged_counterexample`).
  1. `write_*`   : `(api_set_X args).run s = (Spec.set_X (denote args) s, ok None)`          (33)
  2. `read_*`    : `(api_get_X addr).run s = (s, ok (Spec.get_X addr s))`                     (36, DCMI included)
  3. `model_refines_oracle`, `wf_invariant`, `history_refines`, `read_after_history`,
     `read_depends_on_state_only` : the generic step and the induction over histories — the main theorem.
  4. `table_*`   : laws of the generated conversion tables.
  5. counter-examples for the operations that were defective as shipped (LED decoder, port state without link,
     LAN revision-only mode, rollback status, sensor states while unavailable, HPM.1 component description through
     `raw_unicode_escape`, fourth request byte of Set Fan Level, OEM link types, reserved state bit 15): the
     as-shipped model variant does NOT refine the BMC, the intended one does.
-/
import PyIpmi.Lemmas.ApiAll
import PyIpmi.Lemmas.ApiDomain
namespace PyIpmi.Props.C07
open PyIpmi PyIpmi.Codec PyIpmi.Spec.Bmc PyIpmi.Model.Api PyIpmi.Gen.Tables PyIpmi.Lemmas.Api

set_option linter.unusedSimpArgs false
set_option maxRecDepth 4000

/-! ## 1. write refinement: the BMC ends in exactly the state the arguments denote -/

theorem write_cold_reset (s : BmcState) : api_cold_reset.run s = (cold_reset s, .ok .unit) :=
  cold_reset_refines s
theorem write_warm_reset (s : BmcState) : api_warm_reset.run s = (warm_reset s, .ok .unit) :=
  warm_reset_refines s

/-- timer use / actions 3 bits each, interval and flags one byte, countdown 16 bits -/
theorem write_set_watchdog_timer (c : WatchdogCfg) (s : BmcState)
    (h : c.timerUse < 8 ∧ c.action < 8 ∧ c.preInterrupt < 8 ∧ c.preInterval < 256 ∧ c.clearFlags < 256 ∧ c.initial < 65536) :
    (api_set_watchdog_timer c).run s = (set_watchdog c s, .ok .unit) :=
  set_watchdog_refines c s h
theorem write_reset_watchdog_timer (s : BmcState) : api_reset_watchdog_timer.run s = (reset_watchdog s, .ok .unit) :=
  reset_watchdog_refines s

theorem write_chassis_control (opt : Nat) (s : BmcState) (h : opt < 16) :
    (api_chassis_control opt).run s = (chassis_control opt s, .ok .unit) :=
  chassis_control_refines opt s h
/-- chassis_control_power_down, _power_up, _power_cycle, _hard_reset, _diagnostic_interrupt, _soft_shutdown
(idx 0..5) send the option IPMI 28.3 assigns to that name -/
theorem write_chassis_control_named (idx : Nat) (s : BmcState) (h : idx < 6) :
    (api_chassis_control_named idx).run s = (chassis_control idx s, .ok .unit) :=
  chassis_control_named_refines idx s h
theorem write_set_system_boot_options (sel : Nat) (data : List Nat) (invalid : Bool) (s : BmcState) (h : sel < 128) :
    (api_set_system_boot_options sel data invalid).run s = (set_boot_param sel invalid data s, .ok .unit) :=
  set_system_boot_options_refines sel data invalid s h
/-- set_boot_options(device, mode, persistent) for every `BootDevice` member -/
theorem write_set_boot_options (dev : BootDev) (efi persistent : Bool) (s : BmcState) :
    (api_set_boot_options dev efi persistent).run s =
      (set_boot_flags { valid := true, persistent := persistent, efi := efi, device := dev.code } s, .ok .unit) :=
  set_boot_options_refines dev efi persistent s

theorem write_set_lan_config_param (ch sel : Nat) (data : List Nat) (s : BmcState) (h1 : ch < 16) (h2 : sel < 256) :
    (api_set_lan_config_param ch sel data).run s = (set_lan_param ch sel data s, .ok .unit) :=
  set_lan_config_param_refines ch sel data s h1 h2
theorem write_set_ip_address (ip : List Nat) (ch : Nat) (s : BmcState) (h : ch < 16) (hb : Bytes ip) :
    (api_set_ip_address ip ch).run s = (set_lan_param ch 3 ip s, .ok .unit) :=
  set_ip_address_refines ip ch s h hb
/-- set_ip_address on the TEXT of its argument (`ip_address_to_data`: `map(int, text.split('.'))`): a dotted spelling of
the octets `ip` in which the i-th octet carries `pads[i]` leading zeros ('192.168.001.010', '010.020.030.040',
'08.09.0.255') denotes `ip` - every octet is read as a DECIMAL numeral whatever it begins with - and that is what the
BMC stores.  (Signs and blanks around an octet, which `int()` accepts too, are in the model `octetOfText` and
compared with the code on every generated spelling; the theorem is about the zero-padded dotted-decimal form.) -/
theorem write_set_ip_address_text (pads ip : List Nat) (ch : Nat) (s : BmcState) (h : ch < 16) (hb : Bytes ip)
    (hl : pads.length = ip.length) (hne : ip ≠ []) :
    (api_set_ip_address_text (dotted pads ip) ch).run s = (set_lan_param ch 3 ip s, .ok .unit) :=
  set_ip_address_text_refines pads ip ch s h hb hl hne
/-- the conversion alone: decimal per octet, leading zeros ignored -/
theorem table_ip_text_decimal (pads ip : List Nat) (hl : pads.length = ip.length) (hne : ip ≠ []) :
    ipAddressToData (dotted pads ip) = .ok ip :=
  ipAddressToData_dotted pads ip hl hne
example : dotted [0, 0, 2, 1] [192, 168, 1, 10] = "192.168.001.010".toList := by decide
example : dotted [1, 1, 0, 0] [8, 9, 0, 255] = "08.09.0.255".toList := by decide
example : ipAddressToData " +10.020.3 .4\n".toList = .ok [10, 20, 3, 4] := by decide
/-- "static" ↦ 1, "dhcp" ↦ 2 -/
theorem write_set_ip_source (code ch : Nat) (s : BmcState) (h : ch < 16) (hc : code = 1 ∨ code = 2) :
    (api_set_ip_source code ch).run s = (set_lan_param ch 4 [code] s, .ok .unit) :=
  set_ip_source_refines code ch s h hc
theorem write_set_vlan_id (v ch : Nat) (s : BmcState) (h : ch < 16) (hv : v ≤ 4095) :
    (api_set_vlan_id v ch).run s = (set_vlan ch (v != 0) v s, .ok .unit) :=
  set_vlan_id_refines v ch s h hv

theorem write_set_username (uid : Nat) (name : List Nat) (s : BmcState) (h1 : 1 ≤ uid) (h2 : uid < 64)
    (h3 : name.length ≤ 16) :
    (api_set_username uid name).run s = (set_user_name uid (padTo 16 name) s, .ok .unit) := by
  rw [set_username_refines uid name s h2 h3, withUser_pos _ _ _ (by omega) h2]
theorem write_set_user_access (a : UserAccessArgs) (s : BmcState) (h0 : 1 ≤ a.userId)
    (h : a.userId < 64 ∧ a.channel < 16 ∧ a.privilege ∈ privCodes ∧ a.sessionLimit < 16) :
    (api_set_user_access a).run s = (set_user_access a s, .ok .unit) := by
  rw [set_user_access_refines a s h, withUser_pos _ _ _ (by omega) h.1]
theorem write_set_user_password (uid : Nat) (pw : List Nat) (s : BmcState) (h1 : 1 ≤ uid) (h2 : uid < 64)
    (h3 : pw.length ≤ 16) :
    (api_set_user_password uid pw).run s = (set_user_password uid (padTo 16 pw) s, .ok .unit) := by
  rw [set_user_password_refines uid pw s h2 h3, withUser_pos _ _ _ (by omega) h2]
theorem write_enable_user (uid : Nat) (s : BmcState) (h1 : 1 ≤ uid) (h2 : uid < 64) :
    (api_enable_user uid).run s = (set_user_enabled uid true s, .ok .unit) := by
  rw [enable_user_refines uid s h2, withUser_pos _ _ _ (by omega) h2]
theorem write_disable_user (uid : Nat) (s : BmcState) (h1 : 1 ≤ uid) (h2 : uid < 64) :
    (api_disable_user uid).run s = (set_user_enabled uid false s, .ok .unit) := by
  rw [disable_user_refines uid s h2, withUser_pos _ _ _ (by omega) h2]
/-- user id 0 is reserved: the BMC answers CCh, nothing changes, the call raises CompletionCodeError(0xcc) -/
theorem reserved_user_rejected (name : List Nat) (s : BmcState) (h : name.length ≤ 16) (hw : s.Wf) :
    (api_set_username 0 name).run s = (s, .ccError 0xcc) ∧ (api_get_username 0).run s = (s, .ccError 0xcc) ∧
    (api_enable_user 0).run s = (s, .ccError 0xcc) := by
  refine ⟨?_, ?_, ?_⟩
  · rw [set_username_refines 0 name s (by decide) h, withUser_zero]
  · rw [get_username_refines 0 s (by decide) (userName_wf 0 s hw), withUser_zero]
  · rw [enable_user_refines 0 s (by decide), withUser_zero]

/-- thresholds in the order lnc lcr lnr unc ucr unr; `none` = keyword argument not given -/
theorem write_set_sensor_thresholds (num lun : Nat) (vals : List (Option Nat)) (s : BmcState)
    (h : num < 256 ∧ ∀ i v, vals.getD i none = some v → v < 256) :
    (api_set_sensor_thresholds num lun vals).run s = (set_sensor_thresholds lun num vals s, .ok .unit) :=
  set_sensor_thresholds_refines num lun vals s h
theorem write_rearm_sensor_events (num : Nat) (s : BmcState) (h : num < 256) :
    (api_rearm_sensor_events num).run s = (rearm_sensor 0 num s, .ok .unit) :=
  rearm_sensor_events_refines num s h
theorem write_send_platform_event (e : PlatformEvent) (s : BmcState)
    (h : e.evmRev = 4 ∧ e.sensorType < 256 ∧ e.sensorNum < 256 ∧ e.eventType < 128 ∧ 1 ≤ e.data.length ∧ e.data.length ≤ 3) :
    (api_send_platform_event e).run s = (platform_event e s, .ok .unit) :=
  send_platform_event_refines e s h
/-- the API takes the 7-bit IPMB address; the BMC stores the 8-bit slave address -/
theorem write_set_event_receiver (addr7 lun : Nat) (s : BmcState) (h1 : addr7 < 128) (h2 : lun < 4) :
    (api_set_event_receiver addr7 lun).run s = (set_event_receiver (2 * addr7) lun s, .ok .unit) :=
  set_event_receiver_refines addr7 lun s h1 h2

theorem write_fru_control (fru opt : Nat) (s : BmcState) (h1 : fru < 256) (h2 : opt < 256) :
    (api_fru_control fru opt).run s = (fru_control fru opt s, .ok (.bytes [])) :=
  fru_control_refines fru opt s h1 h2
/-- fru_control_cold_reset, _warm_reset, _graceful_reboot, _diagnostic_interrupt (idx 0..3) -/
theorem write_fru_control_named (idx fru : Nat) (s : BmcState) (h1 : idx < 4) (h2 : fru < 256) :
    (api_fru_control_named idx fru).run s = (fru_control fru idx s, .ok (if idx = 3 then .bytes [] else .unit)) :=
  fru_control_named_refines idx fru s h1 h2
/-- set_fan_level(fru_id, fan_level): the override level of that FRU becomes `fan_level`; nothing else of the fan
tray changes (its local control state stays as it is), whichever revision of PICMG 3.0 the tray implements -/
theorem write_set_fan_level (fru lvl : Nat) (s : BmcState) (h1 : fru < 256) (h2 : lvl < 256) :
    (api_set_fan_level fru lvl).run s = (set_fan_level fru lvl none s, .ok .unit) :=
  set_fan_level_refines fru lvl s h1 h2
/-- override off / on / blinking (off-duration 1..250, on-duration a byte) and lamp test (< 128), colour a nibble -/
theorem write_set_led_state (fru led : Nat) (c : LedCmd) (s : BmcState) (h1 : fru < 256) (h2 : led < 256)
    (hc : c.InRange) :
    (api_set_led_state fru led c).run s = (set_led fru led c s, .ok .unit) :=
  set_led_state_refines fru led c s h1 h2 hc
theorem write_set_fru_activation (fru : Nat) (on : Bool) (s : BmcState) (h : fru < 256) :
    (api_set_fru_activation fru on).run s = (set_fru_activation fru on s, .ok .unit) :=
  set_fru_activation_refines fru on s h
theorem write_set_fru_activation_policy (fru ctrl : Nat) (s : BmcState) (h : fru < 256) :
    (api_set_fru_activation_policy fru ctrl).run s = ((run (.setFruActivationPolicy fru ctrl) s).1, .ok .unit) := by
  have := set_fru_activation_policy_refines fru ctrl s h
  rcases ctrl with _ | _ | _ | _ | n <;> simpa [run] using this
/-- set_fru_activation_lock, clear_fru_activation_lock, set_fru_deactivation_lock, clear_… (idx 0..3) -/
theorem write_fru_lock_named (idx fru : Nat) (s : BmcState) (h1 : idx < 4) (h2 : fru < 256) :
    (api_fru_lock_named idx fru).run s = ((run (.fruLockNamed idx fru) s).1, .ok .unit) := by
  have := fru_lock_named_refines idx fru s h1 h2
  rcases idx with _ | _ | _ | _ | n <;> simpa [run] using this
theorem write_set_port_state (iface ch : Nat) (p : Port) (s : BmcState)
    (h : iface < 4 ∧ ch < 64 ∧ p.hasLink = true ∧ p.Wf ∧ p.grouping < 256 ∧ p.state < 256) :
    (api_set_port_state iface ch p).run s = (set_port iface ch p s, .ok .unit) :=
  set_port_state_refines iface ch p s h
/-- the link type given as ONE number in `link_descr.type` (`LinkDescriptor.TYPE_OEM0` = F0h …, `sig_class` 0):
the BMC is told exactly that 8-bit link type -/
theorem write_set_port_state_type8 (iface ch : Nat) (p : Port) (s : BmcState)
    (h : iface < 4 ∧ ch < 64 ∧ p.hasLink = true ∧ p.Wf ∧ p.grouping < 256 ∧ p.state < 256) :
    (api_set_port_state_type8 iface ch p).run s = (set_port iface ch p s, .ok .unit) :=
  set_port_state_type8_refines iface ch p s h
theorem write_send_channel_power (ch : Nat) (enable : Bool) (lim pri bak : Nat) (s : BmcState)
    (h : ch < 256 ∧ lim < 256 ∧ pri < 256 ∧ bak < 256) :
    (api_send_channel_power ch enable lim pri bak).run s =
      (power_channel_control ch (if enable then 5 else 4) lim pri bak s, .ok .unit) :=
  send_channel_power_refines ch enable lim pri bak s h
theorem write_send_pm_heartbeat (s : BmcState) : api_send_pm_heartbeat.run s = (pm_heartbeat s, .ok .unit) :=
  send_pm_heartbeat_refines s
theorem write_set_signaling_class (iface ch cls : Nat) (s : BmcState) (h1 : iface < 4) (h2 : ch < 64) (h3 : cls < 16) :
    (api_set_signaling_class iface ch cls).run s = (set_signaling_class iface ch cls s, .ok .unit) :=
  set_signaling_class_refines iface ch cls s h1 h2 h3

/-! ## 2. read refinement: the result is the BMC's current state for the addressed object; the BMC is untouched -/

theorem read_get_device_id (s : BmcState) (hw : s.Wf) :
    api_get_device_id.run s = (s, .ok (.deviceId (get_device_id s))) :=
  get_device_id_refines s hw.device
theorem read_get_device_guid (s : BmcState) (hw : s.Wf) :
    api_get_device_guid.run s = (s, .ok (.bytes (get_device_guid s))) :=
  get_device_guid_refines s hw.guid
theorem read_get_watchdog_timer (s : BmcState) (hw : s.Wf) :
    api_get_watchdog_timer.run s = (s, .ok (.watchdog (get_watchdog s))) :=
  get_watchdog_refines s hw.watchdog
theorem read_get_chassis_status (s : BmcState) (hw : s.Wf) :
    api_get_chassis_status.run s = (s, .ok (.chassis (get_chassis_status s))) :=
  get_chassis_status_refines s hw.chassis
theorem read_get_system_boot_options (sel setSel blk : Nat) (s : BmcState) (h : sel < 128 ∧ setSel < 256 ∧ blk < 256) :
    (api_get_system_boot_options sel setSel blk).run s = (s, .ok (.bytes (get_boot_param sel setSel s))) :=
  get_system_boot_options_refines sel setSel blk s h
theorem read_get_boot_mode (s : BmcState) (hw : s.Wf) :
    api_get_boot_mode.run s = (s, .ok (.bool (get_boot_flags s).efi)) :=
  get_boot_mode_refines s (by have := bootFlags_wf s hw; omega)
theorem read_get_boot_persistency (s : BmcState) (hw : s.Wf) :
    api_get_boot_persistency.run s = (s, .ok (.bool (get_boot_flags s).persistent)) :=
  get_boot_persistency_refines s (by have := bootFlags_wf s hw; omega)
/-- the device the specification's table 28-14 names for the stored selector; KeyError for a reserved selector -/
theorem read_get_boot_device (s : BmcState) (hw : s.Wf) :
    api_get_boot_device.run s = present (s, .bootDev (BootDev.ofCode (get_boot_flags s).device)) :=
  get_boot_device_refines s (bootFlags_wf s hw)

/-- normal mode: the data of parameter `sel` of channel `ch`; revision-only mode: the parameter revision of
that same channel and parameter (not of channel 0, and not the empty data) -/
theorem read_get_lan_config_param (ch sel setSel blk : Nat) (revOnly : Bool) (s : BmcState)
    (h : ch < 16 ∧ sel < 256 ∧ setSel < 256 ∧ blk < 256) :
    (api_get_lan_config_param ch sel setSel blk revOnly).run s =
      (s, .ok (if revOnly then .nat (get_lan_revision ch sel s) else .bytes (get_lan_param ch sel s))) :=
  get_lan_config_param_refines ch sel setSel blk revOnly s h
theorem read_get_ip_address (ch : Nat) (s : BmcState) (h : ch < 16) :
    (api_get_ip_address ch).run s = (s, .ok (.ip (get_lan_param ch 3 s))) :=
  get_ip_address_refines ch s h
theorem read_get_ip_source (ch : Nat) (s : BmcState) (h : ch < 16) (hw : s.Wf) :
    (api_get_ip_source ch).run s = present (s, .ipSource ((get_lan_param ch 4 s).getD 0 0 % 16)) :=
  get_ip_source_refines ch s h ((lan_wf ch 4 s hw h (by omega)).2.1 (by simp [lanKey]))
theorem read_get_mac_address (ch : Nat) (s : BmcState) (h : ch < 16) :
    (api_get_mac_address ch).run s = (s, .ok (.mac (get_lan_param ch 5 s))) :=
  get_mac_address_refines ch s h
/-- the 12-bit VLAN id of LAN parameter 20, 0 while the VLAN is disabled -/
theorem read_get_vlan_id (ch : Nat) (s : BmcState) (h : ch < 16) (hw : s.Wf) :
    (api_get_vlan_id ch).run s = (s, .ok (.nat (let v := get_vlan ch s; if v.1 then v.2 else 0))) := by
  have h20 := lan_wf ch 20 s hw h (by omega)
  exact get_vlan_id_refines ch s h ⟨h20.1, by simp, fun _ => h20.2.2 (by simp [lanKey])⟩

theorem read_get_username (uid : Nat) (s : BmcState) (h1 : 1 ≤ uid) (h2 : uid < 64) (hw : s.Wf) :
    (api_get_username uid).run s = (s, .ok (.bytes (get_user_name uid s))) := by
  rw [get_username_refines uid s h2 (userName_wf uid s hw)]
  have : uid % 64 ≠ 0 := by omega
  simp [withUser, present, Result.toOutcome, this]
theorem read_get_user_access (uid ch : Nat) (s : BmcState) (h1 : 1 ≤ uid) (h2 : uid < 64) (h3 : ch < 16) (hw : s.Wf) :
    (api_get_user_access uid ch).run s = (s, .ok (.userAccess (get_user_access ch uid s))) := by
  rw [get_user_access_refines uid ch s h2 h3 hw.maxUsers hw.fixedNames (userEnabled_wf uid s hw)]
  have : uid % 64 ≠ 0 := by omega
  simp [withUser, present, Result.toOutcome, this]

/-- sensor `num` on LUN `lun` — the request carries both; while the BMC flags reading/state unavailable the
result is `(None, None)` (`get_sensor_reading` of the oracle): no stale state bits -/
theorem read_get_sensor_reading (num lun : Nat) (s : BmcState) (h : num < 256) (hw : s.Wf) :
    (api_get_sensor_reading num lun).run s = (s, .ok (let r := get_sensor_reading lun num s; .optNatPair r.1 r.2)) :=
  get_sensor_reading_refines num lun s h (sensor_wf lun num s hw)
/-- the readable thresholds, each under its own name (index into lnc lcr lnr unc ucr unr) -/
theorem read_get_sensor_thresholds (num lun : Nat) (s : BmcState) (h : num < 256) (hw : s.Wf) :
    (api_get_sensor_thresholds num lun).run s = (s, .ok (.thresholds (get_sensor_thresholds lun num s))) :=
  get_sensor_thresholds_refines num lun s h (sensor_wf lun num s hw)
theorem read_get_event_receiver (s : BmcState) (hw : s.Wf) :
    api_get_event_receiver.run s = (s, .ok (.natPair (s.evReceiverAddr / 2) s.evReceiverLun)) :=
  get_event_receiver_refines s hw.evAddr hw.evLun

theorem read_get_picmg_properties (s : BmcState) :
    api_get_picmg_properties.run s = (s, .ok (.picmgProps s.picmgVersion s.maxFruId s.ipmcFruId)) :=
  get_picmg_properties_refines s
/-- power types 0..3; any other type is answered CCh and raised as CompletionCodeError -/
theorem read_get_power_level (fru ty : Nat) (s : BmcState) (h1 : fru < 256) (h2 : ty < 256) (hw : s.Wf) :
    (api_get_power_level fru ty).run s =
      present (if ty ≤ 3 then (s, .power (get_power_level fru ty s)) else (s, .error ccInvalidField)) :=
  get_power_level_refines fru ty s h1 h2 (power_wf fru ty s hw)
theorem read_get_fan_speed_properties (fru : Nat) (s : BmcState) (h : fru < 256) :
    (api_get_fan_speed_properties fru).run s =
      (s, .ok (let f := get_fan fru s; .fanProps f.minLevel f.maxLevel f.normalLevel f.localSupported)) :=
  get_fan_speed_properties_refines fru s h
theorem read_get_fan_level (fru : Nat) (s : BmcState) (h : fru < 256) :
    (api_get_fan_level fru).run s = (s, .ok (let f := get_fan fru s; .optNatPair (some f.overrideLevel) f.localLevel)) :=
  get_fan_level_refines fru s h
/-- LED `led` of FRU `fru`: local state, override state and durations from the OVERRIDE fields, lamp test -/
theorem read_get_led_state (fru led : Nat) (s : BmcState) (h1 : fru < 256) (h2 : led < 256) (hw : s.Wf) :
    (api_get_led_state fru led).run s = (s, .ok (.led (get_led_view fru led s))) :=
  get_led_state_refines fru led s h1 h2 (led_wf fru led s hw)
theorem read_get_port_state (ch iface : Nat) (s : BmcState) (h1 : ch < 64) (h2 : iface < 4) (hw : s.Wf) :
    (api_get_port_state ch iface).run s = (s, (run (.getPortState ch iface) s).2.toOutcome) := by
  rw [get_port_state_refines ch iface s h1 h2 (port_wf iface ch s hw)]
  simp [run, Result.toOutcome]
theorem read_get_pm_global_status (s : BmcState) (hw : s.Wf) :
    api_get_pm_global_status.run s = (s, .ok (.pmGlobal s.pmGlobal)) :=
  get_pm_global_status_refines s hw.pmGlobal
theorem read_get_power_channel_status (start : Nat) (s : BmcState) (h : start < 256) (hw : s.Wf) :
    (api_get_power_channel_status start).run s = (s, .ok (.nat (get_power_channel start s).status)) :=
  get_power_channel_status_refines start s h (powerChannel_wf start s hw)
theorem read_get_signaling_class (iface ch : Nat) (s : BmcState) (h1 : iface < 4) (h2 : ch < 64) (hw : s.Wf) :
    (api_get_signaling_class iface ch).run s = (s, .ok (.nat (get_signaling_class iface ch s))) :=
  get_signaling_class_refines iface ch s h1 h2 (sigClass_wf iface ch s hw)

theorem read_get_upgrade_status (s : BmcState) :
    api_get_upgrade_status.run s = (s, .ok (.hpmStatus s.hpm.cmdInProgress s.hpm.lastCc)) :=
  get_upgrade_status_refines s
theorem read_get_target_upgrade_capabilities (s : BmcState) (hw : s.Wf) :
    api_get_target_upgrade_capabilities.run s = (s, .ok (.hpmCaps s.hpm.version s.hpm.components)) :=
  get_target_upgrade_capabilities_refines s hw.hpmComponents
theorem read_query_selftest_results (s : BmcState) (hw : s.Wf) :
    api_query_selftest_results.run s = (s, .ok (.natPair s.hpm.selftest1 s.hpm.selftest2)) :=
  query_selftest_results_refines s hw.hpmSelftest2
/-- the mask of the rolled-back components and the completion estimate, exactly as the BMC holds them -/
theorem read_query_rollback_status (s : BmcState) :
    api_query_rollback_status.run s = (s, .ok (.rollback s.hpm.rollbackStatus s.hpm.rollbackEstimate)) :=
  query_rollback_status_refines s

/-- HPM.1 Get Component Properties, description string: exactly the characters the IPMC holds for component `id`
(a backslash is a character like any other); CompletionCodeError(82h) when the component does not exist -/
theorem read_get_component_description (id : Nat) (s : BmcState) (h : id < 256) (hw : s.Wf) :
    (api_get_component_description id).run s =
      present (s, if has_component id s then .text (get_component_description id s) else .error ccHpmInvalidComponent) :=
  get_component_description_refines id s h (descr_wf id s hw)

/-! ### DCMI 1.5 (pyipmi/dcmi.py) -/

/-- get_dcmi_capabilities(selector): conformance major / minor, parameter revision and parameter data of the addressed
parameter, exactly as the BMC holds them -/
theorem read_get_dcmi_capabilities (sel : Nat) (s : BmcState) (h : sel < 256) (hw : s.Wf) :
    (api_get_dcmi_capabilities sel).run s =
      (s, .ok (.dcmiCaps s.dcmi.confMajor s.dcmi.confMinor (get_dcmi_capabilities sel s).revision
                 (get_dcmi_capabilities sel s).data)) :=
  get_dcmi_capabilities_refines sel s h hw.dcmiMajor hw.dcmiMinor

/-- get_power_reading(mode, attributes): the seven values of the reading the BMC holds for (mode, attributes)
(`GetPowerReadingRsp.__not_implemented__` changes nothing: the attribute is never read) -/
theorem read_get_power_reading (mode attrs : Nat) (s : BmcState) (h1 : mode < 256) (h2 : attrs < 256) (hw : s.Wf) :
    (api_get_power_reading mode attrs).run s = (s, .ok (.powerReading (get_power_reading mode attrs s))) :=
  get_power_reading_refines mode attrs s h1 h2 (powerReading_wf mode attrs s hw)

/- get_dcmi_sensor_record_ids(), FULL STRENGTH (what the name of the method promises; NOT provable, see
   `dcmi_sensor_ids_not_paged_counterexample`):

     theorem read_get_dcmi_sensor_record_ids (s : BmcState) (hw : s.Wf) :
         api_get_dcmi_sensor_record_ids s = (s, .ok (.natList (get_dcmi_sensor_record_ids s)))

   A Get DCMI Sensor Info response carries at most 8 record ids (DCMI 1.5 table 6-15, response byte 4); the remaining
   instances are fetched with Entity Instance Start.  The library asks every entity once, with Entity Instance Start 0,
   and ignores total_number_of_instances.  Proved instead: the exact result for EVERY conforming BMC
   (`read_get_dcmi_sensor_record_ids_first_eight`) and the refinement for the BMCs with at most 8 instances per entity. -/

/-- what the call returns from ANY conforming BMC: the first eight record ids of inlet, CPU and baseboard temperature
sensors, the BMC untouched -/
theorem read_get_dcmi_sensor_record_ids_first_eight (s : BmcState) (hw : s.Wf) :
    api_get_dcmi_sensor_record_ids s =
      (s, .ok (.natList ((get_dcmi_sensors 1 0x40 s).take 8 ++ (get_dcmi_sensors 1 0x41 s).take 8 ++
                         (get_dcmi_sensors 1 0x42 s).take 8))) :=
  get_dcmi_sensor_record_ids_run s hw

/-- PARTIAL (missing: BMCs with more than 8 instances of one entity - the library does not page) -/
theorem read_get_dcmi_sensor_record_ids_partial (s : BmcState) (hw : s.Wf)
    (h8 : ∀ e ∈ [0x40, 0x41, 0x42], (get_dcmi_sensors 1 e s).length ≤ 8) :
    api_get_dcmi_sensor_record_ids s = (s, .ok (.natList (get_dcmi_sensor_record_ids s))) :=
  get_dcmi_sensor_record_ids_refines_partial s hw h8

/-- a conforming BMC with nine CPU temperature sensors (record ids 0101h … 0109h) -/
def dcmiNineState : BmcState :=
  { dcmi := { sensors := ({} : Map (List Nat)).set 0x41 [0x101, 0x102, 0x103, 0x104, 0x105, 0x106, 0x107, 0x108, 0x109] } }

/-- the BMC reports "9 instances, 8 record ids in this response" and holds the ninth ready under Entity Instance
Start 9; get_dcmi_sensor_record_ids() never asks for it: record id 0109h is missing from its result -/
theorem dcmi_sensor_ids_not_paged_counterexample :
    dcmiNineState.Wf ∧
    (handle dcmiNineState { netfn := 0x2c, lun := 0, cmd := 7, data := [0xdc, 1, 0x41, 0, 0] }).2 =
      [0, 0xdc, 9, 8, 1, 1, 2, 1, 3, 1, 4, 1, 5, 1, 6, 1, 7, 1, 8, 1] ∧
    (handle dcmiNineState { netfn := 0x2c, lun := 0, cmd := 7, data := [0xdc, 1, 0x41, 0, 9] }).2 = [0, 0xdc, 9, 1, 9, 1] ∧
    get_dcmi_sensor_record_ids dcmiNineState =
      [0x40, 0x101, 0x102, 0x103, 0x104, 0x105, 0x106, 0x107, 0x108, 0x109, 0x242] ∧
    (api_get_dcmi_sensor_record_ids dcmiNineState).2 =
      .ok (.natList [0x40, 0x101, 0x102, 0x103, 0x104, 0x105, 0x106, 0x107, 0x108, 0x242]) ∧
    (api_get_dcmi_sensor_record_ids dcmiNineState).2 ≠ .ok (.natList (get_dcmi_sensor_record_ids dcmiNineState)) := by
  have hw : dcmiNineState.Wf := { wf_init with dcmiSensors := (Map.All.empty _).set _ _ (by decide) }
  refine ⟨hw, by decide, by decide, by decide, ?_, ?_⟩
  · rw [read_get_dcmi_sensor_record_ids_first_eight _ hw]; decide
  · rw [read_get_dcmi_sensor_record_ids_first_eight _ hw]; decide

/-- the DCMI reads on the power-on BMC are not trivial -/
example :
    ((api_get_dcmi_capabilities 2).run {}).2 = .ok (.dcmiCaps 1 5 2 [2, 3, 0]) ∧
    ((api_get_power_reading 1 0).run {}).2 =
      .ok (.powerReading { current := 356, minimum := 56, maximum := 456, average := 306, timestamp := 0x5f000100,
                           period := 17000, state := 0x40 }) ∧
    (api_get_dcmi_sensor_record_ids {}).2 = .ok (.natList [0x40, 0x141, 0x242]) := by
  refine ⟨?_, ?_, ?_⟩
  · rw [read_get_dcmi_capabilities 2 _ (by decide) wf_init]; decide
  · rw [read_get_power_reading 1 0 _ (by decide) (by decide) wf_init]; decide
  · rw [read_get_dcmi_sensor_record_ids_first_eight _ wf_init]; decide

/-! ## 3. the generic step and history independence (main theorem) -/

/-- ONE STEP, every operation: played against the byte-level BMC in any conforming state, the modelled
operation leaves the BMC in the state the oracle denotes and returns / raises what the oracle means. -/
theorem model_refines_oracle (c : Call) (s : BmcState) (hc : c.InRange) (hw : s.Wf) :
    runModel c s = present (run c s) :=
  runModel_refines c s hc hw

/-- the same with the EXECUTABLE hypotheses the driver evaluates on every (state, call) pair of the
correspondence run (`domain` command): whatever it reports as inside the domain is covered by the theorem -/
theorem model_refines_oracle_checked (c : Call) (s : BmcState) (hc : inRangeB c = true) (hw : wfB s = true) :
    runModel c s = present (run c s) :=
  runModel_refines c s (inRangeB_sound hc) (wfB_sound hw)

/-- the state assumption is an invariant: it holds for the power-on state and after every in-range call -/
theorem wf_invariant : ({} : BmcState).Wf ∧ ∀ (c : Call) (s : BmcState), c.InRange → s.Wf → (run c s).1.Wf :=
  ⟨wf_init, wf_run⟩

/-- a read does not change the BMC -/
theorem read_leaves_bmc (c : Call) (s : BmcState) (h : c.isRead = true) : (run c s).1 = s :=
  run_read c s h

/-- HISTORIES: any finite sequence of in-range calls from any conforming state — the BMC ends where the
oracle says, and the k-th call returns what the oracle means in the state at that moment. -/
theorem history_refines (h : List Call) (s : BmcState) (hr : ∀ c ∈ h, c.InRange) (hw : s.Wf) :
    modelHistory h s = ((specHistory h s).1, (specHistory h s).2.map Result.toOutcome) :=
  (history_refines_wf h s hr hw).1

/-- a read issued after ANY history returns the getter applied to the BMC's state at that moment
(`(run c st).2` is `Spec.get_X addr st` by definition of `run`), and leaves that state in place -/
theorem read_after_history (pre : List Call) (c : Call) (s : BmcState)
    (hpre : ∀ x ∈ pre, x.InRange) (hc : c.InRange) (hread : c.isRead = true) (hw : s.Wf) :
    modelHistory (pre ++ [c]) s =
      ((specHistory pre s).1,
       (specHistory pre s).2.map Result.toOutcome ++ [(run c (specHistory pre s).1).2.toOutcome]) := by
  have hr : ∀ x ∈ pre ++ [c], x.InRange := by
    intro x hx; rcases List.mem_append.mp hx with h | h
    · exact hpre x h
    · simp at h; subst h; exact hc
  rw [history_refines _ s hr hw, specHistory_append]
  simp [specHistory, run_read c _ hread]

/-- HISTORY INDEPENDENCE: two histories (different calls, different lengths, different starting states)
that leave the BMC in the same state make the same read return the same value. -/
theorem read_depends_on_state_only (pre1 pre2 : List Call) (c : Call) (s1 s2 : BmcState)
    (h1 : ∀ x ∈ pre1, x.InRange) (h2 : ∀ x ∈ pre2, x.InRange) (hc : c.InRange) (hread : c.isRead = true)
    (hw1 : s1.Wf) (hw2 : s2.Wf) (same : (specHistory pre1 s1).1 = (specHistory pre2 s2).1) :
    (modelHistory (pre1 ++ [c]) s1).2.getLast? = (modelHistory (pre2 ++ [c]) s2).2.getLast? := by
  rw [read_after_history pre1 c s1 h1 hc hread hw1, read_after_history pre2 c s2 h2 hc hread hw2, same]
  simp

/-! ## 4. laws of the generated conversion tables (Gen/Tables.lean is rewritten from /repo on every run) -/

/-- the spec's own boot-device code table is a bijection onto the non-reserved selectors -/
theorem spec_bootdev_code_inverse (d : BootDev) : BootDev.ofCode d.code = some d := by
  cases d <;> rfl

/-- CONVERT_BOOT_DEVICE_TO_RAW agrees with IPMI table 28-14 for every device -/
theorem table_boot_device_to_raw (d : BootDev) : lookup bootDeviceToRaw (bootDevIdx d) = some d.code :=
  bootDeviceToRaw_spec d
/-- CONVERT_RAW_TO_BOOT_DEVICE agrees with IPMI table 28-14 for every selector 0..15 (reserved ↦ absent) -/
theorem table_raw_to_boot_device (c : Nat) (h : c < 16) :
    lookup rawToBootDevice c = (BootDev.ofCode c).map bootDevIdx :=
  rawToBootDevice_spec c h
/-- rawToBootDevice (bootDeviceToRaw d) = d -/
theorem table_boot_device_roundtrip (d : BootDev) :
    (lookup bootDeviceToRaw (bootDevIdx d)).bind (lookup rawToBootDevice) = some (bootDevIdx d) := by
  have hc : d.code < 16 := by cases d <;> decide
  rw [bootDeviceToRaw_spec, Option.bind_some, rawToBootDevice_spec _ hc, spec_bootdev_code_inverse]; rfl
/-- boot mode / persistency coding of boot_options_to_data against get_boot_mode / get_boot_persistency -/
theorem table_boot_flags_roundtrip (dev : BootDev) (efi persistent : Bool) (s : BmcState) :
    let s' := (api_set_boot_options dev efi persistent).run s |>.1
    get_boot_flags s' = { valid := true, persistent := persistent, efi := efi, device := dev.code } := by
  have hc : dev.code < 16 := by cases dev <;> decide
  simp only [set_boot_options_refines]
  cases efi <;> cases persistent <;>
    simp [get_boot_flags, set_boot_flags, set_boot_param, get_boot_param, Map.getD, Map.find?, Map.set, bitOf, bitsOf, b2n] <;>
    omega

/-- CONVERT_RAW_TO_USER_PRIVILEGE: codes 1..5 and Fh by meaning, every other code "reserved" -/
theorem table_raw_to_user_privilege (c : Nat) (h : c < 16) : (lookup rawToUserPrivilege c).getD 0 = privNorm c :=
  rawToUserPrivilege_spec c h
/-- CONVERT_USER_PRIVILEGE_TO_RAW: every nameable privilege is sent as its own code -/
theorem table_user_privilege_to_raw (p : Nat) (h : p ∈ privCodes) : lookup userPrivilegeToRaw p = some p :=
  userPrivilegeToRaw_spec p h
theorem table_user_privilege_roundtrip (p : Nat) (h : p ∈ privCodes) :
    ((lookup userPrivilegeToRaw p).bind (lookup rawToUserPrivilege)).getD 0 = p := by
  have hp : p < 16 := by simp [privCodes] at h; omega
  rw [userPrivilegeToRaw_spec p h, Option.bind_some, rawToUserPrivilege_spec p hp]
  simp [privCodes] at h; rcases h with rfl | rfl | rfl | rfl | rfl | rfl | rfl <;> rfl

/-- CONVERT_RAW_TO_IP_SRC: address-source codes 0..4 by meaning, reserved codes absent -/
theorem table_raw_to_ip_source (c : Nat) (h : c < 16) : lookup rawToIpSrc c = if c ≤ 4 then some c else none :=
  rawToIpSrc_spec c h
theorem table_ip_source_to_data : ipSrcToData = [(1, [1]), (2, [2])] := ipSrcToData_law

/-- `data_to_vlan (vlan_to_data v) = v` for every id the API accepts; larger ids are refused -/
theorem table_vlan_roundtrip (v : Nat) (h : v ≤ 4095) : (vlanToData v).bind dataToVlan = .ok v :=
  dataToVlan_vlanToData v h
theorem table_vlan_range (v : Nat) (h : 4095 < v) : vlanToData v = .pyError "ValueError" :=
  vlanToData_rejects v h

/-- IP / MAC address: what set_ip_address writes is what get_ip_address reads (formatting is the identity on
the byte list; the dotted / colon text is produced from it by the harness' canonicaliser) -/
theorem table_ip_roundtrip (ip : List Nat) (ch : Nat) (s : BmcState) (h : ch < 16) (hb : Bytes ip) :
    ((api_get_ip_address ch).run ((api_set_ip_address ip ch).run s).1).2 = .ok (.ip ip) := by
  rw [set_ip_address_refines ip ch s h hb, get_ip_address_refines ch _ h]
  simp [get_lan_param, set_lan_param, Map.getD, Map.find?, Map.set]

/-- LED function byte coding: 00h off, 01h..FAh blinking, FBh lamp test, FFh on -/
theorem table_led_function_codes :
    ledOff = 0 ∧ ledBlinkLo = 1 ∧ ledBlinkHi = 250 ∧ ledLampTest = 251 ∧ ledOn = 255 :=
  led_constants_law
/-- LedState.to_request followed by the BMC's parser: every expressible command arrives as itself -/
theorem table_led_request_roundtrip (c : LedCmd) (hc : c.InRange) :
    (ledToRequest c).bind (fun (f, n, col) => match parseLedCmd f n col with | some c' => .ok c' | none => .encodingError)
      = .ok c := by
  obtain ⟨c0, c1, c2, c3, c4⟩ := led_constants_law
  cases c with
  | restoreLocal => exact absurd hc (by simp [LedCmd.InRange])
  | lampTest d color =>
    obtain ⟨h3, h4⟩ := hc
    simp [ledToRequest, parseLedCmd, c3, Nat.mod_eq_of_lt, *]
  | override fn color =>
    cases fn with
    | off => have h4 : color < 16 := hc; simp [ledToRequest, parseLedCmd, ledFnOfBytes, c0, Nat.mod_eq_of_lt, *]
    | on => have h4 : color < 16 := hc; simp [ledToRequest, parseLedCmd, ledFnOfBytes, c4, Nat.mod_eq_of_lt, *]
    | blink o n =>
      obtain ⟨h3, h4, h5, h6⟩ := hc
      have : o ≠ 0 := by omega
      have : o ≠ 255 := by omega
      have : o ≠ 251 := by omega
      have : o ≠ 252 := by omega
      simp [ledToRequest, parseLedCmd, ledFnOfBytes, c1, c2, Nat.mod_eq_of_lt, *]
/-- blinking off-durations outside 1..250 cannot be requested (EncodingError before any request) -/
theorem table_led_blink_range (o n color : Nat) (h : o = 0 ∨ 250 < o) :
    ledToRequest (.override (.blink o n) color) = .encodingError := by
  obtain ⟨_, c1, c2, _, _⟩ := led_constants_law
  simp only [ledToRequest, c1, c2]
  rw [if_neg (by omega)]
/-- wrapper methods pass the codes their names promise -/
theorem table_wrapper_constants :
    chassisControlOption = [0, 1, 2, 3, 4, 5] ∧ fruControlOption = [0, 1, 2, 3] ∧
    fruActivationControl = [0, 1] ∧ policyCtrl = [0, 1, 2, 3] :=
  ⟨chassisControlOption_law, fruControlOption_law, fruActivationControl_law, policyCtrl_law⟩

/-! ## 5. the operations that were defective as shipped (kept as model variants, `Model.Api.Variant`; the
harness probes the real code and uses the matching variant, so that the check fires again if a defect returns) -/

/-- a BMC whose LED 2 of FRU 1 is overridden to blink 50 ms off / 70 ms on, colour 3 -/
def ledState : BmcState := (run (.setLedState 1 2 (.override (.blink 5 7) 3)) {}).1

/-- `LedState._from_response` as shipped reports the override ON-duration as the off-duration and no
on-duration: it does NOT refine the BMC — while the intended decoder does (`read_get_led_state`). -/
theorem shipped_led_decoder_wrong :
    ledState.Wf ∧
    ((api_get_led_state_shipped 1 2).run ledState).2 ≠ .ok (.led (get_led_view 1 2 ledState)) ∧
    ((api_get_led_state 1 2).run ledState).2 = .ok (.led (get_led_view 1 2 ledState)) := by
  have hw : ledState.Wf := wf_run _ _ (by simp [Call.InRange, LedCmd.InRange]) wf_init
  refine ⟨hw, ?_, ?_⟩
  · simp [api_get_led_state_shipped, getLedState, ledViewShipped, ledFnOf, api_eval, ledState, run, set_led, get_led,
      get_led_view, LedFn.view, fmtLed, ledFnByte, ledOnByte, dfltLed, ledKey, Map.getD, Map.find?, Map.set, n2b, b2n,
      led_constants_law.1, led_constants_law.2.1, led_constants_law.2.2.1, led_constants_law.2.2.2.2]
  · rw [read_get_led_state 1 2 ledState (by decide) (by decide) hw]

/-- a BMC whose port (interface 0, channel 5) has no link -/
def noLinkState : BmcState := { ports := (({} : Map Port).set (portKey 0 5) { hasLink := false }) }

/-- `get_port_state` as shipped raises UnboundLocalError when the port has no link; the intended one returns
`(None, None)` as the oracle says -/
theorem shipped_port_state_wrong :
    ((api_get_port_state_shipped 5 0).run noLinkState).2 = .pyError "UnboundLocalError" ∧
    ((api_get_port_state 5 0).run noLinkState).2 = .ok (.port none) := by
  constructor <;>
    simp [api_get_port_state_shipped, api_get_port_state, getPortState, api_eval, noLinkState, get_port, fmtPort,
      bitsOf, portKey, Map.getD, Map.find?, Map.set]

/-- `get_lan_config_param(channel, …, revision_only=1)` AS SHIPPED: for EVERY channel, selector and BMC state the
request on the wire is `80h 00h 00h 00h` — channel 0, parameter 0 — and the call returns the empty data, which
is never the parameter revision of the addressed channel; the intended operation returns exactly that. -/
theorem shipped_lan_revision_only_wrong (ch sel setSel blk : Nat) (s : BmcState)
    (h : ch < 16 ∧ sel < 256 ∧ setSel < 256 ∧ blk < 256) :
    (api_get_lan_config_param_shipped ch sel setSel blk true).request =
        .ok { netfn := 0x0c, lun := 0, cmd := 0x02, data := [0x80, 0, 0, 0] } ∧
    ((api_get_lan_config_param_shipped ch sel setSel blk true).run s).2 ≠ (run (.getLanParam ch sel setSel blk true) s).2.toOutcome ∧
    ((api_get_lan_config_param ch sel setSel blk true).run s).2 = (run (.getLanParam ch sel setSel blk true) s).2.toOutcome := by
  obtain ⟨h1, h2⟩ := get_lan_config_param_shipped_revision_only ch sel setSel blk s
  refine ⟨h1, ?_, ?_⟩
  · rw [h2]; simp [run, Result.toOutcome]
  · rw [read_get_lan_config_param ch sel setSel blk true s h]; simp [run, Result.toOutcome]

/-- the addressed object matters: two channels of one BMC with different parameter revisions — the intended
operation tells them apart, the as-shipped one gives the same (empty) answer for both -/
def twoRevState : BmcState := { lanRev := (({} : Map Nat).set (lanKey 1 3) 0x11).set (lanKey 2 3) 0x21 }

theorem shipped_lan_revision_only_ignores_channel :
    twoRevState.Wf ∧
    ((api_get_lan_config_param 1 3 0 0 true).run twoRevState).2 = .ok (.nat 0x11) ∧
    ((api_get_lan_config_param 2 3 0 0 true).run twoRevState).2 = .ok (.nat 0x21) ∧
    ((api_get_lan_config_param_shipped 1 3 0 0 true).run twoRevState).2 =
      ((api_get_lan_config_param_shipped 2 3 0 0 true).run twoRevState).2 := by
  have hw : twoRevState.Wf :=
    { wf_init with lanRev := ((Map.All.empty _).set _ _ (by decide)).set _ _ (by decide) }
  refine ⟨hw, ?_, ?_, ?_⟩
  · rw [read_get_lan_config_param 1 3 0 0 true _ (by decide)]; decide
  · rw [read_get_lan_config_param 2 3 0 0 true _ (by decide)]; decide
  · rw [(get_lan_config_param_shipped_revision_only 1 3 0 0 _).2, (get_lan_config_param_shipped_revision_only 2 3 0 0 _).2]

/-- `query_rollback_status()` AS SHIPPED: for EVERY BMC state the result is not the rollback status the BMC
holds, and it does not depend on the component mask at all (two BMCs that differ only in the mask of the
rolled-back components give the same result); the intended operation returns the mask and the estimate. -/
theorem shipped_rollback_status_wrong (s : BmcState) (mask : Nat) :
    (api_query_rollback_status_shipped.run s).2 ≠ (run .queryRollbackStatus s).2.toOutcome ∧
    (api_query_rollback_status_shipped.run { s with hpm := { s.hpm with rollbackStatus := mask } }).2 =
      (api_query_rollback_status_shipped.run s).2 ∧
    (api_query_rollback_status.run s).2 = (run .queryRollbackStatus s).2.toOutcome := by
  refine ⟨?_, ?_, ?_⟩
  · rw [query_rollback_status_shipped_run]; simp [run, Result.toOutcome]
  · rw [query_rollback_status_shipped_run, query_rollback_status_shipped_run]
  · rw [read_query_rollback_status]; simp [run, Result.toOutcome]

/-- sensor 7 (LUN 0) right after `rearm_sensor_events(7)`: the BMC flags reading/state unavailable while its
response still carries the state bytes from before the re-arm -/
def rearmedState : BmcState := (run (.rearmSensorEvents 7) {}).1

/-- `get_sensor_reading` AS SHIPPED hands those stale state bits to the caller (`(None, 0xc7)`); the oracle —
and the intended operation — say `(None, None)`. -/
theorem shipped_sensor_reading_wrong :
    rearmedState.Wf ∧
    (run (.getSensorReading 7 0) rearmedState).2 = .optNatPair none none ∧
    ((api_get_sensor_reading_shipped 7 0).run rearmedState).2 = .ok (.optNatPair none (some 0xc7)) ∧
    ((api_get_sensor_reading 7 0).run rearmedState).2 = .ok (.optNatPair none none) := by
  have hw : rearmedState.Wf := wf_run _ _ (by simp [Call.InRange]) wf_init
  refine ⟨hw, by decide, ?_, ?_⟩
  · simp [api_get_sensor_reading_shipped, getSensorReading, statesOf, api_eval, rearmedState, run, rearm_sensor, get_sensor,
      fmtSensorReading, dfltSensor, sensorKey, Map.getD, Map.find?, Map.set, b2n]
  · rw [read_get_sensor_reading 7 0 _ (by decide) hw]; decide

/-- an IPMC with three components: "IPMC", `fw\update`, `A\u0042C` (printable ASCII, as HPM.1 asks) -/
def descrState : BmcState :=
  { hpm := { components := 7,
             compDescr := ((({} : Map (List Nat)).set 0 [73, 80, 77, 67]).set 1 [102, 119, 92, 117, 112, 100, 97, 116, 101]).set 2
               [65, 92, 117, 48, 48, 52, 50, 67] } }

/-- `get_component_property(id, PROPERTY_DESCRIPTION_STRING)` AS SHIPPED runs the description through
`raw_unicode_escape`: component 1 (`fw\update`) cannot be read at all (UnicodeDecodeError), component 2
(`A\u0042C`) is reported as `ABC`; the intended operation returns the characters the IPMC holds. -/
theorem shipped_component_description_wrong :
    descrState.Wf ∧
    ((api_get_component_description_shipped 1).run descrState).2 = .pyError "UnicodeDecodeError" ∧
    ((api_get_component_description_shipped 2).run descrState).2 = .ok (.text [65, 66, 67]) ∧
    ((api_get_component_description 1).run descrState).2 = .ok (.text [102, 119, 92, 117, 112, 100, 97, 116, 101]) ∧
    ((api_get_component_description 2).run descrState).2 = .ok (.text [65, 92, 117, 48, 48, 52, 50, 67]) ∧
    ((api_get_component_description_shipped 0).run descrState).2 = ((api_get_component_description 0).run descrState).2 := by
  have hw : descrState.Wf :=
    { wf_init with
      hpmComponents := by decide
      hpmDescr := (((Map.All.empty _).set _ _ (descrWfB_sound (by decide))).set _ _ (descrWfB_sound (by decide))).set _ _
        (descrWfB_sound (by decide)) }
  refine ⟨hw, by decide, by decide, ?_, ?_, by decide⟩
  · rw [read_get_component_description 1 _ (by decide) hw]; decide
  · rw [read_get_component_description 2 _ (by decide) hw]; decide

/-- `set_fan_level(fru_id, fan_level)` AS SHIPPED puts FOUR bytes on the wire (`00 fru lvl 00`) for every argument: a
fan tray with the R1.0/R2.0 command set answers C7h and sets nothing, an R3.0 one executes it and reads the fourth
byte as "local control disabled".  FRU 3 of the power-on BMC is an R2.0 tray, FRU 2 an R3.0 tray with local
control enabled: the as-shipped call fails on the first and switches local control off on the second; the
intended call sets the override level on both and leaves local control alone. -/
theorem shipped_set_fan_level_wrong (fru lvl : Nat) (s : BmcState) (h1 : fru < 256) (h2 : lvl < 256) :
    (api_set_fan_level_shipped fru lvl).request = .ok { netfn := 0x2c, lun := 0, cmd := 0x15, data := [0, fru, lvl, 0] } ∧
    (api_set_fan_level_shipped fru lvl).run s =
      (if (get_fan fru s).r3 then (set_fan_level fru lvl (some 0) s, .ok .unit) else (s, .ccError 0xc7)) ∧
    (api_set_fan_level fru lvl).run s = present (run (.setFanLevel fru lvl) s) ∧
    (api_set_fan_level_shipped 3 9).run {} = ({}, .ccError 0xc7) ∧
    (get_fan 2 ((api_set_fan_level_shipped 2 9).run {}).1).localEnabled = some 0 ∧
    (get_fan 2 (run (.setFanLevel 2 9) {}).1).localEnabled = some 1 ∧
    (get_fan 3 (run (.setFanLevel 3 9) {}).1).overrideLevel = 9 := by
  obtain ⟨q1, q2⟩ := set_fan_level_shipped_run fru lvl s h1 h2
  refine ⟨q1, q2, ?_, ?_, ?_, by decide, by decide⟩
  · rw [write_set_fan_level fru lvl s h1 h2]; simp [run, present, Result.toOutcome]
  · rw [(set_fan_level_shipped_run 3 9 {} (by decide) (by decide)).2]; decide
  · rw [(set_fan_level_shipped_run 2 9 {} (by decide) (by decide)).2]; decide

/-- an OEM link (link type F0h = `LinkDescriptor.TYPE_OEM0`, four lanes, extension 1, grouping 77h) -/
def oemPort : Port := { hasLink := true, flags := 15, linkType := 0xf0, ext := 1, grouping := 0x77, state := 1 }
/-- a BMC whose fabric channel 5 carries that link -/
def oemState : BmcState := (run (.setPortState 1 5 oemPort) {}).1

/-- `set_port_state(LinkDescriptor(type=TYPE_OEM0, …), ENABLE)` AS SHIPPED tells the BMC about a link of type 00h (the
4-bit request member cuts F0h), and `get_port_state` of a channel that carries an F0h link returns `type = 0,
sig_class = 15`, which no published constant names; the intended operations write F0h and read `TYPE_OEM0`. -/
theorem shipped_oem_link_type_wrong :
    oemState.Wf ∧
    (get_port 1 5 ((api_set_port_state_type8_shipped 1 5 oemPort).run {}).1).linkType = 0 ∧
    (get_port 1 5 ((api_set_port_state_type8 1 5 oemPort).run {}).1).linkType = 0xf0 ∧
    ((getPortState false 5 1 true).run oemState).2 =
      .ok (.port (some { channel := 5, iface := 1, flags := 15, linkType := 0, sigClass := 15, ext := 1, grouping := 0x77, state := 1 })) ∧
    ((api_get_port_state 5 1).run oemState).2 =
      .ok (.port (some { channel := 5, iface := 1, flags := 15, linkType := 0xf0, sigClass := 0, ext := 1, grouping := 0x77, state := 1 })) := by
  have hr : (Call.setPortStateType8 1 5 oemPort).InRange := by
    refine ⟨by decide, by decide, rfl, ⟨by decide, by decide, by decide⟩, by decide, by decide⟩
  have hw : oemState.Wf := wf_run (.setPortState 1 5 oemPort) _ hr wf_init
  refine ⟨hw, ?_, ?_, ?_, ?_⟩
  · rw [set_port_state_type8_shipped_run 1 5 oemPort {} hr]; decide
  · rw [write_set_port_state_type8 1 5 oemPort {} hr]; decide
  · rw [get_port_state_split_run 5 1 oemState (by decide) (by decide) (port_wf 1 5 oemState hw) (by decide)]; decide
  · rw [read_get_port_state 5 1 oemState (by decide) (by decide) hw]; decide

/-- `get_sensor_reading` AS SHIPPED (`states1 | states2 << 8`): whenever the response of a conforming BMC carries
both state bytes, the result has bit 15 set - "state 15", which no sensor has: it is the reserved bit 7 of byte 5
("returned as 1b, ignore on read", IPMI table 35-15).  The intended operation returns the mask of the states 0..14. -/
theorem shipped_sensor_state15_wrong (num lun : Nat) (s : BmcState) (h : num < 256) (hw : s.Wf) (a b : Nat)
    (hu : (get_sensor lun num s).unavailable = false)
    (h1 : (get_sensor lun num s).states1 = some a) (h2 : (get_sensor lun num s).states2 = some b) :
    ((getSensorReading false num lun true).run s).2 =
      .ok (.optNatPair (some (get_sensor lun num s).reading) (some (a + 256 * b + 0x8000))) ∧
    ((api_get_sensor_reading num lun).run s).2 = .ok (.optNatPair (some (get_sensor lun num s).reading) (some (a + 256 * b))) ∧
    (run (.getSensorReading num lun) s).2 = .optNatPair (some (get_sensor lun num s).reading) (some (a + 256 * b)) := by
  refine ⟨?_, ?_, ?_⟩
  · rw [get_sensor_reading_rawbit_run num lun s h (sensor_wf lun num s hw) a b hu h1 h2]
  · rw [read_get_sensor_reading num lun s h hw]; simp [get_sensor_reading, hu, h1, h2]
  · simp [run, get_sensor_reading, hu, h1, h2]

/-- …and such sensors exist: sensor 2 on LUN 0 of the power-on BMC answers `11 C0 C2 86` - states 1, 6, 7, 9, 10 -/
example :
    (get_sensor 0 2 {}).unavailable = false ∧ (get_sensor 0 2 {}).states1 = some 0xc2 ∧ (get_sensor 0 2 {}).states2 = some 6 ∧
    (handle {} { netfn := 4, lun := 0, cmd := 0x2d, data := [2] }).2 = [0, 0x11, 0xc0, 0xc2, 0x86] := by
  decide

/-! ## non-vacuity: the hypotheses are satisfiable by non-trivial objects, the conclusions say something -/

/-- a concrete history: writes of five families, then reads (one of them through a second "connection":
the model has none, which is the point) -/
def demoHistory : List Call :=
  [.setWatchdog { timerUse := 4, dontStop := false, dontLog := true, action := 1, preInterrupt := 2,
                  preInterval := 9, clearFlags := 0x3e, initial := 0x1234 },
   .setBootOptions .remoteCd true false,
   .setVlan 394 1,
   .setUserName 2 [97, 98],
   .setSensorThresholds 7 1 [some 10, none, none, some 200, none, some 255],
   .setLedState 1 2 (.override (.blink 5 7) 3),
   .getWatchdog, .getBootDevice, .getVlan 1, .getUserName 2, .getSensorThresholds 7 1, .getLedState 1 2, .getBootDevice]

private theorem demo_in_range : ∀ c ∈ demoHistory, c.InRange := by
  intro c hc
  simp [demoHistory] at hc
  rcases hc with rfl | rfl | rfl | rfl | rfl | rfl | rfl | rfl | rfl | rfl | rfl | rfl | rfl <;>
    simp [Call.InRange, LedCmd.InRange]
  intro i v h
  rcases i with _ | _ | _ | _ | _ | _ | n <;> simp at h <;> omega

/-- the oracle's reading of the demo history is not trivial: what was written comes back -/
example :
    ((specHistory demoHistory {}).2.drop 6).take 3 =
      [.watchdog { timerUse := 4, dontLog := true, running := false, action := 1, preInterrupt := 2, preInterval := 9,
                   expFlags := 0, initial := 0x1234, present := 0x1234 },
       .bootDev (some .remoteCd), .nat 394] := by
  decide

/-- the MODEL, played against the byte-level BMC, returns exactly that (instance of `history_refines`) -/
example :
    (modelHistory demoHistory {}).2 = (specHistory demoHistory {}).2.map Result.toOutcome :=
  congrArg Prod.snd (history_refines demoHistory {} demo_in_range wf_init)

/-- a conforming state that is far from the power-on state -/
example : (specHistory demoHistory {}).1.Wf ∧ (specHistory demoHistory {}).1 ≠ {} := by
  exact ⟨(history_refines_wf demoHistory {} demo_in_range wf_init).2, by decide⟩

/-- the generic step on the operations added for the second audit round: an HPM.1 description with a backslash, an
OEM link type handed over as `TYPE_OEM0`, a fan level for an R2.0 tray (FRU 3 of the power-on BMC) - hypotheses
satisfied, results not trivial -/
example :
    runModel (.getComponentDescription 1) descrState = present (run (.getComponentDescription 1) descrState) ∧
    (run (.getComponentDescription 1) descrState).2 = .text [102, 119, 92, 117, 112, 100, 97, 116, 101] ∧
    (run (.getComponentDescription 5) descrState).2 = .error 0x82 ∧
    runModel (.setPortStateType8 1 5 oemPort) {} = present (run (.setPortStateType8 1 5 oemPort) {}) ∧
    (get_port 1 5 (run (.setPortStateType8 1 5 oemPort) {}).1).linkType = 0xf0 ∧
    runModel (.setFanLevel 3 9) {} = present (run (.setFanLevel 3 9) {}) ∧
    (get_fan 3 {}).r3 = false ∧ (get_fan 3 (run (.setFanLevel 3 9) {}).1).overrideLevel = 9 := by
  refine ⟨model_refines_oracle _ _ (by simp [Call.InRange]) shipped_component_description_wrong.1, by decide, by decide,
    model_refines_oracle _ _ ?_ wf_init, by decide, model_refines_oracle _ _ (by simp [Call.InRange]) wf_init, by decide, by decide⟩
  exact ⟨by decide, by decide, rfl, ⟨by decide, by decide, by decide⟩, by decide, by decide⟩

/-- in-range predicates are not vacuous at their borders: VLAN 4095 is accepted and comes back, 4096 is refused -/
example : (vlanToData 4095).bind dataToVlan = .ok 4095 ∧ vlanToData 4096 = .pyError "ValueError" := by
  exact ⟨table_vlan_roundtrip 4095 (by decide), table_vlan_range 4096 (by decide)⟩

end PyIpmi.Props.C07
