/-
  C07 — High-level API operations mean what they say to a conforming BMC.  (under construction)
-/
import PyIpmi.Spec.Bmc
namespace PyIpmi.Props.C07
open PyIpmi PyIpmi.Spec.Bmc

/-- the spec's own boot-device code table is a bijection onto the non-reserved selectors -/
theorem spec_bootdev_code_inverse (d : BootDev) : BootDev.ofCode d.code = some d := by
  cases d <;> rfl

end PyIpmi.Props.C07
