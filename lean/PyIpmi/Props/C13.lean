/-
  C13 — Retry/reservation loops terminate and follow protocol for all outcome sequences.

  Objects: `runChunk` (helper.get_sdr_chunk_helper), `runClear` (helper.clear_repository_helper over
  helper._clear_repository), `runSend` (Ipmi.send_message) from Model/Retry.lean, run against an
  outcome script = ANY finite sequence of letters {completed, inProgress, resCancelled, timeout,
  respUnavailable, nodeBusy, other c} followed by any letter repeated for ever (so every infinite
  outcome sequence is covered on the prefix a run can consume), with the constants `K` read from
  the source on this run (`Gen/Loops11.lean`).  The trace lists every call the helper made to the
  callables it was given (reserve_fn / clear_fn / send_fn / interface.send_and_receive) with the
  outcome it got.  Every theorem is for ALL scripts and ALL budgets (no length or budget bound).

  * source_shape                     — loop tests / decrements / else-branches read from the source are
                                       the ones the model hard-wires
  * chunk_bounded, clear_bounded, send_bounded
                                     — explicit request budgets f(b): ≤ 2(b−1) / ≤ 4(b−1)+1 / ≤ b calls;
                                       the models are structurally recursive on the budget, so each run
                                       terminates for every outcome sequence (no fuel, no partiality)
  * fresh_reservation_chunk/_clear   — every chunk / clear request carries the most recently obtained
                                       reservation (the caller's until the first renewal)
  * erase_before_poll                — a status poll is only ever sent after an initiate-erase that
                                       completed
  * success_iff_last_status_complete — the helper returns normally iff its last call was a status
                                       poll answered "erase completed"
  * unexpected_code_propagates_*     — a completion code without a branch ends the run with exactly
                                       that CompletionCodeError
  * exhaustion_is_retryError_*       — if every answer was a retry/renew/in-progress one the run ends
                                       in RetryError after exactly the budget (never a hang)
  * send_repeats_only_after_busy     — intended send_message: every transfer but the last was
                                       answered node-busy, at most `retry` transfers
  * send_success_is_returned         — a transfer answered OK is the result, on whichever attempt of the budget
  * send_as_shipped_retries_other_codes — the pinned send_message violates it (witness)

  Record-chunk fetching above the chunk helper — get_sdr_data_helper over `_get_sdr_chunk` /
  `_get_device_sdr_chunk` and the entries generators (`getSdrData`, `sdrList` of Model/SdrXfer.lean,
  the model C11 uses) — over ANY transport `x` (any device, any outcome sequence), both stores, with
  and without a caller-supplied reservation; the trace is the list of exchanges (request, response):

  * fresh_reservation_data / _listing — intended variant (the renewed id is handed back by the chunk
                                       reader, kept by the helper, passed on to the next record):
                                       every Get (Device) SDR request carries the id returned by the
                                       most recent Reserve of that store in the operation (the
                                       caller's id before the first one), whatever its offset
  * fresh_reservation_every_get      — the same, position by position (`heldAfter` of the prefix)
  * stale_after_renewal_as_shipped   — as shipped the id obtained after a cancellation stays in the
                                       per-chunk request: the next chunk and the next record are
                                       sent with the cancelled id (witness; intended: fresh)
  * data_requests_bounded            — at most 8 exchanges per chunk read
  * chunk_reserve_outcomes / clear_reserve_outcomes
                                     — reserve_fn itself may fail (the Reserve command answered node busy /
                                       timeout / any other code; `runChunkR`, `runClearR`: a plan of outcomes for
                                       the reserve calls, first one and renewals): same request bounds, freshness,
                                       and the CompletionCodeError of a refused Reserve is what the helper ends
                                       with, nothing is called after it.  `reserve_plan_empty_is_old_model`: with
                                       an empty plan this IS the environment of the theorems above
  * chunk_bounded_no_answer / clear_bounded_no_answer / send_bounded_no_answer
                                     — BOTH forms of "timeout" (Model/RetryNoAnswer.lean: alphabet `LetterX` = an answer
                                       of the alphabet above, C3h included, or NO ANSWER - the callable `send_fn` /
                                       `clear_fn` / `reserve_fn` / `interface.send_and_receive` raises IpmiTimeoutError;
                                       same loops, environment `EnvX`, reserve outcomes planned too): the request
                                       bounds of chunk_bounded / clear_bounded / send_bounded for every script over
                                       that alphabet, every reserve plan and every budget
  * no_answer_propagates_chunk / _clear / _send
                                     — an unanswered call (request, clear, transfer or Reserve) ends the run with
                                       IpmiTimeoutError and is the last call the helper made: nothing is repeated
                                       behind it, the counter is not touched (seeded change C13g: a second decrement
                                       behind the exception steps over `retry == 0`)
  * source_variant                   — the variants read from today's source ARE the intended ones (SDR reads,
                                       send_message, the two SEL loops): a regression stops the build here

  The two loops of pyipmi/sel.py (Model/SelXfer.lean, the model C12 uses) on an outcome script
  (Model/SelScript.lean: one letter per Get / Delete SEL Entry; a letter with code 0 is served - "completed
  with k bytes, 0 ≤ k ≤ requested": in step with the letters run the caps `Caps` that cut the answer short,
  `some 0` = `00 next-lo next-hi` without a record byte; the Reserve SEL requests have their own outcome list):

  * sel_entry_unbounded_as_shipped   — get_sel_entry, every request answered CAh: for EVERY fuel the pinned
                                       loop uses all of it (max_req_len FFh, 16 … 1, 0, −1 …): no bound exists
  * sel_entry_unbounded_on_empty_answers — every variant WITHOUT the empty-answer stop (the pinned tree and the
                                       tree after 8f8257b): every Get completed without a record byte - for
                                       EVERY fuel, `fuel` identical requests (offset 0, FFh) and no result
  * sel_entry_bounded / _bounded_any_peer — repaired: at most 33 requests whatever the outcome sequence, short
                                       and empty answers included (17 lengths FFh, 16 … 1 and one request per
                                       byte) - and against ANY peer whatsoever (any state, any answers)
  * sel_entry_bounded_if_progress    — the empty answer is the only hole of the tree after 8f8257b: with ≥ 1 byte
                                       in every completed answer that loop is bounded by 33 as well
  * sel_entry_empty_answer_gives_up / sel_entry_gives_up — repaired: RetryError on the empty answer itself (one
                                       request); CAh for ever = RetryError after exactly 17 requests
  * sel_get_and_clear_unbounded_as_shipped — every Get answered C5h: n rounds for every n, never a result
  * sel_get_and_clear_never_returns_on_empty_answers — without the empty-answer stop the retry budget (934f8f8)
                                       is never consulted: one Reserve, then the inner read uses all its fuel
  * sel_get_and_clear_bounded / _bounded_any_peer / _gives_up — repaired: at most 35 requests per round of the
                                       budget, whatever the Get / Delete / Reserve outcomes (any peer); C5h for
                                       ever = RetryError after 2·budget requests
  * sel_reserve_failure_propagates   — any peer, either variant: a Reserve SEL (first or renewal) answered with
                                       a completion code ends the call with that CompletionCodeError, nothing
                                       is sent after it
  * sel_unexpected_code_propagates   — a Get SEL Entry answered with a code other than 00h / CAh ends
                                       get_sel_entry with exactly that code (request was the last)
-/
import PyIpmi.Lemmas.Retry
import PyIpmi.Lemmas.RetryReserve
import PyIpmi.Lemmas.RetryNoAnswer
import PyIpmi.Lemmas.SdrXferFresh
import PyIpmi.Lemmas.SelScript
import PyIpmi.Gen.Loops11
import PyIpmi.Gen.Loops10
namespace PyIpmi.Props.C13
open PyIpmi PyIpmi.Model.Retry

/-- the constants of today's source -/
abbrev K : Consts := PyIpmi.Gen.Loops11.consts

theorem source_shape : PyIpmi.Gen.Loops11.retryShape = RetryShape.expected := by decide

/-! ### bounded (hence terminating) for every outcome sequence and every budget -/

theorem chunk_bounded (b res : Nat) (s : Script) :
    (runChunk K b res s).1.trace.length ≤ 2 * (b - 1) ∧
    (runChunk K b res s).1.trace.countP Ev.isChunk ≤ b - 1 ∧
    (runChunk K b res s).1.trace.countP Ev.isReserve ≤ b - 1 := by
  obtain ⟨ext, hx, h⟩ := chunkS_bounded K b ⟨s, res, []⟩ res
  have : (runChunk K b res s).1.trace = ext := by simpa [Extends, runChunk, runSend] using hx
  rw [this]; exact h

theorem clear_bounded (b : Nat) (reservation : Option Nat) (s : Script) :
    (runClear K b reservation s).1.trace.length ≤ 4 * (b - 1) + 1 ∧
    (runClear K b reservation s).1.trace.countP Ev.isClear ≤ 2 * (b - 1) :=
  ⟨runClear_bounded K b reservation s, runClear_clear_calls K b reservation s⟩

theorem send_bounded (v : SendVariant) (b : Nat) (s : Script) :
    (runSend K v b s).1.trace.length ≤ b := by
  obtain ⟨ext, hx, h, _⟩ := sendS_spec K v b ⟨s, 0, []⟩
  have : (runSend K v b s).1.trace = ext := by simpa [Extends, runChunk, runSend] using hx
  rw [this]; exact h

/-! ### most recently obtained reservation -/

theorem fresh_reservation_chunk (b res : Nat) (s : Script) : Fresh res (runChunk K b res s).1.trace := by
  obtain ⟨ext, hx, h⟩ := chunkS_fresh K b ⟨s, res, []⟩ res
  have : (runChunk K b res s).1.trace = ext := by simpa [Extends, runChunk, runSend] using hx
  rw [this]; exact h

/-- with a caller-supplied reservation `r` the first requests carry `r`; without one the run starts
by reserving (so the start value is irrelevant). -/
theorem fresh_reservation_clear (b : Nat) (reservation : Option Nat) (s : Script) :
    Fresh (reservation.getD 0) (runClear K b reservation s).1.trace :=
  runClear_fresh K b reservation s

/-! ### protocol order and meaning of success -/

theorem clearAct_done_iff (l : Letter) : clearAct K l = .done ↔ l = .completed := by
  cases l <;> simp [clearAct, Letter.status?, Letter.code, K, PyIpmi.Gen.Loops11.consts]
  rename_i c
  by_cases h1 : c = 197 <;> by_cases h2 : c = 0 <;> simp [h1, h2]

theorem erase_before_poll (b : Nat) (reservation : Option Nat) (s : Script)
    (pre : List Ev) (r : Nat) (l : Letter) (post : List Ev)
    (h : (runClear K b reservation s).1.trace = pre ++ Ev.clear K.ctrlStatus r l :: post) :
    ∃ r', Ev.clear K.ctrlInitiate r' .completed ∈ pre := by
  obtain ⟨r', l', hm, hd⟩ := runClear_initiate_first K (by decide) b reservation s pre r l post h
  rw [clearAct_done_iff] at hd
  subst hd
  exact ⟨r', hm⟩

theorem success_iff_last_status_complete (b : Nat) (reservation : Option Nat) (s : Script) :
    (runClear K b reservation s).2 = .ok () ↔
      ∃ pre r, (runClear K b reservation s).1.trace = pre ++ [Ev.clear K.ctrlStatus r .completed] := by
  rw [runClear_success_iff K (by decide)]
  constructor
  · intro ⟨pre, r, l, h, hd⟩
    rw [clearAct_done_iff] at hd; subst hd
    exact ⟨pre, r, h⟩
  · intro ⟨pre, r, h⟩
    exact ⟨pre, r, .completed, h, (clearAct_done_iff _).mpr rfl⟩

/-! ### unexpected completion codes propagate -/

theorem unexpected_code_propagates_clear (b : Nat) (reservation : Option Nat) (s : Script)
    (c r : Nat) (l : Letter) (hm : Ev.clear c r l ∈ (runClear K b reservation s).1.trace)
    (h1 : l ≠ .completed) (h2 : l ≠ .inProgress) (h3 : l.code ≠ 0xC5) (h4 : l.code ≠ 0) :
    (runClear K b reservation s).2 = .ccError l.code := by
  apply runClear_propagates K b reservation s c r l l.code hm
  cases l <;> simp_all [clearAct, Letter.status?, Letter.code, K, PyIpmi.Gen.Loops11.consts]

theorem unexpected_code_propagates_chunk (b res : Nat) (s : Script) (r : Nat) (l : Letter)
    (hm : Ev.chunk r l ∈ (runChunk K b res s).1.trace)
    (h : l.code ≠ 0 ∧ l.code ≠ 0xC5 ∧ l.code ≠ 0xC3 ∧ l.code ≠ 0xCE) :
    (runChunk K b res s).2 = .ccError l.code := by
  obtain ⟨ext, hx, _, h2, _⟩ := chunkS_outcome K b ⟨s, res, []⟩ res
  have ht : (runChunk K b res s).1.trace = ext := by simpa [Extends, runChunk, runSend] using hx
  rw [ht] at hm
  exact h2 r l hm h

theorem unexpected_code_propagates_send (b : Nat) (s : Script) (l : Letter)
    (hm : Ev.xfer l ∈ (runSend K .intended b s).1.trace) (h0 : l.code ≠ 0) (h1 : l.code ≠ 0xC0) :
    (runSend K .intended b s).2 = .ccError l.code := by
  obtain ⟨ext, hx, _, _, _, h4, _⟩ := sendS_spec K .intended b ⟨s, 0, []⟩
  have ht : (runSend K .intended b s).1.trace = ext := by simpa [Extends, runChunk, runSend] using hx
  rw [ht] at hm
  exact h4 rfl l hm h0 h1

/-! ### exhaustion is RetryError (never a hang), after exactly the budget -/

theorem exhaustion_is_retryError_chunk (b res : Nat) (s : Script) (hb : 1 ≤ b)
    (h : ∀ r l, Ev.chunk r l ∈ (runChunk K b res s).1.trace → l.code = 0xC5 ∨ l.code = 0xC3 ∨ l.code = 0xCE) :
    (runChunk K b res s).2 = .retryError ∧ (runChunk K b res s).1.trace.countP Ev.isChunk = b - 1 := by
  obtain ⟨ext, hx, _, _, h3⟩ := chunkS_outcome K b ⟨s, res, []⟩ res
  have ht : (runChunk K b res s).1.trace = ext := by simpa [Extends, runChunk, runSend] using hx
  rw [ht] at h ⊢
  apply h3 hb
  intro r l hm
  have := h r l hm
  simp only [chunkUnexpected, K, PyIpmi.Gen.Loops11.consts]
  omega

theorem exhaustion_is_retryError_clear (b : Nat) (reservation : Option Nat) (s : Script)
    (h : ∀ c r l, Ev.clear c r l ∈ (runClear K b reservation s).1.trace → l = .inProgress ∨ l.code = 0xC5) :
    (runClear K b reservation s).2 = .retryError := by
  apply runClear_exhaustion
  intro c r l hm
  rcases h c r l hm with rfl | hc
  · left; simp [clearAct, Letter.status?]
  · right
    cases l <;> simp_all [clearAct, Letter.status?, Letter.code, K, PyIpmi.Gen.Loops11.consts]

theorem exhaustion_is_retryError_send (v : SendVariant) (b : Nat) (s : Script)
    (h : ∀ l, Ev.xfer l ∈ (runSend K v b s).1.trace → l.code = 0xC0) :
    (runSend K v b s).2 = .retryError ∧ (runSend K v b s).1.trace.length = b := by
  obtain ⟨ext, hx, _, _, _, _, h5⟩ := sendS_spec K v b ⟨s, 0, []⟩
  have ht : (runSend K v b s).1.trace = ext := by simpa [Extends, runChunk, runSend] using hx
  rw [ht] at h ⊢
  apply h5
  intro l hm
  have := h l hm
  exact ⟨by omega, fun _ => this⟩

/-! ### sending is repeated only after node-busy, at most `retry` times -/

theorem send_repeats_only_after_busy (b : Nat) (s : Script) :
    (∀ pre l post, (runSend K .intended b s).1.trace = pre ++ Ev.xfer l :: post → post ≠ [] → l = .nodeBusy ∨ l = .other 0xC0) ∧
    (runSend K .intended b s).1.trace.length ≤ b := by
  obtain ⟨ext, hx, h1, h2, _⟩ := sendS_spec K .intended b ⟨s, 0, []⟩
  have ht : (runSend K .intended b s).1.trace = ext := by simpa [Extends, runChunk, runSend] using hx
  rw [ht]
  refine ⟨?_, h1⟩
  intro pre l post he hp
  have := h2 rfl pre l post he hp
  cases l <;> simp_all [Letter.code, K, PyIpmi.Gen.Loops11.consts]

/-- A transfer answered OK (completion code 0) is the result: whatever came before it and whichever
attempt of the budget it was, `send_message` returns - it never reports a success as RetryError.
(Both variants; found missing when a seeded change turned a success on the last permitted attempt
into RetryError.) -/
theorem send_success_is_returned (v : SendVariant) (b : Nat) (s : Script) (l : Letter)
    (hm : Ev.xfer l ∈ (runSend K v b s).1.trace) (h0 : l.code = 0) :
    (runSend K v b s).2 = .ok () := by
  obtain ⟨ext, hx, _, _, h3, _⟩ := sendS_spec K v b ⟨s, 0, []⟩
  have ht : (runSend K v b s).1.trace = ext := by simpa [Extends, runChunk, runSend] using hx
  rw [ht] at hm
  exact h3 l hm h0

/-- the success may come on the last attempt the budget allows -/
example : (runSend K .intended 3 ⟨[.nodeBusy, .nodeBusy], .completed⟩).2 = .ok () ∧
    (runSend K .intended 3 ⟨[.nodeBusy, .nodeBusy], .completed⟩).1.trace.length = 3 := by decide

/-- As shipped, a completion code other than node-busy is retried as well and finally reported as
RetryError: three transfers for a single 0xC1 answer stream. -/
theorem send_as_shipped_retries_other_codes :
    (runSend K .asShipped 3 ⟨[], .other 0xC1⟩).1.trace = [.xfer (.other 0xC1), .xfer (.other 0xC1), .xfer (.other 0xC1)] ∧
    (runSend K .asShipped 3 ⟨[], .other 0xC1⟩).2 = .retryError ∧
    (runSend K .intended 3 ⟨[], .other 0xC1⟩).1.trace = [.xfer (.other 0xC1)] ∧
    (runSend K .intended 3 ⟨[], .other 0xC1⟩).2 = .ccError 0xC1 := by decide

/-! ### non-vacuity: concrete runs -/

/-- the sequence of tests/test_helper.py -/
example : (runClear K 5 none ⟨[.completed, .inProgress, .completed], .completed⟩).1.trace =
    [.reserve 1, .clear 0xAA 1 .completed, .clear 0 1 .inProgress, .clear 0 1 .completed] ∧
    (runClear K 5 none ⟨[.completed, .inProgress, .completed], .completed⟩).2 = .ok () := by decide

/-- a renewal in each phase: the new reservation is used from then on -/
example : (runClear K 5 (some 7) ⟨[.resCancelled, .completed, .resCancelled, .completed], .completed⟩).1.trace =
    [.clear 0xAA 7 .resCancelled, .reserve 8, .clear 0xAA 8 .completed,
     .clear 0 8 .resCancelled, .reserve 9, .clear 0 9 .completed] := by decide

example : (runClear K 3 none ⟨[], .inProgress⟩).2 = .retryError ∧
    (runClear K 3 none ⟨[], .inProgress⟩).1.trace.length = 3 := by decide

example : (runClear K 5 none ⟨[.completed, .timeout], .completed⟩).2 = .ccError 0xC3 := by decide

example : (runChunk K 5 3 ⟨[.timeout, .resCancelled, .respUnavailable], .completed⟩).1.trace =
    [.chunk 3 .timeout, .chunk 3 .resCancelled, .reserve 4, .chunk 4 .respUnavailable, .chunk 4 .completed] ∧
    (runChunk K 5 3 ⟨[.timeout, .resCancelled, .respUnavailable], .completed⟩).2 = .ok () := by decide

example : (runChunk K 5 3 ⟨[], .resCancelled⟩).2 = .retryError ∧
    (runChunk K 5 3 ⟨[], .resCancelled⟩).1.trace.length = 8 := by decide

example : (runSend K .intended 3 ⟨[.nodeBusy], .completed⟩).1.trace = [.xfer .nodeBusy, .xfer .completed] ∧
    (runSend K .intended 3 ⟨[.nodeBusy], .completed⟩).2 = .ok () := by decide

example : (runSend K .intended 3 ⟨[], .nodeBusy⟩).2 = .retryError := by decide

/-! ### record-chunk fetching above the chunk helper: the most recently obtained reservation -/

section sdr
open PyIpmi.Model.SdrXfer PyIpmi.Spec.Sdr
open PyIpmi.Gen.Loops11 (xconsts)

/-- the intended variant: both repairs of C11 and the renewed id handed on -/
theorem intended_variant : Variant.intended.staleRes = false ∧ ∀ s, Variant.intended.renew s = s :=
  ⟨rfl, fun s => by cases s <;> rfl⟩

/-- **get_repository_sdr / get_device_sdr.**  For EVERY transport `x` (any device, any sequence of
outcomes), either store, any record id, with a caller-supplied reservation `r` (`res? = some r`) or
without (`none`; then `cur0` is irrelevant: the operation starts with its own Reserve): in the
exchange trace of the read every Get (Device) SDR request - header read, chunks, repeats after
C3h / C5h / CEh / CAh - carries the reservation id held at that point. -/
theorem fresh_reservation_data {σ : Type} (x : Xport σ) (dev : σ) (s : Store) (id : Nat) (res? : Option Nat)
    (cur0 : Nat) :
    freshTrace s (res?.getD cur0)
      (getSdrData K xconsts Variant.intended (traced x) s (dev, []) id res?).1.2 = true := by
  obtain ⟨res', h, _⟩ := getSdrDataR_fresh x Variant.intended intended_variant.1 s (intended_variant.2 s)
    (dev, []) id res? cur0
  exact h.fresh rfl

/-- **sdr_repository_entries / device_sdr_entries / get_*_sdr_list.**  The same over a whole listing:
the id a read ends with is the one the next record is requested with. -/
theorem fresh_reservation_listing {σ : Type} (x : Xport σ) (dev : σ) (s : Store) (fuel : Nat) (cur0 : Nat) :
    freshTrace s cur0 (sdrList K xconsts Variant.intended (traced x) s fuel (dev, [])).1.2 = true := by
  obtain ⟨res', h⟩ := sdrList_fresh x Variant.intended intended_variant.1 s (intended_variant.2 s) fuel (dev, []) cur0
  exact h.fresh rfl

/-- Position by position: the Get at index `i` of the trace carries (in its 16-bit field) the id
returned by the last Reserve of that store among the exchanges before it - `heldAfter` of the
prefix; the caller's id when there is none.  In particular every partial read (offset ≠ 0). -/
theorem fresh_reservation_every_get {σ : Type} (x : Xport σ) (dev : σ) (s : Store) (id : Nat) (res? : Option Nat)
    (fuel : Nat) (cur0 : Nat) (i res rid off cnt : Nat) (a : Rsp) :
    ((getSdrData K xconsts Variant.intended (traced x) s (dev, []) id res?).1.2[i]? = some (.get s res rid off cnt, a) →
      res = heldAfter s (res?.getD cur0)
        ((getSdrData K xconsts Variant.intended (traced x) s (dev, []) id res?).1.2.take i) % 65536) ∧
    ((sdrList K xconsts Variant.intended (traced x) s fuel (dev, [])).1.2[i]? = some (.get s res rid off cnt, a) →
      res = heldAfter s cur0 ((sdrList K xconsts Variant.intended (traced x) s fuel (dev, [])).1.2.take i) % 65536) :=
  ⟨freshTrace_get (fresh_reservation_data x dev s id res? cur0) i res rid off cnt a,
   freshTrace_get (fresh_reservation_listing x dev s fuel cur0) i res rid off cnt a⟩

/-- what `heldAfter` computes: the id of the last Reserve of the store that was answered with one -/
example : heldAfter .repo 7 [(.reserve .repo, .reserved 8), (.get .repo 8 1 0 5, .err 0xC5), (.reserve .dev, .reserved 3),
    (.reserve .repo, .err 0xC3), (.reserve .repo, .reserved 9)] = 9 ∧
    heldAfter .repo 7 [(.get .repo 7 1 0 5, .data 2 [])] = 7 := by decide

/-- as the tree stands after the C11 repairs: the renewed id is still dropped -/
def staleVariant : Variant := { Variant.intended with staleRes := true }

/-- a 30-byte record (header + 20 + 5) and a 10-byte one -/
def recP : List Nat := [1, 0, 0x51, 0xC0, 25] ++ (List.range 25).map (· + 1)
def recQ : List Nat := [2, 0, 0x51, 0xC0, 5, 9, 8, 7, 6, 5]

/-- outcome sequence "completed, reservation cancelled, then completed for ever" -/
def onceCancelled : ScriptDev := ⟨⟨[.completed, .resCancelled], .completed⟩, 0, [recP, recQ]⟩

/-- **As shipped.**  One cancellation (the second Get is answered C5h): the chunk helper renews
(id 2) and repeats the chunk with it - and the next chunk is sent with the cancelled id 1 again; in
a listing so is every request of the following record.  Both reads return the right bytes: only the
trace shows it (on a device, each of those requests costs C5h, a sleep and one more Reserve).  The
intended variant sends id 2 from the renewal on. -/
theorem stale_after_renewal_as_shipped :
    (getSdrData K xconsts staleVariant (traced scriptX) .repo (onceCancelled, []) 1 none).1.2.map Prod.fst =
      [.reserve .repo, .get .repo 1 1 0 5, .get .repo 1 1 5 20, .reserve .repo, .get .repo 2 1 5 20, .get .repo 1 1 25 5] ∧
    freshTrace .repo 0 (getSdrData K xconsts staleVariant (traced scriptX) .repo (onceCancelled, []) 1 none).1.2 = false ∧
    (getSdrData K xconsts Variant.intended (traced scriptX) .repo (onceCancelled, []) 1 none).1.2.map Prod.fst =
      [.reserve .repo, .get .repo 1 1 0 5, .get .repo 1 1 5 20, .reserve .repo, .get .repo 2 1 5 20, .get .repo 2 1 25 5] ∧
    ((sdrList K xconsts staleVariant (traced scriptX) .dev 3 (onceCancelled, [])).1.2.map Prod.fst).drop 6 =
      [.get .dev 1 2 0 5, .get .dev 1 2 5 5] ∧
    ((sdrList K xconsts Variant.intended (traced scriptX) .dev 3 (onceCancelled, [])).1.2.map Prod.fst).drop 6 =
      [.get .dev 2 2 0 5, .get .dev 2 2 5 5] ∧
    (sdrList K xconsts staleVariant (traced scriptX) .dev 3 (onceCancelled, [])).2 = .ok [recP, recQ] ∧
    (sdrList K xconsts Variant.intended (traced scriptX) .dev 3 (onceCancelled, [])).2 = .ok [recP, recQ] := by
  decide

/-- the id obtained by a renewal that is followed by "cannot return number of requested bytes" is
not lost either: the CompletionCodeError carries it (the refused 20-byte read was sent with the new
id 2, so is the 16-byte one that follows) -/
example : (getSdrData K xconsts Variant.intended (traced scriptX) .repo
      (⟨⟨[.completed, .resCancelled, .other 0xCA], .completed⟩, 0, [recP]⟩, []) 1 none).1.2.map Prod.fst =
    [.reserve .repo, .get .repo 1 1 0 5, .get .repo 1 1 5 20, .reserve .repo, .get .repo 2 1 5 20, .get .repo 2 1 5 16,
     .get .repo 2 1 21 9] := by decide

/-- a caller-supplied reservation is what the requests carry until the first renewal -/
example : (getSdrData K xconsts Variant.intended (traced scriptX) .repo (onceCancelled, []) 2 (some 700)).1.2.map Prod.fst =
    [.get .repo 700 2 0 5, .get .repo 700 2 5 5, .reserve .repo, .get .repo 1 2 5 5] := by decide

/-- **Bounded.**  Whatever the device answers, a record read issues at most 161 requests: its own
Reserve, then the header read and up to 19 chunk reads of at most 4 Gets and 4 renewals each (either
variant, either store; a listing is that per record). -/
theorem data_requests_bounded {σ : Type} (x : Xport σ) (dev : σ) (v : Variant) (s : Store) (id : Nat) (res? : Option Nat) :
    (getSdrData K xconsts v (traced x) s (dev, []) id res?).1.2.length ≤ 161 := by
  obtain ⟨ext, h, hl⟩ := getSdrDataR_grows x v s (dev, []) id res?
  have h' : (getSdrData K xconsts v (traced x) s (dev, []) id res?).1.2 = ext := by
    show (getSdrDataR K xconsts v (traced x) s (dev, []) id res?).1.2 = ext
    simpa using h
  rw [h']
  exact hl

/-- … and a device that cancels every reservation makes the read end in RetryError after the header
read and 4 Gets + 4 renewals of the first chunk (never a hang) -/
example : (getSdrData K xconsts Variant.intended (traced scriptX) .repo
      (⟨⟨[.completed], .resCancelled⟩, 0, [recP]⟩, []) 1 none).2 = .retryError ∧
    (getSdrData K xconsts Variant.intended (traced scriptX) .repo
      (⟨⟨[.completed], .resCancelled⟩, 0, [recP]⟩, []) 1 none).1.2.length = 10 := by decide

end sdr

/-! ### both forms of "timeout": the callable may also give NO ANSWER (it raises IpmiTimeoutError) -/

section NoAnswer
open PyIpmi.Model.RetryNA

/-- get_sdr_chunk_helper, every script over the alphabet with "no answer", every reserve plan, every budget:
at most 2·(b−1) calls, at most b−1 of them requests. -/
theorem chunk_bounded_no_answer (b res : Nat) (s : ScriptX) (rp : List LetterX) :
    (runChunkX K b res s rp).1.trace.length ≤ 2 * (b - 1) ∧
    (runChunkX K b res s rp).1.trace.countP EvX.isChunk ≤ b - 1 :=
  ⟨(runChunkX_spec K b res s rp).1, (runChunkX_spec K b res s rp).2.1⟩

/-- clear_repository_helper: at most 4·(b−1)+1 calls, at most 2·(b−1) of them clear requests. -/
theorem clear_bounded_no_answer (b : Nat) (reservation : Option Nat) (s : ScriptX) (rp : List LetterX) :
    (runClearX K b reservation s rp).1.trace.length ≤ 4 * (b - 1) + 1 ∧
    (runClearX K b reservation s rp).1.trace.countP EvX.isClear ≤ 2 * (b - 1) :=
  ⟨(runClearX_spec K b reservation s rp).1, (runClearX_spec K b reservation s rp).2.1⟩

/-- Ipmi.send_message (either variant): at most b transfers. -/
theorem send_bounded_no_answer (v : SendVariant) (b : Nat) (s : ScriptX) :
    (runSendX K v b s).1.trace.length ≤ b :=
  (runSendX_spec K v b s).1

/-- a request or a renewal of get_sdr_chunk_helper that got no answer ends the helper with IpmiTimeoutError and
is the last call it made -/
theorem no_answer_propagates_chunk (b res : Nat) (s : ScriptX) (rp : List LetterX) (ev : EvX)
    (hm : ev ∈ (runChunkX K b res s rp).1.trace) (hna : ev.isNA = true) :
    (runChunkX K b res s rp).2 = .timeoutError ∧ (runChunkX K b res s rp).1.trace.getLast? = some ev :=
  (runChunkX_spec K b res s rp).2.2 ev hm hna

/-- the same for clear_repository_helper: its own first Reserve, a clear request or a renewal in either phase -/
theorem no_answer_propagates_clear (b : Nat) (reservation : Option Nat) (s : ScriptX) (rp : List LetterX) (ev : EvX)
    (hm : ev ∈ (runClearX K b reservation s rp).1.trace) (hna : ev.isNA = true) :
    (runClearX K b reservation s rp).2 = .timeoutError ∧
    (runClearX K b reservation s rp).1.trace.getLast? = some ev :=
  (runClearX_spec K b reservation s rp).2.2 ev hm hna

/-- the same for Ipmi.send_message, as shipped and intended: a transfer without answer is not repeated -/
theorem no_answer_propagates_send (v : SendVariant) (b : Nat) (s : ScriptX) (ev : EvX)
    (hm : ev ∈ (runSendX K v b s).1.trace) (hna : ev.isNA = true) :
    (runSendX K v b s).2 = .timeoutError ∧ (runSendX K v b s).1.trace.getLast? = some ev :=
  (runSendX_spec K v b s).2 ev hm hna

end NoAnswer

/-! ### reserve_fn can fail: node busy / timeout / any other error on the Reserve request itself -/

/-- get_sdr_chunk_helper, reserve outcomes scripted too (`rp`: outcome of the 1st, 2nd … renewal):
for ALL scripts, plans and budgets the bound and the freshness of `chunk_bounded` /
`fresh_reservation_chunk` still hold, and a refused renewal ends the helper with exactly that
CompletionCodeError - the refused Reserve is the last call it made. -/
theorem chunk_reserve_outcomes (b res : Nat) (s : Script) (rp : List Letter) :
    (runChunkR K b res s rp).1.env.trace.length ≤ 2 * (b - 1) ∧
    Fresh res (runChunkR K b res s rp).1.env.trace ∧
    ∀ c, Ev.reserveFailed c ∈ (runChunkR K b res s rp).1.env.trace →
      (runChunkR K b res s rp).2 = .ccError c ∧
      (runChunkR K b res s rp).1.env.trace.getLast? = some (.reserveFailed c) :=
  runChunkR_spec K b res s rp

/-- clear_repository_helper: the helper's own first Reserve (no caller reservation) and the renewals of
both phases may be refused: at most 4·(b−1)+1 calls, every clear request carries the most recent
reservation, a refused Reserve is propagated and nothing is called after it. -/
theorem clear_reserve_outcomes (b : Nat) (reservation : Option Nat) (s : Script) (rp : List Letter) :
    (runClearR K b reservation s rp).1.env.trace.length ≤ 4 * (b - 1) + 1 ∧
    Fresh (reservation.getD 0) (runClearR K b reservation s rp).1.env.trace ∧
    ∀ c, Ev.reserveFailed c ∈ (runClearR K b reservation s rp).1.env.trace →
      (runClearR K b reservation s rp).2 = .ccError c ∧
      (runClearR K b reservation s rp).1.env.trace.getLast? = some (.reserveFailed c) :=
  runClearR_spec K b reservation s rp

/-- with no failure planned the environment is the one of `chunk_bounded` … above -/
theorem reserve_plan_empty_is_old_model (b res : Nat) (s : Script) :
    (runChunkR K b res s []).1.env = (runChunk K b res s).1 ∧ (runChunkR K b res s []).2 = (runChunk K b res s).2 :=
  runChunkR_nil K b res s

/-- first Reserve of the clear helper answered node busy: nothing else is sent -/
example : (runClearR K 5 none ⟨[], .completed⟩ [.nodeBusy]).1.env.trace = [.reserveFailed 0xC0] ∧
    (runClearR K 5 none ⟨[], .completed⟩ [.nodeBusy]).2 = .ccError 0xC0 := by decide

/-- the renewal in the poll phase times out: CompletionCodeError(C3h) after initiate, poll, Reserve -/
example : (runClearR K 5 (some 7) ⟨[.completed, .resCancelled], .completed⟩ [.timeout]).1.env.trace =
      [.clear 0xAA 7 .completed, .clear 0 7 .resCancelled, .reserveFailed 0xC3] ∧
    (runClearR K 5 (some 7) ⟨[.completed, .resCancelled], .completed⟩ [.timeout]).2 = .ccError 0xC3 := by decide

/-- chunk helper: first renewal granted, second refused with D3h -/
example : (runChunkR K 5 3 ⟨[.resCancelled, .resCancelled], .completed⟩ [.completed, .other 0xD3]).1.env.trace =
      [.chunk 3 .resCancelled, .reserve 4, .chunk 4 .resCancelled, .reserveFailed 0xD3] ∧
    (runChunkR K 5 3 ⟨[.resCancelled, .resCancelled], .completed⟩ [.completed, .other 0xD3]).2 = .ccError 0xD3 := by decide

/-! ### the tree is the repaired one -/

/-- The variants the translators read from today's source - SDR reads (CAh branch repeats the read,
each chunk reader renews its own store, the renewed id is handed on), send_message (only node-busy
is repeated), the SEL loops (max_req_len has a floor, get-and-clear a retry budget, an empty completed
answer ends the read) - are the
intended ones the theorems of this file are about.  A regression of any of them stops the build. -/
theorem source_variant :
    PyIpmi.Gen.Loops11.variantRead = PyIpmi.Model.SdrXfer.Variant.intended ∧
    PyIpmi.Gen.Loops11.sendVariantRead = SendVariant.intended ∧
    PyIpmi.Gen.Loops10.selVariant = PyIpmi.SelXfer.Variant.intended := by decide

/-! ### the two loops of pyipmi/sel.py: get_sel_entry (record-chunk fetching by partial reads),
get_and_clear_sel_entry (reservation loop) -/

section sel
open PyIpmi.SelXfer
open PyIpmi.FruXfer (Send World Xchg)

/-- the constants of today's pyipmi/sel.py are the ones the lemmas are made for -/
theorem sel_constants_ok : PyIpmi.Gen.Loops10.selCfg = stdCfg := by decide

/-- the scripted SEL device: one 16-byte record, outcome script `s` for Get / Delete SEL Entry, in step
with it the caps `cp` (how many record bytes a completed Get carries at most: completed with k bytes,
0 ≤ k ≤ requested), outcome list `rp` for the Reserve SEL requests -/
def selDev (s : Script) (cp : Caps) (rp : List Letter) : ScriptSel :=
  ⟨s, cp, rp, 0, [0x01, 0x00, 0x02, 1, 2, 3, 4, 0x20, 0, 4, 1, 0x10, 0x6F, 0xA1, 0xB2, 0xC3], 0xFFFF⟩

/-- **As shipped, get_sel_entry never gives up.**  Every Get SEL Entry answered CAh ("cannot return
number of requested data bytes"): whatever fuel the model is given, ALL of it is used - `fuel`
requests and still no result; there is no bound.  (The length asked for goes FFh, 16, 15 … 1, 0 and
then wraps: −1 is FFh on the wire.) -/
theorem sel_entry_unbounded_as_shipped (fuel rid res : Nat) (cp : Caps) (rp : List Letter) :
    (entryLoop stdCfg .asShipped scriptSend fuel ⟨selDev ⟨[], .other 0xCA⟩ cp rp, []⟩ res rid 255 []).out
      = .pyError "nontermination" ∧
    (entryLoop stdCfg .asShipped scriptSend fuel ⟨selDev ⟨[], .other 0xCA⟩ cp rp, []⟩ res rid 255 []).w.trace.length
      = fuel := by
  have := entry_spins fuel ⟨selDev ⟨[], .other 0xCA⟩ cp rp, []⟩ res rid 255 [] rfl
  simpa using this

/-- the first 20 lengths on the wire, as shipped: FFh, 16 … 1, 0, FFh (= −1), FEh -/
example : ((entryLoop stdCfg .asShipped scriptSend 20 ⟨selDev ⟨[], .other 0xCA⟩ .full [], []⟩ 5 1 255 []).w.trace.map
      fun x => x.req.payload.getD 5 0) =
    [0xFF, 16, 15, 14, 13, 12, 11, 10, 9, 8, 7, 6, 5, 4, 3, 2, 1, 0, 0xFF, 0xFE] := by decide

/-- **Without the empty-answer stop, get_sel_entry never gives up on a device that "completes" every
Get SEL Entry without a record byte** (`00 FF FF`: completion code 00h, next record id, no data) -
the pinned tree and the tree after 8f8257b (`Variant.floored`) alike: whatever fuel the model is
given, ALL of it is used on `fuel` IDENTICAL requests (offset 0, "entire record") and there is still
no result.  Nothing is appended, so the offset never advances; nothing is refused, so the floor of
the request length is never reached. -/
theorem sel_entry_unbounded_on_empty_answers (v : Variant) (hv : v.emptyStop = false) (fuel rid res : Nat)
    (rp : List Letter) :
    (entryLoop stdCfg v scriptSend fuel ⟨selDev ⟨[], .completed⟩ .zero rp, []⟩ res rid 255 []).out
      = .pyError "nontermination" ∧
    (entryLoop stdCfg v scriptSend fuel ⟨selDev ⟨[], .completed⟩ .zero rp, []⟩ res rid 255 []).w.trace
      = List.replicate fuel ⟨getReq res rid 0 255, [0, 0xFF, 0xFF]⟩ := by
  have := entry_spins_empty v hv fuel ⟨selDev ⟨[], .completed⟩ .zero rp, []⟩ res rid 255 [] rfl rfl (by simp)
  have e1 : wireByte (reqLen stdCfg 255 0) = 255 := by decide
  have e2 : (selDev ⟨[], .completed⟩ .zero rp).next = 0xFFFF := rfl
  refine ⟨this.1, ?_⟩
  rw [this.2]
  simp [e1, e2]

/-- the tree after 8f8257b is such a variant: all 64 requests of the model's fuel are used, no result -/
example : (runEntry stdCfg .floored (selDev ⟨[], .completed⟩ .zero []) 5 0).out = .pyError "nontermination" ∧
    (runEntry stdCfg .floored (selDev ⟨[], .completed⟩ .zero []) 5 0).w.trace.length = 64 := by decide

/-- **Repaired, bounded for every outcome sequence** - also when "completed" answers carry fewer bytes
than asked for, or none: get_sel_entry ends after at most 33 requests (17 request lengths FFh,
16 … 1, and at worst one request per byte of the record), never out of fuel.  Every answer is a step
down of the length (CAh), at least one byte of progress, or the end of the call. -/
theorem sel_entry_bounded (s : Script) (cp : Caps) (rp : List Letter) (rid res : Nat) :
    (runEntry stdCfg .intended (selDev s cp rp) rid res).out ≠ .pyError "nontermination" ∧
    (runEntry stdCfg .intended (selDev s cp rp) rid res).w.trace.length ≤ 33 := by
  have := entry_bound_gen .intended rfl scriptSend _ (progress_any .intended rfl scriptSend) entryFuel
    ⟨selDev s cp rp, []⟩ res rid 255 [] trivial (by simp) (Or.inl rfl) (by decide)
  have e33 : entryMeasure 255 [] = 33 := by decide
  refine ⟨this.1, ?_⟩
  have h := this.2.1
  rw [e33] at h
  have h' : (entryLoop stdCfg .intended scriptSend entryFuel ⟨selDev s cp rp, []⟩ res rid ((255 : Nat) : Int) []).w.trace.length ≤ 33 := by
    simpa using h
  exact h'

/-- **Repaired, bounded against ANY peer** - any state type, any function from requests to responses
(garbage, over-long answers, a different answer every time …): at most 33 requests, never out of fuel. -/
theorem sel_entry_bounded_any_peer {σ : Type} (send : Send σ) (dev : σ) (rid res : Nat) :
    (getSelEntry stdCfg .intended send ⟨dev, []⟩ rid res).out ≠ .pyError "nontermination" ∧
    (getSelEntry stdCfg .intended send ⟨dev, []⟩ rid res).w.trace.length ≤ 33 := by
  have := entry_bound_gen .intended rfl send _ (progress_any .intended rfl send) entryFuel
    ⟨dev, []⟩ res rid 255 [] trivial (by simp) (Or.inl rfl) (by decide)
  have e33 : entryMeasure 255 [] = 33 := by decide
  refine ⟨this.1, ?_⟩
  have h := this.2.1
  rw [e33] at h
  have h' : (entryLoop stdCfg .intended send entryFuel ⟨dev, []⟩ res rid ((255 : Nat) : Int) []).w.trace.length ≤ 33 := by
    simpa using h
  exact h'

/-- **The empty answer is the ONLY hole of the tree after 8f8257b**: when every completed answer
carries at least one byte (`cp.Positive`; short answers allowed), the loop WITHOUT the empty-answer
stop is bounded by the same 33 requests, whatever the outcome sequence. -/
theorem sel_entry_bounded_if_progress (s : Script) (cp : Caps) (hcp : cp.Positive) (rp : List Letter) (rid res : Nat) :
    (runEntry stdCfg .floored (selDev s cp rp) rid res).out ≠ .pyError "nontermination" ∧
    (runEntry stdCfg .floored (selDev s cp rp) rid res).w.trace.length ≤ 33 := by
  have := entry_bound_gen .floored rfl scriptSend _ (progress_script .floored) entryFuel
    ⟨selDev s cp rp, []⟩ res rid 255 [] ⟨rfl, hcp⟩ (by simp) (Or.inl rfl) (by decide)
  have e33 : entryMeasure 255 [] = 33 := by decide
  refine ⟨this.1, ?_⟩
  have h := this.2.1
  rw [e33] at h
  have h' : (entryLoop stdCfg .floored scriptSend entryFuel ⟨selDev s cp rp, []⟩ res rid ((255 : Nat) : Int) []).w.trace.length ≤ 33 := by
    simpa using h
  exact h'

/-- **Repaired, the empty answer itself**: RetryError, and the request it answered was the only one. -/
theorem sel_entry_empty_answer_gives_up (rp : List Letter) (rid res : Nat) :
    (runEntry stdCfg .intended (selDev ⟨[], .completed⟩ .zero rp) rid res).out = .retryError ∧
    (runEntry stdCfg .intended (selDev ⟨[], .completed⟩ .zero rp) rid res).w.trace.length = 1 := by
  have := entry_empty_gives_up .intended rfl 63 ⟨selDev ⟨[], .completed⟩ .zero rp, []⟩ res rid
    ((stdCfg.entire : Nat) : Int) [] rfl rfl (by simp)
  simpa [runEntry, getSelEntry, entryFuel] using this

/-- **Repaired, CAh for ever**: RetryError after exactly 17 requests. -/
theorem sel_entry_gives_up (cp : Caps) (rp : List Letter) (rid res : Nat) :
    (runEntry stdCfg .intended (selDev ⟨[], .other 0xCA⟩ cp rp) rid res).out = .retryError ∧
    (runEntry stdCfg .intended (selDev ⟨[], .other 0xCA⟩ cp rp) rid res).w.trace.length = 17 := by
  have := entry_gives_up .intended rfl ⟨selDev ⟨[], .other 0xCA⟩ cp rp, []⟩ rid res rfl
  simpa [runEntry] using this

/-- a device that serves one byte at a time is still read: FFh, 16 … 2 refused, then 16 × 1 byte -/
example : (runEntry stdCfg .intended (selDev ⟨List.replicate 16 (.other 0xCA), .completed⟩ .full []) 1 7).out =
      .ok ((selDev ⟨[], .completed⟩ .full []).entry, 0xFFFF) ∧
    (runEntry stdCfg .intended (selDev ⟨List.replicate 16 (.other 0xCA), .completed⟩ .full []) 1 7).w.trace.length = 32 := by
  decide

/-- a device that TRUNCATES instead of answering CAh - three bytes per "completed" answer whatever is
asked - is read correctly: six requests "entire record" at the offsets 0, 3 … 15 -/
example : (runEntry stdCfg .intended (selDev ⟨[], .completed⟩ ⟨[], some 3⟩ []) 1 7).out =
      .ok ((selDev ⟨[], .completed⟩ .full []).entry, 0xFFFF) ∧
    ((runEntry stdCfg .intended (selDev ⟨[], .completed⟩ ⟨[], some 3⟩ []) 1 7).w.trace.map
      fun x => (x.req.payload.getD 4 0, x.req.payload.getD 5 0)) =
      [(0, 255), (3, 255), (6, 255), (9, 255), (12, 255), (15, 255)] := by decide

/-- five bytes, CAh, two bytes, then nothing: RetryError at the fourth request (offset 7, 9 bytes asked) -/
example : (runEntry stdCfg .intended (selDev ⟨[.completed, .other 0xCA, .completed], .completed⟩
      ⟨[some 5, none, some 2], some 0⟩ []) 1 7).out = .retryError ∧
    ((runEntry stdCfg .intended (selDev ⟨[.completed, .other 0xCA, .completed], .completed⟩
      ⟨[some 5, none, some 2], some 0⟩ []) 1 7).w.trace.map
      fun x => (x.req.payload.getD 4 0, x.req.payload.getD 5 0)) = [(0, 255), (5, 255), (5, 11), (7, 9)] := by decide

/-- **As shipped, get_and_clear_sel_entry never gives up.**  Every Get SEL Entry answered C5h
("reservation cancelled"): n complete rounds - Reserve SEL, Get SEL Entry - for every n, and no result. -/
theorem sel_get_and_clear_unbounded_as_shipped (n rid : Nat) (cp : Caps) :
    (runGac stdCfg .asShipped n (selDev ⟨[], .resCancelled⟩ cp []) rid).out = .pyError "nontermination" ∧
    (runGac stdCfg .asShipped n (selDev ⟨[], .resCancelled⟩ cp []) rid).w.trace.length = 2 * n := by
  have := gac_spins .asShipped n ⟨selDev ⟨[], .resCancelled⟩ cp [], []⟩ rid rfl rfl
  simpa [runGac, gacExhausted, Variant.asShipped] using this

/-- **Without the empty-answer stop the retry budget of get_and_clear_sel_entry (934f8f8) is never
consulted** on a device that completes every Get SEL Entry without a record byte: whatever the budget
(≥ 1), ONE Reserve SEL and then the inner get_sel_entry uses all its fuel; no result, no RetryError. -/
theorem sel_get_and_clear_never_returns_on_empty_answers (v : Variant) (hv : v.emptyStop = false) (retry rid : Nat) :
    (runGac stdCfg v (retry + 1) (selDev ⟨[], .completed⟩ .zero []) rid).out = .pyError "nontermination" ∧
    (runGac stdCfg v (retry + 1) (selDev ⟨[], .completed⟩ .zero []) rid).w.trace.length = 1 + entryFuel := by
  have := gac_never_returns_empty v hv retry ⟨selDev ⟨[], .completed⟩ .zero [], []⟩ rid rfl rfl rfl
  simpa [runGac] using this

/-- **Repaired, bounded for every outcome sequence** of Get / Delete SEL Entry (short and empty answers
included) and of Reserve SEL, every budget: at most 35 requests per round (Reserve, ≤ 33 Get,
Delete), never out of fuel. -/
theorem sel_get_and_clear_bounded (s : Script) (cp : Caps) (rp : List Letter) (retry rid : Nat) :
    (runGac stdCfg .intended retry (selDev s cp rp) rid).out ≠ .pyError "nontermination" ∧
    (runGac stdCfg .intended retry (selDev s cp rp) rid).w.trace.length ≤ 35 * retry := by
  have := gac_bound_gen .intended rfl rfl scriptSend _ (progress_any .intended rfl scriptSend) retry
    ⟨selDev s cp rp, []⟩ rid trivial
  simpa [runGac] using this

/-- **Repaired, bounded against ANY peer**, every budget. -/
theorem sel_get_and_clear_bounded_any_peer {σ : Type} (send : Send σ) (dev : σ) (retry rid : Nat) :
    (getAndClear stdCfg .intended send retry ⟨dev, []⟩ rid).out ≠ .pyError "nontermination" ∧
    (getAndClear stdCfg .intended send retry ⟨dev, []⟩ rid).w.trace.length ≤ 35 * retry := by
  have := gac_bound_gen .intended rfl rfl send _ (progress_any .intended rfl send) retry ⟨dev, []⟩ rid trivial
  simpa using this

/-- **Repaired, C5h for ever**: RetryError after `retry` rounds = 2·retry requests. -/
theorem sel_get_and_clear_gives_up (retry rid : Nat) (cp : Caps) :
    (runGac stdCfg .intended retry (selDev ⟨[], .resCancelled⟩ cp []) rid).out = .retryError ∧
    (runGac stdCfg .intended retry (selDev ⟨[], .resCancelled⟩ cp []) rid).w.trace.length = 2 * retry := by
  have := gac_spins .intended retry ⟨selDev ⟨[], .resCancelled⟩ cp [], []⟩ rid rfl rfl
  simpa [runGac, gacExhausted, Variant.intended] using this

/-- **Reserve SEL refused** (node busy, timeout, any other code; the first Reserve or a renewal after
a cancellation), ANY peer, either variant: the call ends with exactly that CompletionCodeError and the
refused Reserve is the last request it made. -/
theorem sel_reserve_failure_propagates {σ : Type} (v : Variant) (send : Send σ) (dev : σ) (retry rid : Nat)
    (x : Xchg) (c : Nat) (hm : x ∈ (getAndClear stdCfg v send retry ⟨dev, []⟩ rid).w.trace)
    (hx : failedReserve x = some c) :
    (getAndClear stdCfg v send retry ⟨dev, []⟩ rid).out = .ccError c ∧
    (getAndClear stdCfg v send retry ⟨dev, []⟩ rid).w.trace.getLast? = some x := by
  obtain ⟨ext, h1, h2⟩ := gac_reserve_failure stdCfg v send rid retry ⟨dev, []⟩
  have h1' : (getAndClear stdCfg v send retry ⟨dev, []⟩ rid).w.trace = ext := by simpa using h1
  rw [h1'] at hm ⊢
  exact h2 x hm c hx

/-- **Unexpected completion codes propagate** (ANY peer, either variant): a Get SEL Entry answered
with a code other than 00h and CAh - timeout, node busy, response unavailable, reservation cancelled,
any other error - ends get_sel_entry with exactly that CompletionCodeError; it was the last request. -/
theorem sel_unexpected_code_propagates {σ : Type} (v : Variant) (send : Send σ) (dev : σ) (rid res : Nat)
    (x : Xchg) (c : Nat) (hm : x ∈ (getSelEntry stdCfg v send ⟨dev, []⟩ rid res).w.trace)
    (hx : refusedWith stdCfg x = some c) :
    (getSelEntry stdCfg v send ⟨dev, []⟩ rid res).out = .ccError c ∧
    (getSelEntry stdCfg v send ⟨dev, []⟩ rid res).w.trace.getLast? = some x := by
  obtain ⟨ext, h1, h2⟩ := entry_code_propagates stdCfg v send res rid entryFuel ⟨dev, []⟩ (stdCfg.entire : Int) []
  have h1' : (getSelEntry stdCfg v send ⟨dev, []⟩ rid res).w.trace = ext := by simpa [getSelEntry] using h1
  rw [h1'] at hm ⊢
  exact h2 x hm c hx

/-- the second Reserve (the renewal after a C5h) answered node-busy: CompletionCodeError(C0h), 3 requests -/
example : (runGac stdCfg .intended 5 (selDev ⟨[.resCancelled], .completed⟩ .full [.completed, .nodeBusy]) 1).out = .ccError 0xC0 ∧
    (runGac stdCfg .intended 5 (selDev ⟨[.resCancelled], .completed⟩ .full [.completed, .nodeBusy]) 1).w.trace.length = 3 := by
  decide

/-- one cancellation of the read, one of the delete, then success: reserve / read / delete three times -/
example : (runGac stdCfg .intended 5 (selDev ⟨[.resCancelled, .completed, .resCancelled], .completed⟩ .full []) 1).out =
      .ok (selDev ⟨[], .completed⟩ .full []).entry ∧
    ((runGac stdCfg .intended 5 (selDev ⟨[.resCancelled, .completed, .resCancelled], .completed⟩ .full []) 1).w.trace.map
      fun x => x.req.cmd) = [0x42, 0x43, 0x42, 0x43, 0x46, 0x42, 0x43, 0x46] := by decide

end sel

end PyIpmi.Props.C13
