/-
  C16 — SDR record parsing inverts the SDR formats.

  Property theorems only.  `SdrParse.parseSdr` is the executable model that mirrors
  `SdrCommon.from_data` and every `_from_data` of pyipmi/sdr.py (with fields.py / utils.py
  below it); `Spec.Sdr.*` are encoders and views written from IPMI v2.0 tables 43-1, -2, -3,
  -7, -8, -9, -12 and §43.15.  The dispatch table and the BCD map are regenerated from the
  working tree on every run (`Gen.SdrTables`), so the theorems that mention them are
  re-checked against what the code says now.

  Reading guide
  * `parse_encode_full` … `parse_encode_unknown`   parse ∘ encode = view, field by field, for
    every well-formed abstract record of each type (all field values, all id strings)
  * `m_reassembled`, `b_reassembled`, `accuracy_reassembled`, `exponents_signed`
    the split fields for ALL byte pairs;  `split_fields_roundtrip` composes them with the encoder
  * `id_string_roundtrip`     every id string, every encoding, every length
  * `dispatch_table`, `dispatch_by_type_byte`   the type byte alone selects the kind
  * `*_counterexample`        the pinned source (Variant.asShipped) violates the property:
    accuracy above 63, rate unit, modifier unit, id-string type code, BCD+ and 6-bit id strings
-/
import PyIpmi.Lemmas.SdrParse
namespace PyIpmi.Props.C16
open PyIpmi PyIpmi.SdrParse PyIpmi.Spec.Sdr

/-! ### parse ∘ encode = view, per record type -/

/-- Table 43-1.  Every attribute the table defines, M, B (10-bit two's complement split over
two bytes), accuracy (10 bits split 6+4), the exponents (4-bit two's complement), tolerance,
units, masks, thresholds, hysteresis and the id string.  `capabilities` is outside the
specification: it is whatever `_decode_capabilities` makes of byte 12. -/
theorem parse_encode_full (r : FullSensor) (h : r.wf = true) :
    parseSdr Variant.intended r.encode =
      .ok ⟨.full, r.view, [("capabilities", .list (capabilitiesOf r.capabilities))]⟩ :=
  parse_full r h

/-- Table 43-2. -/
theorem parse_encode_compact (r : CompactSensor) (h : r.wf = true) :
    parseSdr Variant.intended r.encode = .ok ⟨.compact, r.view, []⟩ :=
  parse_compact r h

/-- Table 43-3. -/
theorem parse_encode_eventOnly (r : EventOnly) (h : r.wf = true) :
    parseSdr Variant.intended r.encode = .ok ⟨.eventOnly, r.view, []⟩ :=
  parse_eventOnly r h

/-- Table 43-7. -/
theorem parse_encode_fruLocator (r : FruLocator) (h : r.wf = true) :
    parseSdr Variant.intended r.encode = .ok ⟨.fruLocator, r.view, []⟩ :=
  parse_fruLocator r h

/-- Table 43-8.  (`global_initialization` is a constant 0 in the library: outside the
specification's view.) -/
theorem parse_encode_mcLocator (r : McLocator) (h : r.wf = true) :
    parseSdr Variant.intended r.encode = .ok ⟨.mcLocator, r.view, [("global_initialization", .nat 0)]⟩ :=
  parse_mcLocator r h

/-- Table 43-9: 20-bit manufacturer id, 16-byte GUID read LS byte first. -/
theorem parse_encode_mcConfirmation (r : McConfirmation) (h : r.wf = true) :
    parseSdr Variant.intended r.encode = .ok ⟨.mcConfirmation, r.view, []⟩ :=
  parse_mcConfirmation r h

/-- Table 43-12: of an OEM record the header is interpreted (the library additionally exposes
the three manufacturer-id bytes under the names of a sensor key: `ex`). -/
theorem parse_encode_oem (r : Opaque) (h : r.wf = true) (ht : r.type = 0xC0) (hb : 3 ≤ r.body.length) :
    ∃ ex, parseSdr Variant.intended r.encode = .ok ⟨.oem, r.view, ex⟩ :=
  parse_oem r h ht hb

/-- Every other record type: the header, whatever the body. -/
theorem parse_encode_unknown (r : Opaque) (h : r.wf = true) (ht : kindOfType r.type = .unknown) :
    parseSdr Variant.intended r.encode = .ok ⟨.unknown, r.view, []⟩ :=
  parse_unknown r h ht

/-! ### split fields, for all byte pairs -/

/-- M: byte 25 holds the LS 8 bits, byte 26 [7:6] the MS 2 bits; the 10-bit pattern is read as
two's complement.  For ALL byte pairs. -/
theorem m_reassembled (b25 b26 : Nat) (h1 : b25 < 256) (h2 : b26 < 256) :
    Sensor.convertComplement ((b25 &&& 0xff) ||| ((b26 &&& 0xc0) <<< 2)) 10 = sint 10 (b25 + 256 * (b26 / 64)) :=
  tenbit_reassembled b25 b26 h1 h2

/-- B: bytes 27 and 28 [7:6], same layout as M. -/
theorem b_reassembled (b27 b28 : Nat) (h1 : b27 < 256) (h2 : b28 < 256) :
    Sensor.convertComplement ((b27 &&& 0xff) ||| ((b28 &&& 0xc0) <<< 2)) 10 = sint 10 (b27 + 256 * (b28 / 64)) :=
  tenbit_reassembled b27 b28 h1 h2

/-- accuracy: byte 28 [5:0] are the LS 6 bits, byte 29 [7:4] the MS 4 bits (intended `<< 2`). -/
theorem accuracy_reassembled (b28 b29 : Nat) (h2 : b29 < 256) :
    (b28 &&& 0x3f) ||| ((b29 &&& 0xf0) <<< 2) = b28 % 64 + 64 * (b29 / 16) :=
  accuracy_reassembled_bytes b28 b29 h2

/-- exponents: byte 30 [7:4] is K2 (R exponent), [3:0] is K1 (B exponent), 4-bit two's complement. -/
theorem exponents_signed (b30 : Nat) (h : b30 < 256) :
    Sensor.convertComplement ((b30 &&& 0xf0) >>> 4) 4 = sint 4 (b30 / 16) ∧
    Sensor.convertComplement (b30 &&& 0x0f) 4 = sint 4 (b30 % 16) :=
  exponents_signed_bytes b30 h

/-- Composed with the encoder: every M, B in [−512, 511], accuracy < 1024 and exponent in
[−8, 7] comes back (negative values included: sign extension is two's complement). -/
theorem split_fields_roundtrip (m b : Int) (tol acc accx dir : Nat) (k2 k1 : Int)
    (hm : -512 ≤ m ∧ m ≤ 511) (hb : -512 ≤ b ∧ b ≤ 511) (ht : tol < 64) (ha : acc < 1024)
    (hx : accx < 4) (hd : dir < 4) (h2 : -8 ≤ k2 ∧ k2 ≤ 7) (h1 : -8 ≤ k1 ∧ k1 ≤ 7) :
    sint 10 (twosComp 10 m) = m ∧ sint 10 (twosComp 10 b) = b ∧
    sint 4 (twosComp 4 k2) = k2 ∧ sint 4 (twosComp 4 k1) = k1 ∧
    (((twosComp 10 b / 256) * 64 + acc % 64) &&& 0x3f) |||
      ((((acc / 64) * 16 + accx * 4 + dir) &&& 0xf0) <<< 2) = acc ∧
    (((twosComp 10 m / 256) * 64 + tol) &&& 0x3f) = tol :=
  ⟨(sint_twosComp10 m hm.1 hm.2).2, (sint_twosComp10 b hb.1 hb.2).2,
   (sint_twosComp4 k2 h2.1 h2.2).2, (sint_twosComp4 k1 h1.1 h1.2).2,
   acc_enc _ acc accx dir ha hx hd, tol_enc _ tol ht⟩

/-! ### id strings -/

/-- Every id string (Unicode / BCD plus / 6-bit packed / 8-bit ASCII, any length the
type/length byte can express, trailing bytes allowed) reads back as type code, byte count and
text.  BCD plus uses the map regenerated from `utils.BCD_MAP`. -/
theorem id_string_roundtrip (s : IdString) (h : s.wf = true) (tail : List Nat) :
    idString Variant.intended (s.encode ++ tail) = .ok s.view :=
  idString_encode s h tail

/-! ### dispatch -/

/-- The dispatch table extracted from today's `from_data` is the table of §43 record type
numbers, for every type byte; the type byte is `data[3]`. -/
theorem dispatch_table (t : Nat) (h : t < 256) :
    kindOf t = kindOfType t ∧ Gen.SdrTables.typeIndex = typeByteIndex :=
  ⟨kindOf_eq t h, typeIndex_eq⟩

/-- The record type byte alone selects the kind of record returned — whatever the rest of the
record is, and for the code as shipped as well as repaired. -/
theorem dispatch_by_type_byte (v : Variant) (bs : List Nat) (hb : ∀ b ∈ bs, b < 256) (p : Parsed)
    (h : parseSdr v bs = .ok p) :
    ∃ t, bs[typeByteIndex]? = some t ∧ p.kind = kindOfType t := by
  unfold parseSdr at h
  rw [typeIndex_eq] at h
  cases ht : bs[typeByteIndex]? with
  | none => rw [ht] at h; simp at h
  | some t =>
    rw [ht] at h
    refine ⟨t, rfl, ?_⟩
    have htb : t < 256 := hb t (List.mem_of_getElem? ht)
    rw [← kindOf_eq t htb]
    match bs, h with
    | i0 :: i1 :: ver :: ty :: len :: body, h =>
      simp only at h
      cases hp : parseKind v (kindOf t) body with
      | ok x => rw [hp] at h; simp at h; rw [← h]
      | _ => rw [hp] at h; simp at h
    | [], h => simp at h
    | [_], h => simp at h
    | [_, _], h => simp at h
    | [_, _, _], h => simp at h
    | [_, _, _, _], h => simp at h

/-! ### the pinned source (as shipped) violates the property -/

/-- A full sensor record with every split field away from its trivial value: negative M, B
and exponents, accuracy above 63, all unit sub-fields set, channel bits next to the LUN. -/
def witness (ids : IdString) : FullSensor := {
  recordId := 0x1234, version := 0x51, ownerId := 0x20, channel := 5, ownerLun := 2, number := 7,
  entityId := 3, entityInstance := 0x61, initBits := 0x55, capabilities := 0x68, sensorType := 1,
  eventType := 1, assertionMask := 0x7a95, deassertionMask := 0x0a95, readingMask := 0x3f3f,
  analogFormat := 2, rateUnit := 5, modifierUnit := 3, percentage := 1, baseUnit := 1, modUnit := 2,
  linearization := 7, m := -3, tolerance := 33, b := -512, accuracy := 1000, accuracyExp := 2,
  sensorDirection := 1, rExp := -8, bExp := 7, analogFlags := 5, nominal := 100, normalMax := 200,
  normalMin := 50, sensorMax := 255, sensorMin := 0, unr := 250, ucr := 240, unc := 230, lnr := 5,
  lcr := 10, lnc := 20, posHysteresis := 2, negHysteresis := 3, oem := 0xAA, idString := ids }

/-- The value the parser reports for one attribute. -/
def attr (o : Outcome Parsed) (name : String) : Option Val :=
  match o with
  | .ok p => List.lookup name p.fields
  | _ => none

/-- accuracy 1000 (MS bits ≠ 0) is reported as 3880 by the code as shipped (`<< 4`). -/
theorem accuracy_counterexample :
    (witness (.ascii8 [65])).wf = true ∧
    attr (parseSdr Variant.asShipped (witness (.ascii8 [65])).encode) "accuracy" = some (.nat 3880) ∧
    attr (parseSdr Variant.intended (witness (.ascii8 [65])).encode) "accuracy" = some (.nat 1000) := by
  decide +kernel

/-- rate unit 5 is reported as 0 (`>> 7` instead of `& 7`), modifier unit 3 as 2 (`& 2`). -/
theorem units_counterexample :
    attr (parseSdr Variant.asShipped (witness (.ascii8 [65])).encode) "rate_unit" = some (.nat 0) ∧
    attr (parseSdr Variant.intended (witness (.ascii8 [65])).encode) "rate_unit" = some (.nat 5) ∧
    attr (parseSdr Variant.asShipped (witness (.ascii8 [65])).encode) "modifier_unit" = some (.nat 2) ∧
    attr (parseSdr Variant.intended (witness (.ascii8 [65])).encode) "modifier_unit" = some (.nat 3) := by
  decide +kernel

/-- the id-string type code 11b is reported as 12 (`>> 4` instead of `>> 6`). -/
theorem id_type_code_counterexample :
    attr (parseSdr Variant.asShipped (witness (.ascii8 [65])).encode) "device_id_string_type" = some (.nat 12) ∧
    attr (parseSdr Variant.intended (witness (.ascii8 [65])).encode) "device_id_string_type" = some (.nat 3) := by
  decide +kernel

/-- a BCD plus id string makes the code as shipped raise AttributeError; repaired it reads "12-3. ". -/
theorem bcd_id_counterexample :
    (witness (.bcdPlus [(1, 2), (11, 3), (12, 10)])).wf = true ∧
    parseSdr Variant.asShipped (witness (.bcdPlus [(1, 2), (11, 3), (12, 10)])).encode = .pyError "AttributeError" ∧
    attr (parseSdr Variant.intended (witness (.bcdPlus [(1, 2), (11, 3), (12, 10)])).encode) "device_id_string"
      = some (.list [49, 50, 45, 51, 46, 32]) := by
  decide +kernel

/-- a 6-bit id string of five characters (four data bytes) makes the code as shipped raise
IndexError; repaired it reads the five characters. -/
theorem sixbit_id_counterexample :
    (witness (.sixBit [33, 34, 35, 36, 37])).wf = true ∧
    parseSdr Variant.asShipped (witness (.sixBit [33, 34, 35, 36, 37])).encode = .pyError "IndexError" ∧
    attr (parseSdr Variant.intended (witness (.sixBit [33, 34, 35, 36, 37])).encode) "device_id_string"
      = some (.list [65, 66, 67, 68, 69]) := by
  decide +kernel

/-! ### non-vacuity -/

/-- The hypotheses of `parse_encode_full` hold for the witness, and its instance says what it
should: M = −3, B = −512, K2 = −8, K1 = 7, accuracy 1000 are reported. -/
example : attr (parseSdr Variant.intended (witness (.ascii8 [65, 50])).encode) "m" = some (.int (-3)) ∧
    attr (parseSdr Variant.intended (witness (.ascii8 [65, 50])).encode) "b" = some (.int (-512)) ∧
    attr (parseSdr Variant.intended (witness (.ascii8 [65, 50])).encode) "k2" = some (.int (-8)) ∧
    attr (parseSdr Variant.intended (witness (.ascii8 [65, 50])).encode) "k1" = some (.int 7) := by
  rw [parse_encode_full _ (by decide)]
  decide +kernel

example : (⟨1, 0x51, 0xC0, [1, 2, 3, 4]⟩ : Opaque).wf = true ∧ (3 ≤ [1, 2, 3, 4].length) := by decide
example : (⟨1, 0x51, 0x08, []⟩ : Opaque).wf = true ∧ kindOfType 0x08 = .unknown := by decide
example : (⟨7, 0x51, 0x10, 3, 0, 2, 1, 0x51, 0x2c14a, 0x8006, List.replicate 16 0xab⟩ : McConfirmation).wf = true := by
  decide

end PyIpmi.Props.C16
