/-
  C16 — SDR record parsing inverts the SDR formats.

  Property theorems only.  `SdrParse.parseSdr` is the executable model that mirrors
  `SdrCommon.from_data` and every `_from_data` of pyipmi/sdr.py (with fields.py / utils.py
  below it); `Spec.Sdr.*` are encoders and views written from IPMI v2.0 tables 43-1, -2, -3,
  -7, -8, -9, -12 and §43.15.  The dispatch table, the BCD map of the 'bcd+' codec and the BCD plus
  table of the SDR id-string path are regenerated from the working tree on every run
  (`Gen.SdrTables`), so the theorems that mention them are re-checked against what the code says now.

  Reading guide
  * `parse_encode_full` … `parse_encode_unknown`   parse ∘ encode = view, field by field, for
    every well-formed abstract record of each type (all field values, all id strings)
  * `m_reassembled`, `b_reassembled`, `accuracy_reassembled`, `exponents_signed`
    the split fields for ALL byte pairs;  `split_fields_roundtrip` composes them with the encoder
  * `id_string_roundtrip`     every id string, every encoding, every length; BCD plus with ALL sixteen codes
    of §43.15 (`bcd_plus_sdr_table`: the generated SDR table is `0123456789 -.:,_`)
  * `dispatch_table`, `dispatch_by_type_byte`   the type byte alone selects the kind
  * `gen_*`                   the bit expressions of pyipmi/sdr.py and fields.py are re-translated from
    the AST of the working tree on every run (`Gen.SdrExpr`, harness/translate/sdrexpr.py):
    `gen_parseFull_eq` … `gen_parseOem_eq`, `gen_idString_eq`, `gen_unpack6_eq` say that the model
    (`Variant.intended`) computes every attribute with exactly the generated expression, so the
    theorems above are theorems about the expressions the code contains today; `gen_m_reassembled`,
    `gen_b_reassembled`, `gen_accuracy_reassembled`, `gen_exponents_signed`, `gen_byte_fields`,
    `gen_manufacturer_id` restate the split-field facts for the generated definitions;
    `gen_layouts`, `gen_body_offsets`, `gen_flag_lists`, `gen_inputs` pin the order / sizes of the pops, the flag
    names and which byte every expression reads; `gen_sdrBcd_eq`, `gen_tls_decoders` the BCD plus decoder of the
    SDR path (table, nibble expressions, first-match decoder selection, FRU path unchanged)
  * `*_counterexample`        the ORIGINAL pinned source (Variant.asShipped, a frozen variant kept as
    documentation; /repo has been repaired since) violates the property: accuracy above 63, rate unit,
    modifier unit, id-string type code, BCD+ and 6-bit id strings;
    `bcd_sdr_codes_counterexample` (an SDR id string with a nibble Dh / Eh / Fh raises ValueError: the FRU table
    has 13 entries), `channel_number_counterexample` (FRU device locator and MC confirmation record report the
    raw byte as channel number), `logical_physical_counterexample` (FRU device locator: the whole key byte 8 under the
    name of its bit-7 flag, access LUN and private bus id reported nowhere), `sensor_key_channel_counterexample`
    (full / compact / event-only sensor record: the channel number [7:4] of key byte 7 is dropped; records with
    different keys parse to equal results) — each for the variant that differs from `Variant.intended` in that flag only
  * `fru_access_byte_all`, `sensor_key_all`   the sub-fields of key byte 8 of table 43-7 (all 64 combinations) and of
    key byte 7 of tables 43-1, 43-2, 43-3 (all 16 channels x 4 LUNs) as the intended parser reports them
-/
import PyIpmi.Lemmas.SdrParse
import PyIpmi.Gen.SdrExpr
namespace PyIpmi.Props.C16
open PyIpmi PyIpmi.SdrParse PyIpmi.Spec.Sdr

/-! ### parse ∘ encode = view, per record type -/

/-- Table 43-1.  Every attribute the table defines, M, B (10-bit two's complement split over
two bytes), accuracy (10 bits split 6+4), the exponents (4-bit two's complement), tolerance,
units, masks, thresholds, hysteresis and the id string; the record key with the channel number [7:4] of byte 7
next to the owner LUN [1:0].  `capabilities` is outside the
specification: it is whatever `_decode_capabilities` makes of byte 12. -/
theorem parse_encode_full (r : FullSensor) (h : r.wf = true) :
    parseSdr Variant.intended r.encode =
      .ok ⟨.full, r.view, [("capabilities", .list (capabilitiesOf r.capabilities))]⟩ :=
  parse_full r h

/-- Table 43-2.  (Key as in table 43-1: owner id, channel number [7:4] and owner LUN [1:0] of byte 7, number.) -/
theorem parse_encode_compact (r : CompactSensor) (h : r.wf = true) :
    parseSdr Variant.intended r.encode = .ok ⟨.compact, r.view, []⟩ :=
  parse_compact r h

/-- Table 43-3. -/
theorem parse_encode_eventOnly (r : EventOnly) (h : r.wf = true) :
    parseSdr Variant.intended r.encode = .ok ⟨.eventOnly, r.view, []⟩ :=
  parse_eventOnly r h

/-- Table 43-7.  Byte 8 (key): logical/physical flag [7], access LUN [4:3], private bus id [2:0], each reported on
its own.  Byte 9: the channel number is bits [7:4]; [3:0] are reserved and ignored whatever they hold. -/
theorem parse_encode_fruLocator (r : FruLocator) (h : r.wf = true) :
    parseSdr Variant.intended r.encode = .ok ⟨.fruLocator, r.view, []⟩ :=
  parse_fruLocator r h

/-- Table 43-8.  (`global_initialization` is a constant 0 in the library: outside the
specification's view.) -/
theorem parse_encode_mcLocator (r : McLocator) (h : r.wf = true) :
    parseSdr Variant.intended r.encode = .ok ⟨.mcLocator, r.view, [("global_initialization", .nat 0)]⟩ :=
  parse_mcLocator r h

/-- Table 43-9: byte 8 holds the channel number in [7:4] and the device revision in [3:0] (both part of the
record key); 20-bit manufacturer id, 16-byte GUID read LS byte first. -/
theorem parse_encode_mcConfirmation (r : McConfirmation) (h : r.wf = true) :
    parseSdr Variant.intended r.encode = .ok ⟨.mcConfirmation, r.view, []⟩ :=
  parse_mcConfirmation r h

/-- Table 43-12: of an OEM record the header is interpreted (the library additionally exposes
the three manufacturer-id bytes under the names of a sensor key: `ex`). -/
theorem parse_encode_oem (r : Opaque) (h : r.wf = true) (ht : r.type = 0xC0) (hb : 3 ≤ r.body.length) :
    ∃ ex, parseSdr Variant.intended r.encode = .ok ⟨.oem, r.view, ex⟩ :=
  parse_oem r h ht hb

/-- Every other record type: the header, whatever the body. -/
theorem parse_encode_unknown (r : Opaque) (h : r.wf = true) (ht : kindOfType r.type = .unknown) :
    parseSdr Variant.intended r.encode = .ok ⟨.unknown, r.view, []⟩ :=
  parse_unknown r h ht

/-! ### split fields, for all byte pairs -/

/-- M: byte 25 holds the LS 8 bits, byte 26 [7:6] the MS 2 bits; the 10-bit pattern is read as
two's complement.  For ALL byte pairs. -/
theorem m_reassembled (b25 b26 : Nat) (h1 : b25 < 256) (h2 : b26 < 256) :
    Sensor.convertComplement ((b25 &&& 0xff) ||| ((b26 &&& 0xc0) <<< 2)) 10 = sint 10 (b25 + 256 * (b26 / 64)) :=
  tenbit_reassembled b25 b26 h1 h2

/-- B: bytes 27 and 28 [7:6], same layout as M. -/
theorem b_reassembled (b27 b28 : Nat) (h1 : b27 < 256) (h2 : b28 < 256) :
    Sensor.convertComplement ((b27 &&& 0xff) ||| ((b28 &&& 0xc0) <<< 2)) 10 = sint 10 (b27 + 256 * (b28 / 64)) :=
  tenbit_reassembled b27 b28 h1 h2

/-- accuracy: byte 28 [5:0] are the LS 6 bits, byte 29 [7:4] the MS 4 bits (intended `<< 2`). -/
theorem accuracy_reassembled (b28 b29 : Nat) (h2 : b29 < 256) :
    (b28 &&& 0x3f) ||| ((b29 &&& 0xf0) <<< 2) = b28 % 64 + 64 * (b29 / 16) :=
  accuracy_reassembled_bytes b28 b29 h2

/-- exponents: byte 30 [7:4] is K2 (R exponent), [3:0] is K1 (B exponent), 4-bit two's complement. -/
theorem exponents_signed (b30 : Nat) (h : b30 < 256) :
    Sensor.convertComplement ((b30 &&& 0xf0) >>> 4) 4 = sint 4 (b30 / 16) ∧
    Sensor.convertComplement (b30 &&& 0x0f) 4 = sint 4 (b30 % 16) :=
  exponents_signed_bytes b30 h

/-- Composed with the encoder: every M, B in [−512, 511], accuracy < 1024 and exponent in
[−8, 7] comes back (negative values included: sign extension is two's complement). -/
theorem split_fields_roundtrip (m b : Int) (tol acc accx dir : Nat) (k2 k1 : Int)
    (hm : -512 ≤ m ∧ m ≤ 511) (hb : -512 ≤ b ∧ b ≤ 511) (ht : tol < 64) (ha : acc < 1024)
    (hx : accx < 4) (hd : dir < 4) (h2 : -8 ≤ k2 ∧ k2 ≤ 7) (h1 : -8 ≤ k1 ∧ k1 ≤ 7) :
    sint 10 (twosComp 10 m) = m ∧ sint 10 (twosComp 10 b) = b ∧
    sint 4 (twosComp 4 k2) = k2 ∧ sint 4 (twosComp 4 k1) = k1 ∧
    (((twosComp 10 b / 256) * 64 + acc % 64) &&& 0x3f) |||
      ((((acc / 64) * 16 + accx * 4 + dir) &&& 0xf0) <<< 2) = acc ∧
    (((twosComp 10 m / 256) * 64 + tol) &&& 0x3f) = tol :=
  ⟨(sint_twosComp10 m hm.1 hm.2).2, (sint_twosComp10 b hb.1 hb.2).2,
   (sint_twosComp4 k2 h2.1 h2.2).2, (sint_twosComp4 k1 h1.1 h1.2).2,
   acc_enc _ acc accx dir ha hx hd, tol_enc _ tol ht⟩

/-! ### id strings -/

/-- Every id string (Unicode / BCD plus / 6-bit packed / 8-bit ASCII, any length the
type/length byte can express, trailing bytes allowed) reads back as type code, byte count and
text.  BCD plus: every one of the sixteen codes of §43.15 in either nibble (the model's table is the one
regenerated from the working tree: `bcd_plus_sdr_table`). -/
theorem id_string_roundtrip (s : IdString) (h : s.wf = true) (tail : List Nat) :
    idString Variant.intended (s.encode ++ tail) = .ok s.view :=
  idString_encode s h tail

/-- The BCD plus table the SDR path of today's `TypeLengthString` indexes is the table of §43.15 —
`0123456789 -.:,_`, sixteen entries, code `d` ↦ `bcdChar d` —, and the 'bcd+' codec (FRU fields) keeps the
thirteen-entry table of the FRU Information Storage Definition. -/
theorem bcd_plus_sdr_table :
    Gen.SdrTables.sdrBcdMap = bcdPlusSdr ∧ (∀ d, d < 16 → Gen.SdrTables.sdrBcdMap[d]? = some (bcdChar d)) ∧
    Gen.SdrTables.bcdMap = bcdPlusFru := by
  have e : Gen.SdrTables.sdrBcdMap = bcdPlusSdr := by decide +kernel
  refine ⟨e, fun d hd => ?_, by decide +kernel⟩
  rw [e]
  simpa using Sensor.allLt_spec bcdPlusSdr_sweep d hd

/-! ### dispatch -/

/-- The dispatch table extracted from today's `from_data` is the table of §43 record type
numbers, for every type byte; the type byte is `data[3]`. -/
theorem dispatch_table (t : Nat) (h : t < 256) :
    kindOf t = kindOfType t ∧ Gen.SdrTables.typeIndex = typeByteIndex :=
  ⟨kindOf_eq t h, typeIndex_eq⟩

/-- The record type byte alone selects the kind of record returned — whatever the rest of the
record is, and for the code as shipped as well as repaired. -/
theorem dispatch_by_type_byte (v : Variant) (bs : List Nat) (hb : ∀ b ∈ bs, b < 256) (p : Parsed)
    (h : parseSdr v bs = .ok p) :
    ∃ t, bs[typeByteIndex]? = some t ∧ p.kind = kindOfType t := by
  unfold parseSdr at h
  rw [typeIndex_eq] at h
  cases ht : bs[typeByteIndex]? with
  | none => rw [ht] at h; simp at h
  | some t =>
    rw [ht] at h
    refine ⟨t, rfl, ?_⟩
    have htb : t < 256 := hb t (List.mem_of_getElem? ht)
    rw [← kindOf_eq t htb]
    match bs, h with
    | i0 :: i1 :: ver :: ty :: len :: body, h =>
      simp only at h
      cases hp : parseKind v (kindOf t) body with
      | ok x => rw [hp] at h; simp at h; rw [← h]
      | _ => rw [hp] at h; simp at h
    | [], h => simp at h
    | [_], h => simp at h
    | [_, _], h => simp at h
    | [_, _, _], h => simp at h
    | [_, _, _, _], h => simp at h

/-! ### the generated expressions are the model's expressions -/

/-- `_convert_complement` as translated from today's source is the model's. -/
theorem gen_convertComplement_eq (value size : Nat) :
    Gen.SdrExpr.convertComplement value size = Sensor.convertComplement value size := by
  have h : ((size : Int) - 1).toNat = size - 1 := by omega
  simp only [Gen.SdrExpr.convertComplement, Gen.SdrExpr.cc_value, Sensor.convertComplement, h]

/-- The model's result of a parse function, given the attribute list before the id string. -/
def withIdThen (fs : Fields) (rest : List Nat) (extra : Fields) : Outcome (Fields × Fields) :=
  match withId Variant.intended fs rest with
  | .ok all => .ok (all, extra)
  | .decodingError => .decodingError
  | .pyError n => .pyError n
  | _ => .pyError "?"

theorem gen_parseFull_eq
    (oid olun num eid einst ini cap st et am0 am1 dm0 dm1 rm0 rm1 u1 u2 u3 lin m mtol b bacc accx rb ac
     nom nmax nmin smax smin unr ucr unc lnr lcr lnc ph nh r0 r1 oem : Nat) (rest : List Nat) :
    parseFull Variant.intended
      (oid :: olun :: num :: eid :: einst :: ini :: cap :: st :: et :: am0 :: am1 :: dm0 :: dm1 ::
       rm0 :: rm1 :: u1 :: u2 :: u3 :: lin :: m :: mtol :: b :: bacc :: accx :: rb :: ac ::
       nom :: nmax :: nmin :: smax :: smin :: unr :: ucr :: unc :: lnr :: lcr :: lnc :: ph :: nh ::
       r0 :: r1 :: oem :: rest) =
    withIdThen
      [("owner_id", .nat oid), ("channel_number", .nat (Gen.SdrExpr.key_channel_number olun)),
       ("owner_lun", .nat (Gen.SdrExpr.key_owner_lun olun)), ("number", .nat num),
       ("entity_id", .nat eid), ("entity_instance", .nat einst),
       ("initialization", .list (flagsOf (Gen.SdrExpr.full_initialization_flags.map Prod.fst) ini)),
       ("sensor_type_code", .nat st), ("event_reading_type_code", .nat et),
       ("assertion_mask", .nat (leOr [am0, am1])), ("deassertion_mask", .nat (leOr [dm0, dm1])),
       ("discrete_reading_mask", .nat (leOr [rm0, rm1])),
       ("units_1", .nat u1), ("units_2", .nat u2), ("units_3", .nat u3),
       ("analog_data_format", .nat (Gen.SdrExpr.full_analog_data_format u1)),
       ("rate_unit", .nat (Gen.SdrExpr.full_rate_unit u1)),
       ("modifier_unit", .nat (Gen.SdrExpr.full_modifier_unit u1)),
       ("percentage", .nat (Gen.SdrExpr.full_percentage u1)),
       ("linearization", .nat (Gen.SdrExpr.full_linearization lin)),
       ("m", .int (Gen.SdrExpr.full_m_2 m mtol)),
       ("tolerance", .nat (Gen.SdrExpr.full_tolerance mtol)),
       ("b", .int (Gen.SdrExpr.full_b_2 b bacc)),
       ("accuracy", .nat (Gen.SdrExpr.full_accuracy bacc accx)),
       ("accuracy_exp", .nat (Gen.SdrExpr.full_accuracy_exp accx)),
       ("k2", .int (Gen.SdrExpr.full_k2_2 rb)),
       ("k1", .int (Gen.SdrExpr.full_k1_2 rb)),
       ("analog_characteristic", .list (flagsOf (Gen.SdrExpr.full_analog_characteristic_flags.map Prod.fst) ac)),
       ("nominal_reading", .nat nom), ("normal_maximum", .nat nmax), ("normal_minimum", .nat nmin),
       ("sensor_maximum_reading", .nat smax), ("sensor_minimum_reading", .nat smin),
       ("threshold.unr", .nat unr), ("threshold.ucr", .nat ucr), ("threshold.unc", .nat unc),
       ("threshold.lnr", .nat lnr), ("threshold.lcr", .nat lcr), ("threshold.lnc", .nat lnc),
       ("hysteresis.positive_going", .nat ph), ("hysteresis.negative_going", .nat nh),
       ("reserved", .nat (leOr [r0, r1])), ("oem", .nat oem)]
      rest [("capabilities", .list (capabilitiesOf cap))] := by
  simp only [Gen.SdrExpr.full_m_2, Gen.SdrExpr.full_b_2, Gen.SdrExpr.full_k2_2, Gen.SdrExpr.full_k1_2,
    gen_convertComplement_eq]
  rfl

theorem gen_parseCompact_eq
    (oid olun num eid einst ini cap st et am0 am1 dm0 dm1 rm0 rm1 u1 u2 u3 rs0 rs1 ph nh r0 r1 r2 oem : Nat)
    (rest : List Nat) :
    parseCompact Variant.intended
      (oid :: olun :: num :: eid :: einst :: ini :: cap :: st :: et :: am0 :: am1 :: dm0 :: dm1 ::
       rm0 :: rm1 :: u1 :: u2 :: u3 :: rs0 :: rs1 :: ph :: nh :: r0 :: r1 :: r2 :: oem :: rest) =
    withIdThen
      [("owner_id", .nat oid), ("channel_number", .nat (Gen.SdrExpr.key_channel_number olun)),
       ("owner_lun", .nat (Gen.SdrExpr.key_owner_lun olun)), ("number", .nat num),
       ("entity_id", .nat eid), ("entity_instance", .nat einst),
       ("sensor_initialization", .nat ini), ("capabilities", .nat cap),
       ("sensor_type_code", .nat st), ("event_reading_type_code", .nat et),
       ("assertion_mask", .nat (leOr [am0, am1])), ("deassertion_mask", .nat (leOr [dm0, dm1])),
       ("discrete_reading_mask", .nat (leOr [rm0, rm1])),
       ("units_1", .nat u1), ("units_2", .nat u2), ("units_3", .nat u3),
       ("record_sharing", .nat (leOr [rs0, rs1])),
       ("positive_going_hysteresis", .nat ph), ("negative_going_hysteresis", .nat nh),
       ("reserved", .nat (leOr [r0, r1, r2])), ("oem", .nat oem)] rest [] := rfl

theorem gen_parseEventOnly_eq (oid olun num eid einst st et rs0 rs1 r0 oem : Nat) (rest : List Nat) :
    parseEventOnly Variant.intended (oid :: olun :: num :: eid :: einst :: st :: et :: rs0 :: rs1 :: r0 :: oem :: rest) =
    withIdThen
      [("owner_id", .nat oid), ("channel_number", .nat (Gen.SdrExpr.key_channel_number olun)),
       ("owner_lun", .nat (Gen.SdrExpr.key_owner_lun olun)), ("number", .nat num),
       ("entity_id", .nat eid), ("entity_instance", .nat einst),
       ("sensor_type", .nat st), ("event_reading_type_code", .nat et),
       ("record_sharing", .nat (leOr [rs0, rs1])),
       ("reserved", .nat r0), ("oem", .nat oem)] rest [] := rfl

theorem gen_parseFruLocator_eq (aa fid lp ch r0 dt dtm eid einst oem : Nat) (rest : List Nat) :
    parseFruLocator Variant.intended (aa :: fid :: lp :: ch :: r0 :: dt :: dtm :: eid :: einst :: oem :: rest) =
    withIdThen
      [("device_access_address", .nat (Gen.SdrExpr.fru_device_access_address aa)), ("fru_device_id", .nat fid),
       ("logical_physical", .nat (Gen.SdrExpr.fru_logical_physical lp)),
       ("access_lun", .nat (Gen.SdrExpr.fru_access_lun lp)),
       ("private_bus_id", .nat (Gen.SdrExpr.fru_private_bus_id lp)),
       ("channel_number", .nat (Gen.SdrExpr.fru_channel_number ch)),
       ("reserved", .nat r0),
       ("device_type", .nat dt), ("device_type_modifier", .nat dtm),
       ("entity_id", .nat eid), ("entity_instance", .nat einst),
       ("oem", .nat oem)] rest [] := rfl

theorem gen_parseMcLocator_eq (sa ch psn dc r0 r1 r2 eid einst oem : Nat) (rest : List Nat) :
    parseMcLocator Variant.intended (sa :: ch :: psn :: dc :: r0 :: r1 :: r2 :: eid :: einst :: oem :: rest) =
    withIdThen
      [("device_slave_address", .nat (Gen.SdrExpr.mc_device_slave_address sa)),
       ("channel_number", .nat (Gen.SdrExpr.mc_channel_number ch)),
       ("power_state_notification", .nat psn),
       ("device_capabilities", .nat dc),
       ("reserved", .nat (leOr [r0, r1, r2])),
       ("entity_id", .nat eid), ("entity_instance", .nat einst),
       ("oem", .nat oem)] rest [("global_initialization", .nat Gen.SdrExpr.mc_global_initialization)] := rfl

theorem gen_parseMcConfirmation_eq (sa did ch f1 f2 iv m0 m1 m2 p0 p1 : Nat) (rest : List Nat) :
    parseMcConfirmation Variant.intended (sa :: did :: ch :: f1 :: f2 :: iv :: m0 :: m1 :: m2 :: p0 :: p1 :: rest) =
    if rest.length < 16 then .decodingError
    else .ok ([("device_slave_address", .nat (Gen.SdrExpr.conf_device_slave_address sa)), ("device_id", .nat did),
            ("channel_number", .nat (Gen.SdrExpr.conf_channel_number ch)),
            ("device_revision", .nat (Gen.SdrExpr.conf_device_revision ch)),
            ("firmware_revision_1", .nat f1), ("firmware_revision_2", .nat f2),
            ("ipmi_version", .nat iv),
            ("manufacturer_id", .nat (Gen.SdrExpr.conf_manufacturer_id (leOr [m0, m1, m2]))),
            ("product_id", .nat (leOr [p0, p1])),
            ("device_guid", .nat (leOr (rest.take 16)))], []) := rfl

theorem gen_parseOem_eq (oid olun num : Nat) (rest : List Nat) :
    parseOem Variant.intended (oid :: olun :: num :: rest) =
      .ok ([], [("owner_id", .nat oid), ("channel_number", .nat (Gen.SdrExpr.key_channel_number olun)),
                ("owner_lun", .nat (Gen.SdrExpr.key_owner_lun olun)), ("number", .nat num)]) := rfl

/-- Every `_from_data` skips the five header bytes (`ByteBuffer(data[5:])`), as `parseSdr` does. -/
theorem gen_body_offsets :
    [Gen.SdrExpr.full_body_offset, Gen.SdrExpr.compact_body_offset, Gen.SdrExpr.event_body_offset,
     Gen.SdrExpr.fru_body_offset, Gen.SdrExpr.mc_body_offset, Gen.SdrExpr.conf_body_offset,
     Gen.SdrExpr.oem_body_offset] = [5, 5, 5, 5, 5, 5, 5] := rfl

/-- (helper) the decoder selected by `TypeLengthString._from_data` for a field type. -/
def tlsDecoder (ft : Nat) : Nat :=
  (List.lookup ft Gen.SdrExpr.tls_decoders).getD Gen.SdrExpr.tls_decoder_default

theorem gen_idString_eq (tl : Nat) (rest : List Nat) :
    idString Variant.intended (tl :: rest) =
      (let data := ((tl :: rest).drop Gen.SdrExpr.id_field_lo).take (Gen.SdrExpr.id_field_hi tl - Gen.SdrExpr.id_field_lo)
       let raw := (data.drop (Gen.SdrExpr.tls_raw_lo 0)).take (Gen.SdrExpr.tls_raw_hi 0 tl - Gen.SdrExpr.tls_raw_lo 0)
       let str : Outcome (List Nat) :=
         if tlsDecoder (Gen.SdrExpr.tls_field_type tl) = 3 then sdrBcdDecode raw
         else if tlsDecoder (Gen.SdrExpr.tls_field_type tl) = 1 then bcdDecode raw
         else if tlsDecoder (Gen.SdrExpr.tls_field_type tl) = 2 then unpack6 false raw
         else .ok raw
       match str with
       | .ok s => .ok [("device_id_string_type", .nat (Gen.SdrExpr.id_device_id_string_type tl)),
                       ("device_id_string_length", .nat (Gen.SdrExpr.id_device_id_string_length tl)),
                       ("device_id_string", .list s)]
       | .decodingError => .decodingError
       | .pyError n => .pyError n
       | _ => .pyError "?") := by
  have hd : ∀ x, tlsDecoder x = if x = 1 then 3 else if x = 2 then 2 else 0 := by
    intro x
    unfold tlsDecoder
    by_cases a : x = 1
    · subst a; rfl
    · by_cases b : x = 2
      · subst b; rfl
      · have a' : (x == 1) = false := by simp [a]
        have b' : (x == 2) = false := by simp [b]
        simp [Gen.SdrExpr.tls_decoders, Gen.SdrExpr.tls_decoder_default, List.lookup, a, b, a', b']
  have e1 : ∀ n : Nat, 1 + n - 0 = 1 + n := by intro n; omega
  have e2 : ∀ n : Nat, 0 + 1 + n - (0 + 1) = n := by intro n; omega
  simp only [hd, idString, Variant.intended, Gen.SdrExpr.id_field_lo, Gen.SdrExpr.id_field_hi,
    Gen.SdrExpr.id_device_id_string_length, Gen.SdrExpr.id_device_id_string_type, Gen.SdrExpr.tls_raw_lo,
    Gen.SdrExpr.tls_raw_hi, Gen.SdrExpr.tls_length, Gen.SdrExpr.tls_field_type, List.drop_zero, e1, e2,
    Bool.false_eq_true, if_false, Nat.zero_add]
  by_cases h1 : (tl >>> 6) &&& 0x3 = 1
  · simp only [h1, if_true]; rfl
  · by_cases h2 : (tl >>> 6) &&& 0x3 = 2
    · have h21 : ¬ ((2 : Nat) = 1) := by decide
      have h23 : ¬ ((2 : Nat) = 3) := by decide
      simp only [h2, h21, h23, if_true, if_false]; rfl
    · have h01 : ¬ ((0 : Nat) = 1) := by decide
      have h02 : ¬ ((0 : Nat) = 2) := by decide
      have h03 : ¬ ((0 : Nat) = 3) := by decide
      simp only [h1, h2, h01, h02, h03, if_false]

/-- The decoder selection of `TypeLengthString._from_data` as translated from today's source: on the SDR path
(`SdrTypeLengthString` passes `sdr=True`, `__init__` stores it before decoding) field type 01b is decoded with the
class's own BCD plus table (decoder 3, first match); on the FRU path (`sdr=False`) with the 'bcd+' codec as before. -/
theorem gen_tls_decoders :
    Gen.SdrExpr.tls_decoders = [(1, 3), (1, 1), (2, 2)] ∧ Gen.SdrExpr.tls_decoders_fru = [(1, 1), (2, 2)] ∧
    Gen.SdrExpr.tls_decoder_default = 0 ∧ Gen.SdrExpr.tls_sdr_flag ≠ "" := by decide

/-- The BCD plus decoder of the SDR path as translated from today's source: the table the expression indexes is the
generated SDR table (hence, by `bcd_plus_sdr_table`, the sixteen codes of §43.15), indexed with `b >> 4` and `b & 0xf`. -/
theorem gen_sdrBcd_eq :
    Gen.SdrExpr.tls_sdr_bcd_table = Gen.SdrTables.sdrBcdMap ∧
    (∀ d ds, sdrBcdDecode (d :: ds) =
      match Gen.SdrTables.sdrBcdMap[Gen.SdrExpr.tls_sdr_bcd_hi d]?,
            Gen.SdrTables.sdrBcdMap[Gen.SdrExpr.tls_sdr_bcd_lo d]? with
      | some hi, some lo =>
        match sdrBcdDecode ds with
        | .ok rest => .ok (hi :: lo :: rest)
        | e => e
      | _, _ => .pyError "IndexError") ∧
    (∀ b, b < 256 → Gen.SdrExpr.tls_sdr_bcd_hi b = b / 16 ∧ Gen.SdrExpr.tls_sdr_bcd_lo b = b % 16) := by
  refine ⟨by decide, fun d ds => ?_, fun b _ => ⟨?_, ?_⟩⟩
  · rw [bcd_plus_sdr_table.1]; rfl
  · simp only [Gen.SdrExpr.tls_sdr_bcd_hi]; omega
  · simp only [Gen.SdrExpr.tls_sdr_bcd_lo]; exact and_f b

theorem gen_unpack6_eq :
    (∀ d0, unpack6 false [d0] = .ok [Gen.SdrExpr.sixbit_char_0 d0]) ∧
    (∀ d0 d1, unpack6 false [d0, d1] = .ok [Gen.SdrExpr.sixbit_char_0 d0, Gen.SdrExpr.sixbit_char_1 d0 d1]) ∧
    (∀ d0 d1 d2 rest, unpack6 false (d0 :: d1 :: d2 :: rest) =
      match unpack6 false rest with
      | .ok cs => .ok (Gen.SdrExpr.sixbit_char_0 d0 :: Gen.SdrExpr.sixbit_char_1 d0 d1 ::
                       Gen.SdrExpr.sixbit_char_2 d1 d2 :: Gen.SdrExpr.sixbit_char_3 d2 :: cs)
      | e => e) ∧
    Gen.SdrExpr.sixbit_group = 3 ∧ Gen.SdrExpr.sixbit_chars_need = [1, 2, 3, 3] :=
  ⟨fun _ => rfl, fun _ _ => rfl, fun _ _ _ _ => rfl, rfl, rfl⟩

/-! ### the split-field theorems, stated for the generated definitions -/

theorem gen_m_reassembled (b25 b26 : Nat) (h1 : b25 < 256) (h2 : b26 < 256) :
    Gen.SdrExpr.full_m_2 b25 b26 = sint 10 (b25 + 256 * (b26 / 64)) := by
  simp only [Gen.SdrExpr.full_m_2, Gen.SdrExpr.full_m_1, gen_convertComplement_eq]
  exact m_reassembled b25 b26 h1 h2

theorem gen_b_reassembled (b27 b28 : Nat) (h1 : b27 < 256) (h2 : b28 < 256) :
    Gen.SdrExpr.full_b_2 b27 b28 = sint 10 (b27 + 256 * (b28 / 64)) := by
  simp only [Gen.SdrExpr.full_b_2, Gen.SdrExpr.full_b_1, gen_convertComplement_eq]
  exact b_reassembled b27 b28 h1 h2

theorem gen_accuracy_reassembled (b28 b29 : Nat) (h2 : b29 < 256) :
    Gen.SdrExpr.full_accuracy b28 b29 = b28 % 64 + 64 * (b29 / 16) ∧
    Gen.SdrExpr.full_tolerance b28 = b28 % 64 :=
  ⟨accuracy_reassembled b28 b29 h2, and_3f b28⟩

theorem gen_exponents_signed (b30 : Nat) (h : b30 < 256) :
    Gen.SdrExpr.full_k2_2 b30 = sint 4 (b30 / 16) ∧ Gen.SdrExpr.full_k1_2 b30 = sint 4 (b30 % 16) := by
  simp only [Gen.SdrExpr.full_k2_2, Gen.SdrExpr.full_k2_1, Gen.SdrExpr.full_k1_2, Gen.SdrExpr.full_k1_1,
    gen_convertComplement_eq]
  exact exponents_signed b30 h

/-- (sweep over the 256 values of a byte) -/
def genByteFieldsOk : Bool :=
  Sensor.allLt 256 fun u =>
    Gen.SdrExpr.full_analog_data_format u == u / 64 && Gen.SdrExpr.full_rate_unit u == u / 8 % 8 &&
    Gen.SdrExpr.full_modifier_unit u == u / 2 % 4 && Gen.SdrExpr.full_percentage u == u % 2 &&
    Gen.SdrExpr.full_linearization u == u % 128 && Gen.SdrExpr.full_accuracy_exp u == u / 4 % 4 &&
    Gen.SdrExpr.key_owner_lun u == u % 4 &&
    Gen.SdrExpr.id_device_id_string_type u == u / 64 && Gen.SdrExpr.id_device_id_string_length u == u % 64 &&
    Gen.SdrExpr.tls_field_type u == u / 64 && Gen.SdrExpr.tls_length u == u % 64 &&
    Gen.SdrExpr.fru_device_access_address u == u / 2 && Gen.SdrExpr.mc_device_slave_address u == u / 2 &&
    Gen.SdrExpr.conf_device_slave_address u == u / 2 && Gen.SdrExpr.mc_channel_number u == u % 16 &&
    Gen.SdrExpr.fru_channel_number u == u / 16 && Gen.SdrExpr.conf_channel_number u == u / 16 &&
    Gen.SdrExpr.conf_device_revision u == u % 16 &&
    Gen.SdrExpr.key_channel_number u == u / 16 && Gen.SdrExpr.fru_logical_physical u == u / 128 &&
    Gen.SdrExpr.fru_access_lun u == u / 8 % 4 && Gen.SdrExpr.fru_private_bus_id u == u % 8

theorem gen_byte_fields_sweep : genByteFieldsOk = true := by decide +kernel

/-- Every single-byte sub-field as translated from today's source is the bit range the tables name:
units byte 21 ([7:6] format, [5:3] rate, [2:1] modifier, [0] percentage), linearisation [6:0],
accuracy exponent [3:2], owner LUN [1:0], id-string type [7:6] / length [5:0] (both places that
read them), 7-bit addresses [7:1], channel [3:0] of the MC device locator, channel [7:4] of the FRU device
locator and of the MC confirmation record, device revision [3:0] of the latter, channel [7:4] of key byte 7 of the
sensor records, logical/physical [7], access LUN [4:3] and private bus id [2:0] of key byte 8 of the FRU device
locator — for all 256 byte values (reserved bits set or not). -/
theorem gen_byte_fields (u : Nat) (h : u < 256) :
    Gen.SdrExpr.full_analog_data_format u = u / 64 ∧ Gen.SdrExpr.full_rate_unit u = u / 8 % 8 ∧
    Gen.SdrExpr.full_modifier_unit u = u / 2 % 4 ∧ Gen.SdrExpr.full_percentage u = u % 2 ∧
    Gen.SdrExpr.full_linearization u = u % 128 ∧ Gen.SdrExpr.full_accuracy_exp u = u / 4 % 4 ∧
    Gen.SdrExpr.key_owner_lun u = u % 4 ∧
    Gen.SdrExpr.id_device_id_string_type u = u / 64 ∧ Gen.SdrExpr.id_device_id_string_length u = u % 64 ∧
    Gen.SdrExpr.tls_field_type u = u / 64 ∧ Gen.SdrExpr.tls_length u = u % 64 ∧
    Gen.SdrExpr.fru_device_access_address u = u / 2 ∧ Gen.SdrExpr.mc_device_slave_address u = u / 2 ∧
    Gen.SdrExpr.conf_device_slave_address u = u / 2 ∧ Gen.SdrExpr.mc_channel_number u = u % 16 ∧
    Gen.SdrExpr.fru_channel_number u = u / 16 ∧ Gen.SdrExpr.conf_channel_number u = u / 16 ∧
    Gen.SdrExpr.conf_device_revision u = u % 16 ∧
    Gen.SdrExpr.key_channel_number u = u / 16 ∧ Gen.SdrExpr.fru_logical_physical u = u / 128 ∧
    Gen.SdrExpr.fru_access_lun u = u / 8 % 4 ∧ Gen.SdrExpr.fru_private_bus_id u = u % 8 := by
  have := Sensor.allLt_spec gen_byte_fields_sweep u h
  simpa only [Bool.and_eq_true, beq_iff_eq, and_assoc] using this

/-- The 20-bit manufacturer id of the confirmation record. -/
theorem gen_manufacturer_id (x : Nat) : Gen.SdrExpr.conf_manufacturer_id x = x % 1048576 := and_fffff x

/-- The order and sizes in which every `_from_data` (and its helpers) takes bytes from the buffer,
as translated from today's source, are those of tables 43-1, -2, -3, -7, -8, -9, -12 (and the
order of the patterns of `parseFull` … `parseOem`). -/
theorem gen_layouts :
    Gen.SdrExpr.key_layout = [("owner_id", 1), ("channel_lun", 1), ("number", 1)] ∧
    Gen.SdrExpr.entity_layout = [("entity_id", 1), ("entity_instance", 1)] ∧
    Gen.SdrExpr.full_layout =
      [("_common_record_key", 3), ("_entity", 2), ("initialization", 1), ("_decode_capabilities", 1),
       ("sensor_type_code", 1), ("event_reading_type_code", 1), ("assertion_mask", 2), ("deassertion_mask", 2),
       ("discrete_reading_mask", 2), ("units_1", 1), ("units_2", 1), ("units_3", 1), ("linearization", 1),
       ("m", 1), ("m_tol", 1), ("b", 1), ("b_acc", 1), ("acc_accexp", 1), ("rexp_bexp", 1),
       ("analog_characteristics", 1), ("nominal_reading", 1), ("normal_maximum", 1), ("normal_minimum", 1),
       ("sensor_maximum_reading", 1), ("sensor_minimum_reading", 1), ("threshold.unr", 1), ("threshold.ucr", 1),
       ("threshold.unc", 1), ("threshold.lnr", 1), ("threshold.lcr", 1), ("threshold.lnc", 1),
       ("hysteresis.positive_going", 1), ("hysteresis.negative_going", 1), ("reserved", 2), ("oem", 1),
       ("_device_id_string", 0)] ∧
    Gen.SdrExpr.compact_layout =
      [("_common_record_key", 3), ("_entity", 2), ("sensor_initialization", 1), ("capabilities", 1),
       ("sensor_type_code", 1), ("event_reading_type_code", 1), ("assertion_mask", 2), ("deassertion_mask", 2),
       ("discrete_reading_mask", 2), ("units_1", 1), ("units_2", 1), ("units_3", 1), ("record_sharing", 2),
       ("positive_going_hysteresis", 1), ("negative_going_hysteresis", 1), ("reserved", 3), ("oem", 1),
       ("_device_id_string", 0)] ∧
    Gen.SdrExpr.event_layout =
      [("_common_record_key", 3), ("_entity", 2), ("sensor_type", 1), ("event_reading_type_code", 1),
       ("record_sharing", 2), ("reserved", 1), ("oem", 1), ("_device_id_string", 0)] ∧
    Gen.SdrExpr.fru_layout =
      [("device_access_address", 1), ("fru_device_id", 1), ("access", 1), ("channel_number", 1),
       ("reserved", 1), ("device_type", 1), ("device_type_modifier", 1), ("_entity", 2), ("oem", 1),
       ("_device_id_string", 0)] ∧
    Gen.SdrExpr.mc_layout =
      [("device_slave_address", 1), ("channel_number", 1), ("power_state_notification", 1),
       ("device_capabilities", 1), ("reserved", 3), ("_entity", 2), ("oem", 1), ("_device_id_string", 0)] ∧
    Gen.SdrExpr.conf_layout =
      [("device_slave_address", 1), ("device_id", 1), ("channel_revision", 1), ("firmware_revision_1", 1),
       ("firmware_revision_2", 1), ("ipmi_version", 1), ("manufacturer_id", 3), ("product_id", 2),
       ("device_guid", 16)] ∧
    Gen.SdrExpr.oem_layout = [("_common_record_key", 3)] ∧
    Gen.SdrExpr.id_layout = [("device_id_string", 0)] :=
  ⟨rfl, rfl, rfl, rfl, rfl, rfl, rfl, rfl, rfl, rfl⟩

/-- The flag names of bytes 11 and 31 of the full sensor record, with their masks, in the order
in which the code appends them. -/
theorem gen_flag_lists :
    Gen.SdrExpr.full_initialization_flags =
      [(0x40, "scanning"), (0x20, "events"), (0x10, "thresholds"), (0x08, "hysteresis"), (0x04, "type"),
       (0x02, "default_event_generation"), (0x01, "default_scanning")] ∧
    Gen.SdrExpr.full_analog_characteristic_flags =
      [(0x01, "nominal_reading"), (0x02, "normal_max"), (0x04, "normal_min")] := ⟨rfl, rfl⟩

/-- Which bytes every generated definition reads, as the source writes them: the type / length byte is
`buffer[0]` / `data[offset]`, the four 6-bit characters come from `d[0]`, `d[0] d[1]`, `d[1] d[2]`, `d[2]`,
every sub-field of the full sensor record from the local / attribute that received the pop named by
`gen_layouts`.  (Binder names are invisible to the other `gen_*` theorems; this table is not.) -/
theorem gen_inputs :
    Gen.SdrExpr.inputs =
      [("cc_value", ["value", "size"]),
       ("convertComplement", ["value", "size"]),
       ("key_channel_number", ["channel_lun = pop(1)"]),
       ("key_owner_lun", ["channel_lun = pop(1)"]),
       ("id_device_id_string_type", ["buffer[0]"]),
       ("id_device_id_string_length", ["buffer[0]"]),
       ("id_field_hi", ["buffer[0]"]),
       ("full_analog_data_format", ["self.units_1 = pop(1)"]),
       ("full_rate_unit", ["self.units_1 = pop(1)"]),
       ("full_modifier_unit", ["self.units_1 = pop(1)"]),
       ("full_percentage", ["self.units_1 = pop(1)"]),
       ("full_linearization", ["pop(1)"]),
       ("full_m_1", ["m = pop(1)", "m_tol = pop(1)"]),
       ("full_m_2", ["m = pop(1)", "m_tol = pop(1)"]),
       ("full_tolerance", ["m_tol = pop(1)"]),
       ("full_b_1", ["b = pop(1)", "b_acc = pop(1)"]),
       ("full_b_2", ["b = pop(1)", "b_acc = pop(1)"]),
       ("full_accuracy", ["b_acc = pop(1)", "acc_accexp = pop(1)"]),
       ("full_accuracy_exp", ["acc_accexp = pop(1)"]),
       ("full_k2_1", ["rexp_bexp = pop(1)"]),
       ("full_k2_2", ["rexp_bexp = pop(1)"]),
       ("full_k1_1", ["rexp_bexp = pop(1)"]),
       ("full_k1_2", ["rexp_bexp = pop(1)"]),
       ("fru_device_access_address", ["pop(1)"]),
       ("fru_logical_physical", ["access = pop(1)"]),
       ("fru_access_lun", ["access = pop(1)"]),
       ("fru_private_bus_id", ["access = pop(1)"]),
       ("fru_channel_number", ["pop(1)"]),
       ("mc_device_slave_address", ["pop(1)"]),
       ("mc_channel_number", ["pop(1)"]),
       ("conf_device_slave_address", ["pop(1)"]),
       ("conf_channel_number", ["channel_revision = pop(1)"]),
       ("conf_device_revision", ["channel_revision = pop(1)"]),
       ("conf_manufacturer_id", ["pop(3)"]),
       ("tls_field_type", ["data[offset]"]),
       ("tls_length", ["data[offset]"]),
       ("tls_raw_lo", ["offset"]),
       ("tls_raw_hi", ["offset", "data[offset]"]),
       ("tls_sdr_bcd_hi", ["b in self.raw"]),
       ("tls_sdr_bcd_lo", ["b in self.raw"]),
       ("sixbit_char_0", ["d[0]"]),
       ("sixbit_char_1", ["d[0]", "d[1]"]),
       ("sixbit_char_2", ["d[1]", "d[2]"]),
       ("sixbit_char_3", ["d[2]"])] := rfl

/-! ### the pinned source (as shipped) violates the property -/

/-- A full sensor record with every split field away from its trivial value: negative M, B
and exponents, accuracy above 63, all unit sub-fields set, channel bits next to the LUN. -/
def witness (ids : IdString) : FullSensor := {
  recordId := 0x1234, version := 0x51, ownerId := 0x20, channel := 5, ownerLun := 2, number := 7,
  entityId := 3, entityInstance := 0x61, initBits := 0x55, capabilities := 0x68, sensorType := 1,
  eventType := 1, assertionMask := 0x7a95, deassertionMask := 0x0a95, readingMask := 0x3f3f,
  analogFormat := 2, rateUnit := 5, modifierUnit := 3, percentage := 1, baseUnit := 1, modUnit := 2,
  linearization := 7, m := -3, tolerance := 33, b := -512, accuracy := 1000, accuracyExp := 2,
  sensorDirection := 1, rExp := -8, bExp := 7, analogFlags := 5, nominal := 100, normalMax := 200,
  normalMin := 50, sensorMax := 255, sensorMin := 0, unr := 250, ucr := 240, unc := 230, lnr := 5,
  lcr := 10, lnc := 20, posHysteresis := 2, negHysteresis := 3, oem := 0xAA, idString := ids }

/-- The value the parser reports for one attribute. -/
def attr (o : Outcome Parsed) (name : String) : Option Val :=
  match o with
  | .ok p => List.lookup name p.fields
  | _ => none

/-- accuracy 1000 (MS bits ≠ 0) is reported as 3880 by the code as shipped (`<< 4`). -/
theorem accuracy_counterexample :
    (witness (.ascii8 [65])).wf = true ∧
    attr (parseSdr Variant.asShipped (witness (.ascii8 [65])).encode) "accuracy" = some (.nat 3880) ∧
    attr (parseSdr Variant.intended (witness (.ascii8 [65])).encode) "accuracy" = some (.nat 1000) := by
  decide +kernel

/-- rate unit 5 is reported as 0 (`>> 7` instead of `& 7`), modifier unit 3 as 2 (`& 2`). -/
theorem units_counterexample :
    attr (parseSdr Variant.asShipped (witness (.ascii8 [65])).encode) "rate_unit" = some (.nat 0) ∧
    attr (parseSdr Variant.intended (witness (.ascii8 [65])).encode) "rate_unit" = some (.nat 5) ∧
    attr (parseSdr Variant.asShipped (witness (.ascii8 [65])).encode) "modifier_unit" = some (.nat 2) ∧
    attr (parseSdr Variant.intended (witness (.ascii8 [65])).encode) "modifier_unit" = some (.nat 3) := by
  decide +kernel

/-- the id-string type code 11b is reported as 12 (`>> 4` instead of `>> 6`). -/
theorem id_type_code_counterexample :
    attr (parseSdr Variant.asShipped (witness (.ascii8 [65])).encode) "device_id_string_type" = some (.nat 12) ∧
    attr (parseSdr Variant.intended (witness (.ascii8 [65])).encode) "device_id_string_type" = some (.nat 3) := by
  decide +kernel

/-- a BCD plus id string makes the code as shipped raise AttributeError; repaired it reads "12-3. ". -/
theorem bcd_id_counterexample :
    (witness (.bcdPlus [(1, 2), (11, 3), (12, 10)])).wf = true ∧
    parseSdr Variant.asShipped (witness (.bcdPlus [(1, 2), (11, 3), (12, 10)])).encode = .pyError "AttributeError" ∧
    attr (parseSdr Variant.intended (witness (.bcdPlus [(1, 2), (11, 3), (12, 10)])).encode) "device_id_string"
      = some (.list [49, 50, 45, 51, 46, 32]) := by
  decide +kernel

/-- a 6-bit id string of five characters (four data bytes) makes the code as shipped raise
IndexError; repaired it reads the five characters. -/
theorem sixbit_id_counterexample :
    (witness (.sixBit [33, 34, 35, 36, 37])).wf = true ∧
    parseSdr Variant.asShipped (witness (.sixBit [33, 34, 35, 36, 37])).encode = .pyError "IndexError" ∧
    attr (parseSdr Variant.intended (witness (.sixBit [33, 34, 35, 36, 37])).encode) "device_id_string"
      = some (.list [65, 66, 67, 68, 69]) := by
  decide +kernel

/-- One deviation at a time: `Variant.intended` with the SDR BCD plus table replaced by the FRU table. -/
def fruTableVariant : Variant := { Variant.intended with bcdFruTable := true }

/-- … and with the raw byte reported as channel number. -/
def rawChannelVariant : Variant := { Variant.intended with chanRaw := true }

/-- The BCD plus id string "12:30,5_" (codes 1 2 Dh 3 0 Eh 5 Fh) is well-formed (§43.15 defines all sixteen
codes); decoded with the 13-entry FRU table it makes the parser raise ValueError — the whole record is lost, on
every record type with an id string —; with the SDR table it reads back. -/
theorem bcd_sdr_codes_counterexample :
    (witness (.bcdPlus [(1, 2), (13, 3), (0, 14), (5, 15)])).wf = true ∧
    parseSdr fruTableVariant (witness (.bcdPlus [(1, 2), (13, 3), (0, 14), (5, 15)])).encode = .pyError "ValueError" ∧
    parseSdr fruTableVariant (⟨2, 0x51, 0x20, 1, 1, 0, 0, 7, 3, 0x10, 2, 0xc2, 0x61, 0, .bcdPlus [(1, 13)]⟩ : FruLocator).encode
      = .pyError "ValueError" ∧
    attr (parseSdr Variant.intended (witness (.bcdPlus [(1, 2), (13, 3), (0, 14), (5, 15)])).encode) "device_id_string"
      = some (.list [49, 50, 58, 51, 48, 44, 53, 95]) := by
  decide +kernel

/-- FRU device locator with channel 7 (byte 9 = 70h): the raw byte 112 is reported; MC confirmation record with
channel 2, device revision 5 (byte 8 = 25h): 37 is reported and there is no device revision.  Intended: 7; 2 and 5. -/
theorem channel_number_counterexample :
    (⟨2, 0x51, 0x20, 1, 1, 0, 0, 7, 0, 0x10, 2, 0xc2, 0x61, 0, .ascii8 [70]⟩ : FruLocator).wf = true ∧
    attr (parseSdr rawChannelVariant
      (⟨2, 0x51, 0x20, 1, 1, 0, 0, 7, 0, 0x10, 2, 0xc2, 0x61, 0, .ascii8 [70]⟩ : FruLocator).encode) "channel_number"
      = some (.nat 112) ∧
    attr (parseSdr Variant.intended
      (⟨2, 0x51, 0x20, 1, 1, 0, 0, 7, 0, 0x10, 2, 0xc2, 0x61, 0, .ascii8 [70]⟩ : FruLocator).encode) "channel_number"
      = some (.nat 7) ∧
    (⟨7, 0x51, 0x10, 3, 2, 5, 2, 1, 0x51, 0x2c14a, 0x8006, List.replicate 16 0xab⟩ : McConfirmation).wf = true ∧
    attr (parseSdr rawChannelVariant
      (⟨7, 0x51, 0x10, 3, 2, 5, 2, 1, 0x51, 0x2c14a, 0x8006, List.replicate 16 0xab⟩ : McConfirmation).encode) "channel_number"
      = some (.nat 37) ∧
    attr (parseSdr rawChannelVariant
      (⟨7, 0x51, 0x10, 3, 2, 5, 2, 1, 0x51, 0x2c14a, 0x8006, List.replicate 16 0xab⟩ : McConfirmation).encode) "device_revision"
      = none ∧
    attr (parseSdr Variant.intended
      (⟨7, 0x51, 0x10, 3, 2, 5, 2, 1, 0x51, 0x2c14a, 0x8006, List.replicate 16 0xab⟩ : McConfirmation).encode) "channel_number"
      = some (.nat 2) ∧
    attr (parseSdr Variant.intended
      (⟨7, 0x51, 0x10, 3, 2, 5, 2, 1, 0x51, 0x2c14a, 0x8006, List.replicate 16 0xab⟩ : McConfirmation).encode) "device_revision"
      = some (.nat 5) := by
  decide +kernel

/-- … with the whole key byte 8 of the FRU device locator reported as `logical_physical`. -/
def rawAccessVariant : Variant := { Variant.intended with lpRaw := true }

/-- … and with the channel number of the sensor record key dropped. -/
def noKeyChannelVariant : Variant := { Variant.intended with keyNoChannel := true }

/-- A FRU device locator: (logical, access LUN, private bus id) as given, channel 7. -/
def fruWitness (l lun bus : Nat) : FruLocator :=
  ⟨2, 0x51, 0x50, 3, l, lun, bus, 7, 0, 0x10, 2, 0xc2, 0x61, 0, .ascii8 [70, 82, 85]⟩

/-- Table 43-7 key byte 8.  A PHYSICAL device (flag 0) on private bus 3 (byte = 03h): the code as shipped reports
`logical_physical = 3` — non-zero, i.e. "logical" — and has no attribute for the bus id; a logical device with access
LUN 2, bus id 5 (byte = 95h) reads 149.  Intended: the flag 0 / 1, and the LUN and the bus id under their own names. -/
theorem logical_physical_counterexample :
    (fruWitness 0 0 3).wf = true ∧ (fruWitness 1 2 5).wf = true ∧
    attr (parseSdr rawAccessVariant (fruWitness 0 0 3).encode) "logical_physical" = some (.nat 3) ∧
    attr (parseSdr rawAccessVariant (fruWitness 0 0 3).encode) "private_bus_id" = none ∧
    attr (parseSdr rawAccessVariant (fruWitness 1 2 5).encode) "logical_physical" = some (.nat 149) ∧
    attr (parseSdr rawAccessVariant (fruWitness 1 2 5).encode) "access_lun" = none ∧
    attr (parseSdr Variant.intended (fruWitness 0 0 3).encode) "logical_physical" = some (.nat 0) ∧
    attr (parseSdr Variant.intended (fruWitness 0 0 3).encode) "private_bus_id" = some (.nat 3) ∧
    attr (parseSdr Variant.intended (fruWitness 1 2 5).encode) "logical_physical" = some (.nat 1) ∧
    attr (parseSdr Variant.intended (fruWitness 1 2 5).encode) "access_lun" = some (.nat 2) ∧
    attr (parseSdr Variant.intended (fruWitness 1 2 5).encode) "private_bus_id" = some (.nat 5) := by
  decide +kernel

/-- A compact and an event-only sensor record with the given channel number in their key. -/
def compactWitness (ch : Nat) : CompactSensor :=
  ⟨0x12, 0x51, 0x82, ch, 1, 0x22, 3, 0x60, 0x67, 0x40, 7, 0x6f, 1, 1, 1, 0xc0, 0, 0, 0, 2, 3, 0, .ascii8 [67, 80, 85]⟩
def eventWitness (ch : Nat) : EventOnly :=
  ⟨0x13, 0x51, 0x82, ch, 1, 0x23, 3, 0x60, 0x12, 0x6f, 0, 0, .ascii8 [69, 118]⟩

/-- Tables 43-1, 43-2, 43-3 key byte 7.  The code as shipped masks the channel number away: the record with channel 5
has no `channel_number`, and two records whose keys differ (channel 5 / channel 9: the same owner address on two
different channels is two different controllers) parse to EQUAL results — for all three sensor record types.
Intended: 5 resp. 9 is reported and the results differ. -/
theorem sensor_key_channel_counterexample :
    (witness (.ascii8 [65])).wf = true ∧ (compactWitness 5).wf = true ∧ (eventWitness 5).wf = true ∧
    attr (parseSdr noKeyChannelVariant (witness (.ascii8 [65])).encode) "channel_number" = none ∧
    attr (parseSdr noKeyChannelVariant (compactWitness 5).encode) "channel_number" = none ∧
    attr (parseSdr noKeyChannelVariant (eventWitness 5).encode) "channel_number" = none ∧
    parseSdr noKeyChannelVariant (witness (.ascii8 [65])).encode =
      parseSdr noKeyChannelVariant ({ witness (.ascii8 [65]) with channel := 9 }).encode ∧
    parseSdr noKeyChannelVariant (compactWitness 5).encode = parseSdr noKeyChannelVariant (compactWitness 9).encode ∧
    parseSdr noKeyChannelVariant (eventWitness 5).encode = parseSdr noKeyChannelVariant (eventWitness 9).encode ∧
    attr (parseSdr Variant.intended (witness (.ascii8 [65])).encode) "channel_number" = some (.nat 5) ∧
    attr (parseSdr Variant.intended (witness (.ascii8 [65])).encode) "owner_lun" = some (.nat 2) ∧
    attr (parseSdr Variant.intended (compactWitness 5).encode) "channel_number" = some (.nat 5) ∧
    attr (parseSdr Variant.intended (eventWitness 9).encode) "channel_number" = some (.nat 9) := by
  decide +kernel

/-! ### the key sub-fields, for every value -/

/-- Key byte 8 of table 43-7, all 2 x 4 x 8 = 64 combinations: today's expressions give back the logical/physical flag,
the access LUN and the private bus id. -/
theorem fru_access_byte_all (l lun bus : Nat) (h1 : l < 2) (h2 : lun < 4) (h3 : bus < 8) :
    Gen.SdrExpr.fru_logical_physical (l * 128 + lun * 8 + bus) = l ∧
    Gen.SdrExpr.fru_access_lun (l * 128 + lun * 8 + bus) = lun ∧
    Gen.SdrExpr.fru_private_bus_id (l * 128 + lun * 8 + bus) = bus :=
  access_enc l lun bus h1 h2 h3

/-- Key byte 7 of tables 43-1, 43-2, 43-3, all 16 x 4 combinations: today's expressions give back the channel number
and the owner LUN. -/
theorem sensor_key_all (ch lun : Nat) (h : lun < 4) :
    Gen.SdrExpr.key_channel_number (ch * 16 + lun) = ch ∧ Gen.SdrExpr.key_owner_lun (ch * 16 + lun) = lun :=
  ⟨chan_enc ch lun h, lun_enc ch lun h⟩

/-- The intended parser keeps records with different keys apart: two well-formed full sensor records whose channel
numbers differ never parse to the same result (what the dropped channel number broke). -/
theorem sensor_key_channel_distinguished (r₁ r₂ : FullSensor) (h₁ : r₁.wf = true) (h₂ : r₂.wf = true)
    (hc : r₁.channel ≠ r₂.channel) :
    parseSdr Variant.intended r₁.encode ≠ parseSdr Variant.intended r₂.encode := by
  rw [parse_encode_full r₁ h₁, parse_encode_full r₂ h₂]
  intro h
  have hv : r₁.view = r₂.view := by injection h with h; injection h
  have := congrArg (List.lookup "channel_number") hv
  simp [FullSensor.view, headerView, List.lookup] at this
  exact hc this

/-! ### non-vacuity -/

/-- The hypotheses of `parse_encode_full` hold for the witness, and its instance says what it
should: M = −3, B = −512, K2 = −8, K1 = 7, accuracy 1000 are reported. -/
example : attr (parseSdr Variant.intended (witness (.ascii8 [65, 50])).encode) "m" = some (.int (-3)) ∧
    attr (parseSdr Variant.intended (witness (.ascii8 [65, 50])).encode) "b" = some (.int (-512)) ∧
    attr (parseSdr Variant.intended (witness (.ascii8 [65, 50])).encode) "k2" = some (.int (-8)) ∧
    attr (parseSdr Variant.intended (witness (.ascii8 [65, 50])).encode) "k1" = some (.int 7) := by
  rw [parse_encode_full _ (by decide)]
  decide +kernel

/-- 8-bit id strings (type 11b and type 00b) are the bytes as stored, one character per byte, and a backslash is a
character: `PSU\u00b0C` (50h 53h 55h 5Ch 75h 30h 30h 62h 30h 43h) reads back as those ten characters — not as the
five characters `PSU°C` a decoder that interprets `\uXXXX` would make of it —, as instances of
`id_string_roundtrip` and of `parse_encode_full`; `C:\usb` (a backslash-u that is no escape) likewise. -/
example : idString Variant.intended ((IdString.ascii8 [80, 83, 85, 92, 117, 48, 48, 98, 48, 67]).encode ++ []) =
      .ok [("device_id_string_type", .nat 3), ("device_id_string_length", .nat 10),
           ("device_id_string", .list [80, 83, 85, 92, 117, 48, 48, 98, 48, 67])] ∧
    idString Variant.intended ((IdString.unicode [67, 58, 92, 117, 115, 98]).encode ++ [0xaa]) =
      .ok [("device_id_string_type", .nat 0), ("device_id_string_length", .nat 6),
           ("device_id_string", .list [67, 58, 92, 117, 115, 98])] :=
  ⟨id_string_roundtrip _ (by decide) [], id_string_roundtrip _ (by decide) [0xaa]⟩

example : attr (parseSdr Variant.intended (witness (.ascii8 [80, 83, 85, 92, 117, 48, 48, 98, 48, 67])).encode)
      "device_id_string" = some (.list [80, 83, 85, 92, 117, 48, 48, 98, 48, 67]) ∧
    attr (parseSdr Variant.intended (witness (.ascii8 [80, 83, 85, 92, 117, 48, 48, 98, 48, 67])).encode)
      "device_id_string_length" = some (.nat 10) := by
  rw [parse_encode_full _ (by decide)]
  decide +kernel

example : (⟨1, 0x51, 0xC0, [1, 2, 3, 4]⟩ : Opaque).wf = true ∧ (3 ≤ [1, 2, 3, 4].length) := by decide
example : (⟨1, 0x51, 0x08, []⟩ : Opaque).wf = true ∧ kindOfType 0x08 = .unknown := by decide
example : (⟨7, 0x51, 0x10, 3, 15, 9, 2, 1, 0x51, 0x2c14a, 0x8006, List.replicate 16 0xab⟩ : McConfirmation).wf = true := by
  decide
example : (⟨2, 0x51, 0x20, 1, 1, 3, 7, 15, 9, 0x10, 2, 0xc2, 0x61, 0, .bcdPlus [(13, 14), (15, 0)]⟩ : FruLocator).wf = true := by
  decide
example : (witness (.ascii8 [65])).wf = true ∧ ({ witness (.ascii8 [65]) with channel := 9 }).wf = true ∧
    (witness (.ascii8 [65])).channel ≠ ({ witness (.ascii8 [65]) with channel := 9 }).channel := by decide

end PyIpmi.Props.C16
