/-
  C03 — IPMB frames carry valid checksums; the reply filter passes only intact matches.

  Model  : `PyIpmi.Ipmb.encodeIpmbMsg`, `encodeHeader`, `rxFilter`, `pyChecksum` — evaluated from
           `Gen/IpmbFilter.lean` (AST of the working tree's `pyipmi/interfaces/ipmb.py`).
  Spec   : `PyIpmi.Spec.Wire` (`sum8`, `parseReq`, `isReplyTo`, `mkReply`) — from the IPMB figure.

  * `checksum_zero_sum`   — appending `checksum(l)` makes any list sum to 0 mod 256
  * `encode_total`        — every in-range header and every payload encodes (no exception)
  * `hdr_sum_zero`, `payload_sum_zero`
                          — both checksums of every transmitted frame verify, ANY payload length
  * `frame_carries`       — a responder parsing the frame reads exactly rs_sa, rs_lun, netfn, rq_sa,
                            rq_lun, seq, cmd and the data
  * `frame_is_bytes`      — every element of the frame is a byte; length = payload + 7
  * `header_prefix`       — `IpmbHeaderReq.encode()` is the first six bytes of the frame
  * `rx_filter_iff`       — filter says yes ⇔ long enough ∧ both checksums ∧ netfn+1 ∧ cmd ∧ every
                            enabled optional comparison (responder LUN and sequence are enabled by
                            default, `default_flags`).  The left-hand side is evaluated from the
                            GENERATED `checks` list: deleting or weakening a check breaks the proof.
  * `rx_filter_total`     — the filter returns a boolean on every frame of ≥ 6 bytes
  * `single_byte_corruption_rejected`
                          — an accepted reply with any one byte altered is rejected
  * `intact_reply_accepted` — the reply of the specification's figure to the outstanding request is
                            accepted under every flag setting (the filter is not vacuous)
  Through the LAN transport, which may unwrap a Send Message response BEFORE the filter sees the frame
  (`Bridge.classifyRx`, the loop body of `Rmcp._send_and_receive`; `repaired` = with fixes/C09-1.diff):
  * `wrapper_verification_in_source`
                          — the working tree verifies both checksums of a wrapper before it unwraps it
                            (AST of decode_bridged_message / is_send_message_response, Gen/IpmbFilter)
  * `accepted_frame_is_intact` — whatever frame the transport accepts, plain or wrapped to any depth, bridged
                            request or not: both checksums of the RECEIVED frame verify
  * `transport_single_byte_corruption_rejected`
                          — … so an accepted frame with any one byte altered — a byte of any wrapper included —
                            is rejected like every other damaged frame: no data, no exception
  * `transport_corruption_asShipped_counterexample`
                          — as shipped the wrapper is consumed unverified: a reply whose wrapper checksum byte
                            is altered is accepted, and an altered completion-code byte is RAISED
  The response frame the library transmits for a request (`IpmbHeaderRsp.from_req_header` +
  `IpmbHeaderRsp.encode` + `encode_ipmb_msg`: every regular reply of pyipmi/emulation.py; `FromReqVariant.intended`
  = the source with fixes/C03-1.diff):
  * `response_header_encode` — a response header object carrying the request's fields in their roles and netFn + 1
                            encodes to the response frame of the figure (`Spec.Wire.mkReply`), any body
  * `from_req_header_in_source`
                          — `from_req_header` of the working tree (Gen/IpmbFilter.rspFromReq, AST) keeps requester
                            and responder in their roles and sets the response network function
  * `response_frame_is_figure`, `response_frame_carries`, `response_frame_passes_filter`
                          — the frame built for (request, completion code ++ data) IS the figure's response to that
                            request: the requester reads rq/rs addresses and LUNs, netFn + 1, sequence number,
                            command and body from it, both checksums verify, and the reply filter of that request
                            accepts it under every flag setting
  * `response_frame_asShipped_echoes_request`, `response_frame_asShipped_rejected`,
    `response_frame_asShipped_counterexample`
                          — as shipped the roles are crossed twice and the netFn is copied: what goes out is the
                            REQUEST header again in front of the response body; the library's own filter rejects
                            every such frame (witness: Get Device ID 20 18 c8 81 04 01 → 20 18 c8 81 04 01 00 …)
-/
import PyIpmi.Lemmas.IpmbBridge
namespace PyIpmi.Props.C03
open PyIpmi PyIpmi.Ipmb PyIpmi.Bridge PyIpmi.Spec.Wire PyIpmi.Spec.Bridges

theorem checksum_zero_sum (l : List Nat) : sum8 (l ++ [pyChecksum l]) = 0 ∧ pyChecksum l < 256 :=
  ⟨sum8_append_checksum l, pyChecksum_lt l⟩

theorem encode_total (h : Hdr) (data : List Nat) (hr : h.InRange) :
    ∃ f, encodeIpmbMsg h data = .ok f :=
  ⟨_, encodeIpmbMsg_frameOf h data hr⟩

theorem hdr_sum_zero (h : Hdr) (data f : List Nat) (hr : h.InRange)
    (he : encodeIpmbMsg h data = .ok f) : sum8 (f.take 3) = 0 := by
  rw [encodeIpmbMsg_frameOf h data hr] at he
  injection he with he; subst he
  exact frameOf_hdrOk h data

theorem payload_sum_zero (h : Hdr) (data f : List Nat) (hr : h.InRange)
    (he : encodeIpmbMsg h data = .ok f) : sum8 (f.drop 3) = 0 := by
  rw [encodeIpmbMsg_frameOf h data hr] at he
  injection he with he; subst he
  exact frameOf_payOk h data

theorem frame_carries (h : Hdr) (data f : List Nat) (hr : h.InRange)
    (he : encodeIpmbMsg h data = .ok f) : parseReq f = some (h, data) := by
  rw [encodeIpmbMsg_frameOf h data hr] at he
  injection he with he; subst he
  exact parseReq_frameOf h data hr

theorem frame_is_bytes (h : Hdr) (data f : List Nat) (hr : h.InRange) (hd : Bytes data)
    (he : encodeIpmbMsg h data = .ok f) : Bytes f ∧ f.length = data.length + 7 := by
  rw [encodeIpmbMsg_frameOf h data hr] at he
  injection he with he; subst he
  exact ⟨frameOf_bytes h data hr hd, frameOf_length h data⟩

theorem header_prefix (h : Hdr) (data f : List Nat) (hr : h.InRange)
    (he : encodeIpmbMsg h data = .ok f) : encodeHeader h = .ok (f.take 6) := by
  rw [encodeIpmbMsg_frameOf h data hr] at he
  injection he with he; subst he
  rw [encodeHeader_eq h hr]
  simp [frameOf, hdrBytes]

/-- keyword defaults of `rx_filter` as extracted from the source: responder LUN and sequence
number are compared unless the transport says otherwise, the three extras are off -/
theorem default_flags : Gen.IpmbFilter.rxDefaults = ({} : Flags) := by decide

theorem rx_filter_iff (req : Hdr) (f : List Nat) (fl : Flags) (hn : req.netfn % 2 = 0) :
    rxFilter req f fl = .ok true ↔
      (6 ≤ f.length ∧ sum8 (f.take 3) = 0 ∧ sum8 (f.drop 3) = 0 ∧
       rspNetfn f = req.netfn + 1 ∧ rspCmd f = req.cmd ∧
       (fl.rsLun = true → rspRsLun f = req.rsLun) ∧
       (fl.rqSeq = true → rspSeq f = req.seq) ∧
       (fl.rqSa = true → rspRqSa f = req.rqSa) ∧
       (fl.rsSa = true → rspRsSa f = req.rsSa) ∧
       (fl.rqLun = true → rspRqLun f = req.rqLun)) :=
  rxFilter_true_iff req f fl hn

theorem rx_filter_total (req : Hdr) (f : List Nat) (fl : Flags) (h6 : 6 ≤ f.length) :
    ∃ b, rxFilter req f fl = .ok b := by
  unfold rxFilter
  rw [rspNeeds_eq]
  have h0 : ¬ f.length = 0 := by omega
  have h1 : ¬ f.length < 6 := by omega
  simp only [h0, h1, if_false]
  exact ⟨_, rfl⟩

theorem single_byte_corruption_rejected (req : Hdr) (f : List Nat) (fl : Flags) (i b : Nat)
    (hn : req.netfn % 2 = 0) (hf : Bytes f) (hacc : rxFilter req f fl = .ok true)
    (hi : i < f.length) (hb : b < 256) (hne : b ≠ f[i]) :
    rxFilter req (f.set i b) fl = .ok false := by
  have h := (rxFilter_true_iff req f fl hn).mp hacc
  have hnot : ¬ rxFilter req (f.set i b) fl = .ok true := fun h' =>
    isReplyTo_corrupt req f fl i b hf h hi hb hne ((rxFilter_true_iff req _ fl hn).mp h')
  obtain ⟨r, hr⟩ := rx_filter_total req (f.set i b) fl (by simpa using h.1)
  cases r with
  | false => exact hr
  | true => exact absurd hr hnot

theorem intact_reply_accepted (req : Hdr) (body : List Nat) (fl : Flags) (hr : req.InRange)
    (hn : req.netfn % 2 = 0) : rxFilter req (mkReply req body) fl = .ok true := by
  rw [rxFilter_true_iff req _ fl hn]
  obtain ⟨h1, h2, h3, h4, h5, h6, h7⟩ := hr
  have hp : payOk (mkReply req body) := by
    have : (mkReply req body).drop 3 =
        ([req.rsSa, req.seq * 4 + req.rsLun, req.cmd] ++ body) ++
          [(256 - ([req.rsSa, req.seq * 4 + req.rsLun, req.cmd] ++ body).sum % 256) % 256] := by
      simp [mkReply]
    unfold payOk
    rw [this, ← pyChecksum_eq]
    exact sum8_append_checksum _
  have hh : hdrOk (mkReply req body) := by
    simp [mkReply, hdrOk, sum8]; omega
  have e1 : ((req.netfn + 1) * 4 + req.rqLun) / 4 = req.netfn + 1 := by omega
  have e2 : ((req.netfn + 1) * 4 + req.rqLun) % 4 = req.rqLun := by omega
  have e3 : (req.seq * 4 + req.rsLun) / 4 = req.seq := by omega
  have e4 : (req.seq * 4 + req.rsLun) % 4 = req.rsLun := by omega
  refine ⟨by simp [mkReply], hh, hp, ?_⟩
  simp [mkReply, rspNetfn, rspCmd, rspRsLun, rspSeq, rspRqSa, rspRsSa, rspRqLun, byteAt, e1, e2, e3, e4]

/-! ### the same clause through the LAN transport (frames that arrive wrapped in Send Message responses) -/

theorem wrapper_verification_in_source :
    Gen.IpmbFilter.recogNetfn = true ∧ Gen.IpmbFilter.recogVerify = true := by decide

/-- Repaired transport: a frame is accepted (data returned) only if both checksums OF THE FRAME AS
RECEIVED verify — whether it is the reply itself or a Send Message response around it, at any depth. -/
theorem accepted_frame_is_intact (bridge : Option Hdr) (req : Hdr) (fl : Flags) (f d : List Nat)
    (hn : req.netfn % 2 = 0) (hb : ∀ bh, bridge = some bh → bh.netfn % 2 = 0)
    (hacc : classifyRx .repaired bridge req fl f = .hit d) : 6 ≤ f.length ∧ hdrOk f ∧ payOk f := by
  have plain : ∀ g, afterFilter req fl g = .hit d → 6 ≤ g.length ∧ hdrOk g ∧ payOk g := by
    intro g hg
    unfold afterFilter at hg
    split at hg
    · rename_i ht
      have := (rxFilter_true_iff req g fl hn).1 ht
      exact ⟨this.1, this.2.1, this.2.2.1⟩
    · cases hg
    · cases hg
  cases bridge with
  | none => exact plain f hacc
  | some bh =>
    simp only [classifyRx] at hacc
    split at hacc
    · rename_i ht
      have := (rxFilter_true_iff bh f _ (hb bh rfl)).1 ht
      exact ⟨this.1, this.2.1, this.2.2.1⟩
    · exact plain f hacc
    · cases hacc

/-- Repaired transport: "a reply with any single corrupted byte is rejected", wrappers included.  The
damaged frame is an unrelated frame like any other (`noise`): nothing is returned from it and nothing is
raised from it. -/
theorem transport_single_byte_corruption_rejected (bridge : Option Hdr) (req : Hdr) (fl : Flags)
    (f d : List Nat) (i b : Nat) (hn : req.netfn % 2 = 0) (hbr : ∀ bh, bridge = some bh → bh.netfn % 2 = 0)
    (hf : Bytes f) (hacc : classifyRx .repaired bridge req fl f = .hit d)
    (hi : i < f.length) (hb : b < 256) (hne : b ≠ f[i]) :
    classifyRx .repaired bridge req fl (f.set i b) = .noise := by
  obtain ⟨h6, hh, hp⟩ := accepted_frame_is_intact bridge req fl f d hn hbr hacc
  have hd := corrupt_breaks_sums f i b hf hi hb hne hh hp
  have h6' : 6 ≤ (f.set i b).length := by simpa using h6
  have hplain : afterFilter req fl (f.set i b) = .noise := by
    simp [afterFilter, rxFilter_damaged req _ fl h6' hd]
  cases bridge with
  | none => exact hplain
  | some bh => simp only [classifyRx, rxFilter_damaged bh _ _ h6' hd, hplain]

def cReq : Hdr := { rsSa := 0x82, rsLun := 0, netfn := 6, rqSa := 0x20, rqLun := 0, seq := 5, cmd := 1 }
def cLayer : Hdr := { rsSa := 0x20, rsLun := 0, netfn := 6, rqSa := 0x81, rqLun := 0, seq := 5, cmd := 0x34 }
/-- Get Device ID reply (completion code 00h, two data bytes) in one Send Message response -/
def cWrapped : List Nat := wrapLayer cLayer 0 (mkReply cReq [0, 0x12, 0x34])

/-- As shipped nothing of the wrapper is verified: with its payload checksum (last byte) altered the
frame is accepted all the same, and with its completion-code byte (byte 6) altered to C0h that value
is raised as CompletionCodeError — from a frame whose checksum does not verify. -/
theorem transport_corruption_asShipped_counterexample :
    classifyRx .asShipped none cReq {} cWrapped = .hit [0, 0x12, 0x34] ∧
    classifyRx .asShipped none cReq {} (cWrapped.set 17 0) = .hit [0, 0x12, 0x34] ∧
    cWrapped[17]? ≠ some 0 ∧
    classifyRx .asShipped none cReq {} (cWrapped.set 6 0xc0) = .err (.ccError 0xc0) := by decide

/-! ### the response frame built for a request (`from_req_header` + `IpmbHeaderRsp.encode` + `encode_ipmb_msg`) -/

/-- `IpmbHeaderRsp.encode` / `encode_ipmb_msg`: a response header object that carries responder and
requester of request `h` in their roles, its sequence number and command, and the network function
`h.netfn + 1` encodes to the response frame of the figure — requester address first — for ANY body. -/
theorem response_header_encode (h : Hdr) (body : List Nat) (hr : h.InRange) (hn : h.netfn + 1 < 64) :
    encodeIpmbMsgRsp { h with netfn := h.netfn + 1 } body = .ok (mkReply h body) :=
  encodeIpmbMsgRsp_mkReply h body hr hn

/-- `IpmbHeaderRsp.from_req_header` of the working tree (its assignments, read from the AST on every
run) gives the header of the response to the request: responder and requester address and LUN in their
roles, same sequence number and command, the request's network function plus one. -/
theorem from_req_header_in_source (req : Hdr) (hn : req.netfn % 2 = 0) :
    applyFromReq Gen.IpmbFilter.rspFromReq req = { req with netfn := req.netfn + 1 } := by
  simp [applyFromReq, Gen.IpmbFilter.rspFromReq, hset, eval, hget, or1_even _ hn]

/-- The frame the library builds to answer request `req` with `body` (completion code ++ data) is the
response frame the figure prescribes for (request, body) — with the source's own `from_req_header`
and with the `intended` table alike. -/
theorem response_frame_is_figure (req : Hdr) (body : List Nat) (hr : req.InRange) (hn : req.netfn % 2 = 0) :
    responseFrame Gen.IpmbFilter.rspFromReq req body = .ok (mkReply req body) ∧
    responseFrame (fromReqTable .intended) req body = .ok (mkReply req body) := by
  have h64 : req.netfn + 1 < 64 := by have := hr.2.2.1; omega
  exact ⟨by rw [responseFrame, from_req_header_in_source req hn]; exact encodeIpmbMsgRsp_mkReply req body hr h64,
    by rw [responseFrame, applyFromReq_intended req hn]; exact encodeIpmbMsgRsp_mkReply req body hr h64⟩

/-- … so it carries exactly what it was asked to carry: the requester reads its own address and LUN, the
responder's address and LUN, the request's network function plus one, sequence number, command and the
body from it (`Spec.Wire.parseRsp` succeeds only when both checksums verify). -/
theorem response_frame_carries (req : Hdr) (body f : List Nat) (hr : req.InRange) (hn : req.netfn % 2 = 0)
    (hf : responseFrame Gen.IpmbFilter.rspFromReq req body = .ok f) :
    parseRsp f = some ({ req with netfn := req.netfn + 1 }, body) ∧ hdrOk f ∧ payOk f := by
  rw [(response_frame_is_figure req body hr hn).1] at hf
  injection hf with hf; subst hf
  exact ⟨parseRsp_mkReply req body hr, mkReply_hdrOk req body, mkReply_payOk req body⟩

/-- … and the reply filter of that very request accepts it, whatever optional checks are enabled. -/
theorem response_frame_passes_filter (req : Hdr) (body f : List Nat) (fl : Flags) (hr : req.InRange)
    (hn : req.netfn % 2 = 0) (hf : responseFrame Gen.IpmbFilter.rspFromReq req body = .ok f) :
    rxFilter req f fl = .ok true := by
  rw [(response_frame_is_figure req body hr hn).1] at hf
  injection hf with hf; subst hf
  exact intact_reply_accepted req body fl hr hn

/-- As shipped `from_req_header` crosses requester and responder although `IpmbHeaderRsp.encode` already
puts the requester first, and copies the network function: the frame transmitted as the "response" is the
request header again, in front of the response body. -/
theorem response_frame_asShipped_echoes_request (req : Hdr) (body : List Nat) (hr : req.InRange) :
    responseFrame (fromReqTable .asShipped) req body = encodeIpmbMsg req body := by
  rw [responseFrame_asShipped req body hr, encodeIpmbMsg_frameOf req body hr]

/-- … which the library's own reply filter rejects for EVERY request (the network function is the
request's, not the request's plus one), under every flag setting. -/
theorem response_frame_asShipped_rejected (req : Hdr) (body f : List Nat) (fl : Flags) (hr : req.InRange)
    (hn : req.netfn % 2 = 0) (hf : responseFrame (fromReqTable .asShipped) req body = .ok f) : rxFilter req f fl = .ok false := by
  rw [responseFrame_asShipped req body hr] at hf
  injection hf with hf; subst hf
  have h6 : 6 ≤ (frameOf req body).length := by rw [frameOf_length]; omega
  obtain ⟨b, hb⟩ := rxFilter_ok req (frameOf req body) fl h6
  cases b with
  | false => exact hb
  | true =>
    exfalso
    have hall : (Gen.IpmbFilter.rxChecks.filter (active fl)).all
        (checkHolds req (decodeRspFields (frameOf req body)) (frameOf req body)) = true := by
      unfold rxFilter at hb
      rw [rspNeeds_eq] at hb
      have h0 : ¬ (frameOf req body).length = 0 := by omega
      have h1 : ¬ (frameOf req body).length < 6 := by omega
      simp only [h0, h1, if_false] at hb
      injection hb
    rw [List.all_eq_true] at hall
    have c := hall ⟨none, (.e (.rsp .netfn)), (.e (.bor (.self .netfn) (.const 1)))⟩
      (by simp [Gen.IpmbFilter.rxChecks, active])
    obtain ⟨h1, h2, h3, h4, h5, h6', h7⟩ := hr
    have e1 : (req.netfn * 4 + req.rsLun) / 4 = req.netfn := by omega
    simp [checkHolds, evalTerm, eval, decodeRspFields_eq, hget, frameOf, hdrBytes, byteAt, e1] at c
    rw [or1_even _ hn] at c
    omega

def sReq : Hdr := { rsSa := 0x20, rsLun := 0, netfn := 6, rqSa := 0x81, rqLun := 0, seq := 1, cmd := 1 }

/-- Get Device ID `20 18 c8 81 04 01 7a` (rqSA 81h → rsSA 20h, sequence number 1), answered with
completion code 00h and two data bytes: as shipped `20 18 c8 81 04 01 00 aa bb 15` goes out — checksums
valid, every addressing field wrong — instead of `81 1c 63 20 04 01 00 aa bb 76`, and `rx_filter` of
the request says no. -/
theorem response_frame_asShipped_counterexample :
    responseFrame (fromReqTable .asShipped) sReq [0, 0xaa, 0xbb] =
      .ok [0x20, 0x18, 0xc8, 0x81, 0x04, 0x01, 0x00, 0xaa, 0xbb, 0x15] ∧
    mkReply sReq [0, 0xaa, 0xbb] = [0x81, 0x1c, 0x63, 0x20, 0x04, 0x01, 0x00, 0xaa, 0xbb, 0x76] ∧
    sum8 [0x20, 0x18, 0xc8] = 0 ∧ sum8 [0x81, 0x04, 0x01, 0x00, 0xaa, 0xbb, 0x15] = 0 ∧
    rxFilter sReq [0x20, 0x18, 0xc8, 0x81, 0x04, 0x01, 0x00, 0xaa, 0xbb, 0x15] {} = .ok false ∧
    parseRsp [0x20, 0x18, 0xc8, 0x81, 0x04, 0x01, 0x00, 0xaa, 0xbb, 0x15] ≠
      some ({ sReq with netfn := 7 }, [0, 0xaa, 0xbb]) := by decide

/-! ### non-vacuity: concrete objects satisfying the hypotheses -/

def demoReq : Hdr := { rsSa := 0x72, rsLun := 1, netfn := 6, rqSa := 0x20, rqLun := 0, seq := 2, cmd := 1 }

example : demoReq.InRange := by decide
/-- the literal pinned by tests/interfaces/test_ipmb.py::test_encode_ipmb_msg -/
example : encodeIpmbMsg { demoReq with rsLun := 0 } [0xaa, 0xbb, 0xcc] =
    .ok [0x72, 0x18, 0x76, 0x20, 0x08, 0x01, 0xaa, 0xbb, 0xcc, 0xa6] := by decide
example : encodeIpmbMsg { demoReq with netfn := 64 } [] = .pyError "OverflowError" := by decide
example : rxFilter demoReq (mkReply demoReq [0, 0xaa, 0xbb]) {} = .ok true := by decide
/-- swapped LUNs (what `IpmbHeaderRsp.from_req_header` produces) are rejected, as they must be -/
example : rxFilter demoReq (mkReply { demoReq with rsLun := 0, rqLun := 1 } [0]) {} = .ok false := by decide
example : rxFilter demoReq [1, 2, 3] {} = .pyError "IndexError" := by decide
example : rxFilter demoReq ((mkReply demoReq [0, 0xaa, 0xbb]).set 7 0xab) {} = .ok false := by decide
/-- the sequence flag matters: a stale sequence number passes only when told to ignore it -/
example : rxFilter demoReq (mkReply { demoReq with seq := 3 } [0]) {} = .ok false ∧
    rxFilter demoReq (mkReply { demoReq with seq := 3 } [0]) { rqSeq := false } = .ok true := by decide

/-- the repaired transport on the same frames: accepted intact, dropped when damaged -/
example : classifyRx .repaired (some (bridgeHdr 5)) cReq {} cWrapped = .hit [0, 0x12, 0x34] ∧
    classifyRx .repaired (some (bridgeHdr 5)) cReq {} (cWrapped.set 17 0) = .noise ∧
    classifyRx .repaired (some (bridgeHdr 5)) cReq {} (cWrapped.set 6 0xc0) = .noise := by decide

/-- the intended `from_req_header` on the witness of the counter-example: the figure's response, accepted -/
example : responseFrame (fromReqTable .intended) sReq [0, 0xaa, 0xbb] =
      .ok [0x81, 0x1c, 0x63, 0x20, 0x04, 0x01, 0x00, 0xaa, 0xbb, 0x76] ∧
    rxFilter sReq [0x81, 0x1c, 0x63, 0x20, 0x04, 0x01, 0x00, 0xaa, 0xbb, 0x76] {} = .ok true ∧
    sReq.InRange ∧ sReq.netfn % 2 = 0 := by decide
/-- LUNs, a late sequence number and the highest request network function survive the trip -/
example : responseFrame Gen.IpmbFilter.rspFromReq
      { rsSa := 0x72, rsLun := 1, netfn := 62, rqSa := 0x20, rqLun := 2, seq := 63, cmd := 0xff } [0xc1] =
    .ok (mkReply { rsSa := 0x72, rsLun := 1, netfn := 62, rqSa := 0x20, rqLun := 2, seq := 63, cmd := 0xff } [0xc1]) := by
  decide

end PyIpmi.Props.C03
