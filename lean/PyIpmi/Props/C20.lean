/-
  C20 — The command-line tool drives the same requests as the API.

  Property theorems only (helper lemmas live in Lemmas/Cli*.lean).  `Gen.Cli` is regenerated
  from pyipmi/ipmitool.py, pyipmi.Ipmi and pyipmi/chassis.py of the working tree on every run,
  so every theorem that mentions `Gen.Cli.*` is re-checked against what the code says now.

  Reading guide
  * `table_resolves`                      every `ipmi.<method>(…)` of every entry of the INTENDED table
                                          (= today's table with the three shipped defects repaired,
                                          identity once they are repaired) exists in today's API and its
                                          call fits the signature; likewise `main`'s own calls
  * `table_resolves_asShipped_counterexample`, `asShipped_unresolved`, `intended_repairs_asShipped`
                                          the pinned table does NOT resolve: exactly three references
                                          (chassis power diag, chassis power soft, picmg channel power),
                                          and `intended` repairs exactly those
  * `chassis_power_codes`, `chassis_codes_distinct`
                                          each `chassis power <word>` reaches the API method whose option
                                          code is the one IPMI table 28-4 gives; the six codes differ
  * `lookup_correct`, `lookup_sound`, `lookup_none`, `table_prefix_free`, `table_lookup`
                                          the prefix loop of `main` finds exactly the named entry
  * `getopt_separates`, `options_take_effect`, `rules_match_option_string`
                                          options written `-c`, `-c v`, `-cv` in any order/multiplicity are
                                          a last-wins assignment of exactly the given values
  * `int0_prefixed`, `int_decimal`        hex/octal/binary/decimal literals denote their positional value
  * `raw_exact`, `raw_exact_default_lun`, `raw_prints_reply`, `hex_roundtrip`
                                          `raw` sends exactly the given LUN / NetFn / bytes and prints the
                                          reply so that it reads back
  * `errors_exit_nonzero`                 completion codes and timeouts end the tool with a message and a
                                          non-zero status
-/
import PyIpmi.Lemmas.Cli
import PyIpmi.Lemmas.CliInt
import PyIpmi.Lemmas.CliAsShipped
import PyIpmi.Gen.Cli
namespace PyIpmi.Props.C20
open PyIpmi PyIpmi.Cli

/-! ### the table resolves -/

/-- ∀ entry ∀ method referenced: it exists in the API and the call arity fits its signature —
for the intended table over TODAY's source. -/
theorem table_resolves :
    resolvesAll Gen.Cli.api (intended Gen.Cli.names Gen.Cli.commands) = true
    ∧ Gen.Cli.mainRefs.all (refOk Gen.Cli.api) = true := by decide +kernel

/-- … stated pointwise -/
theorem table_resolves_pointwise (c : Command) (hc : c ∈ intended Gen.Cli.names Gen.Cli.commands)
    (m : MethodRef) (hm : m ∈ c.refs) :
    ∃ s, findSig Gen.Cli.api m.name = some s ∧
      (m.called = true → s.callable = true ∧ bindOk s m.nPos m.kws = true) := by
  have h := table_resolves.1
  unfold resolvesAll at h
  rw [List.all_eq_true] at h
  have h2 := h c hc
  unfold commandOk at h2
  rw [List.all_eq_true] at h2
  have h3 := h2 m hm
  unfold refOk resolveRef at h3
  cases hs : findSig Gen.Cli.api m.name with
  | none => rw [hs] at h3; simp at h3
  | some s =>
    refine ⟨s, rfl, ?_⟩
    intro hcalled
    rw [hs] at h3
    simp only [hcalled, Bool.not_true, Bool.false_eq_true, if_false] at h3
    by_cases hb : (s.callable && bindOk s m.nPos m.kws) = true
    · simpa using hb
    · simp [hb] at h3

/-- As shipped (pinned tree) the property is FALSE: the table does not resolve … -/
theorem table_resolves_asShipped_counterexample :
    resolvesAll AsShipped.api AsShipped.commands = false := by decide +kernel

/-- … because of exactly these references (entry index, reference index) and no others:
17 = `picmg channel power` (`send_channel_power` called with 1 of its 3 required arguments →
TypeError), 27 = `chassis power diag`, 28 = `chassis power soft` (methods that do not exist →
AttributeError). -/
theorem asShipped_unresolved :
    unresolved AsShipped.api AsShipped.commands = [(17, 0), (27, 0), (28, 0)]
    ∧ (AsShipped.commands[17]?.map (entryResolution AsShipped.api)) = some .typeError
    ∧ (AsShipped.commands[27]?.map (entryResolution AsShipped.api)) = some .attributeError
    ∧ (AsShipped.commands[28]?.map (entryResolution AsShipped.api)) = some .attributeError := by
  decide +kernel

/-- `intended` repairs the shipped table (so it is the right "intended" variant) and leaves the
26 sound entries untouched. -/
theorem intended_repairs_asShipped :
    resolvesAll AsShipped.api (intended AsShipped.names AsShipped.commands) = true
    ∧ (List.range 29).all (fun i => i == 17 || i == 27 || i == 28 ||
         (intended AsShipped.names AsShipped.commands)[i]? == AsShipped.commands[i]?) = true := by
  decide +kernel

/-! ### chassis power sub-commands -/

/-- `chassis power <word>` has exactly one reference, a call without arguments of the API
method whose `chassis_control` option is the specification's code for that word -/
def chassisOk (cmds : List Command) (cc : List (Nat × Nat)) : Bool :=
  Spec.Cli.chassisPower.all fun e =>
    match cmds.find? (fun c => c.name == ofString ("chassis power " ++ e.1)) with
    | some c =>
      (match c.refs with
       | [r] => r.called && r.nPos == 0 && r.kws.isEmpty &&
           (cc.find? (fun x => x.1 == r.name)).map (·.2) == some e.2.code
       | _ => false)
    | none => false

theorem chassis_power_codes :
    chassisOk (intended Gen.Cli.names Gen.Cli.commands) Gen.Cli.chassisControl = true := by
  decide +kernel

/-- as shipped, `diag` and `soft` reach no chassis-control method at all -/
theorem chassis_power_codes_asShipped_counterexample :
    chassisOk AsShipped.commands AsShipped.chassisControl = false := by decide +kernel

theorem chassis_codes_distinct : (Spec.Cli.allActions.map Spec.Cli.ChassisAction.code).Nodup
    ∧ (Spec.Cli.chassisPower.map (·.1)).Nodup ∧ (Spec.Cli.chassisPower.map (·.2)).Nodup := by
  decide

/-! ### lookup -/

/-- For ANY table: if `toks` names an entry and no proper prefix of `toks` names one, then
`main` dispatches `toks ++ rest` to that entry with exactly `rest` as its arguments. -/
theorem lookup_correct {α} (t : List (Str × α)) (toks rest : List Str) (f : α)
    (hne : toks ≠ [])
    (hfound : find t (joinSp toks) = some f)
    (hpre : ∀ k, 0 < k → k < toks.length → find t (joinSp (toks.take k)) = none) :
    lookup t (toks ++ rest) = some (f, rest) := by
  have hlen : 0 < toks.length := List.length_pos_iff.mpr hne
  have htake : ∀ k, k ≤ toks.length → (toks ++ rest).take k = toks.take k := by
    intro k hk
    rw [List.take_append_of_le_length hk]
  have h := lookupAux_hit t (toks ++ rest) f (toks.length - 1)
    (by rw [htake _ (by omega)]
        have : toks.length - 1 + 1 = toks.length := by omega
        rw [this, List.take_length]; exact hfound)
    (by intro k hk
        rw [htake _ (by omega)]
        exact hpre (k + 1) (by omega) (by omega))
    (toks ++ rest).length 0 (by omega) (by simp; omega)
  unfold lookup
  rw [h]
  have : toks.length - 1 + 1 = toks.length := by omega
  rw [this, List.drop_left]

/-- whatever `lookup` returns is the first (shortest) prefix that names an entry -/
theorem lookup_sound {α} (t : List (Str × α)) (args r : List Str) (f : α)
    (h : lookup t args = some (f, r)) :
    ∃ n, n < args.length ∧ find t (joinSp (args.take (n + 1))) = some f ∧ r = args.drop (n + 1)
      ∧ ∀ k, k < n → find t (joinSp (args.take (k + 1))) = none := by
  obtain ⟨n, _, h2, h3, h4, h5⟩ := lookupAux_sound t args f r args.length 0 h
  exact ⟨n, by omega, h3, h4, fun k hk => h5 k (by omega) hk⟩

/-- no prefix names an entry ⇒ no handler (`usage(); sys.exit(1)`) -/
theorem lookup_none {α} (t : List (Str × α)) (args : List Str)
    (h : ∀ k, find t (joinSp (args.take (k + 1))) = none) : lookup t args = none :=
  lookupAux_miss t args h args.length 0

/-- side condition on TODAY's table: no name is a token-prefix of (or equal to) another -/
theorem table_prefix_free : prefixFree Gen.Cli.commands = true := by decide +kernel

/-- hence every entry of today's table is reached by its own words, whatever arguments follow -/
theorem table_lookup (i : Nat) (c : Command) (hc : Gen.Cli.commands[i]? = some c) (rest : List Str) :
    lookup (nameTable Gen.Cli.commands) (c.toks ++ rest) = some (i, rest) := by
  have h := table_prefix_free
  unfold prefixFree at h
  simp only [List.all_eq_true, List.mem_range] at h
  have hi : i < Gen.Cli.commands.length := by
    cases hlt : decide (i < Gen.Cli.commands.length) with
    | true => simpa using hlt
    | false =>
      have : Gen.Cli.commands.length ≤ i := by simpa using hlt
      rw [List.getElem?_eq_none this] at hc
      cases hc
  have h1 := h i hi
  rw [hc] at h1
  simp only [Bool.and_eq_true, Bool.not_eq_true', beq_iff_eq, List.all_eq_true, List.mem_range,
    Bool.or_eq_true] at h1
  obtain ⟨⟨⟨hne, hjoin⟩, hfind⟩, hpre⟩ := h1
  apply lookup_correct
  · intro h0; rw [h0] at hne; simp at hne
  · rw [hjoin]; exact hfind
  · intro k hk0 hk
    cases hpre k hk with
    | inl h0 => omega
    | inr h0 => exact h0

/-! ### options -/

/-- `getopt` splits a command line of options written `-c`, `-c v` or `-cv` (any order, any
multiplicity), followed by the command words, into exactly the given (option, value) pairs and
the command words. -/
theorem getopt_separates (so : Str) (gs : List Given) (cmd : List Str)
    (hok : ∀ g ∈ gs, g.ok so = true) (hs : stops cmd = true) :
    getopt so (gs.flatMap Given.render ++ cmd) = .ok (gs.map Given.pair, cmd) :=
  getopt_render so gs cmd hok hs

/-- every option letter of today's option string has a rule, every rule's letter is in the
string, a rule that needs a value is declared with `:` and vice versa, and every variable a rule
assigns exists -/
def rulesMatch (sh : MainShape) : Bool :=
  sh.rules.all (fun r =>
    hasArg sh.optString r.opt == some (match r.act with
      | .assign _ .constTrue => false
      | .assign _ _ => true
      | .exitOk => false))
  && sh.optString.all (fun c => c == 58 || (ruleOf sh.rules c).isSome)
  && rulesWf sh.rules sh.defaults.length

theorem rules_match_option_string : rulesMatch Gen.Cli.shape = true := by decide +kernel

/-- The options take effect exactly as given: for today's `main`, a command line made of
declared options (each written in any of the three forms) whose values convert, followed by the
command words, yields — for EVERY variable of `main` — the converted value of the LAST option
that assigns it, or its default if no option does; and the command words are untouched. -/
theorem options_take_effect (gs : List Given) (cmd : List Str) (sets : List (Nat × Val))
    (hok : ∀ g ∈ gs, g.ok Gen.Cli.shape.optString = true) (hs : stops cmd = true)
    (hsets : settingsOf Gen.Cli.shape.rules (gs.map Given.pair) = some sets) :
    ∃ vs, getopt Gen.Cli.shape.optString (gs.flatMap Given.render ++ cmd)
            = .ok (gs.map Given.pair, cmd)
      ∧ applyOpts Gen.Cli.shape.rules (gs.map Given.pair) Gen.Cli.shape.defaults = .vals vs
      ∧ ∀ x, getv vs x = Spec.Cli.lastWins (getv Gen.Cli.shape.defaults) sets x := by
  have hwf : rulesWf Gen.Cli.shape.rules Gen.Cli.shape.defaults.length = true := by
    have h := rules_match_option_string
    unfold rulesMatch at h
    simp only [Bool.and_eq_true] at h
    exact h.2
  have hlt := settingsOf_lt _ _ hwf _ _ hsets
  obtain ⟨vs, h1, _, h3⟩ := applyOpts_lastWins Gen.Cli.shape.rules _ Gen.Cli.shape.defaults sets hsets hlt
  exact ⟨vs, getopt_render _ gs cmd hok hs, h1, h3⟩

/-! ### numbers -/

/-- `0x…`/`0X…`/`0o…`/`0O…`/`0b…`/`0B…` literals (digits in either case) denote their positional value -/
theorem int0_prefixed (p base : Nat) (hp : prefixBase p = some base) (cs ds : List Nat)
    (hds : All₂ (IsDigitOf base) cs ds) (hne : ds ≠ []) :
    pyInt0 (48 :: p :: cs) = some (Int.ofNat (horner base ds 0)) :=
  pyInt0_prefixed p base hp cs ds hds hne

/-- decimal literals (no leading zero, or just `0`) denote their positional value, for `int(s, 0)`
and for `int(s)` -/
theorem int_decimal (base0 : Bool) (cs ds : List Nat)
    (hds : All₂ (IsDigitOf 10) cs ds) (hne : ds ≠ [])
    (hlead : ds.head? ≠ some 0 ∨ ds = [0]) :
    pyInt base0 cs = some (Int.ofNat (horner 10 ds 0)) :=
  pyInt_decimal base0 cs ds hds hne hlead

/-! ### raw -/

/-- `raw lun <l> <netfn> <b₁> … <bₙ>` (n ≥ 1, every word any literal of its number, bytes < 256)
issues `raw_command(l, netfn, bytes)` with exactly these values -/
theorem raw_exact (sl snf : Str) (sbs : List Str) (lun nf : Int) (bs : List Nat)
    (hl : pyInt0 sl = some lun) (hn : pyInt0 snf = some nf)
    (hb : All₂ (fun s b => pyInt0 s = some (Int.ofNat b)) sbs bs)
    (hlt : ∀ b ∈ bs, b < 256) (hne : bs ≠ []) :
    cmdRaw (ofString "lun" :: sl :: snf :: sbs) = .request lun nf bs := by
  unfold cmdRaw
  simp only [if_true, hl]
  exact rawBody_ok lun nf snf sbs bs hn hb hlt hne

/-- without `lun` the LUN is 0 -/
theorem raw_exact_default_lun (snf : Str) (sbs : List Str) (nf : Int) (bs : List Nat)
    (hn : pyInt0 snf = some nf)
    (hb : All₂ (fun s b => pyInt0 s = some (Int.ofNat b)) sbs bs)
    (hlt : ∀ b ∈ bs, b < 256) (hne : bs ≠ []) :
    cmdRaw (snf :: sbs) = .request 0 nf bs := by
  have hnl : snf ≠ ofString "lun" := by
    intro h; rw [h, pyInt0_lun] at hn; cases hn
  cases hb with
  | nil => exact absurd rfl hne
  | cons h1 hrest =>
    rename_i s b ss bs'
    unfold cmdRaw
    simp only [hnl, if_false]
    exact rawBody_ok 0 nf snf (s :: ss) (b :: bs') hn (All₂.cons h1 hrest) hlt hne

/-- what `raw` prints is the specification's hex format of the reply … -/
theorem raw_prints_reply (rsp : List Nat) : printHex rsp = Spec.Cli.printHex rsp :=
  printHex_eq_spec rsp

/-- … which reads back to exactly the reply bytes -/
theorem hex_roundtrip (bs : List Nat) (h : ∀ b ∈ bs, b < 256) :
    Spec.Cli.parseHex (Spec.Cli.printHex bs) = some bs :=
  parseHex_printHex bs h

/-! ### errors -/

/-- a BMC completion code or a timeout ends the tool with a message and a non-zero status
(today's `except` clauses) -/
theorem errors_exit_nonzero {α} (o : Outcome α) (ho : (∃ c, o = .ccError c) ∨ o = .timeoutError) :
    ∃ r, exitOf Gen.Cli.exits o = some r ∧ r.status ≠ 0 ∧ r.message ≠ [] :=
  exit_of_wf Gen.Cli.exits (by decide +kernel) o ho

/-! ### non-vacuity: concrete, non-trivial objects meeting the hypotheses -/

-- `-t 0x82 -Uadmin -v -t 0x20 chassis power cycle`
private def demoGiven : List Given :=
  [.sep 116 (ofString "0x82"), .glued 85 (ofString "admin"), .flag 118, .sep 116 (ofString "0x20")]
private def demoCmd : List Str := [ofString "chassis", ofString "power", ofString "cycle"]

example : (∀ g ∈ demoGiven, g.ok Gen.Cli.shape.optString = true) := by decide +kernel
example : stops demoCmd = true := by decide +kernel
example : settingsOf Gen.Cli.shape.rules (demoGiven.map Given.pair)
    = some [(2, .int 0x82), (6, .str (ofString "admin")), (0, .bool true), (2, .int 0x20)] := by
  decide +kernel
example : Spec.Cli.lastWins (getv Gen.Cli.shape.defaults)
    [(2, Val.int 0x82), (6, .str (ofString "admin")), (0, .bool true), (2, .int 0x20)] 2 = .int 0x20 := by
  decide +kernel
example : lookup (nameTable Gen.Cli.commands) (demoCmd ++ [ofString "x"]) = some (25, [ofString "x"]) := by
  decide +kernel
example : prefixBase 120 = some 16 ∧ All₂ (IsDigitOf 16) [digitChar 15, digitCharU 14] [15, 14] :=
  ⟨by decide, .cons ⟨by decide, .inl rfl⟩ (.cons ⟨by decide, .inr rfl⟩ .nil)⟩
example : pyInt0 (ofString "0xfE") = some 254 := by decide +kernel
example : cmdRaw [ofString "lun", ofString "1", ofString "0x06", ofString "1", ofString "0xff"]
    = .request 1 6 [1, 255] := by decide +kernel
example : exitOf Gen.Cli.exits (Outcome.ccError 0xc1 : Outcome Unit)
    = some ⟨1, ofString "Command returned with completion code 0xc1"⟩ := by decide +kernel
-- a table with a shadowed entry is rejected by the side condition
example : prefixFree [⟨ofString "bmc", [ofString "bmc"], 0, []⟩,
    ⟨ofString "bmc info", [ofString "bmc", ofString "info"], 0, []⟩] = false := by decide +kernel

end PyIpmi.Props.C20
