/-
  C20 — The command-line tool drives the same requests as the API.

  Property theorems only (helper lemmas live in Lemmas/Cli*.lean).  `Gen.Cli` is regenerated
  from pyipmi/ipmitool.py, pyipmi.Ipmi and pyipmi/chassis.py of the working tree on every run,
  so every theorem that mentions `Gen.Cli.*` is re-checked against what the code says now.

  Reading guide
  * `table_resolves`                      every `ipmi.<method>(…)` of every entry of the INTENDED table
                                          (= today's table with the three shipped defects repaired,
                                          identity once they are repaired) exists in today's API and its
                                          call fits the signature; likewise `main`'s own calls
  * `table_is_intended`, `table_resolves_today`, `chassis_power_codes_today`
                                          today's table IS the intended one (the three repairs are in the
                                          source), so the two statements hold for `Gen.Cli.commands` itself
  * `table_resolves_asShipped_counterexample`, `asShipped_unresolved`, `intended_repairs_asShipped`
                                          the pinned table does NOT resolve: exactly three references
                                          (chassis power diag, chassis power soft, picmg channel power),
                                          and `intended` repairs exactly those
  * `chassis_power_codes`, `chassis_codes_distinct`
                                          each `chassis power <word>` reaches the API method whose option
                                          code is the one IPMI table 28-4 gives; the six codes differ
  * `lookup_correct`, `lookup_sound`, `lookup_none`, `table_prefix_free`, `table_lookup`
                                          the prefix loop of `main` finds exactly the named entry
  * `getopt_separates`, `options_take_effect`, `rules_match_option_string`
                                          options written `-c`, `-c v`, `-cv` in any order/multiplicity are
                                          a last-wins assignment of exactly the given values
  * `int0_prefixed`, `int_decimal`        hex/octal/binary/decimal literals denote their positional value
  * `raw_exact`, `raw_exact_default_lun`, `raw_prints_reply`, `hex_roundtrip`
                                          `raw` sends exactly the given LUN / NetFn / bytes and prints the
                                          reply so that it reads back
  * `errors_exit_nonzero`                 completion codes and timeouts end the tool with a message and a
                                          non-zero status (today's `except` clauses)
  * `error_classes_complete`, `all_errors_exit_nonzero`, `main_reports_every_failure`
                                          for EVERY exception class of pyipmi/errors.py and the transport
                                          time-out (`socket.timeout`), raised by the session set-up, a request
                                          or the session tear-down: message + non-zero status — under the
                                          executable hypotheses `exitsCover` / `closeInside` that the driver
                                          evaluates on today's source on every run
  * `errors_asShipped_counterexample`, `close_asShipped_counterexample`
                                          as shipped ten of the twelve failure classes leave `main` as a
                                          traceback, and an exception of `ipmi.close()` replaces even a
                                          reported failure
  * `hex_literal_needs_base0`, `numeric_arguments_decimal_and_hex`, `numeric_arguments_accept_hex`,
    `argConvs_asShipped_counterexample`   `int(s)` rejects every `0x…` literal, `int(s, 0)` reads decimal and
                                          hex; as shipped six handler arguments and `-b` use `int(s)`
  * `channel_option_takes_effect`, `no_channel_no_bridge`, `explicit_routing_kept`,
    `channel_option_intended_examples`, `channel_option_asShipped_counterexample`
                                          `-t T -b B` reaches controller T over channel B (two hops, any order);
                                          as shipped `-b` wrote ONE hop to "address" B over channel 0
  * `aardvark_options_take_effect`, `aardvark_guard_loses_off`, `aardvark_off_asShipped_counterexample`
                                          `Aardvark.open` writes every given pullups / power / fastmode value
                                          (27 combinations); truthiness guards lose exactly `off`
  * `portstate_no_python_error`, `sdr_show_no_python_error`, `sdr_show_state_no_python_error`,
    `sensor_values_no_python_error`, `lin_domain`
    (+ `…_asShipped_counterexample`)      the printing handlers on a channel without link, on SDR types
                                          without ID string / entity, on a sensor that flags "reading/state
                                          unavailable", on non-linear sensors outside the domain of their
                                          function
  * `lin_domain_all_codes`, `nonlinear_codes_raise_decodingError`, `sensor_values_need_decoding_clause`,
    `nonlinear_afterRound1_counterexample` all 128 values of the linearisation byte: 70h..7Fh (non-linear, no
                                          formula) make `lin` raise DecodingError on every reading and
                                          threshold; `sensor_values_no_python_error` therefore demands a clause
                                          for it too (`catchesConversion`), which the tree after the first round
                                          of repairs did not have
  * `sensor_reads_today`, `sdr_show_full_reads_owner_lun`, `sensor_reads_match_api_twin`,
    `sensor_reads_only_sensor_records`, `sdr_list_and_compact_read_lun0`, `sensor_request_is_get_sensor_reading`
    (+ `dropped_owner_lun_counterexample`) which sensor - responder LUN and number - `sdr list` / `sdr show` /
                                          `sdr showall` read for a full / compact sensor record: today's
                                          `get_sensor_reading` calls ARE the intended ones (full branch of
                                          `sdr show`: the record's owner LUN; the others: LUN 0, an observation)
-/
import PyIpmi.Lemmas.Cli
import PyIpmi.Lemmas.CliInt
import PyIpmi.Lemmas.CliAsShipped
import PyIpmi.Lemmas.CliExit
import PyIpmi.Gen.Cli
namespace PyIpmi.Props.C20
open PyIpmi PyIpmi.Cli

/-! ### the table resolves -/

/-- ∀ entry ∀ method referenced: it exists in the API and the call arity fits its signature —
for the intended table over TODAY's source. -/
theorem table_resolves :
    resolvesAll Gen.Cli.api (intended Gen.Cli.names Gen.Cli.commands) = true
    ∧ Gen.Cli.mainRefs.all (refOk Gen.Cli.api) = true := by decide +kernel

/-- TODAY's table already IS the intended one: re-applying the three repairs changes no entry.
`table_resolves` and `chassis_power_codes` are stated for `intended Gen.Cli.names Gen.Cli.commands`
(so that the as-shipped counter-examples can be stated for the same function); without this
equation a regression of exactly one of the three repaired entries
(`chassis_control_power_soft_shutdown` again, …) would leave both of them building.  With it they
are statements about `Gen.Cli.commands` itself (`table_resolves_today`, `chassis_power_codes_today`),
and such a regression stops the build; the run's `_table_facts` then names the entry. -/
theorem table_is_intended : intended Gen.Cli.names Gen.Cli.commands = Gen.Cli.commands := by
  decide +kernel

theorem table_resolves_today : resolvesAll Gen.Cli.api Gen.Cli.commands = true := by
  have h := table_resolves.1
  rwa [table_is_intended] at h

/-- … stated pointwise -/
theorem table_resolves_pointwise (c : Command) (hc : c ∈ intended Gen.Cli.names Gen.Cli.commands)
    (m : MethodRef) (hm : m ∈ c.refs) :
    ∃ s, findSig Gen.Cli.api m.name = some s ∧
      (m.called = true → s.callable = true ∧ bindOk s m.nPos m.kws = true) := by
  have h := table_resolves.1
  unfold resolvesAll at h
  rw [List.all_eq_true] at h
  have h2 := h c hc
  unfold commandOk at h2
  rw [List.all_eq_true] at h2
  have h3 := h2 m hm
  unfold refOk resolveRef at h3
  cases hs : findSig Gen.Cli.api m.name with
  | none => rw [hs] at h3; simp at h3
  | some s =>
    refine ⟨s, rfl, ?_⟩
    intro hcalled
    rw [hs] at h3
    simp only [hcalled, Bool.not_true, Bool.false_eq_true, if_false] at h3
    by_cases hb : (s.callable && bindOk s m.nPos m.kws) = true
    · simpa using hb
    · simp [hb] at h3

/-- As shipped (pinned tree) the property is FALSE: the table does not resolve … -/
theorem table_resolves_asShipped_counterexample :
    resolvesAll AsShipped.api AsShipped.commands = false := by decide +kernel

/-- … because of exactly these references (entry index, reference index) and no others:
17 = `picmg channel power` (`send_channel_power` called with 1 of its 3 required arguments →
TypeError), 27 = `chassis power diag`, 28 = `chassis power soft` (methods that do not exist →
AttributeError). -/
theorem asShipped_unresolved :
    unresolved AsShipped.api AsShipped.commands = [(17, 0), (27, 0), (28, 0)]
    ∧ (AsShipped.commands[17]?.map (entryResolution AsShipped.api)) = some .typeError
    ∧ (AsShipped.commands[27]?.map (entryResolution AsShipped.api)) = some .attributeError
    ∧ (AsShipped.commands[28]?.map (entryResolution AsShipped.api)) = some .attributeError := by
  decide +kernel

/-- `intended` repairs the shipped table (so it is the right "intended" variant) and leaves the
26 sound entries untouched. -/
theorem intended_repairs_asShipped :
    resolvesAll AsShipped.api (intended AsShipped.names AsShipped.commands) = true
    ∧ (List.range 29).all (fun i => i == 17 || i == 27 || i == 28 ||
         (intended AsShipped.names AsShipped.commands)[i]? == AsShipped.commands[i]?) = true := by
  decide +kernel

/-! ### chassis power sub-commands -/

/-- `chassis power <word>` has exactly one reference, a call without arguments of the API
method whose `chassis_control` option is the specification's code for that word -/
def chassisOk (cmds : List Command) (cc : List (Nat × Nat)) : Bool :=
  Spec.Cli.chassisPower.all fun e =>
    match cmds.find? (fun c => c.name == ofString ("chassis power " ++ e.1)) with
    | some c =>
      (match c.refs with
       | [r] => r.called && r.nPos == 0 && r.kws.isEmpty &&
           (cc.find? (fun x => x.1 == r.name)).map (·.2) == some e.2.code
       | _ => false)
    | none => false

theorem chassis_power_codes :
    chassisOk (intended Gen.Cli.names Gen.Cli.commands) Gen.Cli.chassisControl = true := by
  decide +kernel

theorem chassis_power_codes_today : chassisOk Gen.Cli.commands Gen.Cli.chassisControl = true := by
  have h := chassis_power_codes
  rwa [table_is_intended] at h

/-- as shipped, `diag` and `soft` reach no chassis-control method at all -/
theorem chassis_power_codes_asShipped_counterexample :
    chassisOk AsShipped.commands AsShipped.chassisControl = false := by decide +kernel

theorem chassis_codes_distinct : (Spec.Cli.allActions.map Spec.Cli.ChassisAction.code).Nodup
    ∧ (Spec.Cli.chassisPower.map (·.1)).Nodup ∧ (Spec.Cli.chassisPower.map (·.2)).Nodup := by
  decide

/-! ### lookup -/

/-- For ANY table: if `toks` names an entry and no proper prefix of `toks` names one, then
`main` dispatches `toks ++ rest` to that entry with exactly `rest` as its arguments. -/
theorem lookup_correct {α} (t : List (Str × α)) (toks rest : List Str) (f : α)
    (hne : toks ≠ [])
    (hfound : find t (joinSp toks) = some f)
    (hpre : ∀ k, 0 < k → k < toks.length → find t (joinSp (toks.take k)) = none) :
    lookup t (toks ++ rest) = some (f, rest) := by
  have hlen : 0 < toks.length := List.length_pos_iff.mpr hne
  have htake : ∀ k, k ≤ toks.length → (toks ++ rest).take k = toks.take k := by
    intro k hk
    rw [List.take_append_of_le_length hk]
  have h := lookupAux_hit t (toks ++ rest) f (toks.length - 1)
    (by rw [htake _ (by omega)]
        have : toks.length - 1 + 1 = toks.length := by omega
        rw [this, List.take_length]; exact hfound)
    (by intro k hk
        rw [htake _ (by omega)]
        exact hpre (k + 1) (by omega) (by omega))
    (toks ++ rest).length 0 (by omega) (by simp; omega)
  unfold lookup
  rw [h]
  have : toks.length - 1 + 1 = toks.length := by omega
  rw [this, List.drop_left]

/-- whatever `lookup` returns is the first (shortest) prefix that names an entry -/
theorem lookup_sound {α} (t : List (Str × α)) (args r : List Str) (f : α)
    (h : lookup t args = some (f, r)) :
    ∃ n, n < args.length ∧ find t (joinSp (args.take (n + 1))) = some f ∧ r = args.drop (n + 1)
      ∧ ∀ k, k < n → find t (joinSp (args.take (k + 1))) = none := by
  obtain ⟨n, _, h2, h3, h4, h5⟩ := lookupAux_sound t args f r args.length 0 h
  exact ⟨n, by omega, h3, h4, fun k hk => h5 k (by omega) hk⟩

/-- no prefix names an entry ⇒ no handler (`usage(); sys.exit(1)`) -/
theorem lookup_none {α} (t : List (Str × α)) (args : List Str)
    (h : ∀ k, find t (joinSp (args.take (k + 1))) = none) : lookup t args = none :=
  lookupAux_miss t args h args.length 0

/-- side condition on TODAY's table: no name is a token-prefix of (or equal to) another -/
theorem table_prefix_free : prefixFree Gen.Cli.commands = true := by decide +kernel

/-- hence every entry of today's table is reached by its own words, whatever arguments follow -/
theorem table_lookup (i : Nat) (c : Command) (hc : Gen.Cli.commands[i]? = some c) (rest : List Str) :
    lookup (nameTable Gen.Cli.commands) (c.toks ++ rest) = some (i, rest) := by
  have h := table_prefix_free
  unfold prefixFree at h
  simp only [List.all_eq_true, List.mem_range] at h
  have hi : i < Gen.Cli.commands.length := by
    cases hlt : decide (i < Gen.Cli.commands.length) with
    | true => simpa using hlt
    | false =>
      have : Gen.Cli.commands.length ≤ i := by simpa using hlt
      rw [List.getElem?_eq_none this] at hc
      cases hc
  have h1 := h i hi
  rw [hc] at h1
  simp only [Bool.and_eq_true, Bool.not_eq_true', beq_iff_eq, List.all_eq_true, List.mem_range,
    Bool.or_eq_true] at h1
  obtain ⟨⟨⟨hne, hjoin⟩, hfind⟩, hpre⟩ := h1
  apply lookup_correct
  · intro h0; rw [h0] at hne; simp at hne
  · rw [hjoin]; exact hfind
  · intro k hk0 hk
    cases hpre k hk with
    | inl h0 => omega
    | inr h0 => exact h0

/-! ### options -/

/-- `getopt` splits a command line of options written `-c`, `-c v` or `-cv` (any order, any
multiplicity), followed by the command words, into exactly the given (option, value) pairs and
the command words. -/
theorem getopt_separates (so : Str) (gs : List Given) (cmd : List Str)
    (hok : ∀ g ∈ gs, g.ok so = true) (hs : stops cmd = true) :
    getopt so (gs.flatMap Given.render ++ cmd) = .ok (gs.map Given.pair, cmd) :=
  getopt_render so gs cmd hok hs

/-- every option letter of today's option string has a rule, every rule's letter is in the
string, a rule that needs a value is declared with `:` and vice versa, and every variable a rule
assigns exists -/
def rulesMatch (sh : MainShape) : Bool :=
  sh.rules.all (fun r =>
    hasArg sh.optString r.opt == some (match r.act with
      | .assign _ .constTrue => false
      | .assign _ _ => true
      | .exitOk => false))
  && sh.optString.all (fun c => c == 58 || (ruleOf sh.rules c).isSome)
  && rulesWf sh.rules sh.defaults.length

theorem rules_match_option_string : rulesMatch Gen.Cli.shape = true := by decide +kernel

/-- The options take effect exactly as given: for today's `main`, a command line made of
declared options (each written in any of the three forms) whose values convert, followed by the
command words, yields — for EVERY variable of `main` — the converted value of the LAST option
that assigns it, or its default if no option does; and the command words are untouched. -/
theorem options_take_effect (gs : List Given) (cmd : List Str) (sets : List (Nat × Val))
    (hok : ∀ g ∈ gs, g.ok Gen.Cli.shape.optString = true) (hs : stops cmd = true)
    (hsets : settingsOf Gen.Cli.shape.rules (gs.map Given.pair) = some sets) :
    ∃ vs, getopt Gen.Cli.shape.optString (gs.flatMap Given.render ++ cmd)
            = .ok (gs.map Given.pair, cmd)
      ∧ applyOpts Gen.Cli.shape.rules (gs.map Given.pair) Gen.Cli.shape.defaults = .vals vs
      ∧ ∀ x, getv vs x = Spec.Cli.lastWins (getv Gen.Cli.shape.defaults) sets x := by
  have hwf : rulesWf Gen.Cli.shape.rules Gen.Cli.shape.defaults.length = true := by
    have h := rules_match_option_string
    unfold rulesMatch at h
    simp only [Bool.and_eq_true] at h
    exact h.2
  have hlt := settingsOf_lt _ _ hwf _ _ hsets
  obtain ⟨vs, h1, _, h3⟩ := applyOpts_lastWins Gen.Cli.shape.rules _ Gen.Cli.shape.defaults sets hsets hlt
  exact ⟨vs, getopt_render _ gs cmd hok hs, h1, h3⟩

/-! ### numbers -/

/-- `0x…`/`0X…`/`0o…`/`0O…`/`0b…`/`0B…` literals (digits in either case) denote their positional value -/
theorem int0_prefixed (p base : Nat) (hp : prefixBase p = some base) (cs ds : List Nat)
    (hds : All₂ (IsDigitOf base) cs ds) (hne : ds ≠ []) :
    pyInt0 (48 :: p :: cs) = some (Int.ofNat (horner base ds 0)) :=
  pyInt0_prefixed p base hp cs ds hds hne

/-- decimal literals (no leading zero, or just `0`) denote their positional value, for `int(s, 0)`
and for `int(s)` -/
theorem int_decimal (base0 : Bool) (cs ds : List Nat)
    (hds : All₂ (IsDigitOf 10) cs ds) (hne : ds ≠ [])
    (hlead : ds.head? ≠ some 0 ∨ ds = [0]) :
    pyInt base0 cs = some (Int.ofNat (horner 10 ds 0)) :=
  pyInt_decimal base0 cs ds hds hne hlead

/-! ### raw -/

/-- `raw lun <l> <netfn> <b₁> … <bₙ>` (n ≥ 1, every word any literal of its number, bytes < 256)
issues `raw_command(l, netfn, bytes)` with exactly these values -/
theorem raw_exact (sl snf : Str) (sbs : List Str) (lun nf : Int) (bs : List Nat)
    (hl : pyInt0 sl = some lun) (hn : pyInt0 snf = some nf)
    (hb : All₂ (fun s b => pyInt0 s = some (Int.ofNat b)) sbs bs)
    (hlt : ∀ b ∈ bs, b < 256) (hne : bs ≠ []) :
    cmdRaw (ofString "lun" :: sl :: snf :: sbs) = .request lun nf bs := by
  unfold cmdRaw
  simp only [if_true, hl]
  exact rawBody_ok lun nf snf sbs bs hn hb hlt hne

/-- without `lun` the LUN is 0 -/
theorem raw_exact_default_lun (snf : Str) (sbs : List Str) (nf : Int) (bs : List Nat)
    (hn : pyInt0 snf = some nf)
    (hb : All₂ (fun s b => pyInt0 s = some (Int.ofNat b)) sbs bs)
    (hlt : ∀ b ∈ bs, b < 256) (hne : bs ≠ []) :
    cmdRaw (snf :: sbs) = .request 0 nf bs := by
  have hnl : snf ≠ ofString "lun" := by
    intro h; rw [h, pyInt0_lun] at hn; cases hn
  cases hb with
  | nil => exact absurd rfl hne
  | cons h1 hrest =>
    rename_i s b ss bs'
    unfold cmdRaw
    simp only [hnl, if_false]
    exact rawBody_ok 0 nf snf (s :: ss) (b :: bs') hn (All₂.cons h1 hrest) hlt hne

/-- what `raw` prints is the specification's hex format of the reply … -/
theorem raw_prints_reply (rsp : List Nat) : printHex rsp = Spec.Cli.printHex rsp :=
  printHex_eq_spec rsp

/-- … which reads back to exactly the reply bytes -/
theorem hex_roundtrip (bs : List Nat) (h : ∀ b ∈ bs, b < 256) :
    Spec.Cli.parseHex (Spec.Cli.printHex bs) = some bs :=
  parseHex_printHex bs h

/-! ### errors -/

/-- a BMC completion code or a timeout ends the tool with a message and a non-zero status
(today's `except` clauses) -/
theorem errors_exit_nonzero (e : Raised) (he : e = .lib .completionCodeError ∨ e = .lib .ipmiTimeoutError)
    (i : ExcInfo) :
    ∃ r, exitOf Gen.Cli.exits e i = some r ∧ r.status ≠ 0 ∧ r.message ≠ [] :=
  exit_of_wf Gen.Cli.exits (by decide +kernel) e he i

/-- the enumeration `LibErr` is exactly today's `pyipmi/errors.py` (a class added there breaks this) -/
theorem error_classes_complete : Gen.Cli.errorClasses = LibErr.all.map LibErr.className := by decide +kernel

/-- EVERY failure class — the eleven exception classes of pyipmi/errors.py and the transport time-out — ends
the tool with a message and a non-zero status, provided today's clauses cover them (`exitsCover`, evaluated
on today's source by the driver on every run: `probe`). -/
theorem all_errors_exit_nonzero (hc : exitsCover Gen.Cli.exits = true) (e : Raised)
    (he : e.isFailure = true) (i : ExcInfo) :
    ∃ r, exitOf Gen.Cli.exits e i = some r ∧ r.status ≠ 0 ∧ r.message ≠ [] :=
  exit_of_cover Gen.Cli.exits hc e he i

/-- … wherever it is raised: by `ipmi.open()` / the handler (`body`), by `ipmi.close()` (`close`), or both —
provided `ipmi.close()` sits inside the try that carries the clauses (`closeInside`, read off today's source). -/
theorem main_reports_every_failure (hc : exitsCover Gen.Cli.exits = true)
    (hs : Gen.Cli.shape.closeInside = true) (body close : Option (Raised × ExcInfo))
    (hb : ∀ p, body = some p → p.1.isFailure = true) (hcl : ∀ p, close = some p → p.1.isFailure = true)
    (hsome : body.isSome = true ∨ close.isSome = true) :
    (mainEnd Gen.Cli.shape.closeInside Gen.Cli.exits body close).reported = true := by
  rw [hs]
  exact mainEnd_reports Gen.Cli.exits hc body close hb hcl hsome

/-- As shipped the clause is FALSE for ten of the twelve failure classes: they leave `main` as an exception. -/
theorem errors_asShipped_counterexample :
    escaping AsShipped.exits = [.lib .decodingError, .lib .encodingError, .lib .notSupportedError,
      .lib .descriptionError, .lib .retryError, .lib .dataNotFound, .lib .hpmError,
      .lib .ipmiConnectionError, .lib .ipmiLongPasswordError, .socketTimeout]
    ∧ ∀ e ∈ escaping AsShipped.exits, ∀ i, handleExc AsShipped.exits e i = .raises e none := by
  refine ⟨by decide +kernel, ?_⟩
  intro e he i
  apply escapes_of_no_clause
  revert e
  decide +kernel

/-- As shipped `ipmi.close()` is in the `finally` of the try that carries the clauses: whatever the clauses
are, a failure of the session tear-down leaves `main` as an exception — e.g. the retry error of a Close
Session that is not answered replaces the exit status of a completion code that had just been reported. -/
theorem close_asShipped_counterexample :
    AsShipped.shape.closeInside = false
    ∧ (∀ cl body f i, ∃ printed, mainEnd AsShipped.shape.closeInside cl body (some (f, i)) = .raises f printed)
    ∧ mainEnd AsShipped.shape.closeInside AsShipped.exits
        (some (.lib .completionCodeError, { cc := 0xc1 })) (some (.lib .retryError, {}))
      = .raises (.lib .retryError) (some (ofString "Command returned with completion code 0xc1")) := by
  refine ⟨rfl, ?_, by decide +kernel⟩
  intro cl body f i
  exact mainEnd_asShipped_close_escapes cl body f i

/-! ### numeric arguments in decimal and hex -/

/-- `int(s)` rejects EVERY `0x…` / `0X…` literal -/
theorem hex_literal_needs_base0 (x : Nat) (hx : x = 120 ∨ x = 88) (cs : Str) :
    pyInt10 (48 :: x :: cs) = none :=
  pyInt10_rejects_hex x hx cs

/-- an argument converted with `int(args[k], 0)` reads hex literals and decimal literals as their value -/
theorem numeric_arguments_decimal_and_hex (c : ArgConv) (hc : c.base0 = true) :
    (∀ (x : Nat) (_ : x = 120 ∨ x = 88) (cs ds : List Nat), All₂ (IsDigitOf 16) cs ds → ds ≠ [] →
        c.parse (48 :: x :: cs) = some (Int.ofNat (horner 16 ds 0)))
    ∧ (∀ (cs ds : List Nat), All₂ (IsDigitOf 10) cs ds → ds ≠ [] → (ds.head? ≠ some 0 ∨ ds = [0]) →
        c.parse cs = some (Int.ofNat (horner 10 ds 0))) := by
  unfold ArgConv.parse
  rw [hc]
  refine ⟨?_, ?_⟩
  · intro x hx cs ds hds hne
    have hp : prefixBase x = some 16 := by rcases hx with rfl | rfl <;> rfl
    exact pyInt0_prefixed x 16 hp cs ds hds hne
  · intro cs ds hds hne hl
    exact pyInt_decimal true cs ds hds hne hl

/-- hence every numeric handler argument of today's table reads hex, provided none of today's conversions
is an `int(args[k])` (`base10Args`, evaluated on today's source by the driver: `probe`) -/
theorem numeric_arguments_accept_hex (h : base10Args Gen.Cli.argConvs = []) (c : ArgConv)
    (hc : c ∈ Gen.Cli.argConvs) (x : Nat) (hx : x = 120 ∨ x = 88) (cs ds : List Nat)
    (hds : All₂ (IsDigitOf 16) cs ds) (hne : ds ≠ []) :
    c.parse (48 :: x :: cs) = some (Int.ofNat (horner 16 ds 0)) := by
  have hb : c.base0 = true := by
    cases hb : c.base0 with
    | true => rfl
    | false =>
      have : (c.entry, c.arg) ∈ base10Args Gen.Cli.argConvs := by
        unfold base10Args
        exact List.mem_map.mpr ⟨c, List.mem_filter.mpr ⟨hc, by simp [hb]⟩, rfl⟩
      rw [h] at this
      cases this
  exact (numeric_arguments_decimal_and_hex c hb).1 x hx cs ds hds hne

/-- as shipped: `fru print <id>`, `picmg portstate get <ch> <intf>`, `picmg channel status <ch>`,
`picmg channel power <ch> …`, `hpm install <file> <component>` and `-b <channel>` convert with `int(s)`,
so that e.g. `0x0a` ends them with ValueError -/
theorem argConvs_asShipped_counterexample :
    base10Args AsShipped.argConvs = [(10, 0), (13, 0), (13, 1), (15, 0), (17, 0), (21, 1)]
    ∧ base10Opts AsShipped.shape.rules = [98]
    ∧ ∀ c ∈ AsShipped.argConvs, c.base0 = false → c.parse (ofString "0x0a") = none := by
  refine ⟨by decide +kernel, by decide +kernel, ?_⟩
  intro c _ hb
  unfold ArgConv.parse
  rw [hb]
  exact pyInt10_rejects_hex 120 (.inl rfl) _

/-! ### `-b <channel>` ("Set target channel") and the aardvark interface options -/

/-- the hops a routing value of the model denotes -/
def hopsOf : Val → Option (List (Int × Int × Option Int))
  | .route a b c => some [(a, b, some c)]
  | .route2 a b c d e => some [(a, b, some c), (d, e, none)]
  | _ => none

/-- where the requests of a run go, by the specification's reading of a path -/
def destinationOfRouting (v : Val) : Option Spec.Cli.Destination := (hopsOf v).bind Spec.Cli.reaches

/-- INTENDED (`MainShape.bridge` present - the harness probes it on the source, probe field `bridge`): with a target
address `t` and a channel `b` given and no explicit routing, the routing handed to `Target.set_routing` reaches
the controller `t` over channel `b` - whatever the order of `-t` and `-b` was (the statement works on the final
values of the variables) -/
theorem channel_option_takes_effect (sh : MainShape) (vs : List Val) (vc : Nat) (rq1 rs1 rq2 t b : Int)
    (hb : sh.bridge = some (vc, rq1, rs1, rq2)) (hr : getv vs sh.vRouting = .none)
    (hc : getv vs vc = .int b) (ht : getv vs sh.vTarget = .int t) :
    destinationOfRouting (bridgedRouting sh vs) = some (Spec.Cli.destinationOf t (some b)) := by
  simp [destinationOfRouting, bridgedRouting, hb, hr, hc, ht, hopsOf, Spec.Cli.reaches, Spec.Cli.destinationOf]

/-- … and without `-b` nothing is added: the routing stays what `-r` gave (or None) -/
theorem no_channel_no_bridge (sh : MainShape) (vs : List Val) (vc : Nat) (rq1 rs1 rq2 : Int)
    (hb : sh.bridge = some (vc, rq1, rs1, rq2)) (hc : getv vs vc = .none) :
    bridgedRouting sh vs = getv vs sh.vRouting := by
  simp only [bridgedRouting, hb, hc]
  split <;> simp_all

/-- an explicit routing (`-r <literal>`) is handed on exactly as given, with or without `-b` -/
theorem explicit_routing_kept (sh : MainShape) (vs : List Val) (r : Str) (hr : getv vs sh.vRouting = .str r) :
    bridgedRouting sh vs = .str r := by
  unfold bridgedRouting
  cases sh.bridge with
  | none => simpa using hr
  | some q => obtain ⟨vc, rq1, rs1, rq2⟩ := q; simp only [hr]

/-- the repaired `main`: `-b` stores the channel in a variable of its own (11), the bridging statement follows the
option loop -/
def intendedBridgeShape : MainShape :=
  { AsShipped.shape with
    rules := AsShipped.shape.rules.map fun r => if r.opt == 98 then ⟨98, .assign 11 .int0⟩ else r
    defaults := AsShipped.shape.defaults ++ [.none]
    bridge := some (11, 0x81, 0x20, 0x20) }

def routingAfter (sh : MainShape) (opts : List (Nat × Str)) : Option (Val × Option Spec.Cli.Destination) :=
  match applyOpts sh.rules opts sh.defaults with
  | .vals vs => some (bridgedRouting sh vs, destinationOfRouting (bridgedRouting sh vs))
  | _ => none

/-- AS SHIPPED (`-b N` ↦ `target_routing = [(0x20, N, 0)]`): `-t 0x82 -b 7` yields ONE hop whose responder address is
the channel number; the path ends at slave address 07h with no bridging channel, 82h occurs nowhere - and `-b`
after `-r` throws the explicit routing away -/
theorem channel_option_asShipped_counterexample :
    routingAfter AsShipped.shape [(116, ofString "0x82"), (98, ofString "7")]
      = some (.route 0x20 7 0, some ⟨7, none⟩)
    ∧ routingAfter AsShipped.shape [(98, ofString "7"), (116, ofString "0x82")]
      = some (.route 0x20 7 0, some ⟨7, none⟩)
    ∧ (some ⟨7, none⟩ : Option Spec.Cli.Destination) ≠ some (Spec.Cli.destinationOf 0x82 (some 7)) := by
  decide +kernel

/-- the same argument vectors on the repaired `main` (non-vacuity of `channel_option_takes_effect`), `-b` alone, and
`-r` with `-b` in both orders -/
theorem channel_option_intended_examples :
    routingAfter intendedBridgeShape [(116, ofString "0x82"), (98, ofString "7")]
      = some (.route2 0x81 0x20 7 0x20 0x82, some ⟨0x82, some 7⟩)
    ∧ routingAfter intendedBridgeShape [(98, ofString "0x7"), (116, ofString "130")]
      = some (.route2 0x81 0x20 7 0x20 0x82, some ⟨0x82, some 7⟩)
    ∧ routingAfter intendedBridgeShape [(98, ofString "3")]
      = some (.route2 0x81 0x20 3 0x20 0x20, some ⟨0x20, some 3⟩)
    ∧ routingAfter intendedBridgeShape [(116, ofString "0x82")] = some (.none, none)
    ∧ (routingAfter intendedBridgeShape [(114, ofString "[(1,2,3)]"), (98, ofString "4")]).map (·.1)
      = some (.str (ofString "[(1,2,3)]"))
    ∧ (routingAfter intendedBridgeShape [(98, ofString "4"), (114, ofString "[(1,2,3)]")]).map (·.1)
      = some (.str (ofString "[(1,2,3)]")) := by
  decide +kernel

/-- Send Message data (IPMI v2.0 §22.7): channel number in the low nibble of byte 1, tracking in [7:6] -/
example : Spec.Cli.sendMessageData 7 [0x82, 0x18, 0x66] = [0x47, 0x82, 0x18, 0x66] := by decide +kernel

def settingOf : AdapterWrite → Spec.Cli.AdapterSetting
  | .pullups v => .pullups v
  | .power v => .power v
  | .bitrate k => .bitrate k

/-- INTENDED (both guards of `Aardvark.open` are `is not None` - probe fields `pullupsNN`, `powerNN`): for every
value of the three documented options (on, off, absent) the adapter is written exactly what was given; fast mode
absent is normal mode (100 kHz) -/
theorem aardvark_options_take_effect (g : AardvarkGuards) (hp : g.pullupsNotNone = true)
    (hw : g.powerNotNone = true) (p w f : Option Bool) :
    (aardvarkOpenWrites g p w f).map settingOf = Spec.Cli.adapterSettings p w (some (f.getD false)) := by
  obtain ⟨gp, gw⟩ := g
  simp only at hp hw
  subst hp hw
  rcases p with _ | _ | _ <;> rcases w with _ | _ | _ <;> rcases f with _ | _ | _ <;> rfl

/-- AS SHIPPED (`if self.i2c_pullups:` / `if self.target_power:`): `pullups=off` / `power=off` write nothing - the run
is indistinguishable from one without the option; `on` is written -/
theorem aardvark_off_asShipped_counterexample :
    aardvarkOpenWrites ⟨false, false⟩ (some false) none none = aardvarkOpenWrites ⟨false, false⟩ none none none
    ∧ aardvarkOpenWrites ⟨false, false⟩ none (some false) none = aardvarkOpenWrites ⟨false, false⟩ none none none
    ∧ (aardvarkOpenWrites ⟨false, false⟩ (some false) (some false) none).map settingOf
        ≠ Spec.Cli.adapterSettings (some false) (some false) (some false)
    ∧ (aardvarkOpenWrites ⟨false, false⟩ (some true) (some true) (some true)).map settingOf
        = Spec.Cli.adapterSettings (some true) (some true) (some true) := by
  decide +kernel

/-- each guard on its own: a truthiness guard loses exactly the value `off` -/
theorem aardvark_guard_loses_off (notNone : Bool) (v : Option Bool) :
    guardPasses notNone v = v.isSome ↔ (notNone = true ∨ v ≠ some false) := by
  rcases v with _ | _ | _ <;> cases notNone <;> simp [guardPasses]

/-! ### the printing handlers on what a conforming BMC may answer -/

/-- `picmg portstate get` / `getall`: a channel with or without link does not end in a Python error, provided
`print_link_state` tolerates `None` (read off today's source) -/
theorem portstate_no_python_error (h : Gen.Cli.handlers.linkNoneGuard = true) (p : Spec.Cli.PortState) :
    linkStateRaises Gen.Cli.handlers p.hasLink = none := by
  unfold linkStateRaises; rw [h]; simp

theorem portstate_asShipped_counterexample :
    linkStateRaises AsShipped.handlers Spec.Cli.PortState.noLink.hasLink = some "AttributeError" := by
  decide +kernel

/-- `sdr show` / `sdr showall`: a record of ANY type of IPMI v2.0 ch. 43 — whatever attributes the library's
class for it has — does not end in a Python error, provided both header lines are guarded -/
theorem sdr_show_no_python_error (h1 : Gen.Cli.handlers.idStringGuard = true)
    (h2 : Gen.Cli.handlers.entityGuard = true) (hasId hasEnt : Bool) :
    sdrShowRaises Gen.Cli.handlers hasId hasEnt = none := by
  unfold sdrShowRaises; rw [h1, h2]; simp

/-- as shipped: AttributeError for exactly the record types whose class has no ID string / entity -/
theorem sdr_show_asShipped_counterexample :
    (Spec.Cli.sdrRecordTypes.filter fun t =>
        (sdrShowRaises AsShipped.handlers (sdrAttrs AsShipped.sdrClasses AsShipped.sdrDefault t.1).1
          (sdrAttrs AsShipped.sdrClasses AsShipped.sdrDefault t.1).2).isSome).map (·.1)
      = [0x08, 0x09, 0x10, 0x13, 0x14, 0xC0] := by decide +kernel

/-- `sdr show` / `sdr showall`: a sensor that flags "reading/state unavailable" (the API then returns
`(None, None)`) does not end in a Python error, provided the state line is guarded -/
theorem sdr_show_state_no_python_error (h : Gen.Cli.handlers.stateNoneGuard = true)
    (r : Spec.Cli.SensorReading) : sdrStateRaises Gen.Cli.handlers r.isAvailable = none := by
  unfold sdrStateRaises; rw [h]; simp

theorem sdr_show_state_asShipped_counterexample :
    sdrStateRaises AsShipped.handlers Spec.Cli.SensorReading.unavailable.isAvailable = some "TypeError" := by
  decide +kernel

/-- the model of the linearisation functions raises exactly outside the domain the specification gives -/
theorem lin_domain :
    Spec.Cli.Lin.all.all (fun l => Spec.Cli.Sign.all.all fun s =>
      (linRaises l.code (signOfSpec s)).isNone == l.defined s) = true :=
  linRaises_iff_undefined

/-- … and for EVERY value of byte 24 [6:0] - the non-linear codes 70h..7Fh and the reserved ones included - the
model of `lin` raises exactly where the specification says that a tool reading the record has no value to print
(`Spec.Cli.hasValue`: outside a formula's domain; always for a non-linear sensor, which has no formula) -/
theorem lin_domain_all_codes :
    (List.range 128).all (fun code => Spec.Cli.Sign.all.all fun s =>
      (linRaises code (signOfSpec s)).isNone == Spec.Cli.hasValue code s) = true :=
  linRaises_iff_noValue

/-- the codes a conforming controller may use are the twelve formulas and 70h..7Fh; for the latter `lin` raises
`DecodingError` on every reading and every threshold byte, whatever its value (bit 7 of the byte is ignored) -/
theorem nonlinear_codes_raise_decodingError (byte : Nat) (h : 0x70 ≤ byte % 128) (s : Sign) :
    Spec.Cli.linConforming (byte % 128) = true ∧ linRaises byte s = some "DecodingError" := by
  have hlt : byte % 128 < 128 := Nat.mod_lt _ (by decide)
  refine ⟨?_, linRaises_unknown byte (by omega) s⟩
  have : ∀ c, c < 128 → 0x70 ≤ c → Spec.Cli.linConforming c = true := by decide +kernel
  exact this _ hlt h

/-- `sdr list` / `sdr show` / `sdr showall`: no reading or threshold of ANY linearisation byte (all 128 codes:
the twelve formulas, non-linear 70h, OEM non-linear 71h..7Fh, the reserved ones; in fact every `Nat`) and sign
ends the command with an exception, provided the command catches ValueError, ArithmeticError and DecodingError
(or wider) between the conversion and `main` (`catchesConversion`, read off today's source by the translator
and evaluated by the driver on every run) -/
theorem sensor_values_no_python_error (cmd : String)
    (h : catchesConversion (catchOf Gen.Cli.handlers cmd) = true) (code : Nat) (s : Sign) :
    cellRaises (catchOf Gen.Cli.handlers cmd) code s = none :=
  cellRaises_none _ h code s

/-- the hypothesis is needed: a command that does not catch DecodingError is ended by every cell of every record
whose linearisation is none of the twelve formulas -/
theorem sensor_values_need_decoding_clause (cmd : String)
    (h : catchesDecoding (catchOf Gen.Cli.handlers cmd) = false) (code : Nat) (hc : 12 ≤ code % 128) (s : Sign) :
    cellRaises (catchOf Gen.Cli.handlers cmd) code s = some "DecodingError" :=
  cellRaises_unknown _ h code hc s

/-- as shipped: 1/x of 0 ends all three commands, ln / log of 0 ends `sdr list` (the other two print an
empty line instead of the record) -/
theorem sensor_values_asShipped_counterexample :
    cellRaises (catchOf AsShipped.handlers "sdr list") Spec.Cli.Lin.reciprocal.code .zero = some "ZeroDivisionError"
    ∧ cellRaises (catchOf AsShipped.handlers "sdr list") Spec.Cli.Lin.ln.code .zero = some "ValueError"
    ∧ cellRaises (catchOf AsShipped.handlers "sdr show") Spec.Cli.Lin.reciprocal.code .zero = some "ZeroDivisionError"
    ∧ cellRaises (catchOf AsShipped.handlers "sdr showall") Spec.Cli.Lin.reciprocal.code .zero = some "ZeroDivisionError"
    ∧ cellRaises (catchOf AsShipped.handlers "sdr show") Spec.Cli.Lin.ln.code .zero = none := by
  decide +kernel

/-- after the repairs of the first audit round (b88fd9b: `except (ValueError, ArithmeticError)`) the three
commands cope with the twelve formulas - and are still ended, with `DecodingError`, by EVERY reading and
threshold of every non-linear sensor (70h, 71h..7Fh; any byte whose low seven bits are ≥ 12), although
`catchesArithmetic` holds for them -/
theorem nonlinear_afterRound1_counterexample (cmd : String)
    (hc : cmd = "sdr list" ∨ cmd = "sdr show" ∨ cmd = "sdr showall") :
    catchesArithmetic (catchOf AsShipped.handlersAfterRound1 cmd) = true
    ∧ catchesConversion (catchOf AsShipped.handlersAfterRound1 cmd) = false
    ∧ (∀ code s, code % 128 < 12 → cellRaises (catchOf AsShipped.handlersAfterRound1 cmd) code s = none)
    ∧ (∀ code s, 12 ≤ code % 128 →
        cellRaises (catchOf AsShipped.handlersAfterRound1 cmd) code s = some "DecodingError")
    ∧ cellRaises (catchOf AsShipped.handlersAfterRound1 cmd) 0x70 .pos = some "DecodingError"
    ∧ cellRaises (catchOf AsShipped.handlersAfterRound1 cmd) 0x7f .pos = some "DecodingError" := by
  have hd : catchesDecoding (catchOf AsShipped.handlersAfterRound1 cmd) = false := by
    rcases hc with rfl | rfl | rfl <;> decide +kernel
  have ha : catchesArithmetic (catchOf AsShipped.handlersAfterRound1 cmd) = true := by
    rcases hc with rfl | rfl | rfl <;> decide +kernel
  refine ⟨ha, by simp [catchesConversion, ha, hd], ?_, fun code s h => cellRaises_unknown _ hd code h s,
    cellRaises_unknown _ hd 0x70 (by decide) _, cellRaises_unknown _ hd 0x7f (by decide) _⟩
  intro code s h
  unfold catchesArithmetic at ha
  simp only [Bool.and_eq_true] at ha
  unfold cellRaises
  rcases linRaises_cases code s with h0 | h0 | h0 | h0
  · rw [h0]
  · rw [h0]; simp [ha.1]
  · rw [h0]; simp [ha.2]
  · exact absurd h0 (linRaises_known code h s)

/-! ### which sensor the printing commands read (owner LUN and number) -/

/-- TODAY's source reads sensors exactly as the intended table says: the `get_sensor_reading` calls that
`sdr list`, `sdr show` and `sdr showall` reach (through `sdr_show` and any other helper), the record-type
branch each sits in and its LUN argument - `sdr show` / `sdr showall` of a full sensor record pass
`<rec>.owner_lun`, the other four pass none - and the API's default LUN is 0.  A dropped, added or changed LUN
argument (a helper that takes "the majority form" included) stops the build here. -/
theorem sensor_reads_today :
    Gen.Cli.sensorReads = intendedSensorReads ∧ Gen.Cli.sensorReadDefaultLun = 0 := by decide +kernel

/-- the model's request IS the specification's Get Sensor Reading (LUN, NetFn 04h, 2Dh + number) -/
theorem sensor_request_is_get_sensor_reading (lun number : Nat) :
    sensorReadingRequest lun number = Spec.Cli.getSensorReading lun number := rfl

/-- `sdr show <id>` and `sdr showall`: for EVERY full sensor record - whatever its owner LUN and number - the
tool sends Get Sensor Reading to the sensor the record names: responder LUN = sensor owner LUN (table 43-1
byte 7 [1:0]), data = sensor number.  About today's source (`Gen.Cli.sensorReads`). -/
theorem sdr_show_full_reads_owner_lun (cmd : String) (hc : cmd = "sdr show" ∨ cmd = "sdr showall")
    (k : Spec.Cli.SensorKey) :
    sensorReadOf Gen.Cli.sensorReads Gen.Cli.sensorReadDefaultLun cmd 0x01 k.ownerLun k.number
      = some (Spec.Cli.readSensorOf k) := by
  rw [sensor_reads_today.1, sensor_reads_today.2]
  rcases hc with rfl | rfl <;> rfl

/-- every sensor read of the three commands is the Get Sensor Reading of its API twin (`Spec.Cli.apiTwin`:
`get_sensor_reading(number, owner_lun)` for the full branch of `sdr show` / `sdr showall`,
`get_sensor_reading(number)` for the other four), for every record key -/
theorem sensor_reads_match_api_twin (e : String × Nat × Spec.Cli.TwinLun) (he : e ∈ Spec.Cli.apiTwin)
    (k : Spec.Cli.SensorKey) :
    sensorReadOf Gen.Cli.sensorReads Gen.Cli.sensorReadDefaultLun e.1 e.2.1 k.ownerLun k.number
      = some (Spec.Cli.twinRequest e.2.2 k) := by
  rw [sensor_reads_today.1, sensor_reads_today.2]
  simp only [Spec.Cli.apiTwin, List.mem_cons, List.not_mem_nil, or_false] at he
  rcases he with rfl | rfl | rfl | rfl | rfl | rfl <;> rfl

/-- … and a record of any other type makes none of them read a sensor -/
theorem sensor_reads_only_sensor_records (cmd : String) (t : Nat) (ht : t ≠ 0x01 ∧ t ≠ 0x02) (l n : Nat) :
    sensorReadOf Gen.Cli.sensorReads Gen.Cli.sensorReadDefaultLun cmd t l n = none := by
  rw [sensor_reads_today.1]
  have h1 : (1 == t) = false := by simpa using fun h : 1 = t => ht.1 h.symm
  have h2 : (2 == t) = false := by simpa using fun h : 2 = t => ht.2 h.symm
  simp [sensorReadOf, intendedSensorReads, List.find?, h1, h2]

/-- OBSERVATION (DESIGN §9.7, kept out of the verdict), stated precisely: `sdr list` (full and compact) and the
compact branch of `sdr show` / `sdr showall` send Get Sensor Reading to LUN 0 whatever the record says; that is
the sensor the record names exactly when its owner LUN is 0. -/
theorem sdr_list_and_compact_read_lun0 (cmd : String) (t : Nat)
    (h : (cmd = "sdr list" ∧ (t = 0x01 ∨ t = 0x02)) ∨ ((cmd = "sdr show" ∨ cmd = "sdr showall") ∧ t = 0x02))
    (k : Spec.Cli.SensorKey) :
    sensorReadOf Gen.Cli.sensorReads Gen.Cli.sensorReadDefaultLun cmd t k.ownerLun k.number
      = some (Spec.Cli.getSensorReading 0 k.number)
    ∧ (Spec.Cli.getSensorReading 0 k.number = Spec.Cli.readSensorOf k ↔ k.ownerLun = 0) := by
  rw [sensor_reads_today.1, sensor_reads_today.2]
  refine ⟨?_, ?_⟩
  · rcases h with ⟨rfl, rfl | rfl⟩ | ⟨rfl | rfl, rfl⟩ <;> rfl
  · simp only [Spec.Cli.getSensorReading, Spec.Cli.readSensorOf, Prod.mk.injEq, and_true]
    exact eq_comm

/-- what losing the LUN argument means (the helper "of the majority form"): with `get_sensor_reading(s.number)`
in the full branch of `sdr show`, the record of a sensor on owner LUN 1 makes the tool read ANOTHER sensor -
the one with the same number on LUN 0 - and for every record with a non-zero owner LUN the request differs from
the one that reads the record's sensor. -/
theorem dropped_owner_lun_counterexample :
    let dropped : List SensorRead := intendedSensorReads.map fun r => { r with lun := .default }
    sensorReadOf dropped 0 "sdr show" 0x01 1 0x51 = some (Spec.Cli.getSensorReading 0 0x51)
    ∧ ∀ k : Spec.Cli.SensorKey, k.ownerLun ≠ 0 →
        sensorReadOf dropped 0 "sdr show" 0x01 k.ownerLun k.number ≠ some (Spec.Cli.readSensorOf k) := by
  refine ⟨rfl, ?_⟩
  intro k hk h
  have h' : some (Spec.Cli.getSensorReading 0 k.number) = some (Spec.Cli.readSensorOf k) := h
  simp only [Spec.Cli.getSensorReading, Spec.Cli.readSensorOf, Option.some.injEq, Prod.mk.injEq, and_true] at h'
  exact hk h'.symm

/-! ### non-vacuity: concrete, non-trivial objects meeting the hypotheses -/

-- `-t 0x82 -Uadmin -v -t 0x20 chassis power cycle`
private def demoGiven : List Given :=
  [.sep 116 (ofString "0x82"), .glued 85 (ofString "admin"), .flag 118, .sep 116 (ofString "0x20")]
private def demoCmd : List Str := [ofString "chassis", ofString "power", ofString "cycle"]

example : (∀ g ∈ demoGiven, g.ok Gen.Cli.shape.optString = true) := by decide +kernel
example : stops demoCmd = true := by decide +kernel
example : settingsOf Gen.Cli.shape.rules (demoGiven.map Given.pair)
    = some [(2, .int 0x82), (Gen.Cli.vars.idxOf "rmcp_user", .str (ofString "admin")), (0, .bool true),
            (2, .int 0x20)] := by
  decide +kernel
example : Spec.Cli.lastWins (getv Gen.Cli.shape.defaults)
    [(2, Val.int 0x82), (Gen.Cli.vars.idxOf "rmcp_user", .str (ofString "admin")), (0, .bool true),
     (2, .int 0x20)] 2 = .int 0x20 := by
  decide +kernel
example : lookup (nameTable Gen.Cli.commands) (demoCmd ++ [ofString "x"]) = some (25, [ofString "x"]) := by
  decide +kernel
example : prefixBase 120 = some 16 ∧ All₂ (IsDigitOf 16) [digitChar 15, digitCharU 14] [15, 14] :=
  ⟨by decide, .cons ⟨by decide, .inl rfl⟩ (.cons ⟨by decide, .inr rfl⟩ .nil)⟩
example : pyInt0 (ofString "0xfE") = some 254 := by decide +kernel
example : cmdRaw [ofString "lun", ofString "1", ofString "0x06", ofString "1", ofString "0xff"]
    = .request 1 6 [1, 255] := by decide +kernel
example : exitOf Gen.Cli.exits (.lib .completionCodeError) { cc := 0xc1 }
    = some ⟨1, ofString "Command returned with completion code 0xc1"⟩ := by decide +kernel
-- the hypotheses of the error theorems are satisfiable: the clauses and structure of the repaired `main`
private def demoExits : List ExitClause := [
  ⟨[.lib .completionCodeError], some (.hex2cc (ofString "Command returned with completion code 0x")), 1⟩,
  ⟨[.lib .ipmiTimeoutError, .socketTimeout], some (.lit (ofString "Command timed out")), 1⟩,
  ⟨[.lib .retryError, .lib .hpmError, .lib .ipmiConnectionError, .lib .ipmiLongPasswordError,
    .lib .decodingError, .lib .encodingError, .lib .notSupportedError, .lib .descriptionError,
    .lib .dataNotFound], some (.reprExc (ofString "Command failed: ")), 1⟩,
  ⟨[.keyboardInterrupt], none, 1⟩]
example : exitsCover demoExits = true := by decide +kernel
example : mainEnd true demoExits (some (.lib .completionCodeError, { cc := 0xc1 })) (some (.lib .retryError,
      { repr := ofString "RetryError()" }))
    = .exits 1 (ofString "Command failed: RetryError()") := by decide +kernel
example : mainEnd true demoExits none (some (.socketTimeout, {})) = .exits 1 (ofString "Command timed out") := by
  decide +kernel
example : (⟨10, 0, true⟩ : ArgConv).parse (ofString "0x0a") = some 10
    ∧ (⟨10, 0, false⟩ : ArgConv).parse (ofString "0x0a") = none := by decide +kernel
example : catchesArithmetic ["ValueError", "ArithmeticError"] = true
    ∧ cellRaises ["ValueError", "ArithmeticError"] Spec.Cli.Lin.reciprocal.code .zero = none := by decide +kernel
-- the hypothesis of `sensor_values_no_python_error` is satisfiable (the repaired `sensor_value()`), and it is not
-- trivially true: without the third class a non-linear sensor ends the command
example : catchesConversion ["ValueError", "ArithmeticError", "DecodingError"] = true
    ∧ cellRaises ["ValueError", "ArithmeticError", "DecodingError"] 0x70 .pos = none
    ∧ cellRaises ["ValueError", "ArithmeticError", "DecodingError"] 0xff .zero = none
    ∧ catchesConversion ["ValueError", "ArithmeticError"] = false
    ∧ cellRaises ["ValueError", "ArithmeticError"] 0x7f .pos = some "DecodingError"
    ∧ catchesConversion ["Exception"] = true := by decide +kernel
example : Spec.Cli.linClass 0x70 = .nonLinear ∧ Spec.Cli.linClass 0x7f = .oemNonLinear
    ∧ Spec.Cli.linClass 7 = .formula .reciprocal ∧ Spec.Cli.linClass 0x0c = .reserved
    ∧ Spec.Cli.linConforming 0x6f = false ∧ Spec.Cli.hasValue 0x70 .pos = false
    ∧ Spec.Cli.hasValue 0 .zero = true := by decide +kernel
example : sdrShowRaises ⟨true, true, true, true, []⟩ false false = none
    ∧ sdrShowRaises ⟨true, false, true, true, []⟩ false true = some "AttributeError"
    ∧ sdrStateRaises ⟨true, true, true, true, []⟩ false = none := by decide +kernel
-- two sensors with the same number on different LUNs are different requests; a compact record reads LUN 0
example : sensorReadOf intendedSensorReads 0 "sdr showall" 0x01 1 0x51 = some (1, 0x04, [0x2d, 0x51])
    ∧ sensorReadOf intendedSensorReads 0 "sdr showall" 0x01 0 0x51 = some (0, 0x04, [0x2d, 0x51])
    ∧ sensorReadOf intendedSensorReads 0 "sdr show" 0x02 3 0x08 = some (0, 0x04, [0x2d, 0x08])
    ∧ sensorReadOf intendedSensorReads 0 "sdr list" 0x01 3 0x07 = some (0, 0x04, [0x2d, 0x07])
    ∧ sensorReadOf intendedSensorReads 0 "sdr show" 0x12 0 0 = none := by decide +kernel
-- a table with a shadowed entry is rejected by the side condition
example : prefixFree [⟨ofString "bmc", [ofString "bmc"], 0, []⟩,
    ⟨ofString "bmc info", [ofString "bmc", ofString "info"], 0, []⟩] = false := by decide +kernel

/-- **`-b` for the `main()` read today**: the translator found the bridging statement of repair ac26ccf
(`Gen.Cli.shape.bridge`, regenerated on every run); with a target address and a channel given and no explicit
routing the request reaches controller `t` over channel `b`.  A tree without the statement stops this theorem from
building (and the real run reports `C20:option:-b`). -/
theorem channel_option_takes_effect_today (vs : List Val) (t b : Int)
    (hr : getv vs Gen.Cli.shape.vRouting = .none) (hc : getv vs 4 = .int b)
    (ht : getv vs Gen.Cli.shape.vTarget = .int t) :
    destinationOfRouting (bridgedRouting Gen.Cli.shape vs) = some (Spec.Cli.destinationOf t (some b)) :=
  channel_option_takes_effect Gen.Cli.shape vs 4 129 32 32 t b rfl hr hc ht

/-- **aardvark options for the `Aardvark.open()` read today** (guards `is not None`, repair a4d225d): every
combination of pullups / power / fastmode in {absent, on, off} is written to the adapter as given -/
theorem aardvark_options_take_effect_today (p w f : Option Bool) :
    (aardvarkOpenWrites Gen.Cli.aardvarkGuards p w f).map settingOf =
      Spec.Cli.adapterSettings p w (some (f.getD false)) :=
  aardvark_options_take_effect Gen.Cli.aardvarkGuards rfl rfl p w f

end PyIpmi.Props.C20
