/-
  C15 — FRU inventory parsing inverts the FRU storage format and enforces its checksums.

  Spec  : PyIpmi.Spec.FruFormat   (FruImage, encodeFru, view, checksumsOk, covered, WellFormed)
  Model : PyIpmi.Model.FruParse   (parseFru, mirror of pyipmi/fru.py + fields.py + utils.bcd_decode;
                                   `Variant.asShipped` = pinned tree, `Variant.intended` = after fixes/C15-1.diff)
  Gen   : PyIpmi.Gen.FruTables    (BCD_MAP, 6-bit masks/shifts, type/length masks, dispatch constants)

  * `parse_encode`                    — intended parser: parse (encode img) = view img, every input kind,
                                        for ALL well-formed images (any number of custom fields / records)
  * `parse_encode_asShipped_restricted` — the pinned parser does the same on the images it can decode
                                        (no BCD+ field unless the image is `bytes`; 6-bit fields of 3k bytes)
  * `asShipped_bcd_counterexample`, `asShipped_sixbit_counterexample`
                                      — the pinned parser violates parse∘encode = view (concrete images)
  * `accept_implies_checksums`        — ANY byte string, either variant: accepted ⇒ header, every info area
                                        and every record header/body satisfy their zero-sum checksums
  * `alteration_rejected`             — a single altered byte in the common header, an info area (except its
                                        length byte) or the multi-record area is never accepted
  * `alteration_rejected_length_byte_partial`, `length_byte_limit`
                                      — the info-area length byte: rejected unless the re-delimited range sums
                                        to zero; and a witness that no parser of this format can do better
  * `encodeFru_is_bytes`              — the encoder produces bytes (offsets / lengths fit their fields)
  * `ascii6_text_exact`               — 6-bit text is reported exactly unless n ≡ 3 (mod 4) (then one space more)
  * `tables_match_storage_definition` — generated BCD_MAP / constants equal the storage definition's (T tie)
-/
import PyIpmi.Lemmas.FruAlterImage
namespace PyIpmi.Props.C15
open PyIpmi PyIpmi.Fru PyIpmi.Gen

/-! ### parse ∘ encode = view -/

/-- The repaired parser reports exactly what was encoded: every field value, the manufacturing
minutes, every record – for every well-formed image and however the image object is handed over. -/
theorem parse_encode (img : FruImage) (k : InputKind) (h : WellFormed img) :
    parseFru .intended k (encodeFru img) = .ok (view img) :=
  parse_encode_gen .intended k img h (FruImage.okFor_intended k img)

/-- The pinned parser agrees on the part of the quantifier it can handle. -/
theorem parse_encode_asShipped_restricted (img : FruImage) (k : InputKind) (h : WellFormed img)
    (hok : img.okFor .asShipped k = true) :
    parseFru .asShipped k (encodeFru img) = .ok (view img) :=
  parse_encode_gen .asShipped k img h hok

/-- chassis area, part number = BCD+ "12" -/
def witnessBcd : FruImage :=
  ⟨none, some ⟨23, .bcdPlus [1, 2], .binary [], [], 0⟩, none, none, []⟩

/-- chassis area, part number = 6-bit "A" (one character, one byte) -/
def witnessSix : FruImage :=
  ⟨none, some ⟨23, .ascii6 [33], .binary [], [], 0⟩, none, none, []⟩

/-- As shipped, a BCD+ field in an image given as `array` (the file path) is an AttributeError:
the property's parse∘encode clause fails on the pinned tree. -/
theorem asShipped_bcd_counterexample :
    ¬ ∀ (img : FruImage) (k : InputKind), WellFormed img →
        parseFru .asShipped k (encodeFru img) = .ok (view img) := by
  intro h
  have := h witnessBcd .array (by decide)
  revert this
  decide

/-- As shipped, a 6-bit field whose byte length is not a multiple of 3 is an IndexError (even for
`bytes`). -/
theorem asShipped_sixbit_counterexample :
    ¬ ∀ (img : FruImage), WellFormed img →
        parseFru .asShipped .bytes (encodeFru img) = .ok (view img) := by
  intro h
  have := h witnessSix (by decide)
  revert this
  decide

/-! ### acceptance implies the checksums -/

/-- Whatever the bytes, whichever variant and input kind: an accepted image satisfies the common
header checksum, the checksum of every info area the header points to, and the header and body
checksum of every record of the chain (`checksumsOk`, Spec/FruFormat.lean). -/
theorem accept_implies_checksums (v : Variant) (k : InputKind) (bs : List Nat) (fv : FruView)
    (h : parseFru v k bs = .ok fv) : checksumsOk bs = true :=
  accept_checksums v k bs fv h

/-! ### altered images are rejected -/

/-- An image in which one byte covered by a checksum (other than an info-area length byte) was
altered is never accepted – by either variant, for every input kind. -/
theorem alteration_rejected (img : FruImage) (h : WellFormed img) (i old b' : Nat)
    (hold : (encodeFru img)[i]? = some old) (hb' : b' < 256) (hne : b' ≠ old)
    (hcov : covered img i = true) (hlen : isAreaLengthByte img i = false)
    (v : Variant) (k : InputKind) (fv : FruView) :
    parseFru v k ((encodeFru img).set i b') ≠ .ok fv := by
  intro hp
  have h1 := accept_checksums v k _ fv hp
  have h2 := alter_image img h i b' old hold hb' hne hcov hlen
  rw [h2] at h1
  cases h1

/- Full statement for the length byte (NOT provable, see `length_byte_limit`):
     isAreaLengthByte img i = true → b' ≠ old → parseFru v k ((encodeFru img).set i b') ≠ .ok fv
   The byte defines the extent of the very checksum that covers it. -/

/-- Length byte of the info area announced by header byte `k` (2 chassis, 3 board, 4 product), for
ANY byte string: the altered image is rejected unless the range re-delimited by the new length
value happens to sum to zero. -/
theorem alteration_rejected_length_byte_partial (bs : List Nat) (k : Nat) (hk : k = 2 ∨ k = 3 ∨ k = 4)
    (hoff : bs.getD k 0 ≠ 0) (b' : Nat) (hlt : 8 * bs.getD k 0 + 1 < bs.length)
    (hside : sum8 (((bs.set (8 * bs.getD k 0 + 1) b').drop (8 * bs.getD k 0)).take (8 * b')) ≠ 0)
    (v : Variant) (kd : InputKind) (fv : FruView) :
    parseFru v kd (bs.set (8 * bs.getD k 0 + 1) b') ≠ .ok fv := by
  intro hp
  have h1 := accept_checksums v kd _ fv hp
  have hk8 : k < 8 := by omega
  have hg : (bs.set (8 * bs.getD k 0 + 1) b').getD k 0 = bs.getD k 0 := by
    simp only [List.getD_eq_getElem?_getD, List.getElem?_set]
    have : ¬ (8 * bs[k]?.getD 0 + 1 = k) := by
      have := hoff; rw [List.getD_eq_getElem?_getD] at this; omega
    simp [this]
  have harea : areaSumOk (areaAt (bs.set (8 * bs.getD k 0 + 1) b') k) = true := by
    simp only [checksumsOk, Bool.and_eq_true, Bool.or_eq_true, beq_iff_eq] at h1
    obtain ⟨⟨⟨⟨_, a2⟩, a3⟩, a4⟩, _⟩ := h1
    rcases hk with rfl | rfl | rfl
    · rcases a2 with h | h
      · rw [hg] at h; exact absurd h hoff
      · exact h
    · rcases a3 with h | h
      · rw [hg] at h; exact absurd h hoff
      · exact h
    · rcases a4 with h | h
      · rw [hg] at h; exact absurd h hoff
      · exact h
  unfold areaAt at harea
  rw [hg] at harea
  have hd1 : ((bs.set (8 * bs.getD k 0 + 1) b').drop (8 * bs.getD k 0)).getD 1 0 = b' := by
    have hlt' : 8 * bs[k]?.getD 0 + 1 < bs.length := by rwa [List.getD_eq_getElem?_getD] at hlt
    simp only [List.getD_eq_getElem?_getD, List.getElem?_drop, List.getElem?_set]
    simp [hlt']
  have hnn : (bs.set (8 * bs.getD k 0 + 1) b').drop (8 * bs.getD k 0) ≠ [] := by
    intro he
    have h0 : ((bs.set (8 * bs.getD k 0 + 1) b').drop (8 * bs.getD k 0)).length = 0 := by rw [he]; rfl
    rw [List.length_drop, List.length_set] at h0
    omega
  rw [areaSumOk_ne_nil _ hnn, hd1] at harea
  simp only [beq_iff_eq] at harea
  exact hside harea

/-- `limitImage`: chassis area with 8 bytes of unused space (16 bytes); `limitImage'`: the same
content without the unused space (8 bytes). -/
def limitImage : FruImage :=
  ⟨none, some ⟨0xBD, .text8 [], .text8 [], [], 1⟩, none, none, []⟩
def limitImage' : FruImage :=
  ⟨none, some ⟨0xBD, .text8 [], .text8 [], [], 0⟩, none, none, []⟩

/-- No parser of this format can reject every altered length byte: altering the chassis length
byte of `limitImage` from 2 to 1 yields exactly the well-formed image `limitImage'` followed by 8
unused bytes of the device – every checksum the format defines holds, and a parser that accepts
well-formed images has to accept it (the model does, reporting `limitImage'`). -/
theorem length_byte_limit :
    WellFormed limitImage ∧ WellFormed limitImage' ∧
    isAreaLengthByte limitImage 9 = true ∧ (encodeFru limitImage)[9]? = some 2 ∧
    (encodeFru limitImage).set 9 1 = encodeFru limitImage' ++ [0, 0, 0, 0, 0, 0, 0, 0xFF] ∧
    checksumsOk ((encodeFru limitImage).set 9 1) = true ∧
    parseFru .intended .bytes ((encodeFru limitImage).set 9 1) = .ok (view limitImage') := by
  decide +kernel

/-! ### the encoder produces bytes; 6-bit text -/

theorem encodeFru_is_bytes (img : FruImage) (h : WellFormed img) : Bytes (encodeFru img) :=
  encodeFru_bytes img h

/-- 6-bit text is reported character for character, except that three characters in the last
group are followed by the space the six unused bits spell (a limit of the packed format). -/
theorem ascii6_text_exact (cs : List Nat) :
    (viewField (.ascii6 cs)).str =
      cs.map (0x20 + ·) ++ (if cs.length % 4 = 3 then [0x20] else []) := by
  simp only [viewField, Field.text]
  split <;> simp

/-! ### generated tables = storage definition -/

theorem tables_match_storage_definition :
    FruTables.bcdMap = (List.range 13).map bcdChar ∧
    FruTables.customFieldEnd = endOfFields ∧
    FruTables.picmgRecordType = picmgRecordType ∧
    FruTables.powerModuleId = powerModuleId ∧
    FruTables.headerLen = 8 ∧ FruTables.minRecord = 5 ∧
    FruTables.typeBcd = 1 ∧ FruTables.typeSix = 2 := by
  decide

/-! ### non-vacuity: a non-trivial image satisfies every hypothesis -/

def demo : FruImage :=
  { internal := some [0xAA, 0xBB]
    chassis := some ⟨23, .text8 [0x41, 0x42], .ascii6 [33, 34, 35], [.binary [1, 2, 3], .bcdPlus [1, 10, 11, 12]], 1⟩
    board := some ⟨25, 1234567, .text8 [0x4B, 0x6F], .ascii6 [36, 37, 44, 44], .bcdPlus [0, 9], .binary [],
                   .text8 [], [.ascii6 [1]], 0⟩
    product := some ⟨0, .text8 [0x4B, 0x6F], .text8 [], .binary [0xFF], .bcdPlus [], .ascii6 [1, 2], .text8 [],
                     .text8 [0x31, 0x32, 0x33], [], 0⟩
    records := [.generic 1 [1, 2, 3], .picmg 0x16 0 [9, 9], .power 0 420 []] }

example : WellFormed demo := by decide
example : (encodeFru demo).length = 128 := by decide +kernel
example : parseFru .intended .array (encodeFru demo) = .ok (view demo) := by decide +kernel
example : checksumsOk (encodeFru demo) = true := by decide +kernel
example : demo.okFor .asShipped .array = false := by decide
-- byte 20 lies in the chassis area (offset 16), is not its length byte, and altering it is fatal
example : covered demo 20 = true ∧ isAreaLengthByte demo 20 = false ∧
    checksumsOk ((encodeFru demo).set 20 0x55) = false := by decide +kernel
example : (witnessBcd.okFor .asShipped .bytes) = true := by decide
example : dateOfMinutes 0 = (1996, 1, 1, 0, 0) ∧ dateOfMinutes 16777215 = (2027, 11, 24, 20, 15) := by decide

end PyIpmi.Props.C15
