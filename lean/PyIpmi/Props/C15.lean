/-
  C15 — FRU inventory parsing inverts the FRU storage format and enforces its checksums.

  Spec  : PyIpmi.Spec.FruFormat   (FruImage, encodeFru, view, checksumsOk, covered, WellFormed)
  Model : PyIpmi.Model.FruParse   (parseFru, mirror of pyipmi/fru.py + fields.py + utils.bcd_decode)
          PyIpmi.Model.FruDevice  (parseFruDevice, mirror of Fru.get_fru_inventory above read_fru_data)
          `Variant` flags (each PROBED on the tree under test): bcdBytesOnly, sixStrict (fixes/C15-1.diff),
          areaLenLax, devLenLax (fixes/C15-2.diff), picmgTypeOnly (fixes/C15-3.diff), fieldsLax (fixes/C15-4.diff),
          overlapLax, devOverlapLax (fixes/C15-5.diff);
          `Variant.asShipped` = all set, `Variant.intended` = none set, `Variant.afterC15_1` = pinned tree
          after C15-1 only, `Variant.afterC15_3` = after C15-1..3 (the tree of the second audit)
  Gen   : PyIpmi.Gen.FruTables    (BCD_MAP, 6-bit masks/shifts, type/length masks, dispatch constants and –
                                   when the source has them – manufacturer id and record-length guards)

  parse ∘ encode = view
  * `parse_encode`                    — intended parser: parse (encode img) = view img, every input kind,
                                        for ALL well-formed images (any number of custom fields / records,
                                        OEM records of type C0h of other manufacturers included)
  * `parse_encode_device`             — the same through the device path (`Ipmi.get_fru_inventory()` on a
                                        device that stores the image followed by anything)
  * `parse_encode_restricted`, `parse_encode_device_restricted`
                                      — any variant does the same on the images it can decode (`okFor`:
                                        no BCD+ field unless `bytes`, 6-bit fields of 3k bytes, no non-PICMG C0h record)
  * `asShipped_bcd_counterexample`, `asShipped_sixbit_counterexample`, `asShipped_oem_c0_counterexample`,
    `asShipped_oem_c0_outside_record`, `asShipped_file_device_disagree`
                                      — the pinned parser violates parse∘encode = view (concrete images)
  acceptance ⇒ checksums
  * `accept_implies_checksums`        — ANY byte string, any variant that validates the area length byte:
                                        accepted ⇒ header, every info area (over its DECLARED length, which is
                                        ≥ 1 unit of 8 bytes and inside the data) and every record header/body
                                        satisfy their zero-sum checksums
  * `device_accept_implies_area_checksums` — the same for the info areas on the device path
  * `accept_implies_wellformed`       — ANY byte string, any variant that validates the length byte, confines the
                                        fields and checks the layout: accepted ⇒ `imageOk` = all checksums over the
                                        declared spans ∧ every field and C1h marker of every info area inside its
                                        declared length ∧ no area starts inside the span of another one
  * `device_accept_implies_fields_and_layout` — device path: the same for every announced info area
  * `asShipped_fields_outside_counterexample`, `asShipped_overlap_counterexample`,
    `asShipped_device_overlap_counterexample`
                                      — without fixes/C15-4.diff / C15-5.diff an accepted image violates `fieldsOk` /
                                        `layoutOk` (and file and device disagree: IndexError on the device)
  altered images
  * `alteration_rejected`             — a single altered byte in the common header, an info area (except its
                                        length byte) or the multi-record area is never accepted (every variant)
  * `alteration_rejected_length_byte_partial`
                                      — the info-area length byte set to b': accepted only if b' ≥ 1, the span of
                                        8·b' bytes lies inside the image and sums to zero – the altered byte is
                                        inside a verified span; corollaries `alteration_length_zero_rejected`,
                                        `alteration_length_beyond_rejected`
  * `alteration_rejected_length_byte` — the same at full strength (repaired reader, the image as bytes / array / file):
                                        accepted only if b' < old (NEVER a lengthened one), the new length still holds
                                        everything the area needs (`lengthByteNeed ≤ 8·b'`: only unused space was cut
                                        off), the shortened span sums to zero – and the altered image satisfies
                                        `imageOk`; corollaries `alteration_length_shortened_rejected` (a field, the C1h
                                        marker or the checksum position outside the new length ⇒ rejected),
                                        `alteration_length_lengthened_rejected`, `alteration_rejected_no_spare_unit`
                                        (an area without a whole unused unit: EVERY altered length byte is rejected)
  * `device_alteration_length_byte`   — device path (the image followed by any storage contents): accepted only if
                                        `lengthByteNeed ≤ 8·b'` and no other area starts inside the new span (a
                                        lengthened span reaches only into bytes that belong to no area)
  * `length_byte_limit`               — the residual no reader can remove, exhibited in both directions: the altered
                                        image IS the encoding of another well-formed image (followed by unused bytes)
  * `asShipped_length_zero_counterexample`, `asShipped_length_beyond_counterexample`,
    `asShipped_device_length_zero_counterexample`
                                      — the pinned parser accepts an altered covered byte (length 0: every image)
  * `encodeFru_is_bytes`              — the encoder produces bytes (offsets / lengths fit their fields)
  * `ascii6_text_exact`               — 6-bit text is reported exactly unless n ≡ 3 (mod 4) (then one space more)
  * `tables_match_storage_definition` — generated BCD_MAP / constants equal the storage definition's (T tie); the
                                        guards of the repaired record dispatch are PRESENT (`= some …`)
  * `source_is_intended_variant`, `parse_encode_today`, `parse_encode_device_today`
                                      — the eight forms the translator reads from today's AST are the intended ones
-/
import PyIpmi.Lemmas.FruDevice
namespace PyIpmi.Props.C15
open PyIpmi PyIpmi.Fru PyIpmi.Gen

/-! ### parse ∘ encode = view -/

/-- The repaired parser reports exactly what was encoded: every field value, the manufacturing
minutes, every record – for every well-formed image and however the image object is handed over. -/
theorem parse_encode (img : FruImage) (k : InputKind) (h : WellFormed img) :
    parseFru .intended k (encodeFru img) = .ok (view img) :=
  parse_encode_gen .intended k img h (FruImage.okFor_intended k img)

/-- The same through the device path: `Ipmi.get_fru_inventory()` on a device whose storage starts
with the image (followed by anything) reports the same areas (the inventory object of this path
carries no common header). -/
theorem parse_encode_device (img : FruImage) (tail : List Nat) (h : WellFormed img) :
    parseFruDevice .intended (encodeFru img ++ tail) = .ok { view img with header := none } :=
  parse_encode_device_gen .intended img tail h (FruImage.okFor_intended .bytes img)

/-- Every variant (the pinned parser included) agrees on the part of the quantifier it can
handle: `okFor` – no BCD+ field unless the image is `bytes`, 6-bit fields of 3k bytes, no C0h
record other than a PICMG record. -/
theorem parse_encode_restricted (v : Variant) (img : FruImage) (k : InputKind) (h : WellFormed img)
    (hok : img.okFor v k = true) :
    parseFru v k (encodeFru img) = .ok (view img) :=
  parse_encode_gen v k img h hok

theorem parse_encode_device_restricted (v : Variant) (img : FruImage) (tail : List Nat) (h : WellFormed img)
    (hok : img.okFor v .bytes = true) :
    parseFruDevice v (encodeFru img ++ tail) = .ok { view img with header := none } :=
  parse_encode_device_gen v img tail h hok

/-- chassis area, part number = BCD+ "12" -/
def witnessBcd : FruImage :=
  ⟨none, some ⟨23, .bcdPlus [1, 2], .binary [], [], 0⟩, none, none, []⟩

/-- chassis area, part number = 6-bit "A" (one character, one byte) -/
def witnessSix : FruImage :=
  ⟨none, some ⟨23, .ascii6 [33], .binary [], [], 0⟩, none, none, []⟩

/-- As shipped, a BCD+ field in an image given as `array` (the file path) is an AttributeError:
the property's parse∘encode clause fails on the pinned tree. -/
theorem asShipped_bcd_counterexample :
    ¬ ∀ (img : FruImage) (k : InputKind), WellFormed img →
        parseFru .asShipped k (encodeFru img) = .ok (view img) := by
  intro h
  have := h witnessBcd .array (by decide)
  revert this
  decide

/-- As shipped, a 6-bit field whose byte length is not a multiple of 3 is an IndexError (even for
`bytes`). -/
theorem asShipped_sixbit_counterexample :
    ¬ ∀ (img : FruImage), WellFormed img →
        parseFru .asShipped .bytes (encodeFru img) = .ok (view img) := by
  intro h
  have := h witnessSix (by decide)
  revert this
  decide

/-- OEM record of type C0h of manufacturer 343 (000157h) whose fourth data byte is 27h -/
def witnessOem : FruImage :=
  ⟨none, none, none, none, [.generic 0xC0 [0x57, 0x01, 0x00, 0x27, 0x00, 0x10, 0x20]]⟩

/-- OEM record of type C0h with the manufacturer id only (3 data bytes), followed by a DC load record -/
def witnessOemShort : FruImage :=
  ⟨none, none, none, none, [.generic 0xC0 [0x57, 0x01, 0x00], .generic 2 [1, 2, 3, 4, 5, 6, 7, 8, 9, 10, 11, 12, 13]]⟩

/-- a DC load record followed by an OEM record of type C0h with one data byte behind the manufacturer id -/
def witnessOemLast : FruImage :=
  ⟨none, none, none, none, [.generic 2 [1, 2, 3, 4, 5, 6, 7, 8, 9, 10, 11, 12, 13], .generic 0xC0 [0x57, 0x01, 0x00, 0xAA]]⟩

/-- Dispatching on the record type alone (fixes/C15-3.diff not applied) violates parse∘encode = view:
every C0h record is taken for a PICMG record. -/
theorem asShipped_oem_c0_counterexample (v : Variant) (hv : v.picmgTypeOnly = true) :
    ¬ ∀ (img : FruImage) (k : InputKind), WellFormed img →
        parseFru v k (encodeFru img) = .ok (view img) := by
  intro h
  have := h witnessOem .bytes (by decide)
  clear h
  obtain ⟨a, b, c, d, e, f, g, h'⟩ := v
  simp only at hv
  subst hv
  revert this a b c d f g h'
  decide +kernel

/-- … namely: the foreign OEM record comes back as a MicroTCA power module capability record with a
"maximum current output" of 820.8 A that nobody encoded (`witnessOem`), and the PICMG record id and
version of the 3-byte record are bytes 0 and 1 of the NEXT record's header (`witnessOemShort`). -/
theorem asShipped_oem_c0_outside_record :
    parseFru .afterC15_1 .bytes (encodeFru witnessOem) =
      .ok { view witnessOem with multi := .parsed [.power 0xC0 true 7 [0x57, 0x01, 0x00, 0x27, 0x00, 0x10, 0x20]
              0x000157 0x27 0x00 8208] } ∧
    parseFru .afterC15_1 .bytes (encodeFru witnessOemShort) =
      .ok { view witnessOemShort with multi := .parsed [.picmg 0xC0 false 3 [0x57, 0x01, 0x00] 0x000157 0x02 0x82,
              .unknown 2 2 true 13 [1, 2, 3, 4, 5, 6, 7, 8, 9, 10, 11, 12, 13]] } := by
  decide +kernel

/-- File and device disagree as shipped: the image `witnessOemLast` followed by five unused 00h bytes
(a file) is accepted – the PICMG fields of its last record are made up from the padding – while the
device path, which reads exactly the multi-record area, rejects the same storage contents. -/
theorem asShipped_file_device_disagree :
    WellFormed witnessOemLast ∧
    (parseFru .afterC15_1 .array (encodeFru witnessOemLast ++ [0, 0, 0, 0, 0])).isOk = true ∧
    parseFru .afterC15_1 .array (encodeFru witnessOemLast ++ [0, 0, 0, 0, 0]) ≠ .ok (view witnessOemLast) ∧
    parseFruDevice .afterC15_1 (encodeFru witnessOemLast ++ [0, 0, 0, 0, 0]) = .decodingError ∧
    parseFru .intended .array (encodeFru witnessOemLast ++ [0, 0, 0, 0, 0]) = .ok (view witnessOemLast) ∧
    parseFruDevice .intended (encodeFru witnessOemLast ++ [0, 0, 0, 0, 0]) =
      .ok { view witnessOemLast with header := none } := by
  decide +kernel

/-! ### acceptance implies the checksums -/

/-- Whatever the bytes, whichever input kind, for every variant that validates the info-area
length byte (fixes/C15-2.diff): an accepted image satisfies the common header checksum, the checksum
of every info area the header points to – over the area's DECLARED length, which is at least one
unit of 8 bytes and lies inside the data – and the header and body checksum of every record of
the chain (`checksumsOk`, Spec/FruFormat.lean). -/
theorem accept_implies_checksums (v : Variant) (hv : v.areaLenLax = false) (k : InputKind)
    (bs : List Nat) (fv : FruView)
    (h : parseFru v k bs = .ok fv) : checksumsOk bs = true :=
  accept_checksums v hv k bs fv h

/-- Device path (`Ipmi.get_fru_inventory()`), whatever the device stores, for every variant whose
`_read_fru_area` validates the length byte: an accepted inventory means that every info area the
header announces (header byte `k`: 2 chassis, 3 board, 4 product) declares a length `L ≥ 1`, lies
inside the storage and sums to zero over exactly its `8·L` bytes. -/
theorem device_accept_implies_area_checksums (v : Variant) (hv : v.devLenLax = false)
    (store : List Nat) (fv : FruView) (k : Nat) (hk : k = 2 ∨ k = 3 ∨ k = 4)
    (hoff : store.getD k 0 ≠ 0) (hp : parseFruDevice v store = .ok fv) :
    1 ≤ store.getD (8 * store.getD k 0 + 1) 0 ∧
    8 * store.getD k 0 + 8 * store.getD (8 * store.getD k 0 + 1) 0 ≤ store.length ∧
    sum8 ((store.drop (8 * store.getD k 0)).take (8 * store.getD (8 * store.getD k 0 + 1) 0)) = 0 :=
  device_accept_area_span v hv store fv k hk hoff hp

/-- Whatever the bytes, whichever input kind, for every variant that validates the info-area length
byte (fixes/C15-2.diff), decodes the fields from the area only (fixes/C15-4.diff) and checks the layout
(fixes/C15-5.diff): an accepted image satisfies EVERY check a reader of this format can make –
`imageOk` (Spec/FruFormat.lean): all zero-sum checksums over the spans the bytes themselves declare; in every
info area the predefined fields, the custom fields and the C1h marker inside the declared length, in
front of the checksum byte; no area starting inside the span of another one. -/
theorem accept_implies_wellformed (v : Variant) (hv1 : v.areaLenLax = false) (hv2 : v.fieldsLax = false)
    (hv3 : v.overlapLax = false) (k : InputKind) (bs : List Nat) (fv : FruView)
    (h : parseFru v k bs = .ok fv) :
    checksumsOk bs = true ∧ fieldsOk bs = true ∧ layoutOk bs = true :=
  ⟨accept_checksums v hv1 k bs fv h, accept_fields v hv1 hv2 k bs fv h, accept_layout v hv3 k bs fv h⟩

/-- Device path (`Ipmi.get_fru_inventory()`), whatever the device stores: for every info area the
header announces (byte `k`: 2 chassis, 3 board, 4 product) the fields and the C1h marker lie inside the
declared length `8·L` (`L` = the area's length byte), and no other area the header announces starts
inside `[start, start + 8·L)`. -/
theorem device_accept_implies_fields_and_layout (v : Variant) (hv1 : v.devLenLax = false)
    (hv2 : v.fieldsLax = false) (hv3 : v.devOverlapLax = false)
    (store : List Nat) (fv : FruView) (k : Nat) (hk : k = 2 ∨ k = 3 ∨ k = 4)
    (hoff : store.getD k 0 ≠ 0) (hp : parseFruDevice v store = .ok fv) :
    fieldsInside k (areaAt store k) = true ∧
    ∀ j ∈ [1, 2, 3, 4, 5], j ≠ k → startOf store j ≠ 0 → startOf store k ≤ startOf store j →
      startOf store k + 8 * store.getD (8 * store.getD k 0 + 1) 0 ≤ startOf store j :=
  device_accept_area_ok v hv1 hv2 hv3 store fv k hk hoff hp

/-- board area of 16 bytes: manufacturer "AB", manufacturing date 2020-01-01 03:42 (chosen so that the
first 8 bytes, with the length byte set to 1, sum to zero) – the image of the second audit's finding 1 -/
def witnessFields : FruImage :=
  ⟨none, none, some ⟨0, 0xC09D9E, .text8 [0x41, 0x42], .text8 [], .text8 [], .text8 [], .text8 [], [], 0⟩, none, []⟩

/-- Reading the fields from everything behind the area offset (fixes/C15-4.diff not applied): the board
length byte of `witnessFields` altered from 2 to 1 is accepted from bytes / array / file – the
manufacturer's second character, four fields and the C1h marker are taken from OUTSIDE the span whose
checksum was verified (`fieldsOk` fails) – while the device path, which reads exactly the declared 8 bytes,
ends in a bare IndexError: file and device disagree. -/
theorem asShipped_fields_outside_counterexample (v : Variant) (hv : v.fieldsLax = true) :
    WellFormed witnessFields ∧ isAreaLengthByte witnessFields 9 = true ∧
    (encodeFru witnessFields)[9]? = some 2 ∧
    (parseFru v .array ((encodeFru witnessFields).set 9 1)).isOk = true ∧
    checksumsOk ((encodeFru witnessFields).set 9 1) = true ∧
    fieldsOk ((encodeFru witnessFields).set 9 1) = false ∧
    parseFruDevice v ((encodeFru witnessFields).set 9 1 ++ List.replicate 8 0xFF) = .pyError "IndexError" := by
  obtain ⟨a, b, c, d, e, f, g, h'⟩ := v
  simp only at hv
  subst hv
  revert a b c d e g h'
  decide +kernel

/-- board area of 16 bytes followed by a product area of 24 bytes whose first 8 bytes sum to FFh – the
image of the second audit's finding 2 -/
def witnessOverlap : FruImage :=
  ⟨none, none, some ⟨0, 0xC09CC0, .text8 [0x41, 0x42], .text8 [], .text8 [], .text8 [], .text8 [], [], 0⟩,
   some ⟨0, .text8 [0x41, 0x43, 0x4D, 0x66], .text8 [0x58, 0x31], .text8 [], .text8 [], .text8 [], .text8 [],
         .text8 [], [], 0⟩, []⟩

/-- Without the layout check (fixes/C15-5.diff not applied): the board length byte of `witnessOverlap`
altered from 2 to 3 is accepted – all checksums hold, all fields lie inside their areas, but the board
area now claims bytes 8..31 while the product area starts at 24 (`layoutOk` fails). -/
theorem asShipped_overlap_counterexample (v : Variant) (hv : v.overlapLax = true) :
    WellFormed witnessOverlap ∧ isAreaLengthByte witnessOverlap 9 = true ∧
    (encodeFru witnessOverlap)[9]? = some 2 ∧
    (parseFru v .bytes ((encodeFru witnessOverlap).set 9 3)).isOk = true ∧
    checksumsOk ((encodeFru witnessOverlap).set 9 3) = true ∧
    fieldsOk ((encodeFru witnessOverlap).set 9 3) = true ∧
    layoutOk ((encodeFru witnessOverlap).set 9 3) = false := by
  obtain ⟨a, b, c, d, e, f, g, h'⟩ := v
  simp only at hv
  subst hv
  revert a b c d e f h'
  decide +kernel

/-- … and the same through the device path (`Fru.get_fru_inventory` without the layout check). -/
theorem asShipped_device_overlap_counterexample (v : Variant) (hv : v.devOverlapLax = true) :
    (parseFruDevice v ((encodeFru witnessOverlap).set 9 3 ++ List.replicate 16 0xFF)).isOk = true ∧
    layoutOk ((encodeFru witnessOverlap).set 9 3 ++ List.replicate 16 0xFF) = false := by
  obtain ⟨a, b, c, d, e, f, g, h'⟩ := v
  simp only at hv
  subst hv
  revert a b c d e f g
  decide +kernel

/-! ### altered images are rejected -/

/-- An image in which one byte covered by a checksum (other than an info-area length byte) was
altered is never accepted – by any variant, for every input kind. -/
theorem alteration_rejected (img : FruImage) (h : WellFormed img) (i old b' : Nat)
    (hold : (encodeFru img)[i]? = some old) (hb' : b' < 256) (hne : b' ≠ old)
    (hcov : covered img i = true) (hlen : isAreaLengthByte img i = false)
    (v : Variant) (k : InputKind) (fv : FruView) :
    parseFru v k ((encodeFru img).set i b') ≠ .ok fv := by
  intro hp
  have h1 := accept_checksums_clamped v k _ fv hp
  have h2 := alter_image img h i b' old hold hb' hne hcov hlen
  rw [h2] at h1
  cases h1

/- Full statement for the length byte (NOT provable, see `length_byte_limit`):
     isAreaLengthByte img i = true → b' ≠ old → parseFru v k ((encodeFru img).set i b') ≠ .ok fv
   The byte defines the extent of the very checksum that covers it: an 8-bit checksum cannot tell an
   altered length from the genuine length of a shorter or longer area whose bytes happen to sum to
   zero.  What a reader CAN do – and the repaired one does – is to verify a span that contains the
   altered byte: -/

/-- The length byte (position `i`, area offset `i - 1`) of an info area of an encoded image set to
ANY value `b'`: a reader that validates the length byte accepts the result only if `b' ≥ 1`, the
`8·b'` bytes from the area offset lie inside the image, and this span – which contains position
`i` – sums to zero.  (`…_partial`: rejection of EVERY altered length byte is not provable, see
`length_byte_limit`.) -/
theorem alteration_rejected_length_byte_partial (img : FruImage) (i old b' : Nat)
    (hold : (encodeFru img)[i]? = some old) (hlb : isAreaLengthByte img i = true)
    (v : Variant) (hv : v.areaLenLax = false) (k : InputKind) (fv : FruView)
    (hp : parseFru v k ((encodeFru img).set i b') = .ok fv) :
    1 ≤ b' ∧ (i - 1) + 8 * b' ≤ (encodeFru img).length ∧
    sum8 ((((encodeFru img).set i b').drop (i - 1)).take (8 * b')) = 0 :=
  alter_length_byte img i old b' hold hlb v hv k fv hp

/-- An info-area length byte altered to 0 is rejected (finding: as shipped it is accepted for EVERY
image, `asShipped_length_zero_counterexample`). -/
theorem alteration_length_zero_rejected (img : FruImage) (i old : Nat)
    (hold : (encodeFru img)[i]? = some old) (hlb : isAreaLengthByte img i = true)
    (v : Variant) (hv : v.areaLenLax = false) (k : InputKind) (fv : FruView) :
    parseFru v k ((encodeFru img).set i 0) ≠ .ok fv := by
  intro hp
  have := (alteration_rejected_length_byte_partial img i old 0 hold hlb v hv k fv hp).1
  omega

/-- An info-area length byte altered to a length that reaches behind the end of the image is
rejected (as shipped the checksum is summed over the truncated remainder). -/
theorem alteration_length_beyond_rejected (img : FruImage) (i old b' : Nat)
    (hold : (encodeFru img)[i]? = some old) (hlb : isAreaLengthByte img i = true)
    (hbeyond : (encodeFru img).length < (i - 1) + 8 * b')
    (v : Variant) (hv : v.areaLenLax = false) (k : InputKind) (fv : FruView) :
    parseFru v k ((encodeFru img).set i b') ≠ .ok fv := by
  intro hp
  have := (alteration_rejected_length_byte_partial img i old b' hold hlb v hv k fv hp).2.1
  omega

/-- The info-area length byte at FULL strength, for the repaired reader (length byte validated, fields
confined, layout checked) given exactly the image – as bytes, array or file.  Position `i` set to ANY
value `b'`: the result is accepted only if
  * `b' ≤ old` – a LENGTHENED length is never accepted (the longer span would run over the start of the area
    that follows, or behind the end of the image);
  * `lengthByteNeed img i ≤ 8·b'` – the new length still holds everything the area needs: version, length,
    fixed bytes, every predefined and custom field, the C1h marker and the checksum position; a SHORTENED
    length is rejected as soon as one of them would lie outside (only whole units of unused space can go);
  * `b' ≥ 1`, and the `8·b'` bytes from the area offset sum to zero;
and then the altered image satisfies every check of the format (`imageOk`).  What remains is
`length_byte_limit`. -/
theorem alteration_rejected_length_byte (img : FruImage) (hwf : WellFormed img) (i old b' : Nat)
    (hold : (encodeFru img)[i]? = some old) (hlb : isAreaLengthByte img i = true)
    (v : Variant) (hv1 : v.areaLenLax = false) (hv2 : v.fieldsLax = false) (hv3 : v.overlapLax = false)
    (k : InputKind) (fv : FruView)
    (hp : parseFru v k ((encodeFru img).set i b') = .ok fv) :
    1 ≤ b' ∧ b' ≤ old ∧ lengthByteNeed img i ≤ 8 * b' ∧
    sum8 ((((encodeFru img).set i b').drop (i - 1)).take (8 * b')) = 0 ∧
    imageOk ((encodeFru img).set i b') = true := by
  obtain ⟨hs, hf, hl⟩ := accept_implies_wellformed v hv1 hv2 hv3 k _ fv hp
  obtain ⟨h1, _, h3⟩ := alter_length_byte img i old b' hold hlb v hv1 k fv hp
  refine ⟨h1, alter_length_not_longer img hwf i old b' hold hlb hs hl, ?_, h3, ?_⟩
  · have := alter_length_need img hwf i b' hlb [] (by simpa using hf)
    exact this
  · simp [imageOk, hs, hf, hl]

/-- A shortened length that cuts into what the area holds – a field, the C1h marker or the position of
the checksum would lie outside the new length – is rejected. -/
theorem alteration_length_shortened_rejected (img : FruImage) (hwf : WellFormed img) (i old b' : Nat)
    (hold : (encodeFru img)[i]? = some old) (hlb : isAreaLengthByte img i = true)
    (hcut : 8 * b' < lengthByteNeed img i)
    (v : Variant) (hv1 : v.areaLenLax = false) (hv2 : v.fieldsLax = false) (hv3 : v.overlapLax = false)
    (k : InputKind) (fv : FruView) :
    parseFru v k ((encodeFru img).set i b') ≠ .ok fv := by
  intro hp
  have := (alteration_rejected_length_byte img hwf i old b' hold hlb v hv1 hv2 hv3 k fv hp).2.2.1
  omega

/-- A lengthened length is rejected. -/
theorem alteration_length_lengthened_rejected (img : FruImage) (hwf : WellFormed img) (i old b' : Nat)
    (hold : (encodeFru img)[i]? = some old) (hlb : isAreaLengthByte img i = true) (hlong : old < b')
    (v : Variant) (hv1 : v.areaLenLax = false) (hv2 : v.fieldsLax = false) (hv3 : v.overlapLax = false)
    (k : InputKind) (fv : FruView) :
    parseFru v k ((encodeFru img).set i b') ≠ .ok fv := by
  intro hp
  have := (alteration_rejected_length_byte img hwf i old b' hold hlb v hv1 hv2 hv3 k fv hp).2.1
  omega

/-- An info area that has no whole unit of 8 unused bytes (every encoder that pads minimally produces
such areas): EVERY alteration of its length byte is rejected – together with `alteration_rejected` the
property's sentence holds literally for such images. -/
theorem alteration_rejected_no_spare_unit (img : FruImage) (hwf : WellFormed img) (i old b' : Nat)
    (hold : (encodeFru img)[i]? = some old) (hlb : isAreaLengthByte img i = true) (hne : b' ≠ old)
    (hmin : 8 * old < lengthByteNeed img i + 8)
    (v : Variant) (hv1 : v.areaLenLax = false) (hv2 : v.fieldsLax = false) (hv3 : v.overlapLax = false)
    (k : InputKind) (fv : FruView) :
    parseFru v k ((encodeFru img).set i b') ≠ .ok fv := by
  intro hp
  obtain ⟨_, h2, h3, _⟩ := alteration_rejected_length_byte img hwf i old b' hold hlb v hv1 hv2 hv3 k fv hp
  omega

/-- Device path: the image followed by ANY storage contents, its info-area length byte set to `b'`.
`Ipmi.get_fru_inventory()` of the repaired reader accepts only if the new length holds everything the
area needs and no other area the header announces starts inside the new span `[i-1, i-1+8·b')` – a
lengthened span reaches only into bytes that belong to no area. -/
theorem device_alteration_length_byte (img : FruImage) (hwf : WellFormed img) (i b' : Nat)
    (hlb : isAreaLengthByte img i = true) (tail : List Nat)
    (v : Variant) (hv1 : v.devLenLax = false) (hv2 : v.fieldsLax = false) (hv3 : v.devOverlapLax = false)
    (fv : FruView) (hp : parseFruDevice v ((encodeFru img).set i b' ++ tail) = .ok fv) :
    lengthByteNeed img i ≤ 8 * b' ∧
    ∀ j ∈ [1, 2, 3, 4, 5], 8 * img.header.getD j 0 = i - 1 ∨ 8 * img.header.getD j 0 = 0 ∨
      8 * img.header.getD j 0 < i - 1 ∨ i - 1 + 8 * b' ≤ 8 * img.header.getD j 0 :=
  ⟨alter_length_need img hwf i b' hlb tail (device_accept_fields v hv1 hv2 hv3 _ fv hp),
   alter_length_free img hwf i b' hlb tail (device_accept_spans_free v hv1 hv2 hv3 _ fv hp)⟩

/-- The same for ANY byte string (not only encoded images): header byte `k` announces an area
inside the data – acceptance implies length ≥ 1, span inside the data, zero sum over the span. -/
theorem accept_implies_area_span (v : Variant) (hv : v.areaLenLax = false) (kd : InputKind) (bs : List Nat)
    (fv : FruView) (k : Nat) (hk : k = 2 ∨ k = 3 ∨ k = 4)
    (hoff : bs.getD k 0 ≠ 0) (hin : 8 * bs.getD k 0 < bs.length) (hp : parseFru v kd bs = .ok fv) :
    1 ≤ bs.getD (8 * bs.getD k 0 + 1) 0 ∧
    8 * bs.getD k 0 + 8 * bs.getD (8 * bs.getD k 0 + 1) 0 ≤ bs.length ∧
    sum8 ((bs.drop (8 * bs.getD k 0)).take (8 * bs.getD (8 * bs.getD k 0 + 1) 0)) = 0 :=
  accept_area_span v hv kd bs fv k hk hoff hin hp

/-- chassis area of 8 bytes (length byte 01h at position 9) followed by a DC output record with
the data byte 05h -/
def witnessLen : FruImage :=
  ⟨none, some ⟨23, .text8 [], .text8 [], [], 0⟩, none, none, [.generic 1 [5]]⟩

/-- Without the length validation (fixes/C15-2.diff not applied) an altered covered byte is
accepted: the chassis length byte of `witnessLen` set from 1 to 0 – the checksum is "verified" over
zero bytes (this works for every image). -/
theorem asShipped_length_zero_counterexample (v : Variant) (hv : v.areaLenLax = true) :
    WellFormed witnessLen ∧ covered witnessLen 9 = true ∧ (encodeFru witnessLen)[9]? = some 1 ∧
    (parseFru v .bytes ((encodeFru witnessLen).set 9 0)).isOk = true ∧
    checksumsOk ((encodeFru witnessLen).set 9 0) = false := by
  obtain ⟨a, b, c, d, e, f, g, h'⟩ := v
  simp only at hv
  subst hv
  revert a b d e f g h'
  decide +kernel

/-- … and a length that reaches behind the end of the image (FCh = 2016 bytes) is accepted when
the truncated remainder happens to sum to zero (one value of the byte does that for almost every
image).  (`overlapLax`: such a span necessarily runs over the areas that follow – a lone area's remainder sums
to zero only for the genuine length – so the layout check of fixes/C15-5.diff alone rejects this witness too.) -/
theorem asShipped_length_beyond_counterexample (v : Variant) (hv : v.areaLenLax = true)
    (hv' : v.overlapLax = true) :
    (encodeFru witnessLen).length = 22 ∧
    (parseFru v .bytes ((encodeFru witnessLen).set 9 0xFC)).isOk = true ∧
    checksumsOk ((encodeFru witnessLen).set 9 0xFC) = false := by
  obtain ⟨a, b, c, d, e, f, g, h'⟩ := v
  simp only at hv hv'
  subst hv hv'
  revert a b d e f h'
  decide +kernel

/-- Device path without the validation in `_read_fru_area`: the altered image (followed by FFh up
to the device size) is accepted and the chassis area comes back as an object without attributes
(`Slot.empty`) – not even its format version was looked at. -/
theorem asShipped_device_length_zero_counterexample (v : Variant) (hv : v.devLenLax = true) :
    parseFruDevice v ((encodeFru witnessLen).set 9 0 ++ List.replicate 10 0xFF) =
      .ok ⟨none, .empty, .absent, .absent, .parsed [.unknown 1 2 true 1 [5]]⟩ := by
  obtain ⟨a, b, c, d, e, f, g, h'⟩ := v
  simp only at hv
  subst hv
  revert a b c e f g h'
  decide +kernel

/-- `limitImage`: chassis area with 8 bytes of unused space (16 bytes); `limitImage'`: the same
content without the unused space (8 bytes). -/
def limitImage : FruImage :=
  ⟨none, some ⟨0xBD, .text8 [], .text8 [], [], 1⟩, none, none, []⟩
def limitImage' : FruImage :=
  ⟨none, some ⟨0xBD, .text8 [], .text8 [], [], 0⟩, none, none, []⟩

/-- The residual NO reader of this format can remove, in both directions.
(1) SHORTENED: the chassis length byte of `limitImage` altered from 2 to 1 yields exactly the encoding of
the well-formed image `limitImage'` followed by 8 unused bytes – only unused space was cut off.
(2) LENGTHENED into bytes of no area: `limitImage'` stored in front of the unused bytes `00 00 00 00 00 00
00 FF` (the rest of a device or file), its chassis length byte altered from 1 to 2, yields exactly the
encoding of the well-formed image `limitImage`.
Either way every check the format allows holds (`imageOk`), and a reader that accepts well-formed images
has to accept the altered bytes (the model does, reporting the other image).  An 8-bit checksum cannot
protect the byte that defines its own extent. -/
theorem length_byte_limit :
    WellFormed limitImage ∧ WellFormed limitImage' ∧
    isAreaLengthByte limitImage 9 = true ∧ (encodeFru limitImage)[9]? = some 2 ∧
    isAreaLengthByte limitImage' 9 = true ∧ (encodeFru limitImage')[9]? = some 1 ∧
    -- (1) shortened
    (encodeFru limitImage).set 9 1 = encodeFru limitImage' ++ [0, 0, 0, 0, 0, 0, 0, 0xFF] ∧
    lengthByteNeed limitImage 9 ≤ 8 * 1 ∧
    imageOk ((encodeFru limitImage).set 9 1) = true ∧
    parseFru .intended .bytes ((encodeFru limitImage).set 9 1) = .ok (view limitImage') ∧
    parseFruDevice .intended ((encodeFru limitImage).set 9 1) = .ok { view limitImage' with header := none } ∧
    -- (2) lengthened into bytes that belong to no area
    (encodeFru limitImage' ++ [0, 0, 0, 0, 0, 0, 0, 0xFF]).set 9 2 = encodeFru limitImage ∧
    imageOk ((encodeFru limitImage' ++ [0, 0, 0, 0, 0, 0, 0, 0xFF]).set 9 2) = true ∧
    parseFru .intended .bytes ((encodeFru limitImage' ++ [0, 0, 0, 0, 0, 0, 0, 0xFF]).set 9 2) = .ok (view limitImage) ∧
    parseFruDevice .intended ((encodeFru limitImage' ++ [0, 0, 0, 0, 0, 0, 0, 0xFF]).set 9 2) =
      .ok { view limitImage with header := none } := by
  decide +kernel

/-! ### the encoder produces bytes; 6-bit text -/

theorem encodeFru_is_bytes (img : FruImage) (h : WellFormed img) : Bytes (encodeFru img) :=
  encodeFru_bytes img h

/-- 6-bit text is reported character for character, except that three characters in the last
group are followed by the space the six unused bits spell (a limit of the packed format). -/
theorem ascii6_text_exact (cs : List Nat) :
    (viewField (.ascii6 cs)).str =
      cs.map (0x20 + ·) ++ (if cs.length % 4 = 3 then [0x20] else []) := by
  simp only [viewField, Field.text]
  split <;> simp

/-! ### generated tables = storage definition -/

theorem tables_match_storage_definition :
    FruTables.bcdMap = (List.range 13).map bcdChar ∧
    FruTables.customFieldEnd = endOfFields ∧
    FruTables.picmgRecordType = picmgRecordType ∧
    FruTables.powerModuleId = powerModuleId ∧
    FruTables.headerLen = 8 ∧ FruTables.minRecord = 5 ∧
    FruTables.typeBcd = 1 ∧ FruTables.typeSix = 2 ∧
    -- constants of the repaired record dispatch: the source HAS the guards (`none` = type-only dispatch
    -- would make an `Option.all` statement vacuous) and they carry the storage definition's values
    FruTables.picmgMfgId = some picmgMfgId ∧
    FruTables.dispatchMinData = some 10 ∧ FruTables.dispatchMinLen = some 5 ∧
    FruTables.picmgMinLen = some 5 ∧ FruTables.powerMinLen = some 7 ∧
    -- the guard of the repaired FruTypeLengthString.__init__ is present and masks the length bits 5:0
    FruTables.fieldLenMask = some 0x3F := by
  decide

/-! ### today's source IS the intended variant

`parse_encode*`, `accept_implies_checksums`' strongest form and `alteration_rejected*` are stated for
`Variant.intended`; the counter-example theorems for the frozen `Variant.asShipped`.  The translator
(harness/translate/fru.py) reads from the AST of TODAY's fields.py / fru.py which of the two known forms each of
the eight repaired places has (it fails closed on any third form) and the harness additionally probes each of
them on the running code.  `source_is_intended_variant` equates what was read with `Variant.intended`: a
regression of any of the eight stops the build (and the run then produces the failing image through the
probe-driven as-shipped streams: BCD+ in an array, a partial 6-bit group, area length 0 / beyond, a foreign C0h
record, a steered shortened / lengthened area length). -/

/-- the variant of the parser model that mirrors today's source, as read from its AST -/
def sourceVariant : Variant :=
  ⟨FruTables.bcdBytesOnly, FruTables.sixStrict, FruTables.areaLenLax, FruTables.devLenLax, FruTables.picmgTypeOnly,
   FruTables.fieldsLax, FruTables.overlapLax, FruTables.devOverlapLax⟩

theorem source_is_intended_variant : sourceVariant = Variant.intended := by decide

/-- … hence the headline statements hold for the model of TODAY's source, no variant left to choose. -/
theorem parse_encode_today (img : FruImage) (k : InputKind) (h : WellFormed img) :
    parseFru sourceVariant k (encodeFru img) = .ok (view img) := by
  rw [source_is_intended_variant]; exact parse_encode img k h

theorem parse_encode_device_today (img : FruImage) (tail : List Nat) (h : WellFormed img) :
    parseFruDevice sourceVariant (encodeFru img ++ tail) = .ok { view img with header := none } := by
  rw [source_is_intended_variant]; exact parse_encode_device img tail h

/-! ### non-vacuity: a non-trivial image satisfies every hypothesis -/

def demo : FruImage :=
  { internal := some [0xAA, 0xBB]
    chassis := some ⟨23, .text8 [0x41, 0x42], .ascii6 [33, 34, 35], [.binary [1, 2, 3], .bcdPlus [1, 10, 11, 12]], 1⟩
    board := some ⟨25, 1234567, .text8 [0x4B, 0x6F], .ascii6 [36, 37, 44, 44], .bcdPlus [0, 9], .binary [],
                   .text8 [], [.ascii6 [1]], 0⟩
    product := some ⟨0, .text8 [0x4B, 0x6F], .text8 [], .binary [0xFF], .bcdPlus [], .ascii6 [1, 2], .text8 [],
                     .text8 [0x31, 0x32, 0x33], [], 0⟩
    records := [.generic 1 [1, 2, 3], .picmg 0x16 0 [9, 9], .generic 0xC0 [0x57, 0x01, 0x00, 0x27, 0x00, 0x10, 0x20],
                .generic 0xC0 [0x5A, 0x31, 0x00, 0x27], .power 0 420 []] }

example : WellFormed demo := by decide
example : (encodeFru demo).length = 149 := by decide +kernel
example : parseFru .intended .array (encodeFru demo) = .ok (view demo) := by decide +kernel
example : parseFruDevice .intended (encodeFru demo ++ [0xFF, 0xFF, 0xFF]) = .ok { view demo with header := none } := by
  decide +kernel
example : demo.okFor .afterC15_1 .array = false := by decide
-- byte 17 is the chassis length byte: 0 and a length behind the end are rejected by the repaired parser
example : isAreaLengthByte demo 17 = true ∧
    parseFru .intended .bytes ((encodeFru demo).set 17 0) = .decodingError ∧
    parseFru .intended .bytes ((encodeFru demo).set 17 0xFF) = .decodingError ∧
    parseFruDevice .intended ((encodeFru demo).set 17 0) = .decodingError := by decide +kernel
example : checksumsOk (encodeFru demo) = true := by decide +kernel
example : imageOk (encodeFru demo) = true := by decide +kernel
-- the hypotheses of `alteration_rejected_length_byte` / `_no_spare_unit` are satisfiable: byte 17 is the chassis
-- length byte (4 units, one of them unused: the area needs 19 bytes), byte 49 the board's (3 units, none unused:
-- it needs 21 bytes), byte 73 the product's
example : isAreaLengthByte demo 17 = true ∧ (encodeFru demo)[17]? = some 4 ∧ lengthByteNeed demo 17 = 19 ∧
    isAreaLengthByte demo 49 = true ∧ (encodeFru demo)[49]? = some 3 ∧ lengthByteNeed demo 49 = 21 ∧
    isAreaLengthByte demo 73 = true ∧ (encodeFru demo)[73]? = some 3 ∧ lengthByteNeed demo 73 = 20 := by
  decide +kernel
-- the chassis length byte shortened to 3 units keeps everything the area holds (19 ≤ 24) but the span does not sum
-- to zero; shortened to 2 units it cuts into the fields: both rejected, as is every lengthening
example : parseFru .intended .bytes ((encodeFru demo).set 17 3) = .decodingError ∧
    parseFru .intended .bytes ((encodeFru demo).set 17 2) = .decodingError ∧
    parseFru .intended .bytes ((encodeFru demo).set 17 5) = .decodingError := by decide +kernel
-- the repaired reader rejects both audit witnesses on both paths with DecodingError
example : parseFru .intended .array ((encodeFru witnessFields).set 9 1) = .decodingError ∧
    parseFruDevice .intended ((encodeFru witnessFields).set 9 1 ++ List.replicate 8 0xFF) = .decodingError ∧
    parseFru .intended .bytes ((encodeFru witnessOverlap).set 9 3) = .decodingError ∧
    parseFruDevice .intended ((encodeFru witnessOverlap).set 9 3 ++ List.replicate 16 0xFF) = .decodingError := by
  decide +kernel
example : demo.okFor .asShipped .array = false := by decide
-- byte 20 lies in the chassis area (offset 16), is not its length byte, and altering it is fatal
example : covered demo 20 = true ∧ isAreaLengthByte demo 20 = false ∧
    checksumsOk ((encodeFru demo).set 20 0x55) = false := by decide +kernel
example : (witnessBcd.okFor .asShipped .bytes) = true := by decide
example : dateOfMinutes 0 = (1996, 1, 1, 0, 0) ∧ dateOfMinutes 16777215 = (2027, 11, 24, 20, 15) := by decide

end PyIpmi.Props.C15
