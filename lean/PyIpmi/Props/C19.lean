/-
  C19 — ipmitool back-end passes requests/credentials verbatim, reads replies faithfully.

  Notation: strings are lists of Unicode code points.  `Sh.words` (Spec/Sh.lean) is what a POSIX
  shell makes of one command line: `ok argv redirs`, or `expands` / `syntaxError` / `unsupported`.
  `Spec.Ipmitool.*Argv` (Spec/IpmitoolPrint.lean) is the argument vector ipmitool(1) must receive;
  `printRaw`, `ccLine`, `timeoutLine` are what `ipmitool raw` prints.  `build*` / `recv`
  (Model/Ipmitool.lean) mirror the Python; `intended` is the source with fixes/C19-1..3 and C19-5 applied,
  `asShipped` the pinned tree.  Which one the tree under test follows is probed on every run.

  Command side (every theorem: for ALL strings / numbers / byte lists / targets)
  * `credentials_verbatim`        — every user name u and password p without NUL reach the program as
                                    the single arguments u and p behind -U / -P, whatever they contain
  * `credentials_single_arguments`— … stated on the specification's vector: `… -U u -P p …`
  * `options_placed_lan`          — interface, host, port, level, cipher, -t -b -T -B, -l, netfn, raw
                                    bytes, `2>&1`: the shell hands ipmitool exactly `lanArgv`
  * `options_placed_open`, `options_placed_serial`, `options_placed_ping` — the other builders; the ping
                                    carries level and cipher too (`-L` left out only for ipmitool's default,
                                    `ping_effective_level_cipher`: same effective level / suite either way)
  * `as_shipped_ping_drops_level_and_cipher`, `options_placed_ping_false_as_shipped`,
    `ping_lanplus_user_17_intended` — the pinned `rmcp_ping` passes neither `-L` nor `-C`
  * `escape_inert`                — the repair changes nothing for strings without `\ " $` and
                                    back-quote (so the strings pinned by the suite stay as they are)
  * `as_shipped_*`                — counter-examples on the pinned tree: a backslash pair is
                                    rewritten, `$` / back-quote expand, `"` breaks the line, a
                                    password adds options; depth-1 routing raises; cipher 0 is dropped
  * `credentials_verbatim_false_as_shipped` — so the property is false of the pinned builder

  Reply side
  * `parse_print`                 — bytes printed by `ipmitool raw` (16 per line) come back unchanged
                                    behind completion code 00, for every length
  * `parse_print_any_wrapping`    — … for every wrapping into non-empty lines
  * `printRaw_is_a_wrapping`      — ipmitool's format is such a wrapping of the same bytes
  * `rsp_line_gives_cc`, `timeout_line_raises`, `connection_line_raises`,
    `long_password_line_raises`, `device_line_raises`, `nonzero_status_raises` — error mapping
-/
import PyIpmi.Lemmas.ShBuild
import PyIpmi.Lemmas.ShParse
import PyIpmi.Lemmas.ShErr
namespace PyIpmi.Props.C19
open PyIpmi PyIpmi.Model.Ipmitool
open PyIpmi.Spec.Sh (NoNul PlainWord words reserved Result)

/-! ## command side -/

/-- **Credentials verbatim.**  For every user name `u` and password `p` (no NUL), every
configuration of ordinary words and every addressable target: the intended builder produces a
command line, and a POSIX shell splits it into exactly the specified argument vector — which
carries `u` and `p` as single arguments (`credentials_single_arguments`) — with stderr joined to
stdout. -/
theorem credentials_verbatim (c : Lan) (u p : Str) (t : Target) (lun netfn : Nat) (raw : List Nat)
    (sc : Spec.Ipmitool.Lan) (argv : List Str)
    (hu : NoNul u) (hp : NoNul p) (hauth : c.auth = .password u p)
    (hsc : c.toSpec = some sc)
    (hargv : Spec.Ipmitool.lanArgv sc t.toSpec lun netfn raw = some argv)
    (hpath : PlainWord c.path) (hres : reserved.contains c.path = false)
    (hiface : PlainWord c.iface) (hhost : PlainWord c.host) (hport : PlainWord c.port)
    (hcipher : ∀ tr x, c.cipher = .val tr x → PlainWord x) :
    ∃ cmd, buildLan intended c t lun netfn raw = .ok cmd ∧ words cmd = .ok argv [(2, 1)]
      ∧ ∃ pre suf, argv = pre ++ [[45, 85], u, [45, 80], p] ++ suf := by
  obtain ⟨cmd, h1, h2⟩ := lan_words c t lun netfn raw sc argv hsc hargv hpath hres hiface hhost hport
    hcipher (by
      intro u' p' e
      rw [hauth] at e
      injection e with e1 e2
      subst e1; subst e2
      exact ⟨hu, hp⟩)
  refine ⟨cmd, h1, h2, ?_⟩
  simp only [Lan.toSpec, hauth, Auth.toSpec, Option.map_some, Option.some.injEq] at hsc
  subst hsc
  simp only [Spec.Ipmitool.lanArgv, Option.bind_eq_bind, Option.bind_eq_some_iff, Option.pure_def,
    Option.some.injEq] at hargv
  obtain ⟨lv, _, tg, _, rfl⟩ := hargv
  exact ⟨[c.path] ++ Spec.Ipmitool.opt 73 c.iface ++ Spec.Ipmitool.opt 72 c.host
      ++ Spec.Ipmitool.opt 112 c.port ++ Spec.Ipmitool.opt 76 lv
      ++ Spec.Ipmitool.cipherArgv c.cipher.toSpec,
    tg ++ Spec.Ipmitool.rawArgv lun netfn raw, by
    simp [Spec.Ipmitool.credArgv, Spec.Ipmitool.opt]⟩

/-- the specified vector has the credentials as two single arguments behind `-U` and `-P` -/
theorem credentials_single_arguments (sc : Spec.Ipmitool.Lan) (u p : Str) (t : Spec.Ipmitool.Target)
    (lun netfn : Nat) (raw : List Nat) (argv : List Str) (hc : sc.cred = some (u, p))
    (h : Spec.Ipmitool.lanArgv sc t lun netfn raw = some argv) :
    ∃ pre suf, argv = pre ++ [[45, 85], u, [45, 80], p] ++ suf ∧ pre.length ≥ 9 := by
  simp only [Spec.Ipmitool.lanArgv, Option.bind_eq_bind, Option.bind_eq_some_iff, Option.pure_def,
    Option.some.injEq] at h
  obtain ⟨lv, _, tg, _, rfl⟩ := h
  refine ⟨[sc.path] ++ Spec.Ipmitool.opt 73 sc.iface ++ Spec.Ipmitool.opt 72 sc.host
      ++ Spec.Ipmitool.opt 112 sc.port ++ Spec.Ipmitool.opt 76 lv
      ++ Spec.Ipmitool.cipherArgv sc.cipher,
    tg ++ Spec.Ipmitool.rawArgv lun netfn raw, by
    simp [hc, Spec.Ipmitool.credArgv, Spec.Ipmitool.opt], ?_⟩
  simp [Spec.Ipmitool.opt]

/-- **Options placed** (lan / lanplus), with or without credentials. -/
theorem options_placed_lan (c : Lan) (t : Target) (lun netfn : Nat) (raw : List Nat)
    (sc : Spec.Ipmitool.Lan) (argv : List Str)
    (hsc : c.toSpec = some sc)
    (hargv : Spec.Ipmitool.lanArgv sc t.toSpec lun netfn raw = some argv)
    (hpath : PlainWord c.path) (hres : reserved.contains c.path = false)
    (hiface : PlainWord c.iface) (hhost : PlainWord c.host) (hport : PlainWord c.port)
    (hcipher : ∀ tr x, c.cipher = .val tr x → PlainWord x)
    (hcred : ∀ u p, c.auth = .password u p → NoNul u ∧ NoNul p) :
    ∃ cmd, buildLan intended c t lun netfn raw = .ok cmd ∧ words cmd = .ok argv [(2, 1)] :=
  lan_words c t lun netfn raw sc argv hsc hargv hpath hres hiface hhost hport hcipher hcred

theorem options_placed_open (path iface : Str) (t : Target) (lun netfn : Nat) (raw : List Nat)
    (argv : List Str)
    (hargv : Spec.Ipmitool.openArgv path iface t.toSpec lun netfn raw = some argv)
    (hpath : PlainWord path) (hres : reserved.contains path = false) (hiface : PlainWord iface) :
    ∃ cmd, buildOpen intended path iface t lun netfn raw = .ok cmd ∧ words cmd = .ok argv [(2, 1)] :=
  open_words path iface t lun netfn raw argv hargv hpath hres hiface

/-- serial terminal: the vector is right, but nothing joins stderr to stdout (`redirs = []`) —
see the finding `C19:serial-terminal:stderr-not-captured` -/
theorem options_placed_serial (path iface port baud : Str) (t : Target) (lun netfn : Nat)
    (raw : List Nat) (argv : List Str)
    (hargv : Spec.Ipmitool.serialArgv path iface port baud t.toSpec lun netfn raw = some argv)
    (hpath : PlainWord path) (hres : reserved.contains path = false) (hiface : PlainWord iface)
    (hport : PlainWord port) (hbaud : PlainWord baud) :
    ∃ cmd, buildSerial intended path iface port baud t lun netfn raw = .ok cmd
      ∧ words cmd = .ok argv [] :=
  serial_words path iface port baud t lun netfn raw argv hargv hpath hres hiface hport hbaud

/-- the shell's verdict on the command `rmcp_ping` built -/
def shOfPing (o : Outcome Str) : Option Result :=
  match o with
  | .ok s => some (words s)
  | _ => none

/-- **Options placed** (presence ping, `rmcp_ping`): interface, host, port, PRIVILEGE LEVEL, CIPHER and
the credentials reach ipmitool; `-L` is left out exactly when the configured level is ipmitool's own
default (`ping_effective_level_cipher`: the started program runs at the configured level with the
configured suite either way). -/
theorem options_placed_ping (path iface host port : Str) (level : Nat) (c : Cipher) (a : Auth)
    (cr : Option (Str × Str)) (argv : List Str)
    (hcr : a.toSpec = some cr) (hser : iface ≠ Gen.Ipmitool.pingRefused)
    (hargv : Spec.Ipmitool.pingArgv (decide (level ≠ 4)) path iface host port level c.toSpec cr = some argv)
    (hpath : PlainWord path) (hres : reserved.contains path = false) (hiface : PlainWord iface)
    (hhost : PlainWord host) (hport : PlainWord port)
    (hcipher : ∀ tr x, c = .val tr x → PlainWord x)
    (hcred : ∀ u p, a = .password u p → NoNul u ∧ NoNul p) :
    ∃ cmd, buildPing intended path iface host port level c a = .ok cmd ∧ words cmd = .ok argv [] :=
  ping_words path iface host port level c a cr argv hcr hser hargv hpath hres hiface hhost hport hcipher hcred

/-- Both admitted forms of the ping's vector make ipmitool run at the configured privilege level with
the configured cipher suite (`none` = ipmitool's built-in suite), whatever the strings are — also a
user name or password that looks like an option. -/
theorem ping_effective_level_cipher (spelled : Bool) (path iface host port : Str) (level : Nat)
    (cipher : Option Str) (cr : Option (Str × Str)) (argv : List Str) (lv : Str)
    (hlv : Spec.Ipmitool.levelName level = some lv)
    (h : Spec.Ipmitool.pingArgv spelled path iface host port level cipher cr = some argv) :
    Spec.Ipmitool.effLevel argv = some lv ∧ Spec.Ipmitool.effCipher argv = cipher := by
  simp only [Spec.Ipmitool.pingArgv, hlv, Option.bind_eq_bind, Option.bind_some, Option.pure_def,
    Option.some.injEq] at h
  subst h
  rcases cr with _ | ⟨u, p⟩ <;> rcases cipher with _ | x <;> cases spelled <;>
    by_cases hd : lv = Spec.Ipmitool.defaultLevel <;>
    simp [Spec.Ipmitool.effLevel, Spec.Ipmitool.effCipher, Spec.Ipmitool.effOpt, Spec.Ipmitool.optScan,
      Spec.Ipmitool.opt, Spec.Ipmitool.levelArgvD, Spec.Ipmitool.cipherArgv, Spec.Ipmitool.pingCredArgv, hd]

/-- ipmitool -I lanplus -H 10.0.1.1 -p 623, user `u`, password `p`: the ping of a session limited to
USER with cipher suite 17 -/
def pingArgv0 (u p : Str) : List Str :=
  [[105, 112, 109, 105, 116, 111, 111, 108], [45, 73], [108, 97, 110, 112, 108, 117, 115], [45, 72],
   [49, 48, 46, 48, 46, 49, 46, 49], [45, 112], [54, 50, 51], [45, 76], [85, 83, 69, 82], [45, 67], [49, 55],
   [45, 85], u, [45, 80], p, [115, 101, 115, 115, 105, 111, 110], [105, 110, 102, 111], [97, 108, 108]]

/-- non-vacuity: level USER, cipher 17 — the specification demands `-L USER -C 17` -/
example : Spec.Ipmitool.pingArgv (decide (2 ≠ 4)) [105, 112, 109, 105, 116, 111, 111, 108]
    [108, 97, 110, 112, 108, 117, 115] [49, 48, 46, 48, 46, 49, 46, 49] [54, 50, 51] 2 (some [49, 55])
    (some ([97], [98])) = some (pingArgv0 [97] [98]) := by decide +kernel

/-- … and the suite's default configuration (ADMINISTRATOR, no cipher) keeps the pinned vector -/
example : Spec.Ipmitool.pingArgv (decide (4 ≠ 4)) [105, 112, 109, 105, 116, 111, 111, 108] [108, 97, 110]
    [49, 48, 46, 48, 46, 49, 46, 49] [54, 50, 51] 4 none (some ([97], [98]))
    = some [[105, 112, 109, 105, 116, 111, 111, 108], [45, 73], [108, 97, 110], [45, 72],
        [49, 48, 46, 48, 46, 49, 46, 49], [45, 112], [54, 50, 51], [45, 85], [97], [45, 80], [98],
        [115, 101, 115, 115, 105, 111, 110], [105, 110, 102, 111], [97, 108, 108]] := by decide +kernel

/-- the intended `rmcp_ping` on that configuration: the program receives `pingArgv0` -/
theorem ping_lanplus_user_17_intended :
    shOfPing (buildPing intended [105, 112, 109, 105, 116, 111, 111, 108] [108, 97, 110, 112, 108, 117, 115]
      [49, 48, 46, 48, 46, 49, 46, 49] [54, 50, 51] 2 (.val true [49, 55]) (.password [97] [98]))
      = some (.ok (pingArgv0 [97] [98]) []) := by decide +kernel

/-- **pinned tree: `rmcp_ping` drops the privilege level and the cipher.**  Configured USER / suite 17,
the started ipmitool has neither `-L` nor `-C`: it asks for an ADMINISTRATOR session with its built-in
suite (finding `C19:ping:argv:-L:missing`, `C19:ping:argv:-C:missing`). -/
theorem as_shipped_ping_drops_level_and_cipher :
    ∃ argv, shOfPing (buildPing asShipped [105, 112, 109, 105, 116, 111, 111, 108]
        [108, 97, 110, 112, 108, 117, 115] [49, 48, 46, 48, 46, 49, 46, 49] [54, 50, 51] 2
        (.val true [49, 55]) (.password [97] [98])) = some (.ok argv [])
      ∧ argv ≠ pingArgv0 [97] [98]
      ∧ Spec.Ipmitool.effLevel argv = some Spec.Ipmitool.defaultLevel
      ∧ Spec.Ipmitool.effLevel (pingArgv0 [97] [98]) = some [85, 83, 69, 82]
      ∧ Spec.Ipmitool.effCipher argv = none
      ∧ Spec.Ipmitool.effCipher (pingArgv0 [97] [98]) = some [49, 55] :=
  ⟨[[105, 112, 109, 105, 116, 111, 111, 108], [45, 73], [108, 97, 110, 112, 108, 117, 115], [45, 72],
    [49, 48, 46, 48, 46, 49, 46, 49], [45, 112], [54, 50, 51], [45, 85], [97], [45, 80], [98],
    [115, 101, 115, 115, 105, 111, 110], [105, 110, 102, 111], [97, 108, 108]],
   by decide +kernel, by decide +kernel, by decide +kernel, by decide +kernel, by decide +kernel,
   by decide +kernel⟩

/-- so "privilege level and cipher appear as the corresponding options" is false of the pinned ping -/
theorem options_placed_ping_false_as_shipped :
    ¬ (∀ (level : Nat) (c : Cipher) (argv : List Str),
        Spec.Ipmitool.pingArgv (decide (level ≠ 4)) [105, 112, 109, 105, 116, 111, 111, 108]
          [108, 97, 110, 112, 108, 117, 115] [49, 48, 46, 48, 46, 49, 46, 49] [54, 50, 51] level c.toSpec
          (some ([97], [98])) = some argv →
        shOfPing (buildPing asShipped [105, 112, 109, 105, 116, 111, 111, 108]
          [108, 97, 110, 112, 108, 117, 115] [49, 48, 46, 48, 46, 49, 46, 49] [54, 50, 51] level c
          (.password [97] [98])) = some (.ok argv [])) := by
  intro h
  have := h 2 (.val true [49, 55]) (pingArgv0 [97] [98]) (by decide +kernel)
  revert this
  decide +kernel

/-- the repair leaves strings without the four characters untouched -/
theorem escape_inert (u : Str) (h : ∀ c ∈ u, c ≠ 92 ∧ c ≠ 34 ∧ c ≠ 36 ∧ c ≠ 96) : esc u = u := by
  induction u with
  | nil => rfl
  | cons c u ih =>
    have hc := h c (List.mem_cons_self)
    have : ¬ (c = 92 ∨ c = 34 ∨ c = 36 ∨ c = 96) := by omega
    simp [esc, this, ih (fun d hd => h d (List.mem_cons_of_mem _ hd))]

/-! ### non-vacuity and the pinned tree -/

/-- ipmitool -I lan -H 10.0.1.1 -p 623, administrator, user `u`, password `p` -/
def lan0 (u p : Str) : Lan :=
  ⟨[105, 112, 109, 105, 116, 111, 111, 108], [108, 97, 110], [49, 48, 46, 48, 46, 49, 46, 49],
   [54, 50, 51], 4, .none, .password u p⟩

/-- what the program must receive for `lan0 u p`, target 0x20, LUN 0, netfn 6, data 01 -/
def argv0 (u p : Str) : List Str :=
  [[105, 112, 109, 105, 116, 111, 111, 108], [45, 73], [108, 97, 110], [45, 72],
   [49, 48, 46, 48, 46, 49, 46, 49], [45, 112], [54, 50, 51], [45, 76],
   [65, 68, 77, 73, 78, 73, 83, 84, 82, 65, 84, 79, 82], [45, 85], u, [45, 80], p,
   [45, 116], [48, 120, 50, 48], [45, 108], [48], [114, 97, 119], [48, 120, 48, 54], [48, 120, 48, 49]]

def tgt0 : Target := .mk none 0x20

/-- the shell's verdict on the command a builder produced -/
def shOf (o : Outcome Str) : Option Result :=
  match o with
  | .ok s => some (words s)
  | _ => none

/-- the specification's vector for the suite's request is the one the suite pins -/
example : Spec.Ipmitool.lanArgv ⟨(lan0 [] []).path, (lan0 [] []).iface, (lan0 [] []).host, (lan0 [] []).port, 4,
    none, some ([97], [98])⟩ (.addr 0x20) 0 6 [1] = some (argv0 [97] [98]) := by decide +kernel

/-- pinned tree: in `a\\b` the shell removes one of the two backslashes -/
theorem as_shipped_backslash_pair_rewritten :
    shOf (buildLan asShipped (lan0 [97, 92, 92, 98] [99]) tgt0 0 6 [1])
      = some (.ok (argv0 [97, 92, 98] [99]) [(2, 1)]) := by decide +kernel

/-- pinned tree: `ad$HOME` is expanded by the shell -/
theorem as_shipped_dollar_expands :
    shOf (buildLan asShipped (lan0 [97, 100, 36, 72, 79, 77, 69] [99]) tgt0 0 6 [1]) = some .expands := by
  decide +kernel

/-- pinned tree: the back-quotes in  p`echo X`q  run a command -/
theorem as_shipped_backquote_executes :
    shOf (buildLan asShipped (lan0 [97] [112, 96, 101, 99, 104, 111, 32, 88, 96, 113]) tgt0 0 6 [1])
      = some .expands := by decide +kernel

/-- pinned tree: a double quote in the password leaves the command line unterminated -/
theorem as_shipped_dquote_breaks_line :
    shOf (buildLan asShipped (lan0 [97] [112, 34, 113]) tgt0 0 6 [1]) = some .syntaxError := by decide +kernel

/-- pinned tree: the password  x" -H "evil  reaches ipmitool as `x` followed by a second `-H evil` -/
theorem as_shipped_password_adds_options :
    shOf (buildLan asShipped (lan0 [97] [120, 34, 32, 45, 72, 32, 34, 101, 118, 105, 108]) tgt0 0 6 [1])
      = some (.ok ([[105, 112, 109, 105, 116, 111, 111, 108], [45, 73], [108, 97, 110], [45, 72],
          [49, 48, 46, 48, 46, 49, 46, 49], [45, 112], [54, 50, 51], [45, 76],
          [65, 68, 77, 73, 78, 73, 83, 84, 82, 65, 84, 79, 82], [45, 85], [97], [45, 80], [120],
          [45, 72], [101, 118, 105, 108],
          [45, 116], [48, 120, 50, 48], [45, 108], [48], [114, 97, 119], [48, 120, 48, 54],
          [48, 120, 48, 49]]) [(2, 1)]) := by decide +kernel

/-- **`credentials_verbatim` is false of the pinned builder.** -/
theorem credentials_verbatim_false_as_shipped :
    ¬ (∀ u p : Str, NoNul u → NoNul p →
        shOf (buildLan asShipped (lan0 u p) tgt0 0 6 [1]) = some (.ok (argv0 u p) [(2, 1)])) := by
  intro h
  have := h [97, 92, 92, 98] [99] (by decide) (by decide)
  rw [as_shipped_backslash_pair_rewritten] at this
  revert this
  decide +kernel

private theorem pw_path : PlainWord [105, 112, 109, 105, 116, 111, 111, 108] := by decide
private theorem res_path : reserved.contains [105, 112, 109, 105, 116, 111, 111, 108] = false := by decide
private theorem pw_lan : PlainWord [108, 97, 110] := by decide
private theorem pw_host : PlainWord [49, 48, 46, 48, 46, 49, 46, 49] := by decide
private theorem pw_port : PlainWord [54, 50, 51] := by decide

/-- … and true of the intended one, on the same configuration -/
theorem credentials_verbatim_lan0 (u p : Str) (hu : NoNul u) (hp : NoNul p) :
    shOf (buildLan intended (lan0 u p) tgt0 0 6 [1]) = some (.ok (argv0 u p) [(2, 1)]) := by
  obtain ⟨cmd, h1, h2, _⟩ := credentials_verbatim (lan0 u p) u p tgt0 0 6 [1] _ (argv0 u p) hu hp rfl rfl
    (by
      simp only [Spec.Ipmitool.lanArgv, lan0, tgt0, Target.toSpec, Cipher.toSpec]
      rfl)
    pw_path res_path pw_lan pw_host pw_port (by intro tr x h; cases h)
  simp [shOf, h1, h2]

/-- the hypotheses are satisfiable, e.g. by the suite's configuration with the hostile credentials
ad$HOME  /  p`echo X`"q  -/
example : shOf (buildLan intended (lan0 [97, 100, 36, 72, 79, 77, 69] [112, 96, 101, 99, 104, 111, 32, 88, 96, 34, 113])
      tgt0 0 6 [1])
    = some (.ok (argv0 [97, 100, 36, 72, 79, 77, 69] [112, 96, 101, 99, 104, 111, 32, 88, 96, 34, 113]) [(2, 1)]) :=
  credentials_verbatim_lan0 _ _ (by decide) (by decide)

/-- pinned tree: a routing with one hop (what the CLI's `-t` option creates) raises instead of
building a command; the specification asks for a command without bridging options -/
theorem as_shipped_depth1_raises (h : Hop) (a : Nat) :
    (∀ s, buildTarget asShipped (.mk (some [h]) a) ≠ .ok s)
    ∧ Spec.Ipmitool.targetArgv (Target.mk (some [h]) a).toSpec = some []
    ∧ buildTarget intended (.mk (some [h]) a) = .ok [] := by
  refine ⟨?_, rfl, rfl⟩
  intro s
  by_cases ha : a = 0 <;> simp [buildTarget, asShipped, ha]

/-- pinned tree: `Ipmitool(cipher=0)` — a cipher that is falsy in Python — loses its `-C` option -/
theorem as_shipped_falsy_cipher_dropped (text : Str) :
    cipherPart asShipped (.val false text) = []
    ∧ Spec.Ipmitool.cipherArgv (Cipher.val false text).toSpec = [[45, 67], text]
    ∧ cipherPart intended (.val false text) = [32, 45, 67, 32] ++ text := by
  simp [cipherPart, asShipped, intended, Cipher.toSpec, Spec.Ipmitool.cipherArgv, Spec.Ipmitool.opt,
    fmtS, Gen.Ipmitool.fCipher]

/-! ## reply side -/

/-- **parse ∘ print = id.**  Whatever bytes `ipmitool raw` prints (16 per line), the back-end returns
them unchanged behind completion code 00 — for every length. -/
theorem parse_print (bs : List Nat) (h : Bytes bs) :
    recv (Spec.Ipmitool.printRaw bs) 0 = .ok (0 :: bs) := by
  cases bs with
  | nil => decide
  | cons b bs =>
    rw [printRaw_lines, recv_printLines _ (fun ch hch => ⟨groupFrom_nonempty 0 _ ch hch, ?_⟩),
      groupFrom_flatten]
    intro x hx
    apply h x
    rw [← groupFrom_flatten 0 (b :: bs)]
    exact List.mem_flatten.mpr ⟨ch, hch, hx⟩

/-- … for every wrapping of the bytes into non-empty lines -/
theorem parse_print_any_wrapping (chunks : List (List Nat)) (h : ∀ ch ∈ chunks, ch ≠ [] ∧ Bytes ch) :
    recv (Spec.Ipmitool.printLines chunks) 0 = .ok (0 :: chunks.flatten) :=
  recv_printLines chunks h

/-- ipmitool's own format is a wrapping of exactly the reply bytes into non-empty lines -/
theorem printRaw_is_a_wrapping (b : Nat) (bs : List Nat) :
    Spec.Ipmitool.printRaw (b :: bs) = Spec.Ipmitool.printLines (groupFrom 0 (b :: bs))
    ∧ (groupFrom 0 (b :: bs)).flatten = b :: bs
    ∧ ∀ g ∈ groupFrom 0 (b :: bs), g ≠ [] :=
  ⟨printRaw_lines b bs, groupFrom_flatten 0 _, groupFrom_nonempty 0 _⟩

example : Spec.Ipmitool.printRaw (List.range 18) =
    [32, 48, 48, 32, 48, 49, 32, 48, 50, 32, 48, 51, 32, 48, 52, 32, 48, 53, 32, 48, 54, 32, 48, 55,
     32, 48, 56, 32, 48, 57, 32, 48, 97, 32, 48, 98, 32, 48, 99, 32, 48, 100, 32, 48, 101, 32, 48, 102,
     10, 32, 49, 48, 32, 49, 49, 10] := by decide +kernel

/-- **A `rsp=0xNN` failure line yields exactly that completion code** — the line `ipmitool raw`
prints for completion code `cc` (lib/ipmi_raw.c), for every channel, netfn, LUN, command number
and every message text that does not itself look like one of the parser's patterns; any exit
status except "command not found". -/
theorem rsp_line_gives_cc (ch nf lun cmd cc rc : Nat) (text : Str) (hcc : cc < 256)
    (ht : benign text = true) (hrc : rc ≠ 127) :
    recv (Spec.Ipmitool.ccLine ch nf lun cmd cc text ++ [10]) rc = .ok [cc] :=
  recv_ccLine ch nf lun cmd cc rc text hcc ht hrc

/-- … in particular with the text ipmitool itself attaches to the code (`val2str`) -/
theorem rsp_line_gives_cc_val2str (ch nf lun cmd cc rc : Nat) (hcc : cc < 256) (hrc : rc ≠ 127) :
    recv (Spec.Ipmitool.ccLine ch nf lun cmd cc (Spec.Ipmitool.ccText cc) ++ [10]) rc = .ok [cc] :=
  recv_ccLine ch nf lun cmd cc rc _ hcc (ccText_benign cc hcc) hrc

example : benign [84, 105, 109, 101, 111, 117, 116] = true := by decide

/-- **Timeout**: the line printed when no response arrived raises IpmiTimeoutError, for every
channel, netfn, LUN and command number. -/
theorem timeout_line_raises (ch nf lun cmd rc : Nat) (hrc : rc ≠ 127) :
    recv (Spec.Ipmitool.timeoutLine ch nf lun cmd ++ [10]) rc = .timeoutError :=
  recv_timeoutLine ch nf lun cmd rc hrc

/-- "Error: Unable to establish IPMI v2 / RMCP+ session" -/
def establishV2 : Str := [69, 114, 114, 111, 114, 58, 32, 85, 110, 97, 98, 108, 101, 32, 116, 111, 32, 101, 115, 116, 97, 98, 108, 105, 115, 104, 32, 73, 80, 77, 73, 32, 118, 50, 32, 47, 32, 82, 77, 67, 80, 43, 32, 115, 101, 115, 115, 105, 111, 110]
/-- "Error: Unable to establish LAN session" -/
def establishLan : Str := [69, 114, 114, 111, 114, 58, 32, 85, 110, 97, 98, 108, 101, 32, 116, 111, 32, 101, 115, 116, 97, 98, 108, 105, 115, 104, 32, 76, 65, 78, 32, 115, 101, 115, 115, 105, 111, 110]
/-- "Error: Unable to establish IPMI v1.5 / RMCP session" -/
def establishV15 : Str := [69, 114, 114, 111, 114, 58, 32, 85, 110, 97, 98, 108, 101, 32, 116, 111, 32, 101, 115, 116, 97, 98, 108, 105, 115, 104, 32, 73, 80, 77, 73, 32, 118, 49, 46, 53, 32, 47, 32, 82, 77, 67, 80, 32, 115, 101, 115, 115, 105, 111, 110]
/-- "lanplus: password is longer than 20 bytes." -/
def longPwLanplus : Str := [108, 97, 110, 112, 108, 117, 115, 58, 32, 112, 97, 115, 115, 119, 111, 114, 100, 32, 105, 115, 32, 108, 111, 110, 103, 101, 114, 32, 116, 104, 97, 110, 32, 50, 48, 32, 98, 121, 116, 101, 115, 46]
/-- "lan: password is longer than 16 bytes." -/
def longPwLan : Str := [108, 97, 110, 58, 32, 112, 97, 115, 115, 119, 111, 114, 100, 32, 105, 115, 32, 108, 111, 110, 103, 101, 114, 32, 116, 104, 97, 110, 32, 49, 54, 32, 98, 121, 116, 101, 115, 46]
/-- "Could not open device at /dev/ipmi0 or /dev/ipmi/0 or /dev/ipmidev/0: No such file or directory" -/
def noDevice : Str := [67, 111, 117, 108, 100, 32, 110, 111, 116, 32, 111, 112, 101, 110, 32, 100, 101, 118, 105, 99, 101, 32, 97, 116, 32, 47, 100, 101, 118, 47, 105, 112, 109, 105, 48, 32, 111, 114, 32, 47, 100, 101, 118, 47, 105, 112, 109, 105, 47, 48, 32, 111, 114, 32, 47, 100, 101, 118, 47, 105, 112, 109, 105, 100, 101, 118, 47, 48, 58, 32, 78, 111, 32, 115, 117, 99, 104, 32, 102, 105, 108, 101, 32, 111, 114, 32, 100, 105, 114, 101, 99, 116, 111, 114, 121]

/-- **Connection failures**: ipmitool's three "Unable to establish … session" messages raise
IpmiConnectionError (with or without a final newline). -/
theorem connection_line_raises :
    ∀ l ∈ [establishV2, establishLan, establishV15], ∀ rc ∈ [0, 1],
      recv l rc = .pyError "IpmiConnectionError" ∧ recv (l ++ [10]) rc = .pyError "IpmiConnectionError" := by
  decide +kernel

/-- **Over-long passwords** raise IpmiLongPasswordError. -/
theorem long_password_line_raises :
    ∀ l ∈ [longPwLanplus, longPwLan], ∀ rc ∈ [0, 1],
      recv l rc = .pyError "IpmiLongPasswordError" ∧ recv (l ++ [10]) rc = .pyError "IpmiLongPasswordError" := by
  decide +kernel

/-- a missing IPMI device raises RuntimeError -/
theorem device_line_raises :
    ∀ rc ∈ [0, 1], recv (noDevice ++ [10]) rc = .pyError "RuntimeError" := by
  decide +kernel

/-- without any of these lines, a non-zero exit status is an error, never data -/
theorem nonzero_status_raises (out : Str) (rc : Nat) (r : Option (List Nat)) (hrc : rc ≠ 0)
    (h : parseOutput out = .ok (none, r)) : recv out rc = .pyError "RuntimeError" := by
  by_cases h127 : rc = 127
  · simp [recv, h127]
  · simp [recv, h127, h, Outcome.bind, hrc]

/-- **the tree read today builds the ping the theorems are about**: the translator found the `-L` / `-C`
statements of the repaired `rmcp_ping` (`Gen.Ipmitool.pingOptsInSource`, regenerated on every run), i.e. the
source has the `pingOpts` flag of `Variant.intended`.  A tree that drops them again stops this theorem
from building (and the probe of the real code reports `C19:ping:argv:-L:missing`). -/
theorem ping_source_is_intended :
    Gen.Ipmitool.pingOptsInSource = intended.pingOpts := by decide

end PyIpmi.Props.C19
