/-
  C10 — FRU data transfer is exact and addresses the named FRU.

  Objects: `FruXfer.*` is the model of pyipmi/fru.py (Model/FruXfer.lean), `Spec.Fru.respond` the
  byte-level reference FRU device (Spec/FruDevice.lean), `fruCfg` the loop constants extracted
  from the working tree (Gen/Loops10.lean: req_size 32, decrement 2, caught codes, write_length).

  * `constants_ok`            — the extracted constants satisfy the side conditions of the theorems
                                (decrement 1..2 so that every device limit ≥ 2 is reached before
                                req_size hits 0; initial size 1..255; C8/C9/CA are all caught;
                                write_length 1..255).  Re-decided whenever the source changes.
  * `read_exact`              — for EVERY area content up to 65536 bytes (a full 64 KiB: every byte a 16-bit
                                offset addresses; `read_reaches_last_byte_of_64k`, `read_full_of_64k_device`:
                                the reported size is a 16-bit field, `end_clamped_to_ffff_loses_last_byte`),
                                offset, count inside it,
                                FRU id 0..255, device limit ≥ 2 enforced by C8/C9/CA (or ≥ 1 served
                                short): read_fru_data returns exactly the stored slice.
  * `read_full_exact`         — read_fru_data_full returns the whole inventory area.
  * `read_exact_any_range`    — the read clause for EVERY form of the call `read_fru_data(offset=None,
                                count=None, fru_id)` (repaired variant `rangeFix`): the bytes from `offset or 0`,
                                `count` of them or - count left out - all up to the end of the inventory area;
                                `read_asks_only_for_the_range` (any peer: a range read requests bytes of
                                [offset, offset+count) only).
  * `half_range_as_pinned`    — COUNTER-EXAMPLE for the pinned source: `read_fru_data(count=8)` returns all 16
                                bytes after a Get FRU Inventory Area Info; `read_fru_data(offset=8)` is a
                                TypeError (fixes/C10-2.diff).
  * `absent_area_is_none`, `absent_multirecord_is_none` — an area the common header declares ABSENT (offset byte
                                00h, Storage Definition §8): the getter (repaired variant) yields `None`; the
                                world is the one the 8-byte header read leaves and every request asked for
                                header bytes [0, 8) of the named FRU only.
  * `present_area_exact`      — a PRESENT info area: the getter hands its parser exactly the stored area
                                (`Spec.Fru.infoArea`: 8 × length byte from the header's offset), any variant.
  * `present_multirecord_exact` — a PRESENT multirecord area: exactly the records up to and including the
                                end-of-list record (`Spec.Fru.recordsEnd`), any variant that passes the FRU id on.
  * `absent_area_as_pinned_returns_inventory`, `absent_multirecord_as_pinned_type_error` — COUNTER-EXAMPLES for
                                the pinned source: `get_fru_chassis_area` on a FRU without chassis area asks
                                for the inventory size, reads the whole inventory twice and hands all of it to
                                the chassis parser; `get_fru_multirecord_area` ends in a TypeError.
  * `requests_name_fru`       — for EVERY operation (range read in every optional-argument form, full read,
                                write, header, the three info areas, multirecord area, whole inventory), EVERY
                                variant with the FRU id passed on (`_read_fru_area` with and without the
                                area-length check of fixes/C15-2.diff, getters with and without the absent-area
                                guard, either form of `read_fru_data`), EVERY transport (any peer behaviour),
                                every request on the wire carries the caller's FRU id.
  * `write_exact` (contents up to a full 64 KiB, the data may end at 10000h)             — write_fru_data stores exactly the given bytes contiguously from the
                                offset and touches no other FRU.
  * `write_count_mismatch_raises` — for EVERY peer: write_fru_data returns normally only if every
                                write was acknowledged with exactly the number of bytes sent.
  * `write_short_ack_raises`  — against a device that stores fewer bytes than sent the outcome is
                                the library's `Exception`.
  * `write_resumed_exact`     — HISTORY: a write of which the first k bytes were stored before it failed,
                                resumed from offset + k, leaves exactly what one complete write stores.
  * `write_exact_any_chunk`, `write_count_mismatch_raises_any_chunk`, `write_short_ack_raises_any_chunk`,
    `write_resumed_exact_any_chunk` — the same four for EVERY chunk size `write_length` = 1..255 the caller
                                may assign (the harness assigns it on the real object); `write_chunk_sizes`,
                                `write_length_zero_sends_nothing`.
  * `write_raises_at_first_count_mismatch` — for EVERY peer and chunk size: if acknowledgement k is the first
                                that names another count than its chunk carried, the write raises the library's
                                `Exception` after exactly k + 1 requests (trace = the first k + 1 offered
                                exchanges), whatever the later acknowledgements would have been (two deviations
                                that cancel in a sum do not pass); `write_stops_at_first_bad_answer` (any
                                non-exact answer), `write_all_acked_returns` (converse), `offered_write_requests`.
  * `faultless_plan_is_reference_device` — the fault-injecting device of the history runs is the reference
                                device while its plan is empty.
  * `multirecord_as_shipped_misaddresses` — COUNTER-EXAMPLE for the pinned source:
                                get_fru_multirecord_area(fru_id=1) as shipped sends requests naming
                                FRU 0 and returns FRU 0's record (fixes/C10-1.diff).
-/
import PyIpmi.Lemmas.XferFru
import PyIpmi.Lemmas.XferFruArea
import PyIpmi.Gen.Loops10
namespace PyIpmi.Props.C10
open PyIpmi PyIpmi.FruXfer PyIpmi.Spec.Fru
open PyIpmi.Gen.Loops10 (fruCfg)

theorem constants_ok : fruCfg.ok = true := by decide

/-- `read_fru_data(offset, count, fru_id)` returns exactly the bytes the addressed FRU stores in
`[offset, offset + count)`. -/
theorem read_exact (d : FruDev) (hd : DevOk d) (id off cnt : Nat) (c : List Nat) (tr : List Xchg)
    (hid : id < 256) (hg : d.get id = some c) (hrange : off + cnt ≤ c.length)
    (h64 : c.length ≤ 65536) :
    (readFruData fruCfg respond ⟨d, tr⟩ (some off) cnt id).out = .ok ((c.drop off).take cnt) :=
  (readFruData_exact64 fruCfg constants_ok d hd id c hid hg off cnt hrange h64 ⟨d, tr⟩ rfl).1

/-- "FRU contents up to 64 KiB": the 16-bit offset of Read FRU Data addresses bytes 0..FFFFh, so a device may hold
65536 bytes and an explicit range may END at 10000h.  The ranges that reach the last addressable byte: -/
theorem read_reaches_last_byte_of_64k (d : FruDev) (hd : DevOk d) (id cnt : Nat) (c : List Nat) (tr : List Xchg)
    (hid : id < 256) (hg : d.get id = some c) (h64 : c.length = 65536) (hcnt : cnt ≤ 65536) :
    (readFruData fruCfg respond ⟨d, tr⟩ (some (65536 - cnt)) cnt id).out = .ok (c.drop (65536 - cnt)) := by
  have h := read_exact d hd id (65536 - cnt) cnt c tr hid hg (by omega) (by omega)
  rw [h, List.take_of_length_le (by simp; omega)]

/-- … while the size Get FRU Inventory Area Info reports is a 16-bit field: a 65536-byte device says FFFFh, and
"the whole inventory area" of `read_fru_data_full` is the 65535 bytes the device reports (the last byte is
reachable through an explicit range only, `read_reaches_last_byte_of_64k`). -/
theorem read_full_of_64k_device (d : FruDev) (hd : DevOk d) (id : Nat) (c : List Nat) (tr : List Xchg)
    (hid : id < 256) (hg : d.get id = some c) (h64 : 65535 ≤ c.length) :
    (readFruDataFull fruCfg respond ⟨d, tr⟩ id).out = .ok (c.take 65535) := by
  have hc := (Cfg.ok_iff fruCfg).mp constants_ok
  have hinfo := respond_info_64k d id c hid hg h64
  have := readLoop_exact fruCfg constants_ok d hd id c hid hg 65535 h64 (by omega)
    (65535 + fruCfg.initReq + 1)
    ⟨d, tr ++ [⟨infoReq id, [0, 255, 255, 0]⟩]⟩ 0 fruCfg.initReq [] rfl
    (by omega) hc.2.2.1 hc.2.2.2.1 (by omega)
  simp only [readFruDataFull, readFruData, areaInfo, xchg, hinfo, decodeInfoRsp]
  simpa using this.1

/-- COUNTER-EXAMPLE for a read loop whose END is clamped to FFFFh (the largest OFFSET, not the largest end):
asked for the byte at offset FFFFh it sends nothing and returns no byte, whatever the peer. -/
theorem end_clamped_to_ffff_loses_last_byte {σ} (send : Send σ) (w : World σ) (id fuel req : Nat) :
    (readLoop fruCfg send (fuel + 1) w id (min (0xFFFF + 1) 0xFFFF) 0xFFFF req []).out = .ok [] ∧
    (readLoop fruCfg send (fuel + 1) w id (min (0xFFFF + 1) 0xFFFF) 0xFFFF req []).w.trace = w.trace := by
  simp [readLoop]

/-- `read_fru_data_full(fru_id)` returns the whole inventory area. -/
theorem read_full_exact (d : FruDev) (hd : DevOk d) (id : Nat) (c : List Nat) (tr : List Xchg)
    (hid : id < 256) (hg : d.get id = some c) (h64 : c.length ≤ 65535) :
    (readFruDataFull fruCfg respond ⟨d, tr⟩ id).out = .ok c :=
  (readFruDataFull_exact fruCfg constants_ok d hd id c hid hg h64 ⟨d, tr⟩ rfl).1

/-! ### every form of the call: `read_fru_data(offset=None, count=None, fru_id=0)` -/

/-- The read clause for every form of the call (repaired variant, fixes/C10-2.diff): the requested range is
`count` bytes from `offset or 0`, and - `count` left out - everything from there to the end of the inventory
area.  `offset = some off, count = some cnt` is `read_exact`, both left out `read_full_exact`. -/
theorem read_exact_any_range (d : FruDev) (hd : DevOk d) (id : Nat) (offset count : Option Nat) (c : List Nat)
    (tr : List Xchg) (hid : id < 256) (hg : d.get id = some c)
    (hrange : offset.getD 0 + count.getD (c.length - offset.getD 0) ≤ c.length) (h64 : c.length ≤ 65535) :
    (readFruDataV true fruCfg respond ⟨d, tr⟩ offset count id).out =
      .ok ((c.drop (offset.getD 0)).take (count.getD (c.length - offset.getD 0))) :=
  (readFruDataV_exact fruCfg constants_ok d hd id c hid hg offset count hrange h64 ⟨d, tr⟩ rfl).1

/-- the two half-specified forms spelled out: a count alone is that many bytes from the start, an offset alone
everything behind it -/
theorem read_half_ranges (d : FruDev) (hd : DevOk d) (id n : Nat) (c : List Nat) (tr : List Xchg)
    (hid : id < 256) (hg : d.get id = some c) (hn : n ≤ c.length) (h64 : c.length ≤ 65535) :
    (readFruDataV true fruCfg respond ⟨d, tr⟩ none (some n) id).out = .ok (c.take n) ∧
    (readFruDataV true fruCfg respond ⟨d, tr⟩ (some n) none id).out = .ok (c.drop n) := by
  have h1 := read_exact_any_range d hd id none (some n) c tr hid hg (by simpa using hn) h64
  have h2 := read_exact_any_range d hd id (some n) none c tr hid hg (by simp; omega) h64
  simp only [Option.getD_none, Option.getD_some, List.drop_zero] at h1 h2
  refine ⟨h1, ?_⟩
  rw [h2, List.take_of_length_le (by simp)]

/-- for the forms with both arguments the two variants are the same function (`read_exact` speaks of both) -/
theorem read_both_given (rangeFix : Bool) {σ} (send : Send σ) (w : World σ) (off cnt id : Nat) :
    readFruDataV rangeFix fruCfg send w (some off) (some cnt) id = readFruData fruCfg send w (some off) cnt id :=
  readFruDataV_some_some rangeFix fruCfg send w off cnt id

/-- ANY peer: a range read requests bytes of `[offset, offset + count)` of the named FRU and nothing else
(no Get FRU Inventory Area Info, no byte outside the range). -/
theorem read_asks_only_for_the_range {σ} (send : Send σ) (dev : σ) (off cnt id : Nat) :
    ReadsWithin id off (off + cnt) (readFruData fruCfg send ⟨dev, []⟩ (some off) cnt id).w.trace :=
  readFruData_within fruCfg send id _ off cnt off (off + cnt) (by intro x hx; cases hx) (Nat.le_refl _) (Nat.le_refl _)

/-- FRU 2: a common header that declares an internal use area at offset 8 and NO other area, then that area. -/
def boardlessDev : FruDev :=
  ⟨[(0, []), (2, [1, 1, 0, 0, 0, 0, 0, 0xFE, 1, 0xA1, 0xA2, 0xA3, 0xA4, 0xA5, 0xA6, 0xA7])], 32, 0xCA, false, 16⟩

/-- COUNTER-EXAMPLE (pinned source): `read_fru_data(count=8, fru_id=2)` asks for the inventory size and
returns all 16 bytes; `read_fru_data(offset=8, fru_id=2)` is a TypeError before any request.  Repaired: the
first 8 resp. the last 8 bytes. -/
theorem half_range_as_pinned :
    (readFruDataV false fruCfg respond ⟨boardlessDev, []⟩ none (some 8) 2).out
      = .ok [1, 1, 0, 0, 0, 0, 0, 0xFE, 1, 0xA1, 0xA2, 0xA3, 0xA4, 0xA5, 0xA6, 0xA7] ∧
    ((readFruDataV false fruCfg respond ⟨boardlessDev, []⟩ none (some 8) 2).w.trace.map (·.req.cmd)) = [0x10, 0x11] ∧
    (readFruDataV false fruCfg respond ⟨boardlessDev, []⟩ (some 8) none 2).out = .pyError "TypeError" ∧
    (readFruDataV true fruCfg respond ⟨boardlessDev, []⟩ none (some 8) 2).out = .ok [1, 1, 0, 0, 0, 0, 0, 0xFE] ∧
    (readFruDataV true fruCfg respond ⟨boardlessDev, []⟩ (some 8) none 2).out
      = .ok [1, 0xA1, 0xA2, 0xA3, 0xA4, 0xA5, 0xA6, 0xA7] := by decide

/-! ### the area getters: an area the common header declares absent, a present one -/

/-- An info area whose offset byte in the common header is 00h ("this area is not present") - the getter
(repaired variant) returns `None`: the FRU device stores no such area.  It costs the header read and nothing
else: the world is the one `get_fru_inventory_header` leaves, every request asked for bytes of `[0, 8)`. -/
theorem absent_area_is_none (d : FruDev) (hd : DevOk d) (id : Nat) (c : List Nat) (hid : id < 256)
    (hg : d.get id = some c) (h64 : c.length ≤ 65535) (hh : headerOk c) (lenChk : Bool) (a : Area)
    (habs : areaStart c a.spec = none) :
    let r := getInfoArea fruCfg respond (Var.intended lenChk) ⟨d, []⟩ a id
    r.out = .ok none ∧ r.w = (getHeader fruCfg respond ⟨d, []⟩ id).w ∧ r.w.dev = d ∧
      ReadsWithin id 0 8 r.w.trace := by
  have h := getInfoArea_absent fruCfg constants_ok d hd id c hid hg h64 hh (Var.intended lenChk) a
    (by cases a <;> rfl) habs ⟨d, []⟩ rfl
  have hw := (getHeader_exact fruCfg constants_ok d hd id c hid hg h64 hh ⟨d, []⟩ rfl).2
  have hin := getHeader_within fruCfg respond id ⟨d, []⟩ (by intro x hx; cases hx)
  refine ⟨h.1, h.2, ?_, ?_⟩
  · rw [h.2]; exact hw
  · rw [h.2]; exact hin

/-- … and the multirecord getter on an inventory without multirecord area. -/
theorem absent_multirecord_is_none (d : FruDev) (hd : DevOk d) (id : Nat) (c : List Nat) (hid : id < 256)
    (hg : d.get id = some c) (h64 : c.length ≤ 65535) (hh : headerOk c) (lenChk : Bool)
    (habs : areaStart c .multirecord = none) :
    let r := getMultirecord fruCfg respond (Var.intended lenChk) ⟨d, []⟩ id
    r.out = .ok none ∧ r.w = (getHeader fruCfg respond ⟨d, []⟩ id).w ∧ r.w.dev = d ∧
      ReadsWithin id 0 8 r.w.trace := by
  have h := getMultirecord_absent fruCfg constants_ok d hd id c hid hg h64 hh (Var.intended lenChk) rfl habs
    ⟨d, []⟩ rfl
  have hw := (getHeader_exact fruCfg constants_ok d hd id c hid hg h64 hh ⟨d, []⟩ rfl).2
  have hin := getHeader_within fruCfg respond id ⟨d, []⟩ (by intro x hx; cases hx)
  refine ⟨h.1, h.2, ?_, ?_⟩
  · rw [h.2]; exact hw
  · rw [h.2]; exact hin

/-- A PRESENT info area (offset byte ≠ 00h, its 5-byte head and its declared length inside the inventory
area; with the length check of fixes/C15-2.diff a length byte ≠ 00h): the getter hands its parser exactly the
bytes of the area, `8 ×` the length byte from the offset the header names - in every variant. -/
theorem present_area_exact (d : FruDev) (hd : DevOk d) (id : Nat) (c : List Nat) (hid : id < 256)
    (hg : d.get id = some c) (h64 : c.length ≤ 65535) (hh : headerOk c) (v : Var) (a : Area) (o : Nat)
    (hpres : areaStart c a.spec = some o) (h5 : o + 5 ≤ c.length)
    (hfit : o + c.getD (o + 1) 0 * 8 ≤ c.length) (hlen : v.lenChk = true → c.getD (o + 1) 0 ≠ 0) (tr : List Xchg) :
    (getInfoArea fruCfg respond v ⟨d, tr⟩ a id).out = .ok (infoArea c a.spec) ∧
    infoArea c a.spec = some ((c.drop o).take (c.getD (o + 1) 0 * 8)) := by
  refine ⟨(getInfoArea_present fruCfg constants_ok d hd id c hid hg h64 hh v a o hpres h5 hfit hlen ⟨d, tr⟩ rfl).1, ?_⟩
  simp [infoArea, hpres]

/-- A PRESENT multirecord area whose record list ends inside the inventory (`recordsEnd`: 5-byte headers,
`record length` bytes each, up to and including the first record with the end-of-list bit): the getter hands
its parser exactly these records - in every variant that passes the FRU id on. -/
theorem present_multirecord_exact (d : FruDev) (hd : DevOk d) (id : Nat) (c : List Nat) (hid : id < 256)
    (hg : d.get id = some c) (h64 : c.length ≤ 65535) (hh : headerOk c) (v : Var) (hv : v.mrShipped = false)
    (o e : Nat) (hpres : areaStart c .multirecord = some o) (hend : recordsEnd c (c.length + 1) o = some e)
    (tr : List Xchg) :
    (getMultirecord fruCfg respond v ⟨d, tr⟩ id).out = .ok (some ((c.drop o).take (e - o))) ∧
    multiArea c = some (some ((c.drop o).take (e - o))) := by
  refine ⟨(getMultirecord_present fruCfg constants_ok d hd id c hid hg h64 hh v hv o e hpres hend ⟨d, tr⟩ rfl).1, ?_⟩
  simp [multiArea, hpres, hend]

/-- COUNTER-EXAMPLE (pinned source, the ordinary case of an inventory with an internal use area and no
chassis area): `get_fru_chassis_area(fru_id=2)` does not stop behind the header read - the absent area's
`None` offset makes `_read_fru_area` ask for the inventory size and read the whole inventory, twice (5 exchanges instead of 1),
and the chassis parser is handed all 16 bytes, an "area" the device does not store.  Repaired: `None` after the
one header read. -/
theorem absent_area_as_pinned_returns_inventory :
    areaStart [1, 1, 0, 0, 0, 0, 0, 0xFE, 1, 0xA1, 0xA2, 0xA3, 0xA4, 0xA5, 0xA6, 0xA7] .chassis = none ∧
    (getInfoArea fruCfg respond Var.pinned ⟨boardlessDev, []⟩ .chassis 2).out
      = .ok (some [1, 1, 0, 0, 0, 0, 0, 0xFE, 1, 0xA1, 0xA2, 0xA3, 0xA4, 0xA5, 0xA6, 0xA7]) ∧
    ((getInfoArea fruCfg respond Var.pinned ⟨boardlessDev, []⟩ .chassis 2).w.trace.map (·.req.cmd))
      = [0x11, 0x10, 0x11, 0x10, 0x11] ∧
    readsWithinB 2 0 8 (getInfoArea fruCfg respond Var.pinned ⟨boardlessDev, []⟩ .chassis 2).w.trace = false ∧
    (getInfoArea fruCfg respond (Var.intended true) ⟨boardlessDev, []⟩ .chassis 2).out = .ok none ∧
    readsWithinB 2 0 8 (getInfoArea fruCfg respond (Var.intended true) ⟨boardlessDev, []⟩ .chassis 2).w.trace = true ∧
    (getInfoArea fruCfg respond (Var.intended true) ⟨boardlessDev, []⟩ .chassis 2).w.trace.length = 1 := by decide

/-- COUNTER-EXAMPLE (pinned source): `get_fru_multirecord_area(fru_id=2)` on the same inventory reads the
whole inventory as a "record header" and ends in `TypeError` (`None += int`).  Repaired: `None`. -/
theorem absent_multirecord_as_pinned_type_error :
    (getMultirecord fruCfg respond Var.pinned ⟨boardlessDev, []⟩ 2).out = .pyError "TypeError" ∧
    ((getMultirecord fruCfg respond Var.pinned ⟨boardlessDev, []⟩ 2).w.trace.map (·.req.cmd)) = [0x11, 0x10, 0x11] ∧
    (getMultirecord fruCfg respond (Var.intended true) ⟨boardlessDev, []⟩ 2).out = .ok none := by decide

/-- non-vacuity of `absent_area_is_none` / `present_area_exact`: FRU 2 of `boardlessDev` has a valid header and no
chassis area; FRU 5 below has a chassis area of 8 bytes at offset 8 -/
example : DevOk boardlessDev ∧ boardlessDev.get 2 = some [1, 1, 0, 0, 0, 0, 0, 0xFE, 1, 0xA1, 0xA2, 0xA3, 0xA4, 0xA5, 0xA6, 0xA7] ∧
    headerOk [1, 1, 0, 0, 0, 0, 0, 0xFE, 1, 0xA1, 0xA2, 0xA3, 0xA4, 0xA5, 0xA6, 0xA7] ∧
    areaStart [1, 1, 0, 0, 0, 0, 0, 0xFE, 1, 0xA1, 0xA2, 0xA3, 0xA4, 0xA5, 0xA6, 0xA7] (Area.spec .board) = none :=
  ⟨⟨by decide, by decide, by decide⟩, by decide, ⟨by decide, by decide⟩, by decide⟩

example :
    let c := [1, 0, 1, 0, 0, 0, 0, 0xFE, 0x01, 0x01, 0x17, 0xC0, 0xC0, 0xC1, 0x00, 0xA6]
    headerOk c ∧ areaStart c (Area.spec .chassis) = some 8 ∧ 8 + 5 ≤ c.length ∧ 8 + c.getD 9 0 * 8 ≤ c.length ∧
    c.getD 9 0 ≠ 0 ∧
    (getInfoArea fruCfg respond (Var.intended true) ⟨⟨[(5, c)], 3, 0xC9, false, 16⟩, []⟩ .chassis 5).out
      = .ok (some [0x01, 0x01, 0x17, 0xC0, 0xC0, 0xC1, 0x00, 0xA6]) :=
  ⟨⟨by decide, by decide⟩, by decide, by decide, by decide, by decide, by decide⟩

/-- non-vacuity of `present_multirecord_exact`: two records (the first of length 2 without, the second of length
1 with the end-of-list bit) at offset 8, then slack -/
example :
    let c := [1, 0, 0, 0, 0, 1, 0, 0xFE, 0x01, 0x02, 0x02, 0x00, 0xFB, 0x10, 0xF0, 0x02, 0x82, 0x01, 0xAB, 0xD0, 0x55, 0, 0, 0]
    headerOk c ∧ areaStart c .multirecord = some 8 ∧ recordsEnd c (c.length + 1) 8 = some 21 ∧
    (getMultirecord fruCfg respond (Var.intended true) ⟨⟨[(5, c)], 4, 0xC8, false, 16⟩, []⟩ 5).out
      = .ok (some [0x01, 0x02, 0x02, 0x00, 0xFB, 0x10, 0xF0, 0x02, 0x82, 0x01, 0xAB, 0xD0, 0x55]) :=
  ⟨⟨by decide, by decide⟩, by decide, by decide, by decide⟩

/-- The operations of class `Fru` that transfer data. -/
inductive Op where
  | read (offset : Option Nat) (count : Option Nat)
  | full
  | write (data : List Nat) (offset : Nat)
  | header
  | area (a : Area)
  | multirecord
  | inventory

/-- The exchanges an operation performs for FRU `id` in variant `v` of the source. -/
def Op.trace {σ} (send : Send σ) (v : Var) (dev : σ) (id : Nat) : Op → List Xchg
  | .read o c => (readFruDataV v.rangeFix fruCfg send ⟨dev, []⟩ o c id).w.trace
  | .full => (readFruDataFull fruCfg send ⟨dev, []⟩ id).w.trace
  | .write data off => (writeFruData fruCfg send ⟨dev, []⟩ data off id).w.trace
  | .header => (getHeader fruCfg send ⟨dev, []⟩ id).w.trace
  | .area a => (getInfoArea fruCfg send v ⟨dev, []⟩ a id).w.trace
  | .multirecord => (getMultirecord fruCfg send v ⟨dev, []⟩ id).w.trace
  | .inventory => (getInventory fruCfg send v ⟨dev, []⟩ id).w.trace

/-- Every request of every operation — including each part of a full inventory read — carries
the FRU id the caller named, whatever the peer answers, in every variant of the source that passes the FRU
id on (fixes/C10-1.diff): with or without the area-length check, the absent-area guards, the range repair. -/
theorem requests_name_fru {σ} (send : Send σ) (v : Var) (hv : v.mrShipped = false) (dev : σ) (id : Nat)
    (hid : id < 256) (o : Op) :
    ∀ x ∈ o.trace send v dev id, x.req.payload.head? = some id := by
  have h0 : Named id (⟨dev, []⟩ : World σ).trace := by intro x hx; cases hx
  have key : Named id (o.trace send v dev id) := by
    cases o with
    | read off c => exact readFruDataV_named v.rangeFix fruCfg send id _ off c h0
    | full => exact readFruData_named fruCfg send id _ none 0 h0
    | write data off => exact writeFruData_named fruCfg send id _ data off h0
    | header => exact getHeader_named fruCfg send id _ h0
    | area a => exact getInfoArea_named fruCfg send v id _ a h0
    | multirecord => exact getMultirecord_named fruCfg send v hv id _ h0
    | inventory => exact getInventory_named fruCfg send v hv id _ h0
  intro x hx
  have := key x hx
  rwa [Nat.mod_eq_of_lt hid] at this

/-- `write_fru_data(data, offset, fru_id)` stores exactly `data` contiguously from `offset` in the
named FRU and leaves every other FRU alone. -/
theorem write_exact (d : FruDev) (id off : Nat) (c data : List Nat) (tr : List Xchg) (hid : id < 256)
    (hg : d.get id = some c) (hfit : off + data.length ≤ c.length) (h64 : c.length ≤ 65536)
    (hw : fruCfg.writeLen ≤ d.wmax) :
    let r := writeFruData fruCfg respond ⟨d, tr⟩ data off id
    r.out = .ok () ∧ r.w.dev.get id = some (splice c off data) ∧
      ∀ j, j ≠ id → r.w.dev.get j = d.get j := by
  have hc := (Cfg.ok_iff fruCfg).mp constants_ok
  have hn : fruCfg.writeLen ≠ 0 := by have := hc.2.2.2.2.2.2.2.1; omega
  have hflat := chunks_flatten fruCfg.writeLen hc.2.2.2.2.2.2.2.1 data
  have := writeChunks_exact64 id hid (chunks fruCfg.writeLen data) ⟨d, tr⟩ c off hg
    (fun ch hch => by
      have := chunks_len fruCfg.writeLen data ch hch
      have := chunks_pos fruCfg.writeLen hc.2.2.2.2.2.2.2.1 data ch hch
      have := hc.2.2.2.2.2.2.2.2
      exact ⟨by simp only; omega, by omega, by omega⟩)
    (by rw [hflat]; exact hfit) h64
  rw [hflat] at this
  simpa [writeFruData, hn] using this

/-- Whatever the peer is: if `write_fru_data` returns normally, every Write FRU Data it sent was
acknowledged with exactly the number of data bytes that request carried (so an acknowledge of a
different count is reported as an error). -/
theorem write_count_mismatch_raises {σ} (send : Send σ) (dev : σ) (data : List Nat) (off id : Nat)
    (h : (writeFruData fruCfg send ⟨dev, []⟩ data off id).out = .ok ()) :
    ∀ x ∈ (writeFruData fruCfg send ⟨dev, []⟩ data off id).w.trace,
      decodeWriteRsp x.rsp = .ok (x.req.payload.length - 3) := by
  unfold writeFruData at h ⊢
  split at h
  · simp at h
  · rename_i hn
    simp only [hn, if_false]
    exact writeChunks_acked send id _ _ _ (by intro x hx; cases hx) h

/-- Against the reference device: if it stores fewer bytes than the first chunk carries, the
outcome is the `Exception` raised by `write_fru_data`. -/
theorem write_short_ack_raises (d : FruDev) (id off : Nat) (c data : List Nat) (hid : id < 256)
    (hg : d.get id = some c) (hne : data ≠ []) (hfit : off + data.length ≤ c.length)
    (h64 : c.length ≤ 65535) (hshort : d.wmax < min fruCfg.writeLen data.length) :
    (writeFruData fruCfg respond ⟨d, []⟩ data off id).out = .pyError "Exception" := by
  have hc := (Cfg.ok_iff fruCfg).mp constants_ok
  have hn : fruCfg.writeLen ≠ 0 := by have := hc.2.2.2.2.2.2.2.1; omega
  have hpos : 0 < data.length := List.length_pos_iff.mpr hne
  obtain ⟨k, hk⟩ : ∃ k, data.length = k + 1 := ⟨data.length - 1, by omega⟩
  have hack := respond_write_ack d id off (data.take fruCfg.writeLen) c hid (by omega) hg (by omega)
  have hmin : min (c.length - off) (min d.wmax (min fruCfg.writeLen data.length)) % 256
      ≠ min fruCfg.writeLen data.length := by
    have := Nat.mod_le (min (c.length - off) (min d.wmax (min fruCfg.writeLen data.length))) 256
    omega
  simp only [writeFruData, hn, if_false, chunks, hk, chunksAux, hne, writeChunks, xchg, hack,
    decodeWrite_ok]
  simp [hmin]

/-! ### histories: a write that failed midway and is resumed; the fault-injecting device -/

/-- A write whose first `k` bytes reached the device before it failed (an error or a short acknowledge in a
later chunk) and that the caller resumes with `write_fru_data(data[k:], offset + k)` leaves exactly what one
complete write would have stored – on the same or on any other `Ipmi` object: the model of the transfer
carries no state from one call to the next. -/
theorem write_resumed_exact (d : FruDev) (id off k : Nat) (c data : List Nat) (tr : List Xchg)
    (hid : id < 256) (hk : k ≤ data.length)
    (hg : d.get id = some (splice c off (data.take k)))
    (hfit : off + data.length ≤ c.length) (h64 : c.length ≤ 65535) (hw : fruCfg.writeLen ≤ d.wmax) :
    let r := writeFruData fruCfg respond ⟨d, tr⟩ (data.drop k) (off + k) id
    r.out = .ok () ∧ r.w.dev.get id = some (splice c off data) ∧
      ∀ j, j ≠ id → r.w.dev.get j = d.get j := by
  have hlt : (data.take k).length = k := by simp; omega
  have hld : (data.drop k).length = data.length - k := by simp
  have hlen := splice_length c off (data.take k) (by omega)
  have h := write_exact d id (off + k) (splice c off (data.take k)) (data.drop k) tr hid hg
    (by omega) (by omega) hw
  have hs := splice_splice c (data.take k) (data.drop k) off (by omega)
  rw [hlt, List.take_append_drop] at hs
  simpa [hs] using h

/-! ### every write chunk size: `Fru.write_length` is a public attribute the caller may assign

The four statements above are for the value the source assigns in `Fru.__init__` (`fruCfg.writeLen`, 16
today).  The property quantifies over ALL write chunk sizes: here they are for every `wl` in 1..255 (the
largest count a Write FRU Data acknowledge can carry), the model running with `write_length = wl`; the harness
assigns the same `wl` to the real object. -/

/-- the transfer constants after the caller assigned `ipmi.write_length = wl` -/
def withWriteLen (wl : Nat) : Cfg := { fruCfg with writeLen := wl }

theorem withWriteLen_default : withWriteLen fruCfg.writeLen = fruCfg := rfl

theorem write_exact_any_chunk (wl : Nat) (h1 : 1 ≤ wl) (h255 : wl ≤ 255)
    (d : FruDev) (id off : Nat) (c data : List Nat) (tr : List Xchg) (hid : id < 256)
    (hg : d.get id = some c) (hfit : off + data.length ≤ c.length) (h64 : c.length ≤ 65536)
    (hw : wl ≤ d.wmax) :
    let r := writeFruData (withWriteLen wl) respond ⟨d, tr⟩ data off id
    r.out = .ok () ∧ r.w.dev.get id = some (splice c off data) ∧
      ∀ j, j ≠ id → r.w.dev.get j = d.get j := by
  have hn : wl ≠ 0 := by omega
  have hflat := chunks_flatten wl h1 data
  have := writeChunks_exact64 id hid (chunks wl data) ⟨d, tr⟩ c off hg
    (fun ch hch => by
      have := chunks_len wl data ch hch
      have := chunks_pos wl h1 data ch hch
      exact ⟨by simp only; omega, by omega, by omega⟩)
    (by rw [hflat]; exact hfit) h64
  rw [hflat] at this
  simpa [writeFruData, withWriteLen, hn] using this

/-- every chunk on the wire carries at most `wl` data bytes, all but the last exactly `wl`, and together
they are `data` in order (so `wl` really is the chunk size, not merely an upper bound) -/
theorem write_chunk_sizes (wl : Nat) (h1 : 1 ≤ wl) (data : List Nat) :
    (chunks wl data).flatten = data ∧ (∀ ch ∈ chunks wl data, ch.length ≤ wl) :=
  ⟨chunks_flatten wl h1 data, chunks_len wl data⟩

theorem write_count_mismatch_raises_any_chunk {σ} (wl : Nat) (send : Send σ) (dev : σ) (data : List Nat)
    (off id : Nat) (h : (writeFruData (withWriteLen wl) send ⟨dev, []⟩ data off id).out = .ok ()) :
    ∀ x ∈ (writeFruData (withWriteLen wl) send ⟨dev, []⟩ data off id).w.trace,
      decodeWriteRsp x.rsp = .ok (x.req.payload.length - 3) := by
  unfold writeFruData at h ⊢
  split at h
  · simp at h
  · rename_i hn
    simp only [hn, if_false]
    exact writeChunks_acked send id _ _ _ (by intro x hx; cases hx) h

theorem write_short_ack_raises_any_chunk (wl : Nat) (h1 : 1 ≤ wl)
    (d : FruDev) (id off : Nat) (c data : List Nat) (hid : id < 256)
    (hg : d.get id = some c) (hne : data ≠ []) (hfit : off + data.length ≤ c.length)
    (h64 : c.length ≤ 65535) (hshort : d.wmax < min wl data.length) :
    (writeFruData (withWriteLen wl) respond ⟨d, []⟩ data off id).out = .pyError "Exception" := by
  have hn : wl ≠ 0 := by omega
  have hpos : 0 < data.length := List.length_pos_iff.mpr hne
  obtain ⟨k, hk⟩ : ∃ k, data.length = k + 1 := ⟨data.length - 1, by omega⟩
  have hack := respond_write_ack d id off (data.take wl) c hid (by omega) hg (by omega)
  have hmin : min (c.length - off) (min d.wmax (min wl data.length)) % 256
      ≠ min wl data.length := by
    have := Nat.mod_le (min (c.length - off) (min d.wmax (min wl data.length))) 256
    omega
  simp only [writeFruData, withWriteLen, hn, if_false, chunks, hk, chunksAux, hne, writeChunks, xchg, hack,
    decodeWrite_ok]
  simp [hmin]

theorem write_resumed_exact_any_chunk (wl : Nat) (h1 : 1 ≤ wl) (h255 : wl ≤ 255)
    (d : FruDev) (id off k : Nat) (c data : List Nat) (tr : List Xchg)
    (hid : id < 256) (hk : k ≤ data.length)
    (hg : d.get id = some (splice c off (data.take k)))
    (hfit : off + data.length ≤ c.length) (h64 : c.length ≤ 65535) (hw : wl ≤ d.wmax) :
    let r := writeFruData (withWriteLen wl) respond ⟨d, tr⟩ (data.drop k) (off + k) id
    r.out = .ok () ∧ r.w.dev.get id = some (splice c off data) ∧
      ∀ j, j ≠ id → r.w.dev.get j = d.get j := by
  have hlt : (data.take k).length = k := by simp; omega
  have hld : (data.drop k).length = data.length - k := by simp
  have hlen := splice_length c off (data.take k) (by omega)
  have h := write_exact_any_chunk wl h1 h255 d id (off + k) (splice c off (data.take k)) (data.drop k) tr hid hg
    (by omega) (by omega) hw
  have hs := splice_splice c (data.take k) (data.drop k) off (by omega)
  rw [hlt, List.take_append_drop] at hs
  simpa [hs] using h

/-- `write_length = 0` is refused before any request is sent (Python: `range()` with step 0). -/
theorem write_length_zero_sends_nothing {σ} (send : Send σ) (w : World σ) (data : List Nat) (off id : Nat) :
    (writeFruData (withWriteLen 0) send w data off id).out = .pyError "ValueError" ∧
    (writeFruData (withWriteLen 0) send w data off id).w = w := by
  simp [writeFruData, withWriteLen]

/-- 40 bytes with `write_length = 5` go out as eight requests of 3 + 5 bytes; with 17 as 17 + 17 + 6 -/
example : ((writeFruData (withWriteLen 5) respond ⟨⟨[(3, List.replicate 60 0)], 32, 0xCA, false, 255⟩, []⟩
    (List.replicate 40 9) 5 3).w.trace.map (·.req.payload.length)) = List.replicate 8 8 ∧
    ((writeFruData (withWriteLen 17) respond ⟨⟨[(3, List.replicate 60 0)], 32, 0xCA, false, 255⟩, []⟩
    (List.replicate 40 9) 5 3).w.trace.map (·.req.payload.length)) = [20, 20, 9] := by decide

/-- an acknowledge LARGER than the chunk (request 1 of 5-byte chunks acknowledged with 6): the library raises,
the bytes of both chunks are stored -/
example : (writeFruData (withWriteLen 5) respondF ⟨⟨⟨[(3, List.replicate 60 0)], 32, 0xCA, false, 255⟩, 0, [(1, .ack 6)]⟩, []⟩
    (List.replicate 40 9) 5 3).out = .pyError "Exception" ∧
    ((writeFruData (withWriteLen 5) respondF ⟨⟨⟨[(3, List.replicate 60 0)], 32, 0xCA, false, 255⟩, 0, [(1, .ack 6)]⟩, []⟩
    (List.replicate 40 9) 5 3).w.dev.dev.get 3) = some (splice (List.replicate 60 0) 5 (List.replicate 10 9)) := by decide

/-! ### the error comes AT the first deviating acknowledgement, whatever the later ones would have been

`write_count_mismatch_raises(_any_chunk)` say: a write that returns normally saw only exact acknowledgements.
That leaves open WHEN a deviation is reported (a library that sums the acknowledged counts and compares the
total after the last chunk also raises on every single deviation - and lets two deviations that cancel, 15 and
17 for two 16-byte chunks, pass).  The full statement: for ANY peer and any chunk size, if acknowledgement `k`
is the first that names another count than its request carried, the write performs exactly the requests
`0..k` and raises the library's `Exception`; nothing is assumed about what the peer would answer afterwards. -/

/-- the transcript of the peer if EVERY chunk request of `write_fru_data(data, off, id)` with
`write_length = wl` were put to it in order (`Lemmas/XferFru.offered`: defined from the peer and the chunking,
not from the library's loop) -/
def offeredWrite {σ} (wl : Nat) (send : Send σ) (dev : σ) (data : List Nat) (off id : Nat) : List Xchg :=
  offered send dev id off (chunks wl data)

/-- its requests are the chunks of `data` (`write_chunk_sizes`) at consecutive offsets, one per chunk -/
theorem offered_write_requests {σ} (wl : Nat) (send : Send σ) (dev : σ) (data : List Nat) (off id : Nat) :
    (offeredWrite wl send dev data off id).map (·.req) = chunkReqs id off (chunks wl data) ∧
    (offeredWrite wl send dev data off id).length = (chunks wl data).length :=
  ⟨offered_reqs send id _ dev off, offered_length send id _ dev off⟩

/-- ANY peer, ANY chunk size, ANY answer that is not "OK + exactly the bytes of this request" (another count,
an error completion code, a malformed response): the write performs the offered exchanges up to and including
the first such answer and no other, and ends with the corresponding error. -/
theorem write_stops_at_first_bad_answer {σ} (wl : Nat) (h1 : 1 ≤ wl) (send : Send σ) (dev : σ)
    (data : List Nat) (off id k : Nat) (x : Xchg)
    (hk : (offeredWrite wl send dev data off id)[k]? = some x)
    (hbefore : ∀ i, i < k → ∀ y, (offeredWrite wl send dev data off id)[i]? = some y → ExactAck y)
    (hbad : ¬ ExactAck x) :
    let r := writeFruData (withWriteLen wl) send ⟨dev, []⟩ data off id
    r.out = stopOutcome x.rsp ∧ r.out ≠ .ok () ∧
      r.w.trace = (offeredWrite wl send dev data off id).take (k + 1) ∧ r.w.trace.length = k + 1 := by
  have hn : wl ≠ 0 := by omega
  have key := writeChunks_stops_at_first_bad send id (chunks wl data) ⟨dev, []⟩ off k x hk hbefore hbad
  have hlen : k < (offeredWrite wl send dev data off id).length := by
    rcases Nat.lt_or_ge k (offeredWrite wl send dev data off id).length with h | h
    · exact h
    · rw [List.getElem?_eq_none h] at hk; cases hk
  simp only [writeFruData, withWriteLen, hn, if_false]
  refine ⟨key.1, ?_, by simpa [offeredWrite] using key.2, ?_⟩
  · rw [key.1]; unfold stopOutcome
    cases hdec : decodeWriteRsp x.rsp <;> simp [castErr]
  · rw [key.2]; simp only [List.nil_append, List.length_take]
    simp only [offeredWrite] at hlen; omega

/-- C10, the write clause at full strength: if the `k`-th acknowledgement is the first that differs from the
length of its chunk (`n` instead of `|chunk k|`, shorter or longer), `write_fru_data` raises after exactly
`k + 1` requests - the trace is the first `k + 1` offered exchanges.  No hypothesis speaks about the
acknowledgements after `k`: deviations that would cancel in a sum do not help. -/
theorem write_raises_at_first_count_mismatch {σ} (wl : Nat) (h1 : 1 ≤ wl) (send : Send σ) (dev : σ)
    (data : List Nat) (off id k n : Nat) (x : Xchg)
    (hk : (offeredWrite wl send dev data off id)[k]? = some x)
    (hbefore : ∀ i, i < k → ∀ y, (offeredWrite wl send dev data off id)[i]? = some y → ExactAck y)
    (hack : decodeWriteRsp x.rsp = .ok n) (hne : n ≠ x.req.payload.length - 3) :
    let r := writeFruData (withWriteLen wl) send ⟨dev, []⟩ data off id
    r.out = .pyError "Exception" ∧
      r.w.trace = (offeredWrite wl send dev data off id).take (k + 1) ∧ r.w.trace.length = k + 1 := by
  have hbad : ¬ ExactAck x := by
    intro h; unfold ExactAck at h; rw [hack] at h; injection h with h; exact hne h
  have key := write_stops_at_first_bad_answer wl h1 send dev data off id k x hk hbefore hbad
  refine ⟨?_, key.2.2.1, key.2.2.2⟩
  rw [key.1]; simp [stopOutcome, hack]

/-- the converse: when every offered exchange is an exact acknowledgement the write performs all of them and
returns normally (so the error of the two theorems above is raised ONLY on a deviation) -/
theorem write_all_acked_returns {σ} (wl : Nat) (h1 : 1 ≤ wl) (send : Send σ) (dev : σ)
    (data : List Nat) (off id : Nat)
    (hall : ∀ y ∈ offeredWrite wl send dev data off id, ExactAck y) :
    let r := writeFruData (withWriteLen wl) send ⟨dev, []⟩ data off id
    r.out = .ok () ∧ r.w.trace = offeredWrite wl send dev data off id := by
  have hn : wl ≠ 0 := by omega
  have key := writeChunks_all_acked send id (chunks wl data) ⟨dev, []⟩ off hall
  simp only [writeFruData, withWriteLen, hn, if_false]
  exact ⟨key.1, by simpa [offeredWrite] using key.2⟩

/-- the two deviating devices of the non-vacuity examples: 64 bytes in 16-byte chunks; acknowledgements
15, 17, 16, 16 (short first, adjacent) and 17, 16, 16, 15 (long first, far apart) - both sum to 64 -/
def cancelDev (plan : List (Nat × Fault)) : FaultyDev :=
  ⟨⟨[(3, List.replicate 80 0)], 32, 0xCA, false, 255⟩, 0, plan⟩

def acksOf (tr : List Xchg) : List Nat := tr.map fun x => x.rsp.getD 1 0

/-- non-vacuity of `write_raises_at_first_count_mismatch` with TWO deviations that cancel: the offered
acknowledgements are 15, 17, 16, 16 (sum 64 = bytes given), `k = 0`; the write raises after ONE request. -/
example : acksOf (offeredWrite 16 respondF (cancelDev [(0, .ack 15), (1, .ack 17)]) (List.replicate 64 9) 5 3)
      = [15, 17, 16, 16] ∧
    (acksOf (offeredWrite 16 respondF (cancelDev [(0, .ack 15), (1, .ack 17)]) (List.replicate 64 9) 5 3)).sum = 64 ∧
    (writeFruData (withWriteLen 16) respondF ⟨cancelDev [(0, .ack 15), (1, .ack 17)], []⟩ (List.replicate 64 9) 5 3).out
      = .pyError "Exception" ∧
    (writeFruData (withWriteLen 16) respondF ⟨cancelDev [(0, .ack 15), (1, .ack 17)], []⟩ (List.replicate 64 9) 5 3).w.trace.length
      = 1 := by decide

/-- long first, far apart (17, 16, 16, 15): raised at request 0 as well; with the deviations at requests 1 and 3
(16, 13, 16, 19) the write raises after two requests -/
example : acksOf (offeredWrite 16 respondF (cancelDev [(0, .ack 17), (3, .ack 15)]) (List.replicate 64 9) 5 3)
      = [17, 16, 16, 15] ∧
    (writeFruData (withWriteLen 16) respondF ⟨cancelDev [(0, .ack 17), (3, .ack 15)], []⟩ (List.replicate 64 9) 5 3).out
      = .pyError "Exception" ∧
    (writeFruData (withWriteLen 16) respondF ⟨cancelDev [(0, .ack 17), (3, .ack 15)], []⟩ (List.replicate 64 9) 5 3).w.trace.length
      = 1 ∧
    acksOf (offeredWrite 16 respondF (cancelDev [(1, .ack 13), (3, .ack 19)]) (List.replicate 64 9) 5 3)
      = [16, 13, 16, 19] ∧
    (writeFruData (withWriteLen 16) respondF ⟨cancelDev [(1, .ack 13), (3, .ack 19)], []⟩ (List.replicate 64 9) 5 3).out
      = .pyError "Exception" ∧
    (writeFruData (withWriteLen 16) respondF ⟨cancelDev [(1, .ack 13), (3, .ack 19)], []⟩ (List.replicate 64 9) 5 3).w.trace.length
      = 2 := by decide

/-- the hypotheses of the theorem instantiated on the first device (k = 0, n = 15, sent 16) -/
example : ∃ x, (offeredWrite 16 respondF (cancelDev [(0, .ack 15), (1, .ack 17)]) (List.replicate 64 9) 5 3)[0]? = some x ∧
    decodeWriteRsp x.rsp = .ok 15 ∧ x.req.payload.length - 3 = 16 := ⟨_, rfl, by decide, by decide⟩

/-- The device the history runs use (faults at chosen request indices) is the reference device as long as
its fault plan is empty, so everything proved about `respond` holds for the steps without faults; the
theorems stated for every peer (`requests_name_fru`, `write_count_mismatch_raises`) cover the faulted ones. -/
theorem faultless_plan_is_reference_device (d : FruDev) (n cmd : Nat) (p : List Nat) :
    respondF ⟨d, n, []⟩ cmd p = (⟨(respond d cmd p).1, n + 1, []⟩, (respond d cmd p).2) :=
  respondF_nofault d n cmd p

/-- a 40-byte write whose third chunk (request 2) is answered C3h stops there with 32 bytes stored -/
example : (writeFruData fruCfg respondF ⟨⟨⟨[(3, List.replicate 60 0)], 32, 0xCA, false, 16⟩, 0, [(2, .cc 0xC3)]⟩, []⟩
    (List.replicate 40 9) 5 3).out = .ccError 0xC3 ∧
    ((writeFruData fruCfg respondF ⟨⟨⟨[(3, List.replicate 60 0)], 32, 0xCA, false, 16⟩, 0, [(2, .cc 0xC3)]⟩, []⟩
    (List.replicate 40 9) 5 3).w.dev.dev.get 3) = some (splice (List.replicate 60 0) 5 (List.replicate 32 9)) := by decide

/-- a chunk of which the device stores only 3 bytes: the library raises, 16 + 3 bytes are stored -/
example : (writeFruData fruCfg respondF ⟨⟨⟨[(3, List.replicate 60 0)], 32, 0xCA, false, 16⟩, 0, [(1, .short 3)]⟩, []⟩
    (List.replicate 40 9) 5 3).out = .pyError "Exception" ∧
    ((writeFruData fruCfg respondF ⟨⟨⟨[(3, List.replicate 60 0)], 32, 0xCA, false, 16⟩, 0, [(1, .short 3)]⟩, []⟩
    (List.replicate 40 9) 5 3).w.dev.dev.get 3) = some (splice (List.replicate 60 0) 5 (List.replicate 19 9)) := by decide

/-! ### the pinned source: `get_fru_multirecord_area` drops the FRU id -/

/-- FRU 0 and FRU 1, 16 bytes each: common header (multirecord area at offset 8) and one
end-of-list record; FRU 0's record is `01 82 00 00 7D`, FRU 1's is `02 82 01 AB D0 55`. -/
def demoDev : FruDev :=
  ⟨[(0, [1, 0, 0, 0, 0, 1, 0, 0xFE, 0x01, 0x82, 0x00, 0x00, 0x7D, 0, 0, 0]),
    (1, [1, 0, 0, 0, 0, 1, 0, 0xFE, 0x02, 0x82, 0x01, 0xAB, 0xD0, 0x55, 0, 0])], 32, 0xCA, false, 16⟩

/-- As shipped, reading the multirecord area of FRU 1 sends requests that name FRU 0 … -/
theorem multirecord_as_shipped_misaddresses :
    ¬ (∀ x ∈ (getMultirecord fruCfg respond ⟨true, true, false, false, false, false, false⟩ ⟨demoDev, []⟩ 1).w.trace,
        x.req.payload.head? = some 1) := by
  intro h
  have : namedB 1 (getMultirecord fruCfg respond ⟨true, true, false, false, false, false, false⟩ ⟨demoDev, []⟩ 1).w.trace = true := by
    rw [namedB_iff]; exact h
  revert this
  decide

/-- … and hands the parser FRU 0's record instead of FRU 1's. -/
theorem multirecord_as_shipped_wrong_data :
    (getMultirecord fruCfg respond ⟨true, true, false, false, false, false, false⟩ ⟨demoDev, []⟩ 1).out = .ok (some [0x01, 0x82, 0x00, 0x00, 0x7D]) ∧
    (getMultirecord fruCfg respond Var.pinned ⟨demoDev, []⟩ 1).out = .ok (some [0x02, 0x82, 0x01, 0xAB, 0xD0, 0x55]) := by
  decide

/-! ### non-vacuity -/

example : DevOk demoDev := ⟨by decide, by decide, by decide⟩
example : DevOk ⟨[], 2, 0xC8, false, 0⟩ := ⟨by decide, by decide, by decide⟩
example : DevOk ⟨[], 1, 0xC9, true, 0⟩ := ⟨by decide, by decide, by decide⟩

/-- a limit of 3 with code C9h: 32 → 30 → … → 4 are rejected (15 exchanges), then 25 two-byte reads -/
example : (readFruData fruCfg respond ⟨⟨[(0, []), (7, List.range 60)], 3, 0xC9, false, 16⟩, []⟩
    (some 1) 50 7).out = .ok ((List.range 60).drop 1 |>.take 50) := by decide

example : ((readFruData fruCfg respond ⟨⟨[(0, []), (7, List.range 60)], 3, 0xC9, false, 16⟩, []⟩
    (some 1) 50 7).w.trace.length) = 40 := by decide

/-- a write of 20 bytes goes out as 16 + 4 -/
example : ((writeFruData fruCfg respond ⟨⟨[(3, List.replicate 40 0)], 32, 0xCA, false, 16⟩, []⟩
    (List.replicate 20 9) 5 3).w.trace.map (·.req.payload.length)) = [19, 7] := by decide

/-- a device that stores at most 8 bytes per write: the library raises -/
example : (writeFruData fruCfg respond ⟨⟨[(3, List.replicate 40 0)], 32, 0xCA, false, 8⟩, []⟩
    (List.replicate 20 9) 5 3).out = .pyError "Exception" := by decide

/-- FRU 5: common header announcing a chassis area at offset 8 whose length byte is 00h.  Without the
check of fixes/C15-2.diff `_read_fru_area` reads 0 bytes (header read + 5-byte read, then no request) and
hands `b''` to the parser; with it the 5-byte read is followed by `DecodingError` – the same two requests,
both naming FRU 5. -/
example :
    let dev : FruDev := ⟨[(0, []), (5, [1, 0, 1, 0, 0, 0, 0, 0xFE, 0x01, 0x00, 0x17, 0xC0, 0xC0, 0xC1, 0x00, 0xA7])], 32, 0xCA, false, 16⟩
    (getInfoArea fruCfg respond (Var.intended false) ⟨dev, []⟩ .chassis 5).out = .ok (some []) ∧
    (getInfoArea fruCfg respond (Var.intended true) ⟨dev, []⟩ .chassis 5).out = .decodingError ∧
    (getInfoArea fruCfg respond (Var.intended true) ⟨dev, []⟩ .chassis 5).w.trace.length = 2 ∧
    namedB 5 (getInfoArea fruCfg respond (Var.intended true) ⟨dev, []⟩ .chassis 5).w.trace = true ∧
    (getInventory fruCfg respond (Var.intended true) ⟨dev, []⟩ 5).out = .decodingError := by decide

/-- the intended multirecord read of FRU 1 names FRU 1 throughout (3 exchanges) -/
example : namedB 1 (getMultirecord fruCfg respond Var.pinned ⟨demoDev, []⟩ 1).w.trace = true ∧
    (getMultirecord fruCfg respond Var.pinned ⟨demoDev, []⟩ 1).w.trace.length = 3 := by decide

end PyIpmi.Props.C10
