/-
  C08 — Errors reported by the BMC are never mistaken for success.

  Device model (Spec/FaultDevice.lean): the BMC is a fixed script `base : Req → Rsp`;
  `faultDev base k c` answers request number k with the bare completion code c ≠ 0.
  `Safe c good bad`: the faulted outcome is `ccError c`, RetryError, HpmError, or equals the
  fault-free outcome.  `FaultSafe base p`: that, from every position, for every k and c ≠ 0.

  Generic theorems (by induction on the program)
  * `checked_fault_safe`            every program built from sendChecked, bind and whitelisted
                                    handlers is fault-safe                         (∀ base, k, c)
  * `checked_fault_safe_on`         same for a restricted code alphabet
  * `checked_multi_fault_safe`      handler-free programs, ANY number of faults: the error
                                    carries one of the injected codes, or nothing changed
  Whitelisted handlers (the leaves of `Built`), each under the device hypotheses it needs
  * `sdr_chunk_fault_safe`          busy/timeout retry + reservation renewal (∀ budgets)
  * `clear_repository_fault_safe`   reservation renewal while erasing (∀ budgets)
  * `hpm_and_wait_fault_safe`, `upload_binary_fault_safe`   HPM in-progress polling (∀ block lists)
  * `read_fru_exact`, `read_fru_fault_safe`, `op_read_fru_data_fault_safe`
                                    FRU size back-off (∀ area sizes, request sizes, offsets)
  Per-shape corollaries
  * `skeleton_fault_safe`, `skeleton_multi_fault_safe`   every resolution (`Env`, fuel) of a
                                    skeleton of sends / calls / branches / loops
  Generated table (decide +kernel over Gen/ApiShapes.lean × Gen/Registry.lean)
  * `table_ok`                      every send is a registered request whose response starts
                                    with the completion code; checked operations only call checked
                                    operations; calls point backwards; loop ⇔ handler kinds
  * `residue_closed`                every public operation classified `other` is in the listed residue
  * `design_checked_stable`, `design_loop_stable`   the census taken at design time still holds
  * `handler_codes_pinned`          the codes the handlers test for
  The two operations the pinned tree gets wrong (DESIGN §2.4: both variants)
  * `component_props_as_shipped_counterexample`   a swallowed code yields a shortened list
  * `component_props_intended_fault_safe`         with `else: raise`: safe for every code but 0x83
  * `channel_auth_caps_as_shipped_counterexample` AttributeError without any exchange
  * `channel_auth_caps_intended_fault_safe`

  Not covered by a theorem (correspondence-level evidence only, see harness/props/c08.py):
  operations of shape `other`, and the handler kinds restartOnCancel / selBackoff / sdrBackoff.
-/
import PyIpmi.Lemmas.ProgHandlers
import PyIpmi.Lemmas.ProgFru
import PyIpmi.Lemmas.ProgTable
namespace PyIpmi.Props.C08
open PyIpmi PyIpmi.Prog PyIpmi.Spec.FaultDevice PyIpmi.Gen.ApiShapes

/-! ### generic -/

theorem checked_fault_safe_on {α : Type} (P : Nat → Prop) (base : Req → Rsp) (p : Prog α)
    (h : Built P base p) : FaultSafeOn P base p :=
  built_fault_safe P base p h

theorem checked_fault_safe {α : Type} (base : Req → Rsp) (p : Prog α)
    (h : Built (fun _ => True) base p) : FaultSafe base p :=
  (faultSafe_iff_on base p).mpr (built_fault_safe _ base p h)

/-- Any number of faults, all with non-OK codes: a handler-free program ends in an error
carrying one of the injected codes, or exactly as without faults. -/
theorem checked_multi_fault_safe {α : Type} (base : Req → Rsp) (φ : Nat → Option Nat)
    (hφ : ∀ n c, φ n = some c → c ≠ 0) (p : Prog α) (h : Checked p) (n : Nat) :
    SafeAny (fun c => ∃ m, φ m = some c) (outcome p (pureDev base) n) (outcome p (faultsDev base φ) n) :=
  checked_multi base φ hφ p h n

/-! ### whitelisted handlers -/

/-- helper.get_sdr_chunk_helper: `reserve` is itself fault-safe and hands out reservation `res`
on the fault-free device; the request already carries that reservation. -/
theorem sdr_chunk_fault_safe (cs : ChunkCodes) (reserve : Prog Nat) (setRes : Nat → Req → Req)
    (base : Req → Rsp) (hfs : FaultSafe base reserve)
    (res : Nat) (hres : ∀ n, outcome reserve (pureDev base) n = .ok res)
    (req : Req) (hfix : setRes res req = req) (budget : Nat) :
    FaultSafe base (sdrChunk cs reserve setRes budget req) :=
  (faultSafe_iff_on _ _).mpr
    (sdrChunk_fs cs reserve setRes base _ ((faultSafe_iff_on _ _).mp hfs) res hres req hfix budget)

/-- helper.clear_repository_helper (clear_sel, clear_sdr_repository). -/
theorem clear_repository_fault_safe (resCanceled : Nat) (reserve : Prog Nat)
    (mkInit mkStatus : Nat → Req) (busy : Rsp → Bool) (base : Req → Rsp)
    (hfs : FaultSafe base reserve)
    (res : Nat) (hres : ∀ n, outcome reserve (pureDev base) n = .ok res) (budget : Nat) :
    FaultSafe base (clearRepository resCanceled reserve mkInit mkStatus busy budget) :=
  (faultSafe_iff_on _ _).mpr
    (clearRepository_fs resCanceled reserve busy base _ mkInit mkStatus
      ((faultSafe_iff_on _ _).mp hfs) res hres budget)

/-- hpm.*_and_wait: the operation and the status query succeed on the fault-free device. -/
theorem hpm_and_wait_fault_safe (base : Req → Rsp) (inProgress : Nat) (r status : Req)
    (busy : Rsp → Bool) (polls : Nat) (hok : (base r).cc = 0) (hst : (base status).cc = 0) :
    FaultSafe base (andWait inProgress ((sendChecked r).bind fun _ => .done ())
      (waitLong status busy polls)) :=
  (faultSafe_iff_on _ _).mpr
    (andWait_fs base _ inProgress r _ hok (fun n => waitLong_pure_ok base status busy hst polls n))

/-- hpm.upload_binary, for every list of blocks. -/
theorem upload_binary_fault_safe (base : Req → Rsp) (inProgress : Nat) (status : Req)
    (busy : Rsp → Bool) (polls : Nat) (blocks : List Req)
    (hok : ∀ b ∈ blocks, (base b).cc = 0) (hst : (base status).cc = 0) :
    FaultSafe base (uploadBinary inProgress (waitLong status busy polls) blocks) :=
  (faultSafe_iff_on _ _).mpr
    (uploadBinary_fs base _ inProgress _ (fun n => waitLong_pure_ok base status busy hst polls n) blocks hok)

/-- fru.read_fru_data without faults returns exactly store[off : area], whatever the request
size, against a consistent storage. -/
theorem read_fru_exact (mk : Nat → Nat → Req) (cnt : Rsp → Nat) (pay : Rsp → List Nat)
    (back : List Nat) (area : Nat) (base : Req → Rsp) (store : List Nat)
    (hdev : FruStorage mk cnt pay area base store)
    (fuel off reqSize : Nat) (acc : List Nat) (n : Nat) (hf : area - off + 1 ≤ fuel) (hrs : 1 ≤ reqSize) :
    outcome (readFru mk cnt pay back area fuel off reqSize acc) (pureDev base) n =
      .ok (acc ++ (store.drop off).take (area - off)) :=
  readFru_exact mk cnt pay back area base store hdev fuel off reqSize acc n hf hrs

theorem read_fru_fault_safe (mk : Nat → Nat → Req) (cnt : Rsp → Nat) (pay : Rsp → List Nat)
    (back : List Nat) (area : Nat) (base : Req → Rsp) (store : List Nat)
    (hdev : FruStorage mk cnt pay area base store)
    (fuel off reqSize : Nat) (acc : List Nat) (hf : area - off + 2 ≤ fuel) (hrs : 1 ≤ reqSize) :
    FaultSafe base (readFru mk cnt pay back area fuel off reqSize acc) :=
  (faultSafe_iff_on _ _).mpr
    (readFru_fs mk cnt pay back area base store _ hdev fuel off reqSize acc hf hrs)

/-- read_fru_data(offset=None): area size query, then the loop. -/
theorem op_read_fru_data_fault_safe (info : Req) (areaOf : Rsp → Nat) (mk : Nat → Nat → Req)
    (cnt : Rsp → Nat) (pay : Rsp → List Nat) (back : List Nat) (base : Req → Rsp) (store : List Nat)
    (hdev : FruStorage mk cnt pay (areaOf (base info)) base store)
    (fuel reqSize : Nat) (hf : areaOf (base info) + 2 ≤ fuel) (hrs : 1 ≤ reqSize) :
    FaultSafe base (readFruData info areaOf mk cnt pay back fuel reqSize) := by
  apply checked_fault_safe
  unfold readFruData
  refine .bind _ _ (.sendChecked _) (fun rsp hr => .handler _ ?_)
  obtain ⟨n, hn⟩ := hr
  have hrsp : rsp = base info := by
    unfold sendChecked at hn
    rw [outcome_send, pureDev_snd] at hn
    by_cases h0 : (base info).cc = 0
    · rw [if_pos h0] at hn; cases hn; rfl
    · rw [if_neg h0] at hn; cases hn
  subst hrsp
  exact readFru_fs mk cnt pay back _ base store _ hdev fuel 0 reqSize [] (by omega) hrs

/-! ### per-shape corollaries -/

/-- Every program that follows a skeleton of checked sends, calls of checked operations,
branches and loops -- however the data-dependent decisions and payloads are resolved --
is fault-safe against every device. -/
theorem skeleton_fault_safe (env : Env) (table : List Sk) (fuel : Nat) (sk : Sk) (st : St)
    (base : Req → Rsp) : FaultSafe base (Sk.run env table fuel sk st) :=
  checked_fault_safe base _ ((Sk.run_checked env table fuel sk st).built _ base)

theorem skeleton_multi_fault_safe (env : Env) (table : List Sk) (fuel : Nat) (sk : Sk) (st : St)
    (base : Req → Rsp) (φ : Nat → Option Nat) (hφ : ∀ n c, φ n = some c → c ≠ 0) (n : Nat) :
    SafeAny (fun c => ∃ m, φ m = some c)
      (outcome (Sk.run env table fuel sk st) (pureDev base) n)
      (outcome (Sk.run env table fuel sk st) (faultsDev base φ) n) :=
  checked_multi base φ hφ _ (Sk.run_checked env table fuel sk st) n

/-! ### the generated table -/

theorem table_ok : tableOk PyIpmi.Gen.Registry.all table = true := by decide +kernel

theorem residue_closed : residueClosed table residue = true := by decide +kernel

theorem design_checked_stable : keysHaveShape table designChecked isCheckedShape = true := by
  decide +kernel

theorem design_loop_stable :
    keysHaveShape table designLoop (fun s => isCheckedShape s || decide (s = .loop)) = true := by
  decide +kernel

theorem handler_codes_pinned :
    codes_fruBackoff = [0xC8, 0xC9, 0xCA] ∧ codes_hpmWait = [0x80] ∧
    codes_restartOnCancel = [0xC5] ∧ codes_selBackoff = [0xCA] ∧
    codes_sdrChunk = [0xC3, 0xC5, 0xCE] ∧ codes_clearRenew = [0xC5] ∧
    (codes_skipInvalidSelector = [] ∨ codes_skipInvalidSelector = [0x83]) ∧
    (codes_sdrBackoff = [] ∨ codes_sdrBackoff = [0xCA]) := by decide

/-! ### the two operations the pinned tree gets wrong -/

/-- A device that echoes the request payload. -/
def echo : Req → Rsp := fun r => ⟨0, r.data⟩

/-- hpm.get_component_properties as shipped: code 0xC1 at the second of two property queries
is swallowed and a shortened list is returned as if it were the BMC's data. -/
theorem component_props_as_shipped_counterexample :
    ¬ FaultSafe echo (componentProps false 0x83 (·.data) [⟨1, [0]⟩, ⟨1, [1]⟩]) := by
  intro h
  have h1 := (safeB_iff 0xC1 _ _).mpr (h 0 1 0xC1 (by decide))
  revert h1
  decide

/-- …with the intended `else: raise` every code other than the documented 0x83 is safe. -/
theorem component_props_intended_fault_safe (base : Req → Rsp) (invalidSel : Nat)
    (decode : Rsp → List Nat) (queries : List Req) :
    FaultSafeOn (fun c => c ≠ invalidSel) base (componentProps true invalidSel decode queries) :=
  componentProps_strict_fs base invalidSel decode queries

/-- messaging.get_channel_authentication_capabilities as shipped: on every device, in every
state, it ends in AttributeError without having asked the BMC anything. -/
theorem channel_auth_caps_as_shipped_counterexample {σ : Type} (r : Req) (d : Dev σ) (s : σ) :
    outcome (channelAuthCaps false r) d s = .error (.pyError "AttributeError") ∧
      trace (channelAuthCaps false r) d s = [] :=
  ⟨rfl, rfl⟩

theorem channel_auth_caps_intended_fault_safe (base : Req → Rsp) (r : Req) :
    FaultSafe base (channelAuthCaps true r) :=
  checked_fault_safe base _ (.sendChecked r)

/-! ### non-vacuity -/

-- a two-request checked program: fault at the second request
example : outcome ((sendChecked ⟨1, [5]⟩).bind fun a => (sendChecked ⟨2, a.data⟩).bind fun b => .done (a.data ++ b.data))
    (faultDev echo 1 0xC1) 0 = .error (.ccError 0xC1) := by decide
example : outcome ((sendChecked ⟨1, [5]⟩).bind fun a => (sendChecked ⟨2, a.data⟩).bind fun b => .done (a.data ++ b.data))
    (pureDev echo) 0 = .ok [5, 5] := by decide

-- the hypotheses of sdr_chunk_fault_safe are satisfiable, and the handler does recover
def demoReserve : Prog Nat := (sendChecked ⟨9, [7]⟩).bind fun rsp => .done (rsp.data.headD 0)
def demoSetRes (r : Nat) (q : Req) : Req := { q with data := r :: q.data.tail }
def demoCodes : ChunkCodes := ⟨0xC5, 0xC3, 0xCE⟩
example : ∀ n, outcome demoReserve (pureDev echo) n = .ok 7 := fun _ => rfl
example : demoSetRes 7 ⟨3, [7, 1, 2]⟩ = ⟨3, [7, 1, 2]⟩ := rfl
example : FaultSafe echo demoReserve :=
  checked_fault_safe echo _ (.bind _ _ (.sendChecked _) (fun _ _ => .done _))
example : outcome (sdrChunk demoCodes demoReserve demoSetRes 4 ⟨3, [7, 1, 2]⟩) (faultDev echo 0 0xC5) 0
    = .ok ⟨0, [7, 1, 2]⟩ := by decide
example : outcome (sdrChunk demoCodes demoReserve demoSetRes 4 ⟨3, [7, 1, 2]⟩) (faultDev echo 0 0xC1) 0
    = .error (.ccError 0xC1) := by decide
example : outcome (sdrChunk demoCodes demoReserve demoSetRes 1 ⟨3, [7, 1, 2]⟩) (faultDev echo 0 0xC3) 0
    = .error .retryError := by decide

-- a consistent FRU storage exists; back-off after 0xCA returns the same bytes
def demoStore : List Nat := [10, 11, 12, 13, 14, 15, 16, 17, 18, 19]
def demoMk (off n : Nat) : Req := ⟨0x11, [off, n]⟩
def demoFru : Req → Rsp := fun r =>
  match r.data with
  | [off, n] => ⟨0, n :: (demoStore.drop off).take n⟩
  | _ => ⟨0xC1, []⟩
example : FruStorage demoMk (·.data.headD 0) (·.data.tail) 10 demoFru demoStore := by
  intro off n _ _
  simp [demoMk, demoFru]
example : outcome (readFru demoMk (·.data.headD 0) (·.data.tail) [0xC8, 0xC9, 0xCA] 10 12 0 4 [])
    (faultDev demoFru 1 0xCA) 0 = .ok demoStore := by decide
example : outcome (readFru demoMk (·.data.headD 0) (·.data.tail) [0xC8, 0xC9, 0xCA] 10 12 0 4 [])
    (faultDev demoFru 1 0xC1) 0 = .error (.ccError 0xC1) := by decide

-- the table has operations of every kind the theorems talk about
example : (table.filter fun op => op.pub && isCheckedShape op.shape).length ≥ 100 := by decide
example : (table.filter fun op => op.pub && decide (op.shape = .loop)).length ≥ 20 := by decide

-- HPM: 0x80 is turned into polling and success, any other code into HpmError
example : outcome (andWait 0x80 ((sendChecked ⟨1, []⟩).bind fun _ => .done ())
    (waitLong ⟨2, []⟩ (fun _ => false) 3)) (faultDev echo 0 0x80) 0 = .ok () := by decide
example : outcome (andWait 0x80 ((sendChecked ⟨1, []⟩).bind fun _ => .done ())
    (waitLong ⟨2, []⟩ (fun _ => false) 3)) (faultDev echo 0 0xD5) 0 = .error .hpmError := by decide

-- intended componentProps on the counter-example's input: the code is reported
example : outcome (componentProps true 0x83 (·.data) [⟨1, [0]⟩, ⟨1, [1]⟩]) (faultDev echo 1 0xC1) 0
    = .error (.ccError 0xC1) := by decide

end PyIpmi.Props.C08
