/-
  C08 — Errors reported by the BMC are never mistaken for success.

  Device model (Spec/FaultDevice.lean): the BMC is a fixed script `base : Req → Rsp`;
  `faultDev base k c` answers request number k with the bare completion code c ≠ 0,
  `faultsDev base φ` does so at every position the fault set φ selects.
  `Safe c good bad`: the faulted outcome is `ccError c`, RetryError, HpmError, or equals the
  fault-free outcome.  `FaultSafe base p`: that, from every position, for every k and c ≠ 0.
  `MultiSafeOn Φ base p`: the same for EVERY fault set admitted by Φ (any number of faults, any
  positions, any codes); `AnyFaults` admits all of them.

  Generic theorems (by induction on the program)
  * `checked_fault_safe`, `checked_fault_safe_on`   programs built from sendChecked, bind and
                                    whitelisted handlers, one fault                (∀ base, k, c)
  * `checked_multi_fault_safe`, `checked_any_faults`   handler-free programs, any fault set
  * `any_fault_set_covers_single`   MultiSafeOn ⇒ FaultSafe (one fault is a fault set)
  * `composition_fault_safe`, `composition_multi_safe`   every resolution of a skeleton over
                                    modelled operations (leaves) that are safe where reached
  Handlers (each under the device hypotheses it needs; `*_fault_safe` one fault,
  `*_multi_safe` any fault set)
  * `sdr_chunk_*`            busy/timeout retry + reservation renewal (∀ budgets)
  * `clear_repository_*`     reservation renewal while erasing (∀ budgets)
  * `hpm_and_wait_*`, `upload_binary_*`   HPM in-progress polling (∀ block lists), for the INTENDED
                             wait (Model/ProgHpm.lean `waitLongV true`): a final code other than 00h in
                             Get upgrade status, or 80h still reported when the polls run out, raises HpmError
  * `hpm_long_outcome_never_mistaken`, `upload_binary_long_outcome_never_mistaken`   (Spec/HpmLong.lean `LongSafe`)
                             a request answered 80h whose status script does not report success NEVER
                             lets the operation complete normally - under any further fault set;
    `hpm_long_failure_is_hpm_error`, `upload_binary_long_failure_is_hpm_error`   one fault: exactly HpmError
  * `hpm_and_wait_as_shipped_counterexample`, `upload_binary_as_shipped_counterexample`   the pinned wait
                             returns normally WHATEVER the status says (failed, still in progress)
  * `read_fru_exact`, `read_fru_*`, `op_read_fru_data_*`, `read_fru_range_multi_safe`,
    `read_fru_area_multi_safe`   FRU size back-off (∀ areas, sizes, offsets); the area reader
  * `sel_entry_exact`, `sel_entry_multi_safe`, `sel_entry_fault_safe`   get_sel_entry: FFh → 16 → 15 …
                             on CAh; ANY fault set where max_req_len has its floor (the source as it is
                             now, Props.C13.source_variant: the 17th CAh is RetryError; `SelFaults`), at most
                             16 answers CAh where it has none (the pinned source)
  * `listing_multi_safe`, `sel_entries_multi_safe`, `sdr_entries_multi_safe`   the listing loops
  * `get_and_clear_multi_safe`, `get_and_clear_fault_safe`   restart on C5h; ANY fault set where the loop
                             has its retry budget (exhausted = RetryError; `GacFaults`), any finite one with
                             enough fuel where it is `while True`
  * `sdr_data_loop_multi_safe`, `sdr_data_multi_safe`, `sdr_record_multi_safe`,
    `sdr_record_fault_safe`  get_sdr_data_helper (20 → 16 → … on CAh) over get_sdr_chunk_helper
  * `primitive_carries_code` send_message / raw_command hand the code to the caller
  Per-shape corollaries
  * `skeleton_fault_safe`, `skeleton_multi_fault_safe`   every resolution (`Env`, fuel) of a
                                    skeleton of sends / calls / branches / loops
  Generated table (decide +kernel over Gen/ApiShapes.lean × Gen/Registry.lean)
  * `table_ok`                      every send is a registered request whose response starts
                                    with the completion code; checked operations only call checked
                                    operations; calls point backwards; loop ⇔ handler kinds
  * `table_covered`, `cover_census` EVERY entry is covered: skeleton (checked / nosend) |
                                    primitive | transport (no message exchange) | leaf (has handlers
                                    of its own and is one of the modelled operations, with exactly
                                    that model's handler kinds) | composite (no handler of its own,
                                    calls only covered entries)
  * `residue_closed`                no public operation is outside the grammar, bar the two listed
  * `design_checked_stable`, `design_loop_stable`   the census taken at design time still holds
  * `handler_codes_pinned`, `loop_constants_pinned`   the codes the handlers test for, the loop constants
  The two operations the pinned tree gets wrong (DESIGN §2.4: both variants)
  * `component_props_as_shipped_counterexample`   a swallowed code yields a shortened list
  * `component_props_intended_fault_safe`, `component_props_intended_multi_safe`
  * `channel_auth_caps_as_shipped_counterexample` AttributeError without any exchange
  * `channel_auth_caps_intended_fault_safe`

  Which theorem covers which kind of entry (`Cover`, Lemmas/ProgTable.lean):
    skeleton   skeleton_fault_safe, skeleton_multi_fault_safe
    primitive  primitive_carries_code (send_message, raw_command); send_message_with_name is `sendChecked`
    transport  open / close / is_ipmc_accessible / wait_until_ipmb_is_accessible exchange no IPMI
               message through send_message: there is no request position to answer with a code
               (their skeletons issue nothing: skeleton_fault_safe applies vacuously)
    leaf 0 read_fru_*   1 hpm_and_wait_*   2 upload_binary_*   3 component_props_intended_*
         4 get_and_clear_*   5 sel_entry_*   6 sdr_chunk_*   7 sdr_data_*/sdr_record_*
         8 clear_repository_*
    composite  composition_fault_safe, composition_multi_safe (+ listing_multi_safe,
               sel_entries_multi_safe, sdr_entries_multi_safe for the three listing loops)
-/
import PyIpmi.Lemmas.ProgHandlers
import PyIpmi.Lemmas.ProgFru
import PyIpmi.Lemmas.ProgTable
import PyIpmi.Lemmas.ProgMultiHandlers
import PyIpmi.Lemmas.ProgSel
import PyIpmi.Lemmas.ProgSdr
import PyIpmi.Lemmas.ProgCompose
import PyIpmi.Lemmas.ProgOps
import PyIpmi.Lemmas.ProgHpmWait
namespace PyIpmi.Props.C08
open PyIpmi PyIpmi.Prog PyIpmi.Prog.Ops PyIpmi.Spec.FaultDevice PyIpmi.Gen.ApiShapes

/-! ### generic -/

theorem checked_fault_safe_on {α : Type} (P : Nat → Prop) (base : Req → Rsp) (p : Prog α)
    (h : Built P base p) : FaultSafeOn P base p :=
  built_fault_safe P base p h

theorem checked_fault_safe {α : Type} (base : Req → Rsp) (p : Prog α)
    (h : Built (fun _ => True) base p) : FaultSafe base p :=
  (faultSafe_iff_on base p).mpr (built_fault_safe _ base p h)

/-- Any number of faults, all with non-OK codes: a handler-free program ends in an error
carrying one of the injected codes, or exactly as without faults. -/
theorem checked_multi_fault_safe {α : Type} (base : Req → Rsp) (φ : Nat → Option Nat)
    (hφ : ∀ n c, φ n = some c → c ≠ 0) (p : Prog α) (h : Checked p) (n : Nat) :
    SafeAny (fun c => ∃ m, φ m = some c) (outcome p (pureDev base) n) (outcome p (faultsDev base φ) n) :=
  checked_multi base φ hφ p h n

/-- The same in the notation of fault sets: a handler-free program is safe under any fault set. -/
theorem checked_any_faults {α : Type} (Φ : (Nat → Option Nat) → Prop) (base : Req → Rsp) (p : Prog α)
    (h : Checked p) : MultiSafeOn Φ base p :=
  ms_of_checked Φ base p h

/-- One fault is a fault set: safety under every fault set admitted by Φ gives `FaultSafe` as
soon as Φ admits the single faults. -/
theorem any_fault_set_covers_single {α : Type} (Φ : (Nat → Option Nat) → Prop) (base : Req → Rsp)
    (p : Prog α) (h : MultiSafeOn Φ base p) (hΦ : ∀ k c, Φ (single k c)) : FaultSafe base p :=
  ms_single Φ base p h hΦ

/-- Compositions, one fault: a skeleton whose calls of modelled operations are interpreted by
their models (`leaf`) is fault-safe in every resolution, when each model is fault-safe on the
states `R` it is reached in and the fault-free run preserves `R`. -/
theorem composition_fault_safe (base : Req → Rsp) (env : Env) (leaf : Nat → Option (St → Prog St))
    (table : List Sk) (R : St → Prop)
    (hpc : ∀ st, R st → R { st with pc := st.pc + 1 })
    (hstop : ∀ st b, R st → R { st with stopped := b })
    (hsend : ∀ st m rsp n, R st →
      outcome (sendChecked ⟨m, env.payload m st.hist⟩) (pureDev base) n = .ok rsp →
      R { st with hist := rsp :: st.hist })
    (hleafR : ∀ op L st st' n, leaf op = some L → R st →
      outcome (L st) (pureDev base) n = .ok st' → R st')
    (hleaf : ∀ op L st, leaf op = some L → R st → FaultSafe base (L st))
    (fuel : Nat) (sk : Sk) (st : St) (hR : R st) :
    FaultSafe base (SkH.run env leaf table fuel sk st) :=
  (faultSafe_iff_on _ _).mpr
    (SkH.run_safe base _ (safety_fs (fun _ => True) base) env leaf table R hpc hstop hsend hleafR
      (fun op L st hl hr => (faultSafe_iff_on _ _).mp (hleaf op L st hl hr)) fuel sk st hR).1

/-- Compositions, any fault set admitted by Φ. -/
theorem composition_multi_safe (Φ : (Nat → Option Nat) → Prop) (base : Req → Rsp) (env : Env)
    (leaf : Nat → Option (St → Prog St)) (table : List Sk) (R : St → Prop)
    (hpc : ∀ st, R st → R { st with pc := st.pc + 1 })
    (hstop : ∀ st b, R st → R { st with stopped := b })
    (hsend : ∀ st m rsp n, R st →
      outcome (sendChecked ⟨m, env.payload m st.hist⟩) (pureDev base) n = .ok rsp →
      R { st with hist := rsp :: st.hist })
    (hleafR : ∀ op L st st' n, leaf op = some L → R st →
      outcome (L st) (pureDev base) n = .ok st' → R st')
    (hleaf : ∀ op L st, leaf op = some L → R st → MultiSafeOn Φ base (L st))
    (fuel : Nat) (sk : Sk) (st : St) (hR : R st) :
    MultiSafeOn Φ base (SkH.run env leaf table fuel sk st) :=
  (SkH.run_safe base _ (safety_ms Φ base) env leaf table R hpc hstop hsend hleafR hleaf fuel sk st hR).1

/-- Ipmi.send_message / Ipmi.raw_command: the caller gets the completion code the BMC sent. -/
theorem primitive_carries_code (base : Req → Rsp) (φ : Nat → Option Nat) (n c : Nat) (r : Req)
    (h : φ n = some c) : outcome (sendRaw r) (faultsDev base φ) n = .ok ⟨c, []⟩ := by
  unfold sendRaw
  rw [outcome_send, faultsDev_snd_some _ _ _ _ _ h]
  rfl

/-! ### whitelisted handlers -/

/-- helper.get_sdr_chunk_helper: `reserve` is itself fault-safe and hands out reservation `res`
on the fault-free device; the request already carries that reservation. -/
theorem sdr_chunk_fault_safe (cs : ChunkCodes) (reserve : Prog Nat) (setRes : Nat → Req → Req)
    (base : Req → Rsp) (hfs : FaultSafe base reserve)
    (res : Nat) (hres : ∀ n, outcome reserve (pureDev base) n = .ok res)
    (req : Req) (hfix : setRes res req = req) (budget : Nat) :
    FaultSafe base (sdrChunk cs reserve setRes budget req) :=
  (faultSafe_iff_on _ _).mpr
    (sdrChunk_fs cs reserve setRes base _ ((faultSafe_iff_on _ _).mp hfs) res hres req hfix budget)

/-- helper.clear_repository_helper (clear_sel, clear_sdr_repository). -/
theorem clear_repository_fault_safe (resCanceled : Nat) (reserve : Prog Nat)
    (mkInit mkStatus : Nat → Req) (busy : Rsp → Bool) (base : Req → Rsp)
    (hfs : FaultSafe base reserve)
    (res : Nat) (hres : ∀ n, outcome reserve (pureDev base) n = .ok res) (budget : Nat) :
    FaultSafe base (clearRepository resCanceled reserve mkInit mkStatus busy budget) :=
  (faultSafe_iff_on _ _).mpr
    (clearRepository_fs resCanceled reserve busy base _ mkInit mkStatus
      ((faultSafe_iff_on _ _).mp hfs) res hres budget)

/-- hpm.*_and_wait (intended wait): the operation and the status query succeed on the fault-free
device; whatever the status then says about the long duration command. -/
theorem hpm_and_wait_fault_safe (base : Req → Rsp) (inProgress : Nat) (r status : Req)
    (busy failed : Rsp → Bool) (polls : Nat) (hok : (base r).cc = 0) (hst : (base status).cc = 0) :
    FaultSafe base (andWait inProgress ((sendChecked r).bind fun _ => .done ())
      (waitLongV true status busy failed polls)) :=
  (faultSafe_iff_on _ _).mpr
    (andWait_fs' base _ inProgress r _ hok (fun n => waitLongV_pure base true status busy failed hst polls n))

/-- hpm.upload_binary (intended wait), for every list of blocks. -/
theorem upload_binary_fault_safe (base : Req → Rsp) (inProgress : Nat) (status : Req)
    (busy failed : Rsp → Bool) (polls : Nat) (blocks : List Req)
    (hok : ∀ b ∈ blocks, (base b).cc = 0) (hst : (base status).cc = 0) :
    FaultSafe base (uploadBinary inProgress (waitLongV true status busy failed polls) blocks) :=
  (faultSafe_iff_on _ _).mpr
    (uploadBinary_fs' base _ inProgress _ (fun n => waitLongV_pure base true status busy failed hst polls n)
      blocks hok)

/-! ### the outcome of a long duration command (Spec/HpmLong.lean) -/

/-- The request of a `*_and_wait` operation is answered 80h and the BMC's Get upgrade status does
NOT report that the command ended with 00h (it failed, or is in progress for as long as the
requester polls): the operation never completes normally - whatever else is faulted. -/
theorem hpm_long_outcome_never_mistaken (base : Req → Rsp) (inProgress : Nat) (r status : Req)
    (busy failed : Rsp → Bool) (polls : Nat) (φ : Nat → Option Nat) (hφ : NonZero φ) (n : Nat)
    (h80 : φ n = some inProgress) :
    Spec.HpmLong.LongSafe (Spec.HpmLong.longEnd busy failed (base status))
      (outcome (andWait inProgress ((sendChecked r).bind fun _ => .done ())
        (waitLongV true status busy failed polls)) (faultsDev base φ) n) := by
  intro hok
  apply Classical.byContradiction
  intro hend
  rw [outcome_andWait, faultsDev_snd_some _ _ _ _ _ h80, faultsDev_fst] at hok
  have hne : inProgress ≠ 0 := hφ n inProgress h80
  simp only [hne, if_false, if_true] at hok
  exact waitLongV_strict_never_ok base status busy failed hend φ hφ polls (n + 1) hok

/-- One fault: the outcome is exactly HpmError. -/
theorem hpm_long_failure_is_hpm_error (base : Req → Rsp) (inProgress : Nat) (r status : Req)
    (busy failed : Rsp → Bool) (polls n : Nat) (hne : inProgress ≠ 0) (hst : (base status).cc = 0)
    (hend : Spec.HpmLong.longEnd busy failed (base status) ≠ .succeeded) :
    outcome (andWait inProgress ((sendChecked r).bind fun _ => .done ())
      (waitLongV true status busy failed polls)) (faultDev base n inProgress) n = .error .hpmError := by
  rw [outcome_andWait, faultDev_snd_eq, faultDev_fst]
  simp only [hne, if_false, if_true]
  rw [outcome_fault_past base _ (n + 1) n inProgress (by omega)]
  exact waitLongV_strict_pure_hpm base status busy failed hst hend polls (n + 1)

/-- hpm.upload_binary: the FIRST block of the (remaining) upload is answered 80h and the status
does not report success - no normal completion, under any further faults. -/
theorem upload_binary_long_outcome_never_mistaken (base : Req → Rsp) (inProgress : Nat) (status : Req)
    (busy failed : Rsp → Bool) (polls : Nat) (b : Req) (rest : List Req)
    (φ : Nat → Option Nat) (hφ : NonZero φ) (n : Nat) (h80 : φ n = some inProgress) :
    Spec.HpmLong.LongSafe (Spec.HpmLong.longEnd busy failed (base status))
      (outcome (uploadBinary inProgress (waitLongV true status busy failed polls) (b :: rest))
        (faultsDev base φ) n) := by
  intro hok
  apply Classical.byContradiction
  intro hend
  rw [uploadBinary] at hok
  cases hw : outcome (andWait inProgress ((sendChecked b).bind fun _ => .done ())
      (waitLongV true status busy failed polls)) (faultsDev base φ) n with
  | ok u =>
    cases u
    exact hend (hpm_long_outcome_never_mistaken base inProgress b status busy failed polls φ hφ n h80 hw)
  | error e =>
    rw [outcome_bind_error hw] at hok
    cases hok

theorem upload_binary_long_failure_is_hpm_error (base : Req → Rsp) (inProgress : Nat) (status : Req)
    (busy failed : Rsp → Bool) (polls n : Nat) (b : Req) (rest : List Req)
    (hne : inProgress ≠ 0) (hst : (base status).cc = 0)
    (hend : Spec.HpmLong.longEnd busy failed (base status) ≠ .succeeded) :
    outcome (uploadBinary inProgress (waitLongV true status busy failed polls) (b :: rest))
      (faultDev base n inProgress) n = .error .hpmError := by
  rw [uploadBinary]
  exact outcome_bind_error
    (hpm_long_failure_is_hpm_error base inProgress b status busy failed polls n hne hst hend)

/-- AS SHIPPED (`waitLongV false` = the loop that returns at the first status that is not 80h and
falls off its end at the time-out): the operation completes normally WHATEVER the status says -
also when the long duration command failed or never ended. -/
theorem hpm_and_wait_as_shipped_counterexample (base : Req → Rsp) (inProgress : Nat) (r status : Req)
    (busy failed : Rsp → Bool) (polls n : Nat) (hne : inProgress ≠ 0) (hst : (base status).cc = 0) :
    outcome (andWait inProgress ((sendChecked r).bind fun _ => .done ())
      (waitLongV false status busy failed polls)) (faultDev base n inProgress) n = .ok () := by
  rw [outcome_andWait, faultDev_snd_eq, faultDev_fst]
  simp only [hne, if_false, if_true]
  rw [outcome_fault_past base _ (n + 1) n inProgress (by omega)]
  exact waitLongV_shipped_pure_ok base status busy failed hst polls (n + 1)

/-- … so `LongSafe` fails for it on every BMC whose status does not report success. -/
theorem upload_binary_as_shipped_counterexample (base : Req → Rsp) (inProgress : Nat) (status : Req)
    (busy failed : Rsp → Bool) (polls n : Nat) (b : Req) (hne : inProgress ≠ 0) (hst : (base status).cc = 0)
    (hend : Spec.HpmLong.longEnd busy failed (base status) ≠ .succeeded) :
    ¬ Spec.HpmLong.LongSafe (Spec.HpmLong.longEnd busy failed (base status))
      (outcome (uploadBinary inProgress (waitLongV false status busy failed polls) [b])
        (faultDev base n inProgress) n) := by
  intro h
  apply hend
  apply h
  rw [uploadBinary, outcome_bind_ok
    (hpm_and_wait_as_shipped_counterexample base inProgress b status busy failed polls n hne hst)]
  rfl

/-- fru.read_fru_data without faults returns exactly store[off : area], whatever the request
size, against a consistent storage. -/
theorem read_fru_exact (mk : Nat → Nat → Req) (cnt : Rsp → Nat) (pay : Rsp → List Nat)
    (back : List Nat) (area : Nat) (base : Req → Rsp) (store : List Nat)
    (hdev : FruStorage mk cnt pay area base store)
    (fuel off reqSize : Nat) (acc : List Nat) (n : Nat) (hf : area - off + 1 ≤ fuel) (hrs : 1 ≤ reqSize) :
    outcome (readFru mk cnt pay back area fuel off reqSize acc) (pureDev base) n =
      .ok (acc ++ (store.drop off).take (area - off)) :=
  readFru_exact mk cnt pay back area base store hdev fuel off reqSize acc n hf hrs

theorem read_fru_fault_safe (mk : Nat → Nat → Req) (cnt : Rsp → Nat) (pay : Rsp → List Nat)
    (back : List Nat) (area : Nat) (base : Req → Rsp) (store : List Nat)
    (hdev : FruStorage mk cnt pay area base store)
    (fuel off reqSize : Nat) (acc : List Nat) (hf : area - off + 2 ≤ fuel) (hrs : 1 ≤ reqSize) :
    FaultSafe base (readFru mk cnt pay back area fuel off reqSize acc) :=
  (faultSafe_iff_on _ _).mpr
    (readFru_fs mk cnt pay back area base store _ hdev fuel off reqSize acc hf hrs)

/-- read_fru_data(offset=None): area size query, then the loop. -/
theorem op_read_fru_data_fault_safe (info : Req) (areaOf : Rsp → Nat) (mk : Nat → Nat → Req)
    (cnt : Rsp → Nat) (pay : Rsp → List Nat) (back : List Nat) (base : Req → Rsp) (store : List Nat)
    (hdev : FruStorage mk cnt pay (areaOf (base info)) base store)
    (fuel reqSize : Nat) (hf : areaOf (base info) + 2 ≤ fuel) (hrs : 1 ≤ reqSize) :
    FaultSafe base (readFruData info areaOf mk cnt pay back fuel reqSize) := by
  apply checked_fault_safe
  unfold readFruData
  refine .bind _ _ (.sendChecked _) (fun rsp hr => .handler _ ?_)
  obtain ⟨n, hn⟩ := hr
  have hrsp : rsp = base info := by
    unfold sendChecked at hn
    rw [outcome_send, pureDev_snd] at hn
    by_cases h0 : (base info).cc = 0
    · rw [if_pos h0] at hn; cases hn; rfl
    · rw [if_neg h0] at hn; cases hn
  subst hrsp
  exact readFru_fs mk cnt pay back _ base store _ hdev fuel 0 reqSize [] (by omega) hrs

/-! ### the same handlers under any fault set -/

theorem sdr_chunk_multi_safe (Φ : (Nat → Option Nat) → Prop) (cs : ChunkCodes) (reserve : Prog Nat)
    (setRes : Nat → Req → Req) (base : Req → Rsp) (hfs : MultiSafeOn Φ base reserve)
    (res : Nat) (hres : ∀ n, outcome reserve (pureDev base) n = .ok res)
    (req : Req) (hfix : setRes res req = req) (budget : Nat) :
    MultiSafeOn Φ base (sdrChunk cs reserve setRes budget req) :=
  sdrChunk_ms cs reserve setRes base Φ hfs res hres req hfix budget

theorem clear_repository_multi_safe (Φ : (Nat → Option Nat) → Prop) (resCanceled : Nat)
    (reserve : Prog Nat) (mkInit mkStatus : Nat → Req) (busy : Rsp → Bool) (base : Req → Rsp)
    (hfs : MultiSafeOn Φ base reserve)
    (res : Nat) (hres : ∀ n, outcome reserve (pureDev base) n = .ok res) (budget : Nat) :
    MultiSafeOn Φ base (clearRepository resCanceled reserve mkInit mkStatus busy budget) :=
  clearRepository_ms resCanceled reserve busy base Φ mkInit mkStatus hfs res hres budget

theorem hpm_and_wait_multi_safe (Φ : (Nat → Option Nat) → Prop) (base : Req → Rsp) (inProgress : Nat)
    (r status : Req) (busy failed : Rsp → Bool) (polls : Nat) (hok : (base r).cc = 0)
    (hst : (base status).cc = 0) :
    MultiSafeOn Φ base (andWait inProgress ((sendChecked r).bind fun _ => .done ())
      (waitLongV true status busy failed polls)) :=
  andWait_ms' base Φ inProgress r _ hok
    (ms_of_checked Φ base _ (waitLongV_checked true status busy failed polls))
    (fun n => waitLongV_pure base true status busy failed hst polls n)

theorem upload_binary_multi_safe (Φ : (Nat → Option Nat) → Prop) (base : Req → Rsp) (inProgress : Nat)
    (status : Req) (busy failed : Rsp → Bool) (polls : Nat) (blocks : List Req)
    (hok : ∀ b ∈ blocks, (base b).cc = 0) (hst : (base status).cc = 0) :
    MultiSafeOn Φ base (uploadBinary inProgress (waitLongV true status busy failed polls) blocks) :=
  uploadBinary_ms' base Φ inProgress _
    (ms_of_checked Φ base _ (waitLongV_checked true status busy failed polls))
    (fun n => waitLongV_pure base true status busy failed hst polls n) blocks hok

/-- fru.read_fru_data's loop under any fault set (every refusal costs two bytes of request
size, so the fuel accounts for the request size as well). -/
theorem read_fru_multi_safe (Φ : (Nat → Option Nat) → Prop) (mk : Nat → Nat → Req) (cnt : Rsp → Nat)
    (pay : Rsp → List Nat) (back : List Nat) (area : Nat) (base : Req → Rsp) (store : List Nat)
    (hdev : FruStorage mk cnt pay area base store)
    (fuel off reqSize : Nat) (acc : List Nat) (hf : (area - off) + reqSize + 1 ≤ fuel) (hrs : 1 ≤ reqSize) :
    MultiSafeOn Φ base (readFru mk cnt pay back area fuel off reqSize acc) :=
  readFru_ms mk cnt pay back area base store Φ hdev fuel off reqSize acc hf hrs

theorem op_read_fru_data_multi_safe (Φ : (Nat → Option Nat) → Prop) (info : Req) (areaOf : Rsp → Nat)
    (mk : Nat → Nat → Req) (cnt : Rsp → Nat) (pay : Rsp → List Nat) (back : List Nat)
    (base : Req → Rsp) (store : List Nat)
    (hdev : FruStorage mk cnt pay (areaOf (base info)) base store)
    (fuel reqSize : Nat) (hf : areaOf (base info) + reqSize + 1 ≤ fuel) (hrs : 1 ≤ reqSize) :
    MultiSafeOn Φ base (readFruData info areaOf mk cnt pay back fuel reqSize) :=
  readFruData_ms Φ info areaOf mk cnt pay back base store hdev fuel reqSize hf hrs

/-- read_fru_data(offset, count) under any fault set. -/
theorem read_fru_range_multi_safe (Φ : (Nat → Option Nat) → Prop) (mk : Nat → Nat → Req) (cnt : Rsp → Nat)
    (pay : Rsp → List Nat) (back : List Nat) (base : Req → Rsp) (store : List Nat)
    (reqSize fuel off count : Nat) (hdev : FruStorage mk cnt pay (off + count) base store)
    (hf : count + reqSize + 1 ≤ fuel) (hrs : 1 ≤ reqSize) :
    MultiSafeOn Φ base (readFruRange mk cnt pay back reqSize fuel off count) :=
  readFruRange_ms mk cnt pay back base store Φ reqSize fuel off count hdev hf hrs

/-- fru._read_fru_area (the reader under get_fru_chassis_area / board / product) under any fault
set, on a device that serves every read inside its `N` bytes and whose area lies inside them:
the area's bytes, or an error carrying an injected code -- never the bytes of a shorter read. -/
theorem read_fru_area_multi_safe (Φ : (Nat → Option Nat) → Prop) (mk : Nat → Nat → Req) (cnt : Rsp → Nat)
    (pay : Rsp → List Nat) (back : List Nat) (base : Req → Rsp) (store : List Nat)
    (N reqSize fuel off : Nat)
    (hdev : ∀ area, area ≤ N → FruStorage mk cnt pay area base store)
    (h5 : off + 5 ≤ N) (harea : off + ((store.drop off).take 5).getD 1 0 * 8 ≤ N)
    (hf : ((store.drop off).take 5).getD 1 0 * 8 + reqSize + 6 ≤ fuel) (hrs : 1 ≤ reqSize) :
    MultiSafeOn Φ base (readFruArea mk cnt pay back reqSize fuel off) :=
  readFruArea_ms mk cnt pay back base store Φ N reqSize fuel off hdev h5 harea hf hrs

/-! ### sel.get_sel_entry, sel_entries, get_and_clear_sel_entry -/

/-- get_sel_entry without faults returns `fin record next` from every loop state. -/
theorem sel_entry_exact {β : Type} (cfg : SelCfg) (mk : Nat → Nat → Req) (nextOf : Rsp → Nat)
    (pay : Rsp → List Nat) (fin : List Nat → Nat → Res β) (base : Req → Rsp) (rec : List Nat) (nx : Nat)
    (hw : cfg.Wf) (hdev : SelStorage cfg mk nextOf pay base rec nx)
    (fuel maxReq : Nat) (acc : List Nat) (n : Nat) (h1 : 1 ≤ selEff cfg maxReq)
    (hacc : acc = rec.take acc.length) (hlt : acc.length < cfg.recLen)
    (hf : cfg.recLen - acc.length ≤ fuel) :
    outcome (selEntry cfg mk nextOf pay fin fuel maxReq acc) (pureDev base) n = fin rec nx :=
  selEntry_exact cfg mk nextOf pay fin base rec nx hw hdev fuel maxReq acc n h1 hacc hlt hf

/-- get_sel_entry under ANY fault set where max_req_len has its floor (`cfg.floor = some 0`: after
FFh, 16 … 1 have been refused the loop raises RetryError), and under any fault set with at most
`full` (16) answers CAh where it has none (the pinned source - its 17th CAh leads to zero-length
reads on which it spins: C13:get_sel_entry:unbounded-after-CAh): the error carries an injected code,
or is RetryError, or the entry is the stored one. -/
theorem sel_entry_multi_safe {β : Type} (cfg : SelCfg) (mk : Nat → Nat → Req) (nextOf : Rsp → Nat)
    (pay : Rsp → List Nat) (fin : List Nat → Nat → Res β) (base : Req → Rsp) (rec : List Nat) (nx : Nat)
    (hw : cfg.Wf) (hdev : SelStorage cfg mk nextOf pay base rec nx) (hpos : 1 ≤ cfg.recLen)
    (fuel : Nat) (hf : cfg.recLen + cfg.full + 1 ≤ fuel) :
    MultiSafeOn (SelFaults cfg) base (getSelEntry cfg mk nextOf pay fin fuel) :=
  selEntry_ms cfg mk nextOf pay fin base rec nx hw hdev hpos fuel hf

theorem sel_entry_fault_safe {β : Type} (cfg : SelCfg) (mk : Nat → Nat → Req) (nextOf : Rsp → Nat)
    (pay : Rsp → List Nat) (fin : List Nat → Nat → Res β) (base : Req → Rsp) (rec : List Nat) (nx : Nat)
    (hw : cfg.Wf) (hdev : SelStorage cfg mk nextOf pay base rec nx) (hpos : 1 ≤ cfg.recLen)
    (hfull : 1 ≤ cfg.full) (fuel : Nat) (hf : cfg.recLen + cfg.full + 1 ≤ fuel) :
    FaultSafe base (getSelEntry cfg mk nextOf pay fin fuel) :=
  ms_single _ base _ (selEntry_ms cfg mk nextOf pay fin base rec nx hw hdev hpos fuel hf)
    (fun k c => Or.inr (few_single _ _ k c hfull))

/-- The listing loop `while True: x = entry(id); yield x; if next == END: break; id = next`
over any entry operation that is safe on the ids the fault-free listing visits: the listing
never ends early or silently -- it raises, or it is the fault-free list. -/
theorem listing_multi_safe {β : Type} (Φ : (Nat → Option Nat) → Prop) (entry : Nat → Prog β)
    (nextOf : β → Res Nat) (last : Nat) (base : Req → Rsp) (Known : Nat → Prop)
    (hentry : ∀ rid, Known rid → MultiSafeOn Φ base (entry rid))
    (hnext : ∀ rid b nx n, Known rid → outcome (entry rid) (pureDev base) n = .ok b →
      nextOf b = .ok nx → nx ≠ last → Known nx)
    (fuel rid : Nat) (acc : List β) (hk : Known rid) :
    MultiSafeOn Φ base (listLoop entry nextOf last fuel rid acc) :=
  listLoop_ms entry nextOf last base Φ Known hentry hnext fuel rid acc hk

theorem sel_entries_multi_safe {β : Type} (Φ : (Nat → Option Nat) → Prop) (nextOf : β → Res Nat)
    (last : Nat) (base : Req → Rsp) (Known : Nat → Prop)
    (info : Req) (count : Rsp → Nat) (reserve : Prog Nat) (entry : Nat → Nat → Prog β)
    (first fuel res : Nat) (hreserve : MultiSafeOn Φ base reserve)
    (hres : ∀ n r, outcome reserve (pureDev base) n = .ok r → r = res)
    (hentry : ∀ rid, Known rid → MultiSafeOn Φ base (entry res rid))
    (hnext : ∀ rid b nx n, Known rid → outcome (entry res rid) (pureDev base) n = .ok b →
      nextOf b = .ok nx → nx ≠ last → Known nx)
    (hfirst : Known first) :
    MultiSafeOn Φ base (selEntries info count reserve entry nextOf first last fuel) :=
  selEntries_ms nextOf last base Φ Known info count reserve entry first fuel res hreserve hres hentry
    hnext hfirst

theorem sdr_entries_multi_safe {β : Type} (Φ : (Nat → Option Nat) → Prop) (nextOf : β → Res Nat)
    (last : Nat) (base : Req → Rsp) (Known : Nat → Prop)
    (reserve : Prog Nat) (entry : Nat → Nat → Prog β)
    (first fuel res : Nat) (hreserve : MultiSafeOn Φ base reserve)
    (hres : ∀ n r, outcome reserve (pureDev base) n = .ok r → r = res)
    (hentry : ∀ rid, Known rid → MultiSafeOn Φ base (entry res rid))
    (hnext : ∀ rid b nx n, Known rid → outcome (entry res rid) (pureDev base) n = .ok b →
      nextOf b = .ok nx → nx ≠ last → Known nx)
    (hfirst : Known first) :
    MultiSafeOn Φ base (sdrEntries reserve entry nextOf first last fuel) :=
  sdrEntries_ms nextOf last base Φ Known reserve entry first fuel res hreserve hres hentry hnext hfirst

/-- get_and_clear_sel_entry under ANY fault set where the loop runs on a retry budget (`exh =
.retryError`: the source as it is now), and under any fault set whose faults lie below position N,
the loop being given more rounds than that, where it is the pinned `while True`: the error carries
an injected code, or is RetryError (budget used up), or the entry is returned -- after the restarts
C5h asks for.  A stale entry is never returned: what comes back is the fault-free `e`. -/
theorem get_and_clear_multi_safe {β : Type} (Φ : (Nat → Option Nat) → Prop) (cancel : Nat)
    (reserve : Prog Nat) (entry : Nat → Prog β) (del : Nat → Req) (exh : Err) (base : Req → Rsp) (res : Nat) (e : β)
    (hreserve : MultiSafeOn Φ base reserve)
    (hres : ∀ n, outcome reserve (pureDev base) n = .ok res)
    (hadv : ∀ φ n, n < final reserve (faultsDev base φ) n)
    (hsafe : MultiSafeOn Φ base (entry res))
    (hentry : ∀ n, outcome (entry res) (pureDev base) n = .ok e)
    (hdel : (base (del res)).cc = 0) (N fuel : Nat) :
    MultiSafeOn (GacFaults Φ exh N fuel) base (getAndClear cancel reserve entry del exh fuel) :=
  getAndClear_ms cancel reserve entry del exh base Φ res e hreserve hres hadv hsafe hentry hdel N fuel

/-- One fault, whatever its position `k`: more than `k + 2` rounds are never needed (and with a retry
budget the number of rounds does not matter). -/
theorem get_and_clear_fault_safe {β : Type} (Φ : (Nat → Option Nat) → Prop) (cancel : Nat)
    (reserve : Prog Nat) (entry : Nat → Prog β) (del : Nat → Req) (exh : Err) (base : Req → Rsp) (res : Nat) (e : β)
    (hΦ : ∀ k c, Φ (single k c))
    (hreserve : MultiSafeOn Φ base reserve)
    (hres : ∀ n, outcome reserve (pureDev base) n = .ok res)
    (hadv : ∀ φ n, n < final reserve (faultsDev base φ) n)
    (hsafe : MultiSafeOn Φ base (entry res))
    (hentry : ∀ n, outcome (entry res) (pureDev base) n = .ok e)
    (hdel : (base (del res)).cc = 0) (n k c fuel : Nat) (hc : c ≠ 0) (hf : exh = .retryError ∨ k + 2 ≤ fuel) :
    Safe c (outcome (getAndClear cancel reserve entry del exh fuel) (pureDev base) n)
      (outcome (getAndClear cancel reserve entry del exh fuel) (faultDev base k c) n) := by
  have h := getAndClear_ms cancel reserve entry del exh base Φ res e hreserve hres hadv hsafe hentry hdel
    (k + 1) fuel (single k c) (nonZero_single k c hc)
    ⟨hΦ k c, hf.elim Or.inl (fun h => Or.inr ⟨below_single k c, by omega⟩)⟩ n
  rw [faultsDev_single] at h
  rcases h with ⟨c', hc', e'⟩ | e' | e' | e'
  · rw [inj_single k c c' hc'] at e'; exact Or.inl e'
  · exact Or.inr (Or.inl e')
  · exact Or.inr (Or.inr (Or.inl e'))
  · exact Or.inr (Or.inr (Or.inr e'))

/-! ### helper.get_sdr_data_helper -/

/-- The data loop of get_sdr_data_helper (as fixed by 01f2987) under any fault set, from every
loop state: error carrying an injected code, RetryError, or the fault-free outcome -- never
the bytes of a refused read, never a shortened record. -/
theorem sdr_data_loop_multi_safe (Φ : (Nat → Option Nat) → Prop) (cfg : SdrCfg)
    (chunk : Nat → Nat → Prog (Nat × List Nat)) (L : Nat) (base : Req → Rsp) (rec : List Nat) (nx : Nat)
    (hdev : SdrServed chunk L base rec nx) (hsafe : ∀ off len, MultiSafeOn Φ base (chunk off len))
    (iterations maxReq off : Nat) (hoff : off ≤ L) :
    MultiSafeOn Φ base (sdrDataLoop cfg chunk L iterations maxReq (rec.take off)) :=
  sdrDataLoop_ms cfg chunk L base rec nx Φ hdev hsafe iterations maxReq off hoff

/-- get_sdr_data_helper over any chunk reader that is safe and, fault-free, serves the record. -/
theorem sdr_data_multi_safe (Φ : (Nat → Option Nat) → Prop) (cfg : SdrCfg) (reserve : Prog Nat)
    (chunk : Nat → Nat → Nat → Nat → Prog (Nat × List Nat)) (hdr : List Nat → Res (Nat × Nat))
    (base : Req → Rsp) (resOpt : Option Nat) (rid res rid' L nx0 nx : Nat) (rec : List Nat)
    (hreserve : MultiSafeOn Φ base reserve)
    (hres : ∀ n r, outcome (sdrReservation reserve resOpt) (pureDev base) n = .ok r → r = res)
    (hsafe0 : MultiSafeOn Φ base (chunk res rid 0 cfg.hdrLen))
    (hhead : ∀ n, outcome (chunk res rid 0 cfg.hdrLen) (pureDev base) n = .ok (nx0, rec.take cfg.hdrLen))
    (hparse : hdr (rec.take cfg.hdrLen) = .ok (rid', L)) (hlen : cfg.hdrLen ≤ L)
    (hdev : SdrServed (chunk res rid') L base rec nx)
    (hsafe : ∀ off len, MultiSafeOn Φ base (chunk res rid' off len)) :
    MultiSafeOn Φ base (sdrData cfg reserve chunk hdr resOpt rid) :=
  sdrData_ms cfg reserve chunk hdr base Φ resOpt rid res rid' L nx0 nx rec hreserve hres hsafe0 hhead
    hparse hlen hdev hsafe

/-- get_repository_sdr / get_device_sdr (get_sdr_data_helper over `_get_sdr_chunk` /
`_get_device_sdr_chunk`, i.e. over get_sdr_chunk_helper) under any fault set.  The reservation
in use is the one the device hands out (`resOpt = none`, or that id given). -/
theorem sdr_record_multi_safe (Φ : (Nat → Option Nat) → Prop) (cfg : SdrCfg) (cs : ChunkCodes)
    (reserve : Prog Nat) (setRes : Nat → Req → Req) (budget : Nat)
    (mk : Nat → Nat → Nat → Nat → Req) (nextOf : Rsp → Nat) (pay : Rsp → List Nat)
    (hdr : List Nat → Res (Nat × Nat)) (base : Req → Rsp)
    (resOpt : Option Nat) (rid res rid' nx0 nx : Nat) (rec : List Nat)
    (hb : 1 ≤ budget) (hreserve : MultiSafeOn Φ base reserve)
    (hres : ∀ n, outcome reserve (pureDev base) n = .ok res)
    (hgiven : resOpt = none ∨ resOpt = some res)
    (hfix : ∀ r off len, setRes res (mk res r off len) = mk res r off len)
    (hdev : SdrStorage cfg mk nextOf pay base res rid rid' nx0 nx rec)
    (hparse : hdr (rec.take cfg.hdrLen) = .ok (rid', rec.length)) (hlen : cfg.hdrLen ≤ rec.length) :
    MultiSafeOn Φ base
      (sdrData cfg reserve (sdrChunkOp cs reserve setRes budget mk nextOf pay) hdr resOpt rid) := by
  refine sdrData_ms cfg reserve _ hdr base Φ resOpt rid res rid' rec.length nx0 nx rec hreserve ?_
    (sdrChunkOp_ms cs reserve setRes budget mk nextOf pay base Φ hreserve res hres rid 0 cfg.hdrLen
      (hfix _ _ _))
    (sdrStorage_head cfg cs reserve setRes budget mk nextOf pay base res rid rid' nx0 nx rec hb hdev)
    hparse hlen
    (sdrStorage_served cfg cs reserve setRes budget mk nextOf pay base res rid rid' nx0 nx rec hb hdev)
    (fun off len => sdrChunkOp_ms cs reserve setRes budget mk nextOf pay base Φ hreserve res hres rid'
      off len (hfix _ _ _))
  intro n r hr
  rcases hgiven with h | h
  · subst h
    simp only [sdrReservation] at hr
    rw [hres n] at hr; cases hr; rfl
  · subst h
    simp only [sdrReservation] at hr
    exact (outcome_done_inv hr)

theorem sdr_record_fault_safe (cfg : SdrCfg) (cs : ChunkCodes)
    (reserve : Prog Nat) (setRes : Nat → Req → Req) (budget : Nat)
    (mk : Nat → Nat → Nat → Nat → Req) (nextOf : Rsp → Nat) (pay : Rsp → List Nat)
    (hdr : List Nat → Res (Nat × Nat)) (base : Req → Rsp)
    (resOpt : Option Nat) (rid res rid' nx0 nx : Nat) (rec : List Nat)
    (hb : 1 ≤ budget) (hreserve : MultiSafeOn AnyFaults base reserve)
    (hres : ∀ n, outcome reserve (pureDev base) n = .ok res)
    (hgiven : resOpt = none ∨ resOpt = some res)
    (hfix : ∀ r off len, setRes res (mk res r off len) = mk res r off len)
    (hdev : SdrStorage cfg mk nextOf pay base res rid rid' nx0 nx rec)
    (hparse : hdr (rec.take cfg.hdrLen) = .ok (rid', rec.length)) (hlen : cfg.hdrLen ≤ rec.length) :
    FaultSafe base
      (sdrData cfg reserve (sdrChunkOp cs reserve setRes budget mk nextOf pay) hdr resOpt rid) :=
  ms_single AnyFaults base _
    (sdr_record_multi_safe AnyFaults cfg cs reserve setRes budget mk nextOf pay hdr base resOpt rid res
      rid' nx0 nx rec hb hreserve hres hgiven hfix hdev hparse hlen)
    (fun _ _ => trivial)

/-! ### the operation models the correspondence run compares with the code (Model/ProgOps.lean),
on the scripted device, with the constants generated from the source -/

/-- The generated constants of get_sel_entry satisfy what the proofs need. -/
theorem sel_cfg_wf : selCfg.Wf := ⟨rfl, by decide, by decide, by decide, by decide, by decide⟩

/-- Sel.get_sel_entry for a record the device holds. -/
theorem script_get_sel_entry_multi_safe (s : Script) (res rid nx : Nat) (rec : List Nat)
    (h : lookupRec s.sel rid = some (nx, rec)) (hlen : rec.length = 16) :
    MultiSafeOn (SelFaults selCfg) s.base (opGetSelEntry selCfg res rid) :=
  selEntry_ms selCfg _ rspNext rspPay finSel s.base rec nx sel_cfg_wf
    (script_selStorage s selCfg res rid nx rec h hlen (by decide)) (by decide) selFuel (by decide)

/-- Sel.get_and_clear_sel_entry for a well-formed record the device holds: ANY fault set where the
source has the floor of max_req_len and the retry budget (`SelFaults`, `GacFaults` with
`gacExhaust sel_budget = .retryError`); on the pinned source: at most 16 answers CAh, faults below
position N, more than N rounds. -/
theorem script_get_and_clear_multi_safe (s : Script) (rid nx : Nat) (rec : List Nat)
    (h : lookupRec s.sel rid = some (nx, rec)) (hlen : rec.length = 16)
    (hfin : finSel rec nx = .ok (rec, nx)) (N fuel : Nat) :
    MultiSafeOn (GacFaults (SelFaults selCfg) (gacExhaust sel_budget) N fuel) s.base
      (opGetAndClear selCfg sel_cancel sel_budget fuel rid) := by
  have hst := script_selStorage s selCfg s.resId rid nx rec h hlen (by decide)
  have hexact : ∀ n, outcome (opGetSelEntry selCfg s.resId rid) (pureDev s.base) n = .ok (rec, nx) := by
    intro n
    unfold opGetSelEntry getSelEntry
    rw [selEntry_exact selCfg _ rspNext rspPay finSel s.base rec nx sel_cfg_wf hst selFuel
      selCfg.entire [] n (by decide) (by simp) (by decide) (by decide), hfin]
  unfold opGetAndClear
  exact getAndClear_ms sel_cancel _ _ _ _ s.base (SelFaults selCfg) s.resId rec
    (reserveOp_ms _ s.base _) (script_reserve_sel s) (reserveOp_adv s.base _)
    (ms_bind _ s.base _ _ (script_get_sel_entry_multi_safe s s.resId rid nx rec h hlen)
      (fun _ _ => ms_done _ s.base _))
    (fun n => by rw [outcome_bind_ok (hexact n)]; rfl)
    (by simp [Script.base, cDelSel, cGetSdr, cGetSel, cSelInfo, cReserveSel, cReserveSdr]) N fuel

/-- Sel.sel_entries / get_sel_entries on a log whose records are 16 bytes long and whose
next-record ids stay inside the log. -/
theorem script_sel_entries_multi_safe (s : Script) (fuel : Nat)
    (hlen : ∀ rid nx rec, lookupRec s.sel rid = some (nx, rec) → rec.length = 16)
    (hclosed : ∀ rid nx rec, lookupRec s.sel rid = some (nx, rec) → nx ≠ sel_last →
      (lookupRec s.sel nx).isSome)
    (hfirst : (lookupRec s.sel sel_first).isSome) :
    MultiSafeOn (SelFaults selCfg) s.base (opSelEntries selCfg sel_first sel_last fuel) := by
  unfold opSelEntries
  refine selEntries_ms _ sel_last s.base _ (fun rid => (lookupRec s.sel rid).isSome) _ _ _ _ _ fuel s.resId
    (reserveOp_ms _ s.base _) (fun n r hr => by rw [script_reserve_sel s n] at hr; cases hr; rfl)
    (fun rid hk => ?_) (fun rid b nx n hk hb hnx hl => ?_) hfirst
  · obtain ⟨⟨nx, rec⟩, hx⟩ := Option.isSome_iff_exists.mp hk
    exact script_get_sel_entry_multi_safe s s.resId rid nx rec hx (hlen rid nx rec hx)
  · obtain ⟨⟨nx', rec⟩, hx⟩ := Option.isSome_iff_exists.mp hk
    have hst := script_selStorage s selCfg s.resId rid nx' rec hx (hlen rid nx' rec hx) (by decide)
    unfold opGetSelEntry getSelEntry at hb
    rw [selEntry_exact selCfg _ rspNext rspPay finSel s.base rec nx' sel_cfg_wf hst selFuel
      selCfg.entire [] n (by decide) (by simp) (by decide) (by decide)] at hb
    have hb2 : b.2 = nx' := by
      unfold finSel at hb
      split at hb
      · cases hb
      · simp only at hb
        split at hb
        · cases hb; rfl
        · cases hb
    cases hnx
    rw [hb2] at hl ⊢
    exact hclosed rid nx' rec hx hl

/-- get_repository_sdr / get_device_sdr for a record the device holds (given or no
reservation): the record asked for (`rid`, 0 = the first) and the one its header names. -/
theorem script_get_sdr_multi_safe (Φ : (Nat → Option Nat) → Prop) (s : Script) (resOpt : Option Nat)
    (rid rid' nx0 nx : Nat) (rec : List Nat)
    (hgiven : resOpt = none ∨ resOpt = some s.resId)
    (h0 : lookupRec s.sdr rid = some (nx0, rec)) (h1 : lookupRec s.sdr rid' = some (nx, rec))
    (hparse : sdrHeader (rec.take sdrCfg.hdrLen) = .ok (rid', rec.length))
    (hlong : sdrCfg.hdrLen ≤ rec.length) (hshort : rec.length < 0xFF) :
    MultiSafeOn Φ s.base (opGetSdr sdrCfg sdr_chunkCodes sdr_chunkRetry resOpt rid) := by
  unfold opGetSdr opSdrChunk
  exact sdr_record_multi_safe Φ sdrCfg sdr_chunkCodes _ setResOp _ (mkGet cGetSdr) rspNext rspPay sdrHeader s.base
    resOpt rid s.resId rid' nx0 nx rec (by decide) (reserveOp_ms _ s.base _) (script_reserve_sdr s) hgiven
    (fun r off len => setResOp_fix s.resId r off len)
    (script_sdrStorage s sdrCfg s.resId rid rid' nx0 nx rec h0 h1 (by decide) hshort) hparse hlong

/-- sdr_repository_entries / device_sdr_entries (and the `…_list` wrappers) on a repository of
well-formed records whose next-record ids stay inside it. -/
theorem script_sdr_entries_multi_safe (Φ : (Nat → Option Nat) → Prop) (s : Script) (fuel : Nat)
    (Known : Nat → Prop)
    (hrec : ∀ rid, Known rid → ∃ rid' nx0 nx rec,
      lookupRec s.sdr rid = some (nx0, rec) ∧ lookupRec s.sdr rid' = some (nx, rec) ∧
      sdrHeader (rec.take sdrCfg.hdrLen) = .ok (rid', rec.length) ∧ sdrCfg.hdrLen ≤ rec.length ∧
      rec.length < 0xFF ∧ (nx ≠ 0 → nx ≠ sdr_last → Known nx))
    (hfirst : Known sdr_first) :
    MultiSafeOn Φ s.base (opSdrEntries sdrCfg sdr_chunkCodes sdr_chunkRetry sdr_first sdr_last fuel) := by
  unfold opSdrEntries
  refine sdrEntries_ms sdrNext sdr_last s.base Φ Known _ _ sdr_first fuel s.resId
    (reserveOp_ms _ s.base _) (fun n r hr => by rw [script_reserve_sdr s n] at hr; cases hr; rfl)
    (fun rid hk => ?_) (fun rid b nxt n hk hb hnx hl => ?_) hfirst
  · obtain ⟨rid', nx0, nx, rec, a0, a1, a2, a3, a4, _⟩ := hrec rid hk
    exact script_get_sdr_multi_safe Φ s (some s.resId) rid rid' nx0 nx rec (Or.inr rfl) a0 a1 a2 a3 a4
  · obtain ⟨rid', nx0, nx, rec, a0, a1, a2, a3, a4, a5⟩ := hrec rid hk
    -- fault-free, the record read returns the stored record and the next id `nx`
    have hgood : outcome (opGetSdr sdrCfg sdr_chunkCodes sdr_chunkRetry (some s.resId) rid) (pureDev s.base) n =
        .error .retryError ∨
        outcome (opGetSdr sdrCfg sdr_chunkCodes sdr_chunkRetry (some s.resId) rid) (pureDev s.base) n =
          .ok (nx, rec) :=
      script_get_sdr_good s sdrCfg sdr_chunkCodes sdr_chunkRetry (by decide) rid rid' nx0 nx rec a0 a1 a2 a3 a4
        (by decide) n
    rcases hgood with g | g
    · rw [g] at hb; cases hb
    · rw [g] at hb
      cases hb
      unfold sdrNext at hnx
      split at hnx
      · cases hnx
      · rename_i hne
        cases hnx
        exact a5 hne hl

/-! ### per-shape corollaries -/

/-- Every program that follows a skeleton of checked sends, calls of checked operations,
branches and loops -- however the data-dependent decisions and payloads are resolved --
is fault-safe against every device. -/
theorem skeleton_fault_safe (env : Env) (table : List Sk) (fuel : Nat) (sk : Sk) (st : St)
    (base : Req → Rsp) : FaultSafe base (Sk.run env table fuel sk st) :=
  checked_fault_safe base _ ((Sk.run_checked env table fuel sk st).built _ base)

theorem skeleton_multi_fault_safe (env : Env) (table : List Sk) (fuel : Nat) (sk : Sk) (st : St)
    (base : Req → Rsp) (φ : Nat → Option Nat) (hφ : ∀ n c, φ n = some c → c ≠ 0) (n : Nat) :
    SafeAny (fun c => ∃ m, φ m = some c)
      (outcome (Sk.run env table fuel sk st) (pureDev base) n)
      (outcome (Sk.run env table fuel sk st) (faultsDev base φ) n) :=
  checked_multi base φ hφ _ (Sk.run_checked env table fuel sk st) n

/-! ### the generated table -/

theorem table_ok : tableOk PyIpmi.Gen.Registry.all table = true := by decide +kernel

theorem residue_closed : residueClosed table residue = true := by decide +kernel

theorem design_checked_stable : keysHaveShape table designChecked isCheckedShape = true := by
  decide +kernel

theorem design_loop_stable :
    keysHaveShape table designLoop (fun s => isCheckedShape s || decide (s = .loop)) = true := by
  decide +kernel

/-- Every entry of the generated table -- public or reached from a public one -- is covered:
checked / nosend (skeleton theorems), primitive, transport (no message exchange), a leaf that
is one of the modelled operations with exactly that model's handler kinds of its own, or a
composite without handlers of its own that calls only covered entries. -/
theorem table_covered : allCovered leafModels residue table = true := by decide +kernel

/-- How the 145 public operations are covered. -/
theorem cover_census :
    coverCount leafModels residue table (fun c => decide (c = .skeleton)) = 108 ∧
    coverCount leafModels residue table (fun c => decide (c = .primitive)) = 3 ∧
    coverCount leafModels residue table (fun c => decide (c = .transport)) = 4 ∧
    coverCount leafModels residue table Cover.isLeaf = 9 ∧
    coverCount leafModels residue table (fun c => decide (c = .composite)) = 21 ∧
    coverCount leafModels residue table (fun c => decide (c = .asShipped)) = 0 ∧
    (table.filter (·.pub)).length = 145 := by decide +kernel

/-- The constants of the SEL / SDR transfer loops, as the source has them now, are the ones
the models were written for, and they satisfy what the proofs need. -/
theorem loop_constants_pinned :
    (selCfg.entire, selCfg.full, selCfg.recLen, selCfg.step, selCfg.shrink) = (0xFF, 16, 16, 1, 0xCA) ∧ selCfg.Wf ∧ sel_cancel = 0xC5 ∧ sel_first = 0 ∧ sel_last = 0xFFFF ∧
    sdrCfg = ⟨5, 20, 4, 20, 0xCA⟩ ∧ sdr_chunkCodes = ⟨0xC5, 0xC3, 0xCE⟩ ∧ sdr_chunkRetry = 5 ∧ clear_retry = 5 ∧ sdr_first = 0 ∧
    sdr_last = 0xFFFF ∧
    codes_selBackoff = [selCfg.shrink] ∧ codes_restartOnCancel = [sel_cancel] := by
  refine ⟨rfl, sel_cfg_wf, rfl, rfl, rfl, rfl, rfl, rfl, rfl, rfl, rfl, rfl, rfl⟩

theorem handler_codes_pinned :
    codes_fruBackoff = [0xC8, 0xC9, 0xCA] ∧ codes_hpmWait = [0x80] ∧
    codes_restartOnCancel = [0xC5] ∧ codes_selBackoff = [0xCA] ∧
    codes_sdrChunk = [0xC3, 0xC5, 0xCE] ∧ codes_clearRenew = [0xC5] ∧
    (codes_skipInvalidSelector = [] ∨ codes_skipInvalidSelector = [0x83]) ∧
    (codes_sdrBackoff = [] ∨ codes_sdrBackoff = [0xCA]) := by decide

/-! ### the two operations the pinned tree gets wrong -/

/-- A device that echoes the request payload. -/
def echo : Req → Rsp := fun r => ⟨0, r.data⟩

/-- hpm.get_component_properties as shipped: code 0xC1 at the second of two property queries
is swallowed and a shortened list is returned as if it were the BMC's data. -/
theorem component_props_as_shipped_counterexample :
    ¬ FaultSafe echo (componentProps false 0x83 (·.data) [⟨1, [0]⟩, ⟨1, [1]⟩]) := by
  intro h
  have h1 := (safeB_iff 0xC1 _ _).mpr (h 0 1 0xC1 (by decide))
  revert h1
  decide

/-- …with the intended `else: raise` every code other than the documented 0x83 is safe. -/
theorem component_props_intended_fault_safe (base : Req → Rsp) (invalidSel : Nat)
    (decode : Rsp → List Nat) (queries : List Req) :
    FaultSafeOn (fun c => c ≠ invalidSel) base (componentProps true invalidSel decode queries) :=
  componentProps_strict_fs base invalidSel decode queries

theorem component_props_intended_multi_safe (base : Req → Rsp) (invalidSel : Nat)
    (decode : Rsp → List Nat) (queries : List Req) :
    MultiSafeOn (NotInjected invalidSel) base (componentProps true invalidSel decode queries) :=
  componentProps_strict_ms base invalidSel decode queries

/-- messaging.get_channel_authentication_capabilities as shipped: on every device, in every
state, it ends in AttributeError without having asked the BMC anything. -/
theorem channel_auth_caps_as_shipped_counterexample {σ : Type} (r : Req) (d : Dev σ) (s : σ) :
    outcome (channelAuthCaps false r) d s = .error (.pyError "AttributeError") ∧
      trace (channelAuthCaps false r) d s = [] :=
  ⟨rfl, rfl⟩

theorem channel_auth_caps_intended_fault_safe (base : Req → Rsp) (r : Req) :
    FaultSafe base (channelAuthCaps true r) :=
  checked_fault_safe base _ (.sendChecked r)

/-! ### non-vacuity -/

-- a two-request checked program: fault at the second request
example : outcome ((sendChecked ⟨1, [5]⟩).bind fun a => (sendChecked ⟨2, a.data⟩).bind fun b => .done (a.data ++ b.data))
    (faultDev echo 1 0xC1) 0 = .error (.ccError 0xC1) := by decide
example : outcome ((sendChecked ⟨1, [5]⟩).bind fun a => (sendChecked ⟨2, a.data⟩).bind fun b => .done (a.data ++ b.data))
    (pureDev echo) 0 = .ok [5, 5] := by decide

-- the hypotheses of sdr_chunk_fault_safe are satisfiable, and the handler does recover
def demoReserve : Prog Nat := (sendChecked ⟨9, [7]⟩).bind fun rsp => .done (rsp.data.headD 0)
def demoSetRes (r : Nat) (q : Req) : Req := { q with data := r :: q.data.tail }
def demoCodes : ChunkCodes := ⟨0xC5, 0xC3, 0xCE⟩
example : ∀ n, outcome demoReserve (pureDev echo) n = .ok 7 := fun _ => rfl
example : demoSetRes 7 ⟨3, [7, 1, 2]⟩ = ⟨3, [7, 1, 2]⟩ := rfl
example : FaultSafe echo demoReserve :=
  checked_fault_safe echo _ (.bind _ _ (.sendChecked _) (fun _ _ => .done _))
example : outcome (sdrChunk demoCodes demoReserve demoSetRes 4 ⟨3, [7, 1, 2]⟩) (faultDev echo 0 0xC5) 0
    = .ok ⟨0, [7, 1, 2]⟩ := by decide
example : outcome (sdrChunk demoCodes demoReserve demoSetRes 4 ⟨3, [7, 1, 2]⟩) (faultDev echo 0 0xC1) 0
    = .error (.ccError 0xC1) := by decide
example : outcome (sdrChunk demoCodes demoReserve demoSetRes 1 ⟨3, [7, 1, 2]⟩) (faultDev echo 0 0xC3) 0
    = .error .retryError := by decide

-- a consistent FRU storage exists; back-off after 0xCA returns the same bytes
def demoStore : List Nat := [10, 11, 12, 13, 14, 15, 16, 17, 18, 19]
def demoMk (off n : Nat) : Req := ⟨0x11, [off, n]⟩
def demoFru : Req → Rsp := fun r =>
  match r.data with
  | [off, n] => ⟨0, n :: (demoStore.drop off).take n⟩
  | _ => ⟨0xC1, []⟩
example : FruStorage demoMk (·.data.headD 0) (·.data.tail) 10 demoFru demoStore := by
  intro off n _ _
  simp [demoMk, demoFru]
example : outcome (readFru demoMk (·.data.headD 0) (·.data.tail) [0xC8, 0xC9, 0xCA] 10 12 0 4 [])
    (faultDev demoFru 1 0xCA) 0 = .ok demoStore := by decide
example : outcome (readFru demoMk (·.data.headD 0) (·.data.tail) [0xC8, 0xC9, 0xCA] 10 12 0 4 [])
    (faultDev demoFru 1 0xC1) 0 = .error (.ccError 0xC1) := by decide

-- the demo device serves every area inside its 10 bytes (hypothesis of read_fru_area_multi_safe)
example : ∀ area, area ≤ 10 → FruStorage demoMk (·.data.headD 0) (·.data.tail) area demoFru demoStore := by
  intro area _ off n _ _
  simp [demoMk, demoFru]

-- the table has operations of every kind the theorems talk about
example : (table.filter fun op => op.pub && isCheckedShape op.shape).length ≥ 100 := by decide
example : (table.filter fun op => op.pub && decide (op.shape = .loop)).length ≥ 20 := by decide

-- HPM: 0x80 is turned into polling - and into success when the status reports the end with 00h -,
-- any other code into HpmError
example : outcome (andWait 0x80 ((sendChecked ⟨1, []⟩).bind fun _ => .done ())
    (waitLongV true ⟨2, []⟩ (fun _ => false) (fun _ => false) 3)) (faultDev echo 0 0x80) 0 = .ok () := by decide
example : outcome (andWait 0x80 ((sendChecked ⟨1, []⟩).bind fun _ => .done ())
    (waitLongV true ⟨2, []⟩ (fun _ => false) (fun _ => false) 3)) (faultDev echo 0 0xD5) 0 = .error .hpmError := by decide
-- the status reports that the long duration command FAILED: intended HpmError, as shipped "success";
-- the hypotheses of hpm_long_failure_is_hpm_error / hpm_and_wait_as_shipped_counterexample hold for it
example : outcome (andWait 0x80 ((sendChecked ⟨1, []⟩).bind fun _ => .done ())
    (waitLongV true ⟨2, []⟩ (fun _ => false) (fun _ => true) 3)) (faultDev echo 0 0x80) 0 = .error .hpmError := by decide
example : outcome (andWait 0x80 ((sendChecked ⟨1, []⟩).bind fun _ => .done ())
    (waitLongV false ⟨2, []⟩ (fun _ => false) (fun _ => true) 3)) (faultDev echo 0 0x80) 0 = .ok () := by decide
example : (echo ⟨2, []⟩).cc = 0 ∧
    Spec.HpmLong.longEnd (fun _ => false) (fun _ => true) (echo ⟨2, []⟩) ≠ .succeeded := by decide
-- still "in progress" when the three polls the clock allows are used up
example : outcome (andWait 0x80 ((sendChecked ⟨1, []⟩).bind fun _ => .done ())
    (waitLongV true ⟨2, []⟩ (fun _ => true) (fun _ => false) 3)) (faultDev echo 0 0x80) 0 = .error .hpmError := by decide
example : outcome (andWait 0x80 ((sendChecked ⟨1, []⟩).bind fun _ => .done ())
    (waitLongV false ⟨2, []⟩ (fun _ => true) (fun _ => false) 3)) (faultDev echo 0 0x80) 0 = .ok () := by decide

-- intended componentProps on the counter-example's input: the code is reported
example : outcome (componentProps true 0x83 (·.data) [⟨1, [0]⟩, ⟨1, [1]⟩]) (faultDev echo 1 0xC1) 0
    = .error (.ccError 0xC1) := by decide

-- the scripted device with two SEL records and two SDRs
def demoSel1 : List Nat := [1, 0, 2, 1, 0, 0, 0x5f, 0x20, 0, 4, 1, 0x30, 1, 0x57, 0x10, 0x20]
def demoSel2 : List Nat := [2, 0, 2, 0x77, 0, 0, 0x5f, 0x20, 0, 4, 1, 0x31, 1, 0x52, 0x11, 0x21]
def demoSdr1 : List Nat := [1, 0, 0x51, 0x12, 6, 10, 11, 12, 13, 14, 15]
def demoSdr2 : List Nat := [2, 0, 0x51, 0xC0, 30] ++ (List.range 30).map (· + 0x40)
def demoScript : Script := ⟨[(1, demoSel1), (2, demoSel2)], [(1, demoSdr1), (2, demoSdr2)], 0x1b0b⟩

-- get_sel_entry: three refusals in a row (FFh -> 16 -> 15 -> 14 bytes per read) and the same entry comes back
example : lookupRec demoScript.sel 1 = some (2, demoSel1) := by decide
example : outcome (opGetSelEntry selCfg 7 1) (pureDev demoScript.base) 0 = .ok (demoSel1, 2) := by decide
example : outcome (opGetSelEntry selCfg 7 1)
    (faultsDev demoScript.base (fun n => if n < 3 then some 0xCA else none)) 0 = .ok (demoSel1, 2) := by decide
example : trace (opGetSelEntry selCfg 7 1)
    (faultsDev demoScript.base (fun n => if n < 3 then some 0xCA else none)) 0 =
    [mkGet cGetSel 7 1 0 0xFF, mkGet cGetSel 7 1 0 16, mkGet cGetSel 7 1 0 15, mkGet cGetSel 7 1 0 14,
     mkGet cGetSel 7 1 14 2] := by decide
example : outcome (opGetSelEntry selCfg 7 1) (faultsDev demoScript.base (single 1 0xC1)) 0 = .ok (demoSel1, 2) := by
  decide
example : outcome (opGetSelEntry selCfg 7 1)
    (faultsDev demoScript.base (fun n => if n = 0 then some 0xCA else if n = 1 then some 0xD5 else none)) 0 =
    .error (.ccError 0xD5) := by decide
-- the hypotheses of the listing theorems hold of it
example : ∀ rid nx rec, lookupRec demoScript.sel rid = some (nx, rec) → rec.length = 16 := by
  intro rid nx rec h
  simp only [demoScript, lookupRec, findRec] at h
  split at h
  · cases h; rfl
  · split at h
    · cases h; rfl
    · split at h
      · cases h; rfl
      · cases h
example : (lookupRec demoScript.sel sel_first).isSome := by decide
-- sel_entries: both entries; a fault inside the second read ends in that code, not in a short list
example : outcome (opSelEntries selCfg sel_first sel_last 10) (pureDev demoScript.base) 0 =
    .ok [(demoSel1, 2), (demoSel2, 0xFFFF)] := by decide
example : outcome (opSelEntries selCfg sel_first sel_last 10) (faultsDev demoScript.base (single 3 0xCB)) 0 =
    .error (.ccError 0xCB) := by decide
example : outcome (opSelEntries selCfg sel_first sel_last 10) (faultsDev demoScript.base (single 3 0xCA)) 0 =
    .ok [(demoSel1, 2), (demoSel2, 0xFFFF)] := by decide
-- get_and_clear_sel_entry: C5h on the read, then C5h on the delete: two restarts, the entry
example : outcome (opGetAndClear selCfg sel_cancel sel_budget 8 1)
    (faultsDev demoScript.base (fun n => if n = 1 ∨ n = 4 then some 0xC5 else none)) 0 = .ok demoSel1 := by decide
example : trace (opGetAndClear selCfg sel_cancel sel_budget 8 1)
    (faultsDev demoScript.base (fun n => if n = 1 then some 0xC5 else none)) 0 =
    [⟨cReserveSel, []⟩, mkGet cGetSel 0x1b0b 1 0 0xFF, ⟨cReserveSel, []⟩, mkGet cGetSel 0x1b0b 1 0 0xFF,
     ⟨cDelSel, [0x1b0b, 1]⟩] := by decide
example : outcome (opGetAndClear selCfg sel_cancel sel_budget 8 1) (faultsDev demoScript.base (single 2 0xD4)) 0 =
    .error (.ccError 0xD4) := by decide
-- get_repository_sdr: CAh on the second data read -> 16-byte reads, the same record
example : sdrHeader (demoSdr2.take sdrCfg.hdrLen) = .ok (2, demoSdr2.length) := by decide
example : outcome (opGetSdr sdrCfg sdr_chunkCodes sdr_chunkRetry none 2) (pureDev demoScript.base) 0 =
    .ok (0xFFFF, demoSdr2) := by decide
example : outcome (opGetSdr sdrCfg sdr_chunkCodes sdr_chunkRetry none 2) (faultsDev demoScript.base (single 3 0xCA)) 0 =
    .ok (0xFFFF, demoSdr2) := by decide
example : outcome (opGetSdr sdrCfg sdr_chunkCodes sdr_chunkRetry none 2)
    (faultsDev demoScript.base (fun n => if 2 ≤ n then some 0xCA else none)) 0 = .error .retryError := by decide
example : outcome (opGetSdr sdrCfg sdr_chunkCodes sdr_chunkRetry none 2) (faultsDev demoScript.base (single 3 0xC5)) 0 =
    .ok (0xFFFF, demoSdr2) := by decide
example : outcome (opGetSdr sdrCfg sdr_chunkCodes sdr_chunkRetry none 2) (faultsDev demoScript.base (single 3 0xC9)) 0 =
    .error (.ccError 0xC9) := by decide
-- the SDR listing: both records, or the error -- never the first record alone
example : outcome (opSdrEntries sdrCfg sdr_chunkCodes sdr_chunkRetry sdr_first sdr_last 10) (pureDev demoScript.base) 0 =
    .ok [(2, demoSdr1), (0xFFFF, demoSdr2)] := by decide
example : outcome (opSdrEntries sdrCfg sdr_chunkCodes sdr_chunkRetry sdr_first sdr_last 10)
    (faultsDev demoScript.base (single 4 0xCB)) 0 = .error (.ccError 0xCB) := by decide
-- the primitives hand the code over
example : outcome (sendRaw ⟨1, []⟩) (faultsDev echo (single 0 0xC1)) 0 = .ok ⟨0xC1, []⟩ := by decide
-- every kind of cover occurs
example : coverCount leafModels residue table Cover.isLeaf ≥ 5 := by decide +kernel

end PyIpmi.Props.C08
