/-
  C04 — A reply is attributed only to the request it answers, on every native transport
        (RMCP LAN, Linux ipmb-dev, Aardvark).

  Vocabulary: `Spec.Attribution` (isReplyTo, Carries, replyData, Unrelated, BareAck) is the
  specification; `Loops.rmcpRequest` / `Loops.i2cRequest` are the models of
  `Rmcp._send_and_receive` and `IpmbDev/Aardvark._send_and_receive`, tied to the source by the
  correspondence run and by Gen/Loops04.lean.  `Cfg.requeue = true` is the loop AS SHIPPED
  (an unmatched frame is put back into `_q`), `false` the INTENDED loop (fixes/C04-1.diff).

  Theorems (every one an obligation, all for every event list / budget / quirk setting / history):
  * `gen_loop_shape`                 — what the proofs use of the generated constants
  * `source_shape_rmcp`, `source_shape_ipmbdev`, `source_shape_aardvark`
                                     — the five Python functions, re-read statement by statement from the
                                       working tree (Gen/Loops04.lean), ARE the functions the step functions
                                       of the models were written from (`Loops.Shape.*`, annotated there)
  * `source_facts`                   — the same in words, read off the generated functions: the sequence
                                       number is advanced by the first statement and nowhere else, `_q` is
                                       read once and never written, one send per round
  * `attribution_sound_rmcp`         — ok d ⇒ d is the data of an intact reply to THIS request carried by a
                                       frame of `_q` or a received datagram (both variants, both quirks)
  * `queue_provenance_rmcp`          — whatever sits in `_q` after any history was carried by a received frame
  * `attribution_sound_session`      — the same after any history of requests on the interface object
  * `attribution_sound_i2c`          — ipmb-dev / Aardvark
  * `seq_distinct_rmcp`, `seq_distinct_i2c` — new sequence number ≠ previous one, at least one request is
                                       written and every copy carries that number in byte 4
  * `finds_match_after_noise_asShipped_counterexample`, `no_poisoning_asShipped_counterexample`
                                     — the shipped loop violates both progress clauses (concrete witness)
  * `finds_match_after_noise`        — intended loop: ≤ max_retries unrelated frames (bare acks free) then the
                                       reply ⇒ that reply's data
  * `finds_match_after_timeouts`     — … also after ≤ max_retries time-outs, each round within the budget
  * `queue_stays_empty`, `no_poisoning` — intended loop: nothing survives a request, so a later request
                                       finds its reply whatever happened before
  * `finds_match_after_noise_i2c`    — ipmb-dev / Aardvark: unrelated frames within the timeout, failed
                                       attempts within the retry count, then the reply ⇒ its data; no state
                                       but the sequence number exists there (`i2cRequest` takes nothing else)
-/
import PyIpmi.Lemmas.LoopsSound
import PyIpmi.Lemmas.LoopsProgress
namespace PyIpmi.Props.C04
open PyIpmi PyIpmi.Loops PyIpmi.Spec.Attribution

/-- The identity of request `req` when it carries sequence number `seq`. -/
def ridOf (req : Req) (seq : Nat) : ReqId := ⟨req.netfn, req.lun, req.cmd, seq⟩

/-- Datagram payloads delivered during a history of requests. -/
def sessionFrames (hist : List (Req × List RxEvent)) : List Frame :=
  hist.flatMap fun p => framesOf p.2

/-- What the proofs below use of the constants regenerated from the source on every run:
sequence rule `(s + 1) % 64` on all three transports, `<=` in both RMCP loops, `<` in the
ipmb-dev / Aardvark loop with at least one attempt and a positive timeout, bridged test on
byte 5 against the Send Message command of the specification, returned slice `[6:-1]`. -/
theorem gen_loop_shape :
    Gen.Loops04.notExtracted = 0 ∧
    Gen.Loops04.rmcpSeqInc = 1 ∧ Gen.Loops04.rmcpSeqMod = 64 ∧
    Gen.Loops04.ipmbdevSeqInc = 1 ∧ Gen.Loops04.ipmbdevSeqMod = 64 ∧
    Gen.Loops04.aardvarkSeqInc = 1 ∧ Gen.Loops04.aardvarkSeqMod = 64 ∧
    Gen.Loops04.rmcpInnerExtra = 1 ∧ Gen.Loops04.rmcpOuterExtra = 1 ∧
    Gen.Loops04.ipmbdevAttemptsExtra = 0 ∧ Gen.Loops04.aardvarkAttemptsExtra = 0 ∧
    1 ≤ Gen.Loops04.ipmbdevMaxRetries ∧ 1 ≤ Gen.Loops04.aardvarkMaxRetries ∧
    0 < Gen.Loops04.ipmbdevTimeoutTicks ∧ 0 < Gen.Loops04.aardvarkTimeoutTicks ∧
    Gen.Loops04.rmcpBridgeIdx = 5 ∧ Gen.Loops04.cmdSendMessage = cmdSendMessage ∧
    Gen.Loops04.rmcpDataLo = 6 ∧ Gen.Loops04.rmcpDataHi = 1 := by decide

/-! ## The control flow of the three loops, as the source states it -/

/-- `Rmcp._send_and_receive` of the working tree is, statement by statement, the function that
`Loops.rmcpRequest` / `outer` / `inner` / `nextQ` / `nextSock` / `classify` mirror (intended
variant: nothing is put back into `_q`): the sequence number is advanced before the header
is built and before the retry loop, on every path; retry loop ⊃ send ⊃ receive loop; a frame
that fails the filter is counted and dropped, a bare acknowledgement is skipped without
counting, `socket.timeout` costs one retry, an exhausted budget raises RetryError; what is
returned is a slice of a frame that passed `rx_filter`. -/
theorem source_shape_rmcp : Gen.Loops04.rmcpSendAndReceive = Loops.Shape.rmcp := by decide

/-- `IpmbDev._send_and_receive` and `IpmbDev._receive_raw` of the working tree are the functions
`Loops.i2cRequest` / `i2cAttempts` / `recvRaw` (with `lenByte = true`) mirror. -/
theorem source_shape_ipmbdev :
    Gen.Loops04.ipmbdevSendAndReceive = Loops.Shape.ipmbdevSendAndReceive ∧
    Gen.Loops04.ipmbdevReceiveRaw = Loops.Shape.ipmbdevReceiveRaw := by decide

/-- `Aardvark._send_and_receive` and `Aardvark._receive_raw` likewise (`lenByte = false`). -/
theorem source_shape_aardvark :
    Gen.Loops04.aardvarkSendAndReceive = Loops.Shape.aardvarkSendAndReceive ∧
    Gen.Loops04.aardvarkReceiveRaw = Loops.Shape.aardvarkReceiveRaw := by decide

open PyIpmi.LoopAst in
/-- Read off the GENERATED functions (not the expected ones): on each transport the first
statement advances the sequence number and no other statement does; the RMCP loop takes
from `_q` in one place, never puts anything into it, sends in one place and receives in
one place; ipmb-dev / Aardvark send and receive in one place each. -/
theorem source_facts :
    (∀ f ∈ [Gen.Loops04.rmcpSendAndReceive, Gen.Loops04.ipmbdevSendAndReceive, Gen.Loops04.aardvarkSendAndReceive],
      f.body.head? = some (.expr (.call (.attr .self_ .u_inc_sequence_number) .nil)) ∧
      f.body.calls .u_inc_sequence_number = 1) ∧
    Gen.Loops04.rmcpSendAndReceive.body.calls .get = 1 ∧
    Gen.Loops04.rmcpSendAndReceive.body.calls .put = 0 ∧
    Gen.Loops04.rmcpSendAndReceive.body.calls .u_send_ipmi_msg = 1 ∧
    Gen.Loops04.rmcpSendAndReceive.body.calls .u_receive_ipmi_msg = 1 ∧
    (∀ f ∈ [Gen.Loops04.ipmbdevSendAndReceive, Gen.Loops04.aardvarkSendAndReceive],
      f.body.calls .u_send_raw = 1 ∧ f.body.calls .u_receive_raw = 1) := by decide

/-! ## Attribution -/

/-- RMCP, one request, any state of the interface, any events, any budget, both quirks, both
variants of the loop: data is returned only if it is the data of an intact reply to this
request (netFn + 1, command, responder LUN, sequence number unless `rmcp_ignore_rq_seq`, both
checksums) that was carried by a frame in `_q` or by a datagram delivered during the request. -/
theorem attribution_sound_rmcp (cfg : Cfg) (st : IfState) (req : Req) (evs : List RxEvent) (d : Frame)
    (hn : req.netfn % 2 = 0) (h : (rmcpRequest cfg st req evs).out = .ok d) :
    ∃ dg ∈ st.queue ++ framesOf evs, ∃ f, Carries dg f ∧
      isReplyTo (!cfg.ignoreRqSeq) (ridOf req ((st.nextSeq + 1) % 64)) f ∧ d = replyData f := by
  have hi : Inv (st.queue ++ framesOf evs) st.queue evs :=
    ⟨fun x hx => Sound.of_mem (List.mem_append_left _ hx), fun x hx => List.mem_append_right _ hx⟩
  have := (outer_ok cfg (mkHdr cfg.slaveAddr req (incSeq st.nextSeq)) hn _ (outerBudget cfg) st.queue evs 0 hi).2 d h
  obtain ⟨g, ⟨dg, hdg, hc⟩, hr, hd⟩ := this
  exact ⟨dg, hdg, g, hc, hr, by rw [hd]; exact pySlice_eq_replyData g⟩

/-- After any history of requests, every frame in `_q` was carried by a frame that was in
`_q` initially or by a datagram delivered during the history. -/
theorem queue_provenance_rmcp (cfg : Cfg) (st : IfState) (hist : List (Req × List RxEvent))
    (hh : ∀ p ∈ hist, p.1.netfn % 2 = 0) :
    ∀ x ∈ (runSession cfg st hist).queue, ∃ dg ∈ st.queue ++ sessionFrames hist, Carries dg x := by
  induction hist generalizing st with
  | nil =>
    intro x hx
    exact ⟨x, by simpa [runSession, sessionFrames] using hx, .self x⟩
  | cons p more ih =>
    obtain ⟨req, evs⟩ := p
    intro x hx
    have hn : req.netfn % 2 = 0 := hh (req, evs) List.mem_cons_self
    have hi : Inv (st.queue ++ framesOf evs) st.queue evs :=
      ⟨fun x hx => Sound.of_mem (List.mem_append_left _ hx), fun x hx => List.mem_append_right _ hx⟩
    have ho := (outer_ok cfg (mkHdr cfg.slaveAddr req (incSeq st.nextSeq)) hn _ (outerBudget cfg)
      st.queue evs 0 hi).1
    have := ih (rmcpRequest cfg st req evs).st (fun p hp => hh p (List.mem_cons_of_mem _ hp)) x
      (by simpa [runSession] using hx)
    have hs : Sound ((rmcpRequest cfg st req evs).st.queue ++ sessionFrames more) x := this
    have : Sound (st.queue ++ sessionFrames ((req, evs) :: more)) x := by
      refine sound_bind hs (fun y hy => ?_) (fun y hy => ?_)
      · exact (ho.1 y hy).mono (fun z hz => by
          simp only [sessionFrames, List.flatMap_cons, List.mem_append] at hz ⊢
          rcases hz with hz | hz
          · exact Or.inl hz
          · exact Or.inr (Or.inl hz))
      · simp only [sessionFrames, List.flatMap_cons, List.mem_append]
        exact Or.inr (Or.inr hy)
    exact this

/-- Attribution for a request issued after ANY history on the same interface object. -/
theorem attribution_sound_session (cfg : Cfg) (st : IfState) (hist : List (Req × List RxEvent))
    (hh : ∀ p ∈ hist, p.1.netfn % 2 = 0) (req : Req) (evs : List RxEvent) (d : Frame)
    (hn : req.netfn % 2 = 0)
    (h : (rmcpRequest cfg (runSession cfg st hist) req evs).out = .ok d) :
    ∃ dg ∈ st.queue ++ sessionFrames hist ++ framesOf evs, ∃ f, Carries dg f ∧
      isReplyTo (!cfg.ignoreRqSeq) (ridOf req (((runSession cfg st hist).nextSeq + 1) % 64)) f ∧
      d = replyData f := by
  obtain ⟨dg, hdg, f, hc, hr, hd⟩ := attribution_sound_rmcp cfg _ req evs d hn h
  rcases List.mem_append.mp hdg with hq | he
  · obtain ⟨dg0, h0, hc0⟩ := queue_provenance_rmcp cfg st hist hh dg hq
    exact ⟨dg0, List.mem_append_left _ h0, f, hc0.trans hc, hr, hd⟩
  · exact ⟨dg, List.mem_append_right _ he, f, hc, hr, hd⟩

/-- ipmb-dev and Aardvark (any timeout, any number of attempts, with or without the length
prefix): data is returned only if it is the data of an intact reply to this request
(sequence number always compared) among the frames read during the request. -/
theorem attribution_sound_i2c (cfg : I2cCfg) (nextSeq : Nat) (req : Req) (evs : List I2cEvent) (d : Frame)
    (hn : req.netfn % 2 = 0) (h : (i2cRequest cfg nextSeq req evs).out = .ok d) :
    ∃ f ∈ i2cFramesOf evs, isReplyTo true (ridOf req ((nextSeq + 1) % 64)) f ∧ d = replyData f :=
  i2cAttempts_ok cfg (mkHdr cfg.slaveAddr req (i2cIncSeq nextSeq)) hn (i2cFramesOf evs) cfg.attempts evs 0
    (fun _ hx => hx) d h

/-! ## Sequence numbers -/

/-- RMCP: the sequence number of a request differs from the one before it, at least one
datagram is sent, and every copy sent carries the new number (byte 4 = rqSeq/rqLUN). -/
theorem seq_distinct_rmcp (cfg : Cfg) (st : IfState) (req : Req) (evs : List RxEvent) :
    (rmcpRequest cfg st req evs).st.nextSeq = (st.nextSeq + 1) % 64 ∧
    (rmcpRequest cfg st req evs).st.nextSeq ≠ st.nextSeq ∧
    (rmcpRequest cfg st req evs).tx ≠ [] ∧
    ∀ tx ∈ (rmcpRequest cfg st req evs).tx, byte tx 4 / 4 = (st.nextSeq + 1) % 64 := by
  refine ⟨rfl, ?_, ?_, ?_⟩
  · show (st.nextSeq + 1) % 64 ≠ st.nextSeq
    omega
  · have := (outer_sends cfg (mkHdr cfg.slaveAddr req (incSeq st.nextSeq)) (outerBudget cfg) st.queue evs 0).2
      (by rw [outerBudget_eq]; omega)
    intro h0
    simp only [rmcpRequest] at h0
    have hl := congrArg List.length h0
    simp at hl
    omega
  · intro tx htx
    simp only [rmcpRequest] at htx
    rw [(List.mem_replicate.mp htx).2]
    exact byte4_txData cfg req _

/-- ipmb-dev / Aardvark: same rule; every frame written carries the new number. -/
theorem seq_distinct_i2c (cfg : I2cCfg) (nextSeq : Nat) (req : Req) (evs : List I2cEvent) :
    (i2cRequest cfg nextSeq req evs).nextSeq = (nextSeq + 1) % 64 ∧
    (i2cRequest cfg nextSeq req evs).nextSeq ≠ nextSeq ∧
    ∀ tx ∈ (i2cRequest cfg nextSeq req evs).tx, byte tx 4 / 4 = (nextSeq + 1) % 64 := by
  refine ⟨rfl, ?_, ?_⟩
  · show (nextSeq + 1) % 64 ≠ nextSeq
    omega
  · intro tx htx
    simp only [i2cRequest] at htx
    rw [(List.mem_replicate.mp htx).2, byte4_encodeIpmbMsg]
    have hs : i2cIncSeq nextSeq = (nextSeq + 1) % 64 := rfl
    simp only [mkHdr, hs]
    rw [Nat.or_zero, Nat.shiftLeft_eq]; omega

/-! ## Progress: statements shared by the two variants of the RMCP loop -/

/-- "A matching reply is found even when up to the configured number of unrelated frames
arrive before it" — on an interface whose `_q` is empty.  Bare bridge acknowledgements do not
count.  (`req.cmd ≠ Send Message`: the direct reply to a raw Send Message request is by
design indistinguishable from bridging traffic.) -/
def FindsMatchAfterNoise (requeue : Bool) : Prop :=
  ∀ (cfg : Cfg) (st : IfState) (req : Req) (noise : List Frame) (reply : Frame) (rest : List RxEvent),
    cfg.requeue = requeue → st.queue = [] → req.netfn % 2 = 0 → req.cmd ≠ cmdSendMessage →
    (∀ f ∈ noise, Unrelated cfg.checkSeq (ridOf req ((st.nextSeq + 1) % 64)) f ∨ BareAck f) →
    (noise.filter fun f => !decide (BareAck f)).length ≤ cfg.maxRetries →
    isReplyTo cfg.checkSeq (ridOf req ((st.nextSeq + 1) % 64)) reply →
    (rmcpRequest cfg st req (noise.map .frame ++ .frame reply :: rest)).out = .ok (replyData reply)

/-- "Frames received during one request never prevent a later request from succeeding":
after ANY history of requests with ANY events on a fresh interface, a request whose reply
arrives (behind at most the configured number of unrelated frames) returns that reply. -/
def NoPoisoning (requeue : Bool) : Prop :=
  ∀ (cfg : Cfg) (st : IfState) (hist : List (Req × List RxEvent)) (req : Req) (noise : List Frame)
    (reply : Frame) (rest : List RxEvent),
    cfg.requeue = requeue → st.queue = [] → req.netfn % 2 = 0 → req.cmd ≠ cmdSendMessage →
    (∀ f ∈ noise, Unrelated cfg.checkSeq (ridOf req (((runSession cfg st hist).nextSeq + 1) % 64)) f ∨ BareAck f) →
    (noise.filter fun f => !decide (BareAck f)).length ≤ cfg.maxRetries →
    isReplyTo cfg.checkSeq (ridOf req (((runSession cfg st hist).nextSeq + 1) % 64)) reply →
    (rmcpRequest cfg (runSession cfg st hist) req (noise.map .frame ++ .frame reply :: rest)).out =
      .ok (replyData reply)

/-! ### the loop as shipped violates both -/

def wReq : Req := { rsSa := 0x20, netfn := 6, lun := 0, cmd := 1 }
/-- late reply to the previous request (sequence number 0) -/
def wStale : Frame := [0x81, 0x1c, 0x63, 0x20, 0x00, 0x01, 0x00, 0xaa, 0xbb, 0x7a]
/-- the reply to request 1 (sequence number 1) -/
def wReply1 : Frame := [0x81, 0x1c, 0x63, 0x20, 0x04, 0x01, 0x00, 0xaa, 0xbb, 0x76]
/-- the reply to request 2 (sequence number 2) -/
def wReply2 : Frame := [0x81, 0x1c, 0x63, 0x20, 0x08, 0x01, 0x00, 0xcc, 0x0b]

/-- As shipped (`max_retries = 1`, fresh interface): one stale frame, then the reply —
RetryError although one unrelated frame is within the budget.  The stale frame is put back
into `_q`, `_q` is read before the socket, so the reply is never read. -/
theorem finds_match_after_noise_asShipped_counterexample : ¬ FindsMatchAfterNoise true := by
  intro H
  have := H { maxRetries := 1 } ⟨0, []⟩ wReq [wStale] wReply1 [] rfl rfl (by decide) (by decide)
    (by decide) (by decide) (by decide)
  revert this
  decide

/-- As shipped: the stale frame of request 1 is still in `_q` during request 2, whose reply
(the only thing that arrives) is never read — RetryError, and so on for every later request. -/
theorem no_poisoning_asShipped_counterexample : ¬ NoPoisoning true := by
  intro H
  have := H { maxRetries := 1 } ⟨0, []⟩ [(wReq, [.frame wStale])] wReq [] wReply2 [] rfl rfl (by decide)
    (by decide) (by decide) (by decide) (by decide)
  revert this
  decide

/-! ### the intended loop satisfies both -/

/-- Intended loop, with time-outs: up to `max_retries` rounds that end in a socket time-out
(each preceded by at most `max_retries` unrelated frames; bare acknowledgements free), then a
round with at most `max_retries` unrelated frames and the reply — the reply's data is
returned, `_q` is empty afterwards, exactly the events up to the reply were consumed and one
datagram per round was sent. -/
theorem finds_match_after_timeouts (cfg : Cfg) (hq : cfg.requeue = false) (st : IfState) (hst : st.queue = [])
    (req : Req) (hn : req.netfn % 2 = 0) (hc : req.cmd ≠ cmdSendMessage)
    (rounds : List (List Frame)) (noise : List Frame) (reply : Frame) (rest : List RxEvent)
    (hr : rounds.length ≤ cfg.maxRetries)
    (hrounds : ∀ r ∈ rounds, (∀ f ∈ r, Unrelated cfg.checkSeq (ridOf req ((st.nextSeq + 1) % 64)) f ∨ BareAck f) ∧
      (r.filter fun f => !decide (BareAck f)).length ≤ cfg.maxRetries)
    (hnoise : ∀ f ∈ noise, Unrelated cfg.checkSeq (ridOf req ((st.nextSeq + 1) % 64)) f ∨ BareAck f)
    (hcount : (noise.filter fun f => !decide (BareAck f)).length ≤ cfg.maxRetries)
    (hreply : isReplyTo cfg.checkSeq (ridOf req ((st.nextSeq + 1) % 64)) reply) :
    let r := rmcpRequest cfg st req
      (timedOutRounds (rounds.map (·.map .frame)) ++ (noise.map .frame ++ .frame reply :: rest))
    r.out = .ok (replyData reply) ∧ r.st.queue = [] ∧ r.rest = rest ∧ r.tx.length = rounds.length + 1 := by
  let h := mkHdr cfg.slaveAddr req (incSeq st.nextSeq)
  have hrid : h.rid = ridOf req ((st.nextSeq + 1) % 64) := rfl
  have hhit : IsHit cfg h (.frame reply) reply :=
    reply_isHit cfg h hn hc reply (by rw [hrid]; exact hreply)
  have hlast := noise_benign cfg h hn noise (by rw [hrid]; exact hnoise)
  have hsegs : ∀ s ∈ rounds.map (·.map RxEvent.frame), Benign cfg h s ∧ noiseCount cfg h s ≤ cfg.maxRetries := by
    intro s hs
    obtain ⟨r, hr1, hr2⟩ := List.mem_map.mp hs
    subst hr2
    have := noise_benign cfg h hn r (by rw [hrid]; exact (hrounds r hr1).1)
    exact ⟨this.1, by rw [this.2]; exact (hrounds r hr1).2⟩
  have key := outer_rounds cfg hq h (rounds.map (·.map .frame)) (outerBudget cfg) (noise.map .frame)
    (.frame reply) reply rest 0 (by rw [outerBudget_eq]; simp; omega) hsegs hlast.1
    (by rw [hlast.2]; exact hcount) hhit
  simp only [rmcpRequest, hst]
  rw [show outer cfg (mkHdr cfg.slaveAddr req (incSeq st.nextSeq)) = outer cfg h from rfl, key]
  refine ⟨?_, rfl, rfl, by simp⟩
  show Outcome.ok (pySlice 6 1 reply) = _
  rw [pySlice_eq_replyData]

/-- Intended loop: a matching reply is found behind up to `max_retries` unrelated frames. -/
theorem finds_match_after_noise : FindsMatchAfterNoise false := by
  intro cfg st req noise reply rest hq hst hn hc hnoise hcount hreply
  exact (finds_match_after_timeouts cfg hq st hst req hn hc [] noise reply rest (by simp)
    (fun r hr => by cases hr) hnoise hcount hreply).1

/-- Intended loop: `_q` is empty after every request, whatever arrived, for any history. -/
theorem queue_stays_empty (cfg : Cfg) (hq : cfg.requeue = false) (st : IfState) (hst : st.queue = [])
    (hist : List (Req × List RxEvent)) : (runSession cfg st hist).queue = [] := by
  induction hist generalizing st with
  | nil => simpa [runSession] using hst
  | cons p more ih =>
    obtain ⟨req, evs⟩ := p
    simp only [runSession]
    apply ih
    simp only [rmcpRequest, hst]
    exact outer_queue_empty cfg hq _ _ evs 0

/-- Intended loop: frames received during earlier requests never prevent a later request
from finding its reply. -/
theorem no_poisoning : NoPoisoning false := by
  intro cfg st hist req noise reply rest hq hst hn hc hnoise hcount hreply
  exact finds_match_after_noise cfg (runSession cfg st hist) req noise reply rest hq
    (queue_stays_empty cfg hq st hst hist) hn hc hnoise hcount hreply

/-! ## ipmb-dev / Aardvark: progress -/

/-- ipmb-dev / Aardvark, any previous `next_sequence_number` (the only state these
interfaces have — nothing received earlier can matter): after fewer failed attempts than
the retry count (each: unrelated frames taking less than the timeout, then an empty poll or
a read error), unrelated frames taking less than the timeout and then the reply — the
reply's data is returned and exactly the events up to the reply were consumed. -/
theorem finds_match_after_noise_i2c (cfg : I2cCfg) (nextSeq : Nat) (req : Req) (hn : req.netfn % 2 = 0)
    (rounds : List (List I2cEvent × I2cEvent)) (noise : List I2cEvent) (dt : Nat) (reply : Frame)
    (rest : List I2cEvent)
    (hr : rounds.length < cfg.attempts)
    (hrounds : ∀ p ∈ rounds, I2cNoise (mkHdr cfg.slaveAddr req ((nextSeq + 1) % 64)) p.1 ∧
      dtSum p.1 < cfg.timeout ∧ I2cFail p.2)
    (hnoise : I2cNoise (mkHdr cfg.slaveAddr req ((nextSeq + 1) % 64)) noise) (ht : dtSum noise < cfg.timeout)
    (hreply : isReplyTo true (ridOf req ((nextSeq + 1) % 64)) reply) :
    let r := i2cRequest cfg nextSeq req (failedRounds rounds ++ (noise ++ .frame dt reply :: rest))
    r.out = .ok (replyData reply) ∧ r.rest = rest ∧ r.tx.length = rounds.length + 1 := by
  have key := i2cAttempts_rounds cfg (mkHdr cfg.slaveAddr req (i2cIncSeq nextSeq)) hn rounds cfg.attempts
    noise dt reply rest 0 hr hrounds hnoise ht hreply
  simp only [i2cRequest]
  rw [key]
  exact ⟨rfl, rfl, by simp⟩

/-! ## Non-vacuity: the hypotheses are satisfiable by concrete, non-trivial objects -/

/-- attribution: the shipped loop does return data on a concrete run (bridged reply behind
a bare acknowledgement), and it is the reply's data -/
example : (rmcpRequest { maxRetries := 0 } ⟨0, []⟩ wReq
    [.frame [0x81, 0x1c, 0x63, 0x20, 0x00, 0x34, 0x00, 0xac], .frame wReply1]).out = .ok [0x00, 0xaa, 0xbb] := by
  decide

/-- the witness frames are what the hypotheses of the progress clauses ask for -/
example : Unrelated true (ridOf wReq 1) wStale ∧ isReplyTo true (ridOf wReq 1) wReply1 ∧
    BareAck [0x81, 0x1c, 0x63, 0x20, 0x00, 0x34, 0x00, 0xac] ∧ wReq.netfn % 2 = 0 ∧ wReq.cmd ≠ cmdSendMessage := by
  decide

/-- the intended loop on the witness of the counter-example: the reply is found -/
example : (rmcpRequest { maxRetries := 1, requeue := false } ⟨0, []⟩ wReq [.frame wStale, .frame wReply1]).out
    = .ok (replyData wReply1) := by decide

/-- ipmb-dev: hypotheses of `finds_match_after_noise_i2c` on a concrete script (one failed
attempt, one stale frame, then the reply) -/
example : (i2cRequest I2cCfg.ipmbdev 0 wReq
    [.frame 3 wStale, .idle, .frame 5 wStale, .frame 2 wReply1]).out = .ok (replyData wReply1) := by decide

end PyIpmi.Props.C04
