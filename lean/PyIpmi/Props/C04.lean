/-
  C04 — A reply is attributed only to the request it answers, on every native transport
        (RMCP LAN, Linux ipmb-dev, Aardvark).

  Vocabulary: `Spec.Attribution` (isReplyTo, Carries, replyData, Unrelated, BareAck) is the
  specification; `Loops.rmcpRequest` / `Loops.i2cRequest` / `Loops.i2cProbe` are the models of
  `Rmcp._send_and_receive`, `IpmbDev/Aardvark._send_and_receive` and `.is_ipmc_accessible`, tied to the
  source by the correspondence run and by Gen/Loops04.lean.  The state of the SOURCE is a parameter of the
  RMCP model (`Cfg.requeue / cmdOnly / drain`, see Model/RmcpLoop.lean); `Cfg.Repaired` is the source with
  fixes/C04-1, C09-1, C04-3 (and C04-2, which the sequential model cannot tell apart — C14), `inc = true` of
  `i2cProbe` the source with fixes/C04-4.  Property theorems are about the repaired source, the
  `…_counterexample` theorems about the source as it was shipped.

  Theorems (every one an obligation, all for every event list / budget / quirk setting / history):
  * `gen_loop_shape`                 — what the proofs use of the generated constants
  * `source_shape_rmcp`, `source_shape_ipmbdev`, `source_shape_aardvark`
                                     — the eight Python functions, re-read statement by statement from the
                                       working tree (Gen/Loops04.lean), ARE the functions the step functions
                                       of the models were written from (`Loops.Shape.*`, annotated there)
  * `source_facts`                   — the same in words, read off the generated functions: the sequence
                                       number is advanced once by every request function (the probes included),
                                       in RMCP as the first statement INSIDE the lock block, which is the first
                                       statement of the function; `_q` is read once and never written; one send
                                       per round; the socket is drained once, before the loops
  * `attribution_sound_rmcp`         — ok d ⇒ d is the data of an intact reply to THIS request carried by a
                                       frame of `_q` or a datagram the request read (any variant, both quirks);
                                       with the repaired recognition "carried" means: through INTACT Send
                                       Message responses only
  * `attribution_sound_repaired`     — repaired source: … and that datagram ARRIVED DURING THIS REQUEST: nothing
                                       an earlier request left in the socket is ever returned
  * `damaged_frame_is_nobodys_reply` — a frame ONE of whose checksums fails is no request's reply and carries nothing,
                                       whatever the whole frame adds up to (two cancelling errors leave that sum at zero)
  * `attribution_strict_asShipped_counterexample`
                                     — as shipped, data is returned out of a Send Message response whose
                                       checksum fails
  * `cc_error_only_from_own_send_message`, `late_ack_asShipped_counterexample`
                                     — repaired: a CompletionCodeError leaves the transport only for a bridged
                                       request and only on an intact response to ITS Send Message (same sequence
                                       number); as shipped the error code of the late acknowledgement of an
                                       EARLIER request is raised for an unbridged one
  * `queue_provenance_rmcp`, `attribution_sound_session`
                                     — the same after any history of requests on the interface object (what is
                                       in `_q` or in the socket was delivered at some point of the history)
  * `attribution_sound_i2c`, `attribution_sound_probe` — ipmb-dev / Aardvark, `is_ipmc_accessible` included
  * `routed_target_refused_i2c`      — ipmb-dev / Aardvark, repaired source (fixes/C09-2.diff, `refuseRouted`): a request or
                                       probe for a target whose routing has more than one hop raises NotSupportedError
                                       and leaves NO trace — nothing written, nothing read, sequence number untouched;
                                       every other request is exactly what it was (the i2c theorems below are stated for
                                       requests that are not refused)
  * `seq_distinct_rmcp`, `seq_distinct_i2c`, `seq_distinct_probe`
                                     — new sequence number ≠ previous one, at least one request is written and
                                       every copy carries that number in byte 4
  * `probe_reuses_seq_asShipped_counterexample`
                                     — as shipped the probe goes out with the number of the request before it
  * `source_state_writers`           — read from the three modules on every run (Gen/IfaceState04.lean): an attribute
                                       named next_sequence_number is stored by `__init__` and `_inc_sequence_number`
                                       ONLY, `_inc_sequence_number` is called by the request functions only, `_q` is
                                       created in `__init__` and mentioned in `_send_and_receive` only, nothing reaches
                                       attributes by computed name — establish_session, close_session, ping … touch the
                                       state the requests share through the requests they make and in no other way
  * `ops_are_requests`, `ops_counter_never_reset`, `ops_wire_sequence_numbers`, `ops_seq_distinct`
                                     — the operation alphabet of one Rmcp object (Model/RmcpOps.lean: request,
                                       establish_session = ping + a prefix of the handshake requests, close_session = 0 or
                                       1 request), ANY history, ANY ping, ANY point at which a handshake stops: the history
                                       is a run of requests; the counter after it is the counter before it plus the number
                                       of requests made, mod 64 (the wrap is the only "reset"); request number k of the
                                       history carries start + k + 1 (mod 64) in every copy written; any two requests less
                                       than 64 requests apart - in particular two consecutive ones, on either side of an
                                       establish_session / close_session or inside one - carry different numbers
  * `ops_late_reply_never_returned`  — … and data returned by request number j of a history comes from an intact reply
                                       to THAT request which is NOT a reply to any of the 63 requests before it, whatever
                                       they asked and whichever operation made them
  * `finds_match_after_noise_requeue_counterexample`, `no_poisoning_requeue_counterexample`
                                     — the loop before fixes/C04-1.diff violated both progress clauses
  * `finds_match_after_timeouts`, `finds_match_after_noise`
                                     — repaired loop, ANY state of `_q`-empty interface, ANYTHING left in the
                                       socket: ≤ max_retries unrelated frames (bare acks of this transaction
                                       free) per round, ≤ max_retries time-outs, then the reply ⇒ that reply's
                                       data — every request, command 34h included (an un-bridged request is
                                       never taken for bridging traffic)
  * `no_poisoning_asShipped_counterexample`
                                     — as shipped (no drain), max_retries = 0: ONE surplus datagram during
                                       request 1 and request 2 fails although its reply arrives (and leaves that
                                       reply for request 3 …)
  * `socket_leftover_is_ignored`, `queue_stays_empty`, `no_poisoning`
                                     — repaired: what earlier requests left in the socket has no influence at
                                       all, `_q` stays empty: after ANY history a request whose reply arrives is
                                       answered, for every max_retries including 0
  * `finds_match_after_noise_i2c`    — ipmb-dev / Aardvark: unrelated frames within the timeout, failed
                                       attempts within the retry count, then the reply ⇒ its data; no state
                                       but the sequence number exists there (`i2cRequest` takes nothing else)
-/
import PyIpmi.Lemmas.LoopsSound
import PyIpmi.Lemmas.LoopsProgress
import PyIpmi.Lemmas.LoopsOps
import PyIpmi.Gen.IfaceState04
namespace PyIpmi.Props.C04
open PyIpmi PyIpmi.Loops PyIpmi.Spec.Attribution

/-- The identity of request `req` when it carries sequence number `seq`. -/
def ridOf (req : Req) (seq : Nat) : ReqId := ⟨req.netfn, req.lun, req.cmd, seq⟩

/-- `some seq` when request `req` goes out inside a Send Message (routing with more than one entry). -/
def bridgedOf (req : Req) (seq : Nat) : Option Nat := if 1 < req.routing.length then some seq else none

theorem bridgeOf_eq (req : Req) (seq : Nat) : bridgeOf req seq = bridgeOfSeq (bridgedOf req seq) := by
  unfold bridgeOf bridgedOf bridgeOfSeq
  split <;> rfl

/-- Datagram payloads delivered during a history of requests. -/
def sessionFrames (hist : List (Req × List RxEvent)) : List Frame :=
  hist.flatMap fun p => framesOf p.2

/-- What the proofs below use of the constants regenerated from the source on every run:
sequence rule `(s + 1) % 64` on all three transports, `<=` in both RMCP loops, `<` in the
ipmb-dev / Aardvark loop with at least one attempt and a positive timeout, the Send Message ids of
the specification, returned slice `[6:-1]`. -/
theorem gen_loop_shape :
    Gen.Loops04.notExtracted = 0 ∧
    Gen.Loops04.rmcpSeqInc = 1 ∧ Gen.Loops04.rmcpSeqMod = 64 ∧
    Gen.Loops04.ipmbdevSeqInc = 1 ∧ Gen.Loops04.ipmbdevSeqMod = 64 ∧
    Gen.Loops04.aardvarkSeqInc = 1 ∧ Gen.Loops04.aardvarkSeqMod = 64 ∧
    Gen.Loops04.rmcpInnerExtra = 1 ∧ Gen.Loops04.rmcpOuterExtra = 1 ∧
    Gen.Loops04.ipmbdevAttemptsExtra = 0 ∧ Gen.Loops04.aardvarkAttemptsExtra = 0 ∧
    1 ≤ Gen.Loops04.ipmbdevMaxRetries ∧ 1 ≤ Gen.Loops04.aardvarkMaxRetries ∧
    0 < Gen.Loops04.ipmbdevTimeoutTicks ∧ 0 < Gen.Loops04.aardvarkTimeoutTicks ∧
    Gen.Loops04.cmdSendMessage = cmdSendMessage ∧ Gen.Loops04.netfnApp = netfnApp ∧
    Gen.Loops04.rmcpDataLo = 6 ∧ Gen.Loops04.rmcpDataHi = 1 := by decide

/-! ## The control flow of the exchanges, as the source states it -/

/-- `Rmcp._send_and_receive` and `Rmcp._drain_socket` of the working tree are, statement by statement,
the functions that `Loops.rmcpRequest` / `pending` / `outer` / `inner` / `nextQ` / `nextSock` /
`classify` mirror (`Cfg.Repaired`): ONE lock block around sequence number, header, frame, drain and the
loops; the sequence number is advanced before the header is built, on every path; what is still in the
socket is discarded before the first transmission; retry loop ⊃ send ⊃ receive loop; only a frame that
passes the filter of the outstanding Send Message request is unwrapped (verified); a frame that fails
the reply filter is counted and dropped, a bare acknowledgement is skipped without counting,
`socket.timeout` costs one retry, an exhausted budget raises RetryError; what is returned is a slice of a
frame that passed `rx_filter`. -/
theorem source_shape_rmcp :
    Gen.Loops04.rmcpSendAndReceive = Loops.Shape.rmcp ∧
    Gen.Loops04.rmcpDrainSocket = Loops.Shape.rmcpDrainSocket := by decide

/-- `IpmbDev._send_and_receive`, `IpmbDev._receive_raw` and `IpmbDev.is_ipmc_accessible` of the working
tree are the functions `Loops.i2cRequest` / `i2cAttempts` / `recvRaw` (with `lenByte = true`) /
`i2cProbe` (with `inc = true`) mirror; both functions that are handed a target begin with the guard
`i2cRefuses` mirrors (`refuseRouted = true`). -/
theorem source_shape_ipmbdev :
    Gen.Loops04.ipmbdevSendAndReceive = Loops.Shape.ipmbdevSendAndReceive ∧
    Gen.Loops04.ipmbdevReceiveRaw = Loops.Shape.ipmbdevReceiveRaw ∧
    Gen.Loops04.ipmbdevIsIpmcAccessible = Loops.Shape.isIpmcAccessible := by decide

/-- `Aardvark._send_and_receive`, `._receive_raw`, `.is_ipmc_accessible` likewise (`lenByte = false`). -/
theorem source_shape_aardvark :
    Gen.Loops04.aardvarkSendAndReceive = Loops.Shape.aardvarkSendAndReceive ∧
    Gen.Loops04.aardvarkReceiveRaw = Loops.Shape.aardvarkReceiveRaw ∧
    Gen.Loops04.aardvarkIsIpmcAccessible = Loops.Shape.isIpmcAccessible := by decide

open PyIpmi.LoopAst in
/-- the suite inside `with …:` when that is the first statement of a function -/
def lockBody (f : Fun) : B :=
  match f.body.head? with
  | some (.with_ _ b) => b
  | _ => .nil

open PyIpmi.LoopAst in
/-- Read off the GENERATED functions (not the expected ones): every function that puts a request on
the wire — the two `is_ipmc_accessible` included — advances the sequence number exactly once; on
ipmb-dev / Aardvark that is the first statement after the guard that refuses a target behind a bridge (the
guard itself is the first statement), in RMCP the first statement INSIDE the lock block, which
is the first statement of the function (nothing that touches the counter happens outside the lock); the
RMCP loop takes from `_q` in one place, never puts anything into it, drains the socket once, sends in one
place and receives in one place; `_drain_socket` reads the socket in one place; ipmb-dev / Aardvark send
and receive in one place each. -/
theorem source_facts :
    (∀ f ∈ [Gen.Loops04.rmcpSendAndReceive, Gen.Loops04.ipmbdevSendAndReceive, Gen.Loops04.aardvarkSendAndReceive,
        Gen.Loops04.ipmbdevIsIpmcAccessible, Gen.Loops04.aardvarkIsIpmcAccessible],
      f.body.calls .u_inc_sequence_number = 1) ∧
    (∀ f ∈ [Gen.Loops04.ipmbdevSendAndReceive, Gen.Loops04.aardvarkSendAndReceive,
        Gen.Loops04.ipmbdevIsIpmcAccessible, Gen.Loops04.aardvarkIsIpmcAccessible],
      f.body.head? = some Loops.Shape.routedGuard ∧
      f.body.tail.head? = some (.expr (.call (.attr .self_ .u_inc_sequence_number) .nil))) ∧
    (lockBody Gen.Loops04.rmcpSendAndReceive).head? = some (.expr (.call (.attr .self_ .u_inc_sequence_number) .nil)) ∧
    (lockBody Gen.Loops04.rmcpSendAndReceive).calls .u_inc_sequence_number = 1 ∧
    (lockBody Gen.Loops04.rmcpSendAndReceive).calls .u_drain_socket = 1 ∧
    Gen.Loops04.rmcpSendAndReceive.body.calls .u_drain_socket = 1 ∧
    Gen.Loops04.rmcpSendAndReceive.body.calls .get = 1 ∧
    Gen.Loops04.rmcpSendAndReceive.body.calls .put = 0 ∧
    Gen.Loops04.rmcpSendAndReceive.body.calls .u_send_ipmi_msg = 1 ∧
    Gen.Loops04.rmcpSendAndReceive.body.calls .u_receive_ipmi_msg = 1 ∧
    Gen.Loops04.rmcpDrainSocket.body.calls .recvfrom = 1 ∧
    (∀ f ∈ [Gen.Loops04.ipmbdevSendAndReceive, Gen.Loops04.aardvarkSendAndReceive,
        Gen.Loops04.ipmbdevIsIpmcAccessible, Gen.Loops04.aardvarkIsIpmcAccessible],
      f.body.calls .u_send_raw = 1 ∧ f.body.calls .u_receive_raw = 1) := by decide

/-! ## Attribution -/

theorem inv_sources (st : Bool) (q : List Frame) (evs : List RxEvent) : Inv st (q ++ framesOf evs) q evs :=
  ⟨fun _ hx => Sound.of_mem (List.mem_append_left _ hx), fun _ hx => List.mem_append_right _ hx⟩

/-- RMCP, one request, any state of the interface, any events, any budget, both quirks, every
variant of the source: data is returned only if it is the data of an intact reply to this request
(netFn + 1, command, responder LUN, sequence number unless `rmcp_ignore_rq_seq`, both checksums) that
was carried by a frame in `_q` or by a datagram the request could read (`pending`: with the drain what
arrives during the request; without it also what was left in the socket) — with the repaired
recognition (`cmdOnly = false`) carried through INTACT Send Message responses only. -/
theorem attribution_sound_rmcp (cfg : Cfg) (st : IfState) (req : Req) (evs : List RxEvent) (d : Frame)
    (hn : req.netfn % 2 = 0) (h : (rmcpRequest cfg st req evs).out = .ok d) :
    ∃ dg ∈ st.queue ++ framesOf (pending cfg st evs), ∃ f, Carries (!cfg.cmdOnly) dg f ∧
      isReplyTo (!cfg.ignoreRqSeq) (ridOf req ((st.nextSeq + 1) % 64)) f ∧ d = replyData f := by
  have := (outer_ok cfg (bridgeOf req (incSeq st.nextSeq)) (mkHdr cfg.slaveAddr req (incSeq st.nextSeq)) hn _
    (outerBudget cfg) st.queue (pending cfg st evs) 0 (inv_sources _ _ _)).2 d h
  obtain ⟨g, ⟨dg, hdg, hc⟩, hr, hd⟩ := this
  exact ⟨dg, hdg, g, hc, hr, by rw [hd]; exact pySlice_eq_replyData g⟩

/-- Repaired source: the answer was carried, through intact Send Message responses, by a datagram that
arrived DURING THIS request (or sat in `_q`, which is empty from the first request on —
`queue_stays_empty`).  Whatever an earlier request left in the socket is never returned. -/
theorem attribution_sound_repaired (cfg : Cfg) (hc : cfg.Repaired) (st : IfState) (req : Req) (evs : List RxEvent)
    (d : Frame) (hn : req.netfn % 2 = 0) (h : (rmcpRequest cfg st req evs).out = .ok d) :
    ∃ dg ∈ st.queue ++ framesOf evs, ∃ f, Carries true dg f ∧
      isReplyTo (!cfg.ignoreRqSeq) (ridOf req ((st.nextSeq + 1) % 64)) f ∧ d = replyData f := by
  have := attribution_sound_rmcp cfg st req evs d hn h
  simpa [pending, hc.2.1, hc.2.2] using this

/-- A frame one of whose checksums fails is nobody's reply and carries nothing, whatever its header says and
whatever the bytes of the frame AS A WHOLE add up to (two errors that cancel modulo 256 — header part off by +d,
payload part off by −d — leave the sum of the whole frame at zero: verifying one checksum over the whole buffer is
strictly weaker than verifying both, see the example with `wBothBad` below).  With `attribution_sound_rmcp` /
`_i2c`: data of such a frame is never returned. -/
theorem damaged_frame_is_nobodys_reply (cs : Bool) (r : ReqId) (f : Frame)
    (h : sum8 (f.take 3) ≠ 0 ∨ sum8 (f.drop 3) ≠ 0) :
    ¬ isReplyTo cs r f ∧ embedded true f = none ∧ ∀ g, Carries true f g → g = f := by
  have hr : ¬ isReplyTo cs r f := fun hr => h.elim (fun h1 => h1 hr.2.1) (fun h2 => h2 hr.2.2.1)
  have he : embedded true f = none := by
    unfold embedded
    rw [if_neg]
    rintro ⟨_, _, _, hi⟩
    have hi := hi rfl
    exact h.elim (fun h1 => h1 hi.2.1) (fun h2 => h2 hi.2.2.1)
  refine ⟨hr, he, fun g hc => ?_⟩
  cases hc with
  | self => rfl
  | inner hem _ => rw [he] at hem; cases hem

def wReq : Req := { rsSa := 0x20, netfn := 6, lun := 0, cmd := 1 }
/-- late reply to the previous request (sequence number 0) -/
def wStale : Frame := [0x81, 0x1c, 0x63, 0x20, 0x00, 0x01, 0x00, 0xaa, 0xbb, 0x7a]
/-- the reply to request 1 (sequence number 1) -/
def wReply1 : Frame := [0x81, 0x1c, 0x63, 0x20, 0x04, 0x01, 0x00, 0xaa, 0xbb, 0x76]
/-- the reply to request 2 (sequence number 2) -/
def wReply2 : Frame := [0x81, 0x1c, 0x63, 0x20, 0x08, 0x01, 0x00, 0xcc, 0x0b]
/-- `wReply1` inside a Send Message response whose payload checksum (last byte, should be A8h) is damaged -/
def wDamaged : Frame := [0x81, 0x1c, 0x63, 0x20, 0x04, 0x34, 0x00, 0x81, 0x1c, 0x63, 0x20, 0x04, 0x01, 0x00,
  0xaa, 0xbb, 0x76, 0xa9]
/-- acknowledgement of the Send Message of an earlier transaction (sequence number 1), completion code 83h -/
def wLateAck : Frame := [0x81, 0x1c, 0x63, 0x20, 0x04, 0x34, 0x83, 0x25]

/-- As shipped the strict reading fails: `wDamaged` is the only thing received, its second checksum does
not verify, and the data embedded in it is returned. -/
theorem attribution_strict_asShipped_counterexample :
    ¬ ∀ (cfg : Cfg) (st : IfState) (req : Req) (evs : List RxEvent) (d : Frame), cfg.cmdOnly = true →
      req.netfn % 2 = 0 → (rmcpRequest cfg st req evs).out = .ok d →
      ∃ dg ∈ st.queue ++ framesOf (pending cfg st evs), ∃ f, Carries true dg f ∧
        isReplyTo (!cfg.ignoreRqSeq) (ridOf req ((st.nextSeq + 1) % 64)) f ∧ d = replyData f := by
  intro H
  obtain ⟨dg, hdg, f, hc, hr, _⟩ := H (Cfg.shipped { maxRetries := 0 }) ⟨0, [], []⟩ wReq [.frame wDamaged]
    [0x00, 0xaa, 0xbb] rfl (by decide) (by decide)
  have hdg' : dg = wDamaged := by simpa [pending, Cfg.shipped, framesOf] using hdg
  subst hdg'
  have hm := (carries_iff_mem_layers true _ _).1 hc
  have hl : layers true wDamaged = [wDamaged] := by decide
  rw [hl] at hm
  simp only [List.mem_singleton] at hm
  subst hm
  revert hr
  decide

/-- Repaired source: a CompletionCodeError leaves `_send_and_receive` only when the request is bridged
and only on a datagram that is an intact response to the Send Message request of THIS transaction
(netFn 07h, command 34h, LUN 0, both checksums, the request's sequence number unless the quirk switched
the comparison off) — never from a late or foreign acknowledgement, never from a damaged frame, never
for an un-bridged request. -/
theorem cc_error_only_from_own_send_message (cfg : Cfg) (hc : cfg.Repaired) (st : IfState) (hq : st.queue = [])
    (req : Req) (evs : List RxEvent) (c : Nat) (h : (rmcpRequest cfg st req evs).out = .ccError c) :
    ∃ s, bridgedOf req ((st.nextSeq + 1) % 64) = some s ∧
      ∃ dg ∈ framesOf evs, 6 ≤ dg.length ∧ isReplyTo (!cfg.ignoreRqSeq) (bridgeId s) dg := by
  have hx : (outer cfg (bridgeOf req (incSeq st.nextSeq)) (mkHdr cfg.slaveAddr req (incSeq st.nextSeq))
      (outerBudget cfg) [] evs 0).out = .ccError c := by
    simpa [rmcpRequest, pending, hc.2.2, hq] using h
  obtain ⟨bh, hb, f, hf, hflt⟩ := outer_cc cfg hc.2.1 hc.1 _ _ _ _ _ c hx
  rw [bridgeOf_eq] at hb
  have hs : incSeq st.nextSeq = (st.nextSeq + 1) % 64 := rfl
  rw [hs] at hb
  cases hbr : bridgedOf req ((st.nextSeq + 1) % 64) with
  | none => rw [hbr] at hb; cases hb
  | some s =>
    rw [hbr] at hb
    simp only [bridgeOfSeq, Option.map_some, Option.some.injEq] at hb
    subst hb
    have hl : 6 ≤ f.length := rxFilter_len hflt (by simp [bridgeHdr, Gen.Loops04.cmdSendMessage])
    exact ⟨s, rfl, f, hf, hl, by
      have := (rxFilter_iff cfg.checkSeq (bridgeHdr s) f (bridgeHdr_even s) hl).1 hflt
      simpa [bridgeHdr_rid, Cfg.checkSeq] using this⟩

/-- As shipped: an UN-bridged Get Device ID (sequence number 2) is outstanding, the acknowledgement of
an earlier, timed-out bridged request (sequence number 1, completion code 83h) arrives — and
CompletionCodeError 83h is raised for the request in hand. -/
theorem late_ack_asShipped_counterexample :
    (rmcpRequest (Cfg.shipped { maxRetries := 1 }) ⟨1, [], []⟩ wReq [.frame wLateAck, .frame wReply2]).out =
      .ccError 0x83 ∧
    (rmcpRequest { maxRetries := 1 } ⟨1, [], []⟩ wReq [.frame wLateAck, .frame wReply2]).out =
      .ok (replyData wReply2) := by decide

theorem framesOf_leftover (l : List RxEvent) : framesOf (leftover l) = framesOf l := by
  induction l with
  | nil => rfl
  | cons e l ih => cases e <;> simp [leftover, List.filter, RxEvent.isDatagram, framesOf] <;> simpa [leftover] using ih

theorem framesOf_append (a b : List RxEvent) : framesOf (a ++ b) = framesOf a ++ framesOf b := by
  induction a with
  | nil => rfl
  | cons e a ih => cases e <;> simp [framesOf, ih]

theorem framesOf_pending_sub (cfg : Cfg) (st : IfState) (evs : List RxEvent) :
    ∀ x ∈ framesOf (pending cfg st evs), x ∈ framesOf st.sock ++ framesOf evs := by
  intro x hx
  unfold pending at hx
  split at hx
  · exact List.mem_append_right _ hx
  · rwa [framesOf_append] at hx

/-- After any history of requests, every frame in `_q` was carried by a frame that was in `_q` / in the
socket initially or by a datagram delivered during the history, and every datagram still in the socket IS
one that was in the socket initially or was delivered during the history. -/
theorem queue_provenance_rmcp (cfg : Cfg) (st : IfState) (hist : List (Req × List RxEvent))
    (hh : ∀ p ∈ hist, p.1.netfn % 2 = 0) :
    (∀ x ∈ (runSession cfg st hist).queue,
      ∃ dg ∈ st.queue ++ (framesOf st.sock ++ sessionFrames hist), Carries (!cfg.cmdOnly) dg x) ∧
    (∀ x ∈ framesOf (runSession cfg st hist).sock, x ∈ framesOf st.sock ++ sessionFrames hist) := by
  induction hist generalizing st with
  | nil =>
    refine ⟨fun x hx => ⟨x, ?_, .self x⟩, fun x hx => ?_⟩
    · simp only [runSession] at hx; simp [hx]
    · simp only [runSession] at hx; simp [sessionFrames, hx]
  | cons p more ih =>
    obtain ⟨req, evs⟩ := p
    have hn : req.netfn % 2 = 0 := hh (req, evs) List.mem_cons_self
    have ho := (outer_ok cfg (bridgeOf req (incSeq st.nextSeq)) (mkHdr cfg.slaveAddr req (incSeq st.nextSeq)) hn _
      (outerBudget cfg) st.queue (pending cfg st evs) 0 (inv_sources _ _ _)).1
    have hrest := outer_rest_sub cfg (bridgeOf req (incSeq st.nextSeq)) (mkHdr cfg.slaveAddr req (incSeq st.nextSeq))
      (outerBudget cfg) st.queue (pending cfg st evs) 0
    obtain ⟨ih1, ih2⟩ := ih (rmcpRequest cfg st req evs).st (fun p hp => hh p (List.mem_cons_of_mem _ hp))
    have hpend : ∀ y ∈ framesOf (pending cfg st evs), y ∈ framesOf st.sock ++ sessionFrames ((req, evs) :: more) := by
      intro y hy
      simp only [sessionFrames, List.flatMap_cons, List.mem_append]
      rcases List.mem_append.mp (framesOf_pending_sub cfg st evs y hy) with hy | hy
      · exact Or.inl hy
      · exact Or.inr (Or.inl hy)
    have hs' : ∀ y ∈ framesOf (rmcpRequest cfg st req evs).st.sock,
        y ∈ framesOf st.sock ++ sessionFrames ((req, evs) :: more) := by
      intro y hy
      have : y ∈ framesOf (leftover (outer cfg (bridgeOf req (incSeq st.nextSeq))
          (mkHdr cfg.slaveAddr req (incSeq st.nextSeq)) (outerBudget cfg) st.queue (pending cfg st evs) 0).rest) := hy
      rw [framesOf_leftover] at this
      exact hpend y (hrest y this)
    have hmore : ∀ y ∈ sessionFrames more, y ∈ framesOf st.sock ++ sessionFrames ((req, evs) :: more) := by
      intro y hy
      simp only [sessionFrames, List.flatMap_cons, List.mem_append]
      exact Or.inr (Or.inr hy)
    have hq' : ∀ y ∈ (rmcpRequest cfg st req evs).st.queue,
        Sound (!cfg.cmdOnly) (st.queue ++ (framesOf st.sock ++ sessionFrames ((req, evs) :: more))) y := by
      intro y hy
      refine (ho.1 y hy).mono (fun z hz => ?_)
      rcases List.mem_append.mp hz with hz | hz
      · exact List.mem_append_left _ hz
      · exact List.mem_append_right _ (hpend z hz)
    refine ⟨fun x hx => ?_, fun x hx => ?_⟩
    · obtain ⟨dg, hdg, hc⟩ := ih1 x (by simpa [runSession] using hx)
      rcases List.mem_append.mp hdg with hdg | hdg
      · exact (hq' dg hdg).step hc
      · rcases List.mem_append.mp hdg with hdg | hdg
        · exact ⟨dg, List.mem_append_right _ (hs' dg hdg), hc⟩
        · exact ⟨dg, List.mem_append_right _ (hmore dg hdg), hc⟩
    · rcases List.mem_append.mp (ih2 x (by simpa [runSession] using hx)) with hdg | hdg
      · exact hs' x hdg
      · exact hmore x hdg

/-- Attribution for a request issued after ANY history on the same interface object. -/
theorem attribution_sound_session (cfg : Cfg) (st : IfState) (hist : List (Req × List RxEvent))
    (hh : ∀ p ∈ hist, p.1.netfn % 2 = 0) (req : Req) (evs : List RxEvent) (d : Frame)
    (hn : req.netfn % 2 = 0)
    (h : (rmcpRequest cfg (runSession cfg st hist) req evs).out = .ok d) :
    ∃ dg ∈ st.queue ++ (framesOf st.sock ++ sessionFrames hist) ++ framesOf evs, ∃ f,
      Carries (!cfg.cmdOnly) dg f ∧
      isReplyTo (!cfg.ignoreRqSeq) (ridOf req (((runSession cfg st hist).nextSeq + 1) % 64)) f ∧
      d = replyData f := by
  obtain ⟨dg, hdg, f, hc, hr, hd⟩ := attribution_sound_rmcp cfg _ req evs d hn h
  obtain ⟨p1, p2⟩ := queue_provenance_rmcp cfg st hist hh
  rcases List.mem_append.mp hdg with hq | he
  · obtain ⟨dg0, h0, hc0⟩ := p1 dg hq
    exact ⟨dg0, List.mem_append_left _ h0, f, hc0.trans hc, hr, hd⟩
  · rcases List.mem_append.mp (framesOf_pending_sub cfg _ evs dg he) with hs | hv
    · exact ⟨dg, List.mem_append_left _ (List.mem_append_right _ (p2 dg hs)), f, hc, hr, hd⟩
    · exact ⟨dg, List.mem_append_right _ hv, f, hc, hr, hd⟩

/-- ipmb-dev and Aardvark (any timeout, any number of attempts, with or without the length
prefix): data is returned only if it is the data of an intact reply to this request
(sequence number always compared) among the frames read during the request. -/
theorem attribution_sound_i2c (cfg : I2cCfg) (nextSeq : Nat) (req : Req) (evs : List I2cEvent) (d : Frame)
    (hn : req.netfn % 2 = 0) (h : (i2cRequest cfg nextSeq req evs).out = .ok d) :
    ∃ f ∈ i2cFramesOf evs, isReplyTo true (ridOf req ((nextSeq + 1) % 64)) f ∧ d = replyData f := by
  unfold i2cRequest at h
  split at h
  · cases h
  · exact i2cAttempts_ok cfg (mkHdr cfg.slaveAddr req (i2cIncSeq nextSeq)) hn (i2cFramesOf evs) cfg.attempts evs 0
      (fun _ hx => hx) d h

/-- the sequence number an `is_ipmc_accessible` probe carries -/
def probeSeq (inc : Bool) (nextSeq : Nat) : Nat := if inc then (nextSeq + 1) % 64 else nextSeq

/-- `is_ipmc_accessible` (either variant) says "accessible" only on an intact reply to ITS Get Device ID —
the sequence number it carries included — among the frames read during the probe. -/
theorem attribution_sound_probe (cfg : I2cCfg) (inc : Bool) (nextSeq rsSa : Nat) (evs : List I2cEvent)
    (routing : List Hop) (d : Frame) (h : (i2cProbe cfg inc nextSeq rsSa evs routing).out = .ok d) :
    ∃ f ∈ i2cFramesOf evs, isReplyTo true (ridOf (probeReq rsSa) (probeSeq inc nextSeq)) f := by
  have hseq : (if inc then i2cIncSeq nextSeq else nextSeq) = probeSeq inc nextSeq := by
    cases inc <;> rfl
  have hr := recvRaw_ok cfg (mkHdr cfg.slaveAddr (probeReq rsSa) (if inc then i2cIncSeq nextSeq else nextSeq))
    (by simp [mkHdr, probeReq]) (i2cFramesOf evs) 0 evs (fun _ hx => hx)
  simp only [i2cProbe] at h
  split at h
  · cases h
  rename_i hrf
  split at h
  · rename_i f rest heq
    rw [heq] at hr
    refine ⟨f, hr.1, ?_⟩
    have := hr.2.1
    rw [hseq] at this
    exact this
  · cases h
  · cases h
  · rename_i e rest heq
    rw [heq] at hr
    exact absurd h (hr.1 d)

/-! ## Sequence numbers -/

/-- RMCP: the sequence number of a request differs from the one before it, at least one
datagram is sent, and every copy sent carries the new number (byte 4 = rqSeq/rqLUN). -/
theorem seq_distinct_rmcp (cfg : Cfg) (st : IfState) (req : Req) (evs : List RxEvent) :
    (rmcpRequest cfg st req evs).st.nextSeq = (st.nextSeq + 1) % 64 ∧
    (rmcpRequest cfg st req evs).st.nextSeq ≠ st.nextSeq ∧
    (rmcpRequest cfg st req evs).tx ≠ [] ∧
    ∀ tx ∈ (rmcpRequest cfg st req evs).tx, byte tx 4 / 4 = (st.nextSeq + 1) % 64 := by
  refine ⟨rfl, ?_, ?_, ?_⟩
  · show (st.nextSeq + 1) % 64 ≠ st.nextSeq
    omega
  · have := (outer_sends cfg (bridgeOf req (incSeq st.nextSeq)) (mkHdr cfg.slaveAddr req (incSeq st.nextSeq))
      (outerBudget cfg) st.queue (pending cfg st evs) 0).2 (by rw [outerBudget_eq]; omega)
    intro h0
    simp only [rmcpRequest] at h0
    have hl := congrArg List.length h0
    simp at hl
    omega
  · intro tx htx
    simp only [rmcpRequest] at htx
    rw [(List.mem_replicate.mp htx).2]
    exact byte4_txData cfg req _

/-- ipmb-dev / Aardvark, repaired source (`refuseRouted = true`, fixes/C09-2.diff): these transports do not
bridge; a request or an `is_ipmc_accessible` probe for a target whose routing has more than one hop raises
NotSupportedError and leaves NO trace: nothing is written (no un-bridged request reaches the local bus),
nothing is read, the sequence number is not used up. -/
theorem routed_target_refused_i2c (cfg : I2cCfg) (hc : cfg.refuseRouted = true) (nextSeq : Nat) (req : Req)
    (evs : List I2cEvent) (inc : Bool) (hr : 1 < req.routing.length) :
    i2cRequest cfg nextSeq req evs = { nextSeq := nextSeq, out := .notSupported, tx := [], rest := evs } ∧
    i2cProbe cfg inc nextSeq req.rsSa evs req.routing =
      { nextSeq := nextSeq, out := .notSupported, tx := [], rest := evs } := by
  have h := (i2cRefuses_iff cfg req.routing).2 ⟨hc, hr⟩
  exact ⟨i2cRequest_refused cfg nextSeq req evs h, i2cProbe_refused cfg inc nextSeq req.rsSa evs req.routing h⟩

/-- ipmb-dev / Aardvark: same rule; every frame written carries the new number (a request that is not
refused: `routed_target_refused_i2c`). -/
theorem seq_distinct_i2c (cfg : I2cCfg) (nextSeq : Nat) (req : Req) (evs : List I2cEvent)
    (hr : i2cRefuses cfg req.routing = false) :
    (i2cRequest cfg nextSeq req evs).nextSeq = (nextSeq + 1) % 64 ∧
    (i2cRequest cfg nextSeq req evs).nextSeq ≠ nextSeq ∧
    ∀ tx ∈ (i2cRequest cfg nextSeq req evs).tx, byte tx 4 / 4 = (nextSeq + 1) % 64 := by
  rw [i2cRequest_not_refused cfg nextSeq req evs hr]
  refine ⟨rfl, ?_, ?_⟩
  · show (nextSeq + 1) % 64 ≠ nextSeq
    omega
  · intro tx htx
    rw [(List.mem_replicate.mp htx).2, byte4_encodeIpmbMsg]
    have hs : i2cIncSeq nextSeq = (nextSeq + 1) % 64 := rfl
    simp only [mkHdr, hs]
    rw [Nat.or_zero, Nat.shiftLeft_eq]; omega

/-- `is_ipmc_accessible` on ipmb-dev / Aardvark (repaired source, `inc = true`): the probe is a request
like any other — it advances the sequence number, exactly one frame is written and it carries the new
number, whatever happens afterwards. -/
theorem seq_distinct_probe (cfg : I2cCfg) (nextSeq rsSa : Nat) (evs : List I2cEvent) (routing : List Hop)
    (hr : i2cRefuses cfg routing = false) :
    (i2cProbe cfg true nextSeq rsSa evs routing).nextSeq = (nextSeq + 1) % 64 ∧
    (i2cProbe cfg true nextSeq rsSa evs routing).nextSeq ≠ nextSeq ∧
    (i2cProbe cfg true nextSeq rsSa evs routing).tx.length = 1 ∧
    ∀ tx ∈ (i2cProbe cfg true nextSeq rsSa evs routing).tx, byte tx 4 / 4 = (nextSeq + 1) % 64 := by
  have key : ∀ s : Nat, byte (encodeIpmbMsg (mkHdr cfg.slaveAddr (probeReq rsSa) s) []) 4 / 4 = s := by
    intro s
    rw [byte4_encodeIpmbMsg]
    simp only [mkHdr]
    rw [Nat.or_zero, Nat.shiftLeft_eq]; omega
  have hs : i2cIncSeq nextSeq = (nextSeq + 1) % 64 := rfl
  have hne : i2cIncSeq nextSeq ≠ nextSeq := by rw [hs]; omega
  have htx : ∀ tx ∈ [encodeIpmbMsg (mkHdr cfg.slaveAddr (probeReq rsSa) (i2cIncSeq nextSeq)) []],
      byte tx 4 / 4 = (nextSeq + 1) % 64 := by
    intro tx h
    simp only [List.mem_singleton] at h
    rw [h, key, hs]
  simp only [i2cProbe, hr, Bool.false_eq_true, if_false, if_true]
  split <;> exact ⟨hs, hne, rfl, htx⟩

/-- As shipped (`inc = false`) it does not: after a request with sequence number 1 the probe is written
with sequence number 1 again — and the late reply to that request (here: the only thing that arrives)
is taken for the probe's answer ("accessible"). -/
theorem probe_reuses_seq_asShipped_counterexample :
    ¬ ∀ (cfg : I2cCfg) (nextSeq rsSa : Nat) (evs : List I2cEvent),
      ∀ tx ∈ (i2cProbe cfg false nextSeq rsSa evs).tx, byte tx 4 / 4 ≠ nextSeq := by
  intro H
  have := H I2cCfg.ipmbdev 1 0x20 [] _ List.mem_cons_self
  revert this
  decide

/-! ## "For all sequences of requests on one interface object": the operations that make requests -/

/-- Who touches the state one request hands to the next, read from the working tree on every run: in each of the
three modules an attribute named `next_sequence_number` is stored by the constructor and by `_inc_sequence_number`
and by NOTHING else (no `self.next_sequence_number = 0` in establish_session, close_session, open …), and
`_inc_sequence_number` is called by the functions that put a request on the wire only; RMCP: `_q` is created in the
constructor and mentioned in `_send_and_receive` only; `_send_and_receive` is reached through the two public request
functions (which establish_session / close_session use); no function reaches attributes by a computed name. -/
theorem source_state_writers :
    Gen.IfaceState04.rmcpSeqWriters = ["Rmcp.__init__", "Rmcp._inc_sequence_number"] ∧
    Gen.IfaceState04.rmcpIncCallers = ["Rmcp._send_and_receive"] ∧
    Gen.IfaceState04.rmcpQueueWriters = ["Rmcp.__init__"] ∧
    Gen.IfaceState04.rmcpQueueUsers = ["Rmcp.__init__", "Rmcp._send_and_receive"] ∧
    Gen.IfaceState04.rmcpRequestCallers = ["Rmcp.send_and_receive_raw", "Rmcp.send_and_receive"] ∧
    Gen.IfaceState04.rmcpDynamic = [] ∧
    Gen.IfaceState04.ipmbdevSeqWriters = ["IpmbDev.__init__", "IpmbDev._inc_sequence_number"] ∧
    Gen.IfaceState04.ipmbdevIncCallers = ["IpmbDev.is_ipmc_accessible", "IpmbDev._send_and_receive"] ∧
    Gen.IfaceState04.ipmbdevDynamic = [] ∧
    Gen.IfaceState04.aardvarkSeqWriters = ["Aardvark.__init__", "Aardvark._inc_sequence_number"] ∧
    Gen.IfaceState04.aardvarkIncCallers = ["Aardvark.is_ipmc_accessible", "Aardvark._send_and_receive"] ∧
    Gen.IfaceState04.aardvarkDynamic = [] :=
  ⟨rfl, rfl, rfl, rfl, rfl, rfl, rfl, rfl, rfl, rfl, rfl, rfl⟩

/-- Any history of operations on one Rmcp object - requests, establish_session (whatever the ping does to the
socket, wherever the handshake stops), close_session - is a run of `_send_and_receive` calls, each starting with
the counter and `_q` the one before it left. -/
theorem ops_are_requests (cfg : Cfg) (st : IfState) (ops : List Op) :
    Trace cfg st (runOps cfg st ops).2 (runOps cfg st ops).1 := runOps_trace cfg st ops

/-- NO operation resets the counter: after any history it stands at "before + number of requests made", modulo
64 - the wrap of `_inc_sequence_number` is the only way back to a smaller number. -/
theorem ops_counter_never_reset (cfg : Cfg) (st : IfState) (ops : List Op) :
    (runOps cfg st ops).1.nextSeq % 64 = (st.nextSeq + (runOps cfg st ops).2.length) % 64 :=
  (runOps_trace cfg st ops).counter

/-- Request number `i` (from 0) of any history is written at least once, and every copy carries sequence number
`start + i + 1` (mod 64), whichever operation made it. -/
theorem ops_wire_sequence_numbers (cfg : Cfg) (st : IfState) (ops : List Op) (i : Nat) (s : Step)
    (hs : (runOps cfg st ops).2[i]? = some s) :
    s.st.nextSeq = (st.nextSeq + i + 1) % 64 ∧ s.tx ≠ [] ∧ ∀ tx ∈ s.tx, byte tx 4 / 4 = (st.nextSeq + i + 1) % 64 := by
  obtain ⟨st0, req, evs, rfl, h0⟩ := (runOps_trace cfg st ops).get i s hs
  obtain ⟨h1, _, h3, h4⟩ := seq_distinct_rmcp cfg st0 req evs
  have he : (st0.nextSeq + 1) % 64 = (st.nextSeq + i + 1) % 64 := by omega
  refine ⟨by rw [h1, he], h3, fun tx htx => by rw [h4 tx htx, he]⟩

/-- "Consecutive requests carry different sequence numbers", for requests on either side of (or inside) an
establish_session / close_session too - and more: any two requests of a history that are less than 64 requests
apart carry different numbers. -/
theorem ops_seq_distinct (cfg : Cfg) (st : IfState) (ops : List Op) (i j : Nat) (a b : Step)
    (ha : (runOps cfg st ops).2[i]? = some a) (hb : (runOps cfg st ops).2[j]? = some b)
    (hij : i < j) (hnear : j - i < 64) : a.st.nextSeq ≠ b.st.nextSeq := by
  rw [(ops_wire_sequence_numbers cfg st ops i a ha).1, (ops_wire_sequence_numbers cfg st ops j b hb).1]
  omega

/-- "Data from late replies to earlier requests is never returned as the answer", over any history of
operations: what request number `j` returns is the data of an intact reply to THAT request (its command, network
function, LUN and the number `start + j + 1`), carried by a frame it could read - and that reply is not a reply to
any of the 63 requests before it (`i < j < i + 64`), whatever they asked for and whichever operation - a failed
establish_session, say - made them.  (`rmcp_ignore_rq_seq` off: with it the user has asked for the sequence number
not to be compared.) -/
theorem ops_late_reply_never_returned (cfg : Cfg) (hseq : cfg.ignoreRqSeq = false) (st : IfState) (ops : List Op)
    (j : Nat) (b : Step) (hb : (runOps cfg st ops).2[j]? = some b) (d : Frame) (hd : b.out = .ok d) :
    ∃ st0 req evs, b = rmcpRequest cfg st0 req evs ∧
      (req.netfn % 2 = 0 →
        ∃ dg ∈ st0.queue ++ framesOf (pending cfg st0 evs), ∃ f, Carries (!cfg.cmdOnly) dg f ∧
          isReplyTo true (ridOf req ((st.nextSeq + j + 1) % 64)) f ∧ d = replyData f ∧
          ∀ i, i < j → j - i < 64 → ∀ req' : Req, ¬ isReplyTo true (ridOf req' ((st.nextSeq + i + 1) % 64)) f) := by
  obtain ⟨st0, req, evs, rfl, h0⟩ := (runOps_trace cfg st ops).get j b hb
  refine ⟨st0, req, evs, rfl, fun hn => ?_⟩
  obtain ⟨dg, hdg, f, hc, hr, hdd⟩ := attribution_sound_rmcp cfg st0 req evs d hn hd
  have he : (st0.nextSeq + 1) % 64 = (st.nextSeq + j + 1) % 64 := by omega
  rw [hseq, he] at hr
  refine ⟨dg, hdg, f, hc, hr, hdd, fun i hij hnear req' hr' => ?_⟩
  have h1 : byte f 4 / 4 = (st.nextSeq + j + 1) % 64 := hr.2.2.2.2.2.2 rfl
  have h2 : byte f 4 / 4 = (st.nextSeq + i + 1) % 64 := hr'.2.2.2.2.2.2 rfl
  rw [h1] at h2
  omega

/-! ## Progress: "a matching reply is found …", "frames received during one request never prevent …" -/

/-- "A matching reply is found even when up to the configured number of unrelated frames arrive before
it" — for every source variant selected by `P`, every interface whose `_q` is empty WHATEVER is left in
its socket, every request (the one combination left out: a BRIDGED request whose own reply is a response
to Send Message with the transaction's sequence number — a Send Message to LUN 0 of the target sent
through a bridge — which nothing in the frame tells apart from the bridge's response).  Bare
acknowledgements of this transaction do not count. -/
def FindsMatchAfterNoise (P : Cfg → Prop) : Prop :=
  ∀ (cfg : Cfg) (st : IfState) (req : Req) (noise : List Frame) (reply : Frame) (rest : List RxEvent),
    P cfg → st.queue = [] → req.netfn % 2 = 0 →
    let seq := (st.nextSeq + 1) % 64
    (∀ f ∈ noise, Unrelated cfg.checkSeq (ridOf req seq) (bridgedOf req seq) f ∨
      BareAck cfg.checkSeq (bridgedOf req seq) f) →
    (noise.filter fun f => !decide (BareAck cfg.checkSeq (bridgedOf req seq) f)).length ≤ cfg.maxRetries →
    isReplyTo cfg.checkSeq (ridOf req seq) reply →
    ¬ OwnSendMsgRsp cfg.checkSeq (bridgedOf req seq) reply →
    (rmcpRequest cfg st req (noise.map .frame ++ .frame reply :: rest)).out = .ok (replyData reply)

/-- "Frames received during one request never prevent a later request from succeeding":
after ANY history of requests with ANY events — whatever they left in the socket — a request whose
reply arrives (behind at most the configured number of unrelated frames) returns that reply. -/
def NoPoisoning (P : Cfg → Prop) : Prop :=
  ∀ (cfg : Cfg) (st : IfState) (hist : List (Req × List RxEvent)) (req : Req) (noise : List Frame)
    (reply : Frame) (rest : List RxEvent),
    P cfg → st.queue = [] → req.netfn % 2 = 0 →
    let seq := ((runSession cfg st hist).nextSeq + 1) % 64
    (∀ f ∈ noise, Unrelated cfg.checkSeq (ridOf req seq) (bridgedOf req seq) f ∨
      BareAck cfg.checkSeq (bridgedOf req seq) f) →
    (noise.filter fun f => !decide (BareAck cfg.checkSeq (bridgedOf req seq) f)).length ≤ cfg.maxRetries →
    isReplyTo cfg.checkSeq (ridOf req seq) reply →
    ¬ OwnSendMsgRsp cfg.checkSeq (bridgedOf req seq) reply →
    (rmcpRequest cfg (runSession cfg st hist) req (noise.map .frame ++ .frame reply :: rest)).out =
      .ok (replyData reply)

/-! ### the loop before fixes/C04-1.diff violated both -/

/-- Before C04-1 (`max_retries = 1`, fresh interface): one stale frame, then the reply —
RetryError although one unrelated frame is within the budget.  The stale frame is put back
into `_q`, `_q` is read before the socket, so the reply is never read. -/
theorem finds_match_after_noise_requeue_counterexample : ¬ FindsMatchAfterNoise (fun c => c.requeue = true) := by
  intro H
  have := H { maxRetries := 1, requeue := true } ⟨0, [], []⟩ wReq [wStale] wReply1 [] rfl rfl (by decide)
    (by decide) (by decide) (by decide) (by decide)
  revert this
  decide

/-- Before C04-1: the stale frame of request 1 is still in `_q` during request 2, whose reply
(the only thing that arrives) is never read — RetryError, and so on for every later request. -/
theorem no_poisoning_requeue_counterexample : ¬ NoPoisoning (fun c => c.requeue = true) := by
  intro H
  have := H { maxRetries := 1, requeue := true } ⟨0, [], []⟩ [(wReq, [.frame wStale])] wReq [] wReply2 [] rfl rfl
    (by decide) (by decide) (by decide) (by decide) (by decide)
  revert this
  decide

/-! ### the source as shipped (no drain) violates the second -/

/-- As shipped, default `max_retries = 0`: the reply to request 1 is delivered twice.  Request 1
succeeds; request 2 reads the duplicate, has no budget left and fails although its own reply arrives
right behind it — and leaves that reply in the socket for request 3, and so on. -/
theorem no_poisoning_asShipped_counterexample : ¬ NoPoisoning (fun c => c.drain = false ∧ c.requeue = false) := by
  intro H
  have := H { maxRetries := 0, drain := false } ⟨0, [], []⟩ [(wReq, [.frame wReply1, .frame wReply1])] wReq []
    wReply2 [] ⟨rfl, rfl⟩ rfl (by decide) (by decide) (by decide) (by decide) (by decide)
  revert this
  decide

/-! ### the repaired source satisfies both -/

/-- Repaired source: what earlier requests left in the socket has no influence on a request at all. -/
theorem socket_leftover_is_ignored (cfg : Cfg) (hd : cfg.drain = true) (st : IfState) (s : List RxEvent)
    (req : Req) (evs : List RxEvent) :
    rmcpRequest cfg { st with sock := s } req evs = rmcpRequest cfg { st with sock := [] } req evs := by
  simp [rmcpRequest, pending, hd]

/-- Repaired loop, with time-outs: up to `max_retries` rounds that end in a socket time-out
(each preceded by at most `max_retries` unrelated frames; bare acknowledgements free), then a
round with at most `max_retries` unrelated frames and the reply — the reply's data is
returned, `_q` is empty afterwards, exactly the events up to the reply were consumed and one
datagram per round was sent.  For ANY content of the socket at the start. -/
theorem finds_match_after_timeouts (cfg : Cfg) (hc : cfg.Repaired) (st : IfState) (hst : st.queue = [])
    (req : Req) (hn : req.netfn % 2 = 0)
    (rounds : List (List Frame)) (noise : List Frame) (reply : Frame) (rest : List RxEvent)
    (hr : rounds.length ≤ cfg.maxRetries)
    (hrounds : ∀ r ∈ rounds,
      (∀ f ∈ r, Unrelated cfg.checkSeq (ridOf req ((st.nextSeq + 1) % 64)) (bridgedOf req ((st.nextSeq + 1) % 64)) f ∨
        BareAck cfg.checkSeq (bridgedOf req ((st.nextSeq + 1) % 64)) f) ∧
      (r.filter fun f => !decide (BareAck cfg.checkSeq (bridgedOf req ((st.nextSeq + 1) % 64)) f)).length ≤ cfg.maxRetries)
    (hnoise : ∀ f ∈ noise,
      Unrelated cfg.checkSeq (ridOf req ((st.nextSeq + 1) % 64)) (bridgedOf req ((st.nextSeq + 1) % 64)) f ∨
      BareAck cfg.checkSeq (bridgedOf req ((st.nextSeq + 1) % 64)) f)
    (hcount : (noise.filter fun f => !decide (BareAck cfg.checkSeq (bridgedOf req ((st.nextSeq + 1) % 64)) f)).length
      ≤ cfg.maxRetries)
    (hreply : isReplyTo cfg.checkSeq (ridOf req ((st.nextSeq + 1) % 64)) reply)
    (hnown : ¬ OwnSendMsgRsp cfg.checkSeq (bridgedOf req ((st.nextSeq + 1) % 64)) reply) :
    let r := rmcpRequest cfg st req
      (timedOutRounds (rounds.map (·.map .frame)) ++ (noise.map .frame ++ .frame reply :: rest))
    r.out = .ok (replyData reply) ∧ r.st.queue = [] ∧ r.rest = rest ∧ r.st.sock = leftover rest ∧
      r.tx.length = rounds.length + 1 := by
  obtain ⟨hq, hco, hd⟩ := hc
  let h := mkHdr cfg.slaveAddr req (incSeq st.nextSeq)
  let br := bridgedOf req ((st.nextSeq + 1) % 64)
  have hrid : h.rid = ridOf req ((st.nextSeq + 1) % 64) := rfl
  have hbr : bridgeOf req (incSeq st.nextSeq) = bridgeOfSeq br := bridgeOf_eq req _
  have hhit : IsHit cfg (bridgeOfSeq br) h (.frame reply) reply :=
    reply_isHit cfg hco br h hn reply (by rw [hrid]; exact hreply) hnown
  have hlast := noise_benign cfg hco br h hn noise (by rw [hrid]; exact hnoise)
  have hsegs : ∀ s ∈ rounds.map (·.map RxEvent.frame),
      Benign cfg (bridgeOfSeq br) h s ∧ noiseCount cfg (bridgeOfSeq br) h s ≤ cfg.maxRetries := by
    intro s hs
    obtain ⟨r, hr1, hr2⟩ := List.mem_map.mp hs
    subst hr2
    have := noise_benign cfg hco br h hn r (by rw [hrid]; exact (hrounds r hr1).1)
    exact ⟨this.1, by rw [this.2]; exact (hrounds r hr1).2⟩
  have key := outer_rounds cfg hq (bridgeOfSeq br) h (rounds.map (·.map .frame)) (outerBudget cfg)
    (noise.map .frame) (.frame reply) reply rest 0 (by rw [outerBudget_eq]; simp; omega) hsegs hlast.1
    (by rw [hlast.2]; exact hcount) hhit
  simp only [rmcpRequest, hst, pending, hd, if_true, hbr]
  rw [show outer cfg (bridgeOfSeq br) (mkHdr cfg.slaveAddr req (incSeq st.nextSeq)) =
    outer cfg (bridgeOfSeq br) h from rfl, key]
  refine ⟨?_, rfl, rfl, rfl, by simp⟩
  show Outcome.ok (pySlice 6 1 reply) = _
  rw [pySlice_eq_replyData]

/-- Repaired loop: a matching reply is found behind up to `max_retries` unrelated frames. -/
theorem finds_match_after_noise : FindsMatchAfterNoise Cfg.Repaired := by
  intro cfg st req noise reply rest hc hst hn seq hnoise hcount hreply hnown
  exact (finds_match_after_timeouts cfg hc st hst req hn [] noise reply rest (by simp)
    (fun r hr => by cases hr) hnoise hcount hreply hnown).1

/-- Since C04-1: `_q` is empty after every request, whatever arrived, for any history. -/
theorem queue_stays_empty (cfg : Cfg) (hq : cfg.requeue = false) (st : IfState) (hst : st.queue = [])
    (hist : List (Req × List RxEvent)) : (runSession cfg st hist).queue = [] := by
  induction hist generalizing st with
  | nil => simpa [runSession] using hst
  | cons p more ih =>
    obtain ⟨req, evs⟩ := p
    simp only [runSession]
    apply ih
    simp only [rmcpRequest, hst]
    exact outer_queue_empty cfg hq _ _ _ _ 0

/-- Repaired source: frames received during earlier requests — consumed or left in the socket —
never prevent a later request from finding its reply, for every `max_retries` including 0. -/
theorem no_poisoning : NoPoisoning Cfg.Repaired := by
  intro cfg st hist req noise reply rest hc hst hn seq hnoise hcount hreply hnown
  exact finds_match_after_noise cfg (runSession cfg st hist) req noise reply rest hc
    (queue_stays_empty cfg hc.1 st hst hist) hn hnoise hcount hreply hnown

/-! ## ipmb-dev / Aardvark: progress -/

/-- ipmb-dev / Aardvark, any previous `next_sequence_number` (the only state these
interfaces have — nothing received earlier can matter): after fewer failed attempts than
the retry count (each: unrelated frames taking less than the timeout, then an empty poll or
a read error), unrelated frames taking less than the timeout and then the reply — the
reply's data is returned and exactly the events up to the reply were consumed (every request the
transport does not refuse, `routed_target_refused_i2c`). -/
theorem finds_match_after_noise_i2c (cfg : I2cCfg) (nextSeq : Nat) (req : Req) (hn : req.netfn % 2 = 0)
    (rounds : List (List I2cEvent × I2cEvent)) (noise : List I2cEvent) (dt : Nat) (reply : Frame)
    (rest : List I2cEvent)
    (hr : rounds.length < cfg.attempts)
    (hrounds : ∀ p ∈ rounds, I2cNoise (mkHdr cfg.slaveAddr req ((nextSeq + 1) % 64)) p.1 ∧
      dtSum p.1 < cfg.timeout ∧ I2cFail p.2)
    (hnoise : I2cNoise (mkHdr cfg.slaveAddr req ((nextSeq + 1) % 64)) noise) (ht : dtSum noise < cfg.timeout)
    (hreply : isReplyTo true (ridOf req ((nextSeq + 1) % 64)) reply)
    (hrt : i2cRefuses cfg req.routing = false) :
    let r := i2cRequest cfg nextSeq req (failedRounds rounds ++ (noise ++ .frame dt reply :: rest))
    r.out = .ok (replyData reply) ∧ r.rest = rest ∧ r.tx.length = rounds.length + 1 := by
  have key := i2cAttempts_rounds cfg (mkHdr cfg.slaveAddr req (i2cIncSeq nextSeq)) hn rounds cfg.attempts
    noise dt reply rest 0 hr hrounds hnoise ht hreply
  simp only [i2cRequest_not_refused _ _ _ _ hrt]
  rw [key]
  exact ⟨rfl, rfl, by simp⟩

/-! ## Non-vacuity: the hypotheses are satisfiable by concrete, non-trivial objects -/

def wBridged : Req := { wReq with routing := [⟨0x81, 0x20, 0⟩, ⟨0x20, 0x82, 0⟩] }
/-- bare acknowledgement of the Send Message of transaction 1 -/
def wAck : Frame := [0x81, 0x1c, 0x63, 0x20, 0x04, 0x34, 0x00, 0xa8]
/-- `wReply1` inside an intact Send Message response of transaction 1 -/
def wWrapped : Frame := [0x81, 0x1c, 0x63, 0x20, 0x04, 0x34, 0x00, 0x81, 0x1c, 0x63, 0x20, 0x04, 0x01, 0x00,
  0xaa, 0xbb, 0x76, 0xa8]

/-- attribution: the repaired loop does return data on a concrete run (bridged request: bare
acknowledgement, then the wrapped reply), and it is the reply's data -/
example : (rmcpRequest { maxRetries := 0 } ⟨0, [], []⟩ wBridged [.frame wAck, .frame wWrapped]).out =
    .ok [0x00, 0xaa, 0xbb] := by decide

/-- the witness frames are what the hypotheses of the progress clauses ask for: a stale reply, a late
failing acknowledgement and a damaged wrapper are all `Unrelated`; the acknowledgement of this
transaction is a `BareAck` only for the bridged request -/
example : Unrelated true (ridOf wReq 1) none wStale ∧ Unrelated true (ridOf wReq 2) none wLateAck ∧
    Unrelated true (ridOf wBridged 2) (some 2) wLateAck ∧ Unrelated true (ridOf wBridged 1) (some 1) wDamaged ∧
    isReplyTo true (ridOf wReq 1) wReply1 ∧ BareAck true (some 1) wAck ∧ ¬ BareAck true none wAck ∧
    wReq.netfn % 2 = 0 := by decide

/-- the reply to request 1 with data A5h 5Ah, header checksum +10h (73h for 63h) and payload checksum −10h (CCh for
DCh): BOTH checksums are invalid, the two errors cancel — the frame as a whole still adds up to zero -/
def wBothBad : Frame := [0x81, 0x1c, 0x73, 0x20, 0x04, 0x01, 0x00, 0xa5, 0x5a, 0xcc]
/-- the same with both checksums +10h: both invalid, not cancelling -/
def wBothBadNc : Frame := [0x81, 0x1c, 0x73, 0x20, 0x04, 0x01, 0x00, 0xa5, 0x5a, 0xec]

/-- a frame in both fault classes at once: the whole-frame sum of the cancelling one is zero, yet it is not a
reply (it is `Unrelated`, the hypothesis of the progress clauses) and on every transport model the request skips
it and returns the data of the intact reply behind it (budget 1) or an error (budget 0) — never A5h 5Ah -/
example : sum8 wBothBad = 0 ∧ sum8 (wBothBad.take 3) ≠ 0 ∧ sum8 (wBothBad.drop 3) ≠ 0 ∧ sum8 wBothBadNc ≠ 0 ∧
    ¬ isReplyTo true (ridOf wReq 1) wBothBad ∧ Unrelated true (ridOf wReq 1) none wBothBad ∧
    Unrelated true (ridOf wReq 1) none wBothBadNc ∧
    (rmcpRequest { maxRetries := 1 } ⟨0, [], []⟩ wReq [.frame wBothBad, .frame wReply1]).out = .ok (replyData wReply1) ∧
    (rmcpRequest { maxRetries := 1 } ⟨0, [], []⟩ wReq [.frame wBothBadNc, .frame wReply1]).out = .ok (replyData wReply1) ∧
    (rmcpRequest { maxRetries := 0 } ⟨0, [], []⟩ wReq [.frame wBothBad, .frame wReply1]).out = .retryError ∧
    (i2cRequest I2cCfg.ipmbdev 0 wReq [.frame 2 wBothBad, .frame 2 wReply1]).out = .ok (replyData wReply1) ∧
    (i2cRequest I2cCfg.aardvark 0 wReq [.frame 2 wBothBad, .frame 2 wReply1]).out = .ok (replyData wReply1) ∧
    (i2cRequest I2cCfg.ipmbdev 0 wReq [.frame 2 wBothBad]).out = .timeoutError := by decide

/-- HPM.1 Get Upgrade Status (2Ch/34h) NOT bridged: its reply is found (as shipped: IndexError) -/
example : (rmcpRequest { maxRetries := 0 } ⟨0, [], []⟩ { wReq with netfn := 0x2c, cmd := 0x34 }
      [.frame [0x81, 0xb4, 0xcb, 0x20, 0x04, 0x34, 0x00, 0x00, 0x33, 0x00, 0x75]]).out = .ok [0x00, 0x00, 0x33, 0x00] ∧
    (rmcpRequest (Cfg.shipped { maxRetries := 0 }) ⟨0, [], []⟩ { wReq with netfn := 0x2c, cmd := 0x34 }
      [.frame [0x81, 0xb4, 0xcb, 0x20, 0x04, 0x34, 0x00, 0x00, 0x33, 0x00, 0x75]]).out = .pyError "IndexError" := by
  decide

/-- the repaired loop on the witness of the C04-1 counter-example: the reply is found -/
example : (rmcpRequest { maxRetries := 1 } ⟨0, [], []⟩ wReq [.frame wStale, .frame wReply1]).out
    = .ok (replyData wReply1) := by decide

/-- the repaired source on the witness of `no_poisoning_asShipped_counterexample`: request 2 is answered,
the duplicate is gone -/
example : (rmcpRequest { maxRetries := 0 }
    (runSession { maxRetries := 0 } ⟨0, [], []⟩ [(wReq, [.frame wReply1, .frame wReply1])]) wReq [.frame wReply2]).out
    = .ok (replyData wReply2) := by decide

/-- ipmb-dev: hypotheses of `finds_match_after_noise_i2c` on a concrete script (one failed
attempt, one stale frame, then the reply) -/
example : (i2cRequest I2cCfg.ipmbdev 0 wReq
    [.frame 3 wStale, .idle, .frame 5 wStale, .frame 2 wReply1]).out = .ok (replyData wReply1) := by decide

/-- the probe after a request with sequence number 1: repaired it carries 2 and the late reply to that
request is not its answer; as shipped it carries 1 and the late reply makes it say "accessible" -/
example : (i2cProbe I2cCfg.ipmbdev true 1 0x20 [.frame 2 wReply1]).out = .timeoutError ∧
    (i2cProbe I2cCfg.ipmbdev false 1 0x20 [.frame 2 wReply1]).out = .ok [] := by decide

/-- a target behind a bridge on ipmb-dev: refused by the repaired source, nothing written; as shipped the
un-bridged request went to 72h on the local bus -/
example : (i2cRequest I2cCfg.ipmbdev 0 { wReq with rsSa := 0x72, routing := [⟨0x20, 0x82, 7⟩, ⟨0x20, 0x72, 0⟩] } []).tx = [] ∧
    (i2cRequest I2cCfg.ipmbdev 0 { wReq with rsSa := 0x72, routing := [⟨0x20, 0x82, 7⟩, ⟨0x20, 0x72, 0⟩] } []).out
      = .notSupported ∧
    (i2cRequest { I2cCfg.ipmbdev with refuseRouted := false } 0
      { wReq with rsSa := 0x72, routing := [⟨0x20, 0x82, 7⟩, ⟨0x20, 0x72, 0⟩] } []).tx.head?
      = some [0x72, 0x18, 0x76, 0x20, 0x04, 0x01, 0xdb] ∧
    i2cRefuses I2cCfg.ipmbdev wReq.routing = false ∧ i2cRefuses I2cCfg.aardvark [⟨0x20, 0x72, 0⟩] = false := by decide

/-- The history of seeded change C04f on the model: establish_session whose first request gets no answer
(max_retries = 1: two time-outs), establish_session again - the LATE reply to the first attempt's request arrives in
front of the genuine one.  Two requests, numbers 1 and 2; the second returns the genuine reply's data. -/
example :
    let caps1 : Req := { wReq with cmd := 0x38, payload := [0x0e, 4] }
    let caps2 : Req := { wReq with cmd := 0x38, payload := [0x0e, 2] }
    let late := [0x81, 0x1c, 0x63, 0x20, 0x04, 0x38, 0x00, 0x01, 0x04, 0, 0, 0, 0, 0, 0, 0x9f]
    let genuine := [0x81, 0x1c, 0x63, 0x20, 0x08, 0x38, 0x00, 0x01, 0x01, 0, 0, 0, 0, 0, 0, 0x9e]
    let pong : Ping := fun s => (s, true)
    let r := runOps { maxRetries := 1 } ⟨0, [], []⟩
      [.establish pong [(caps1, [.timeout, .timeout])] (fun _ _ => true),
       .establish pong [(caps2, [.frame late, .frame genuine])] (fun _ _ => false)]
    r.2.map (fun s => s.st.nextSeq) = [1, 2] ∧ r.2.map (fun s => s.out) = [.retryError, .ok (replyData genuine)] ∧
    r.1.nextSeq = 2 := by decide

end PyIpmi.Props.C04
