/-
  C14 — One LAN interface can be shared by threads, including its keep-alive.

  Model: `PyIpmi.Threads` (Model/Threads.lean) — N threads (the keep-alive is one of them), each
  making any number of `_send_and_receive` calls, cut at every shared access; the racy
  `next_sequence_number` update is OUTSIDE the lock exactly as in the source.
  Spec:  `PyIpmi.Spec.Threads.accepts` — the three clauses of the property as a monitor over
  the wire log and the per-call results.

  For EVERY configuration (any number of threads, any number of calls per thread, any initial
  counters, none/password/MD5 packing) and EVERY schedule (any list of thread ids — not a
  preemption bound):

  * `source_shape`               the lock scope, the place of the packing and of both sequence-number
                                 updates, and the keep-alive callable, read from the source on this run,
                                 are the ones the model hard-wires
  * `inv_all_schedules`          the inductive invariant holds in every reachable state
  * `monitor_accepts_all_schedules`  hence the specification's monitor accepts the wire log and
                                 results of every reachable state; spelled out per clause:
      `exchanges_not_interleaved`, `session_seq_increasing`, `own_reply`
  * `mutual_exclusion`           two threads are never both inside the `with` block
  * `racy_seq_is_harmless`       the unlocked `next_sequence_number` update does lose updates
                                 (a concrete schedule puts two datagrams with the same request
                                 sequence and command on the wire) — and by the theorems above the
                                 property still holds in that run
  * `no_deadlock`                while a thread has work left, some thread can move
  * `steps_bounded`              every effective step decreases a natural-number measure
  * `maximal_runs_complete`      in a reachable state where nothing can move, every thread has
                                 made all its calls and each got the reply to its own datagram
  * `accepted_trace_ok`          trace validation is sound: a logged access sequence that the
                                 model accepts ends in a state whose wire log and results the
                                 monitor accepts (used by the correspondence: the real wire log
                                 must equal the model's)
-/
import PyIpmi.Lemmas.ThreadsProgress
import PyIpmi.Gen.Threads
namespace PyIpmi.Props.C14
open PyIpmi.Threads PyIpmi.Spec.Threads

/-- The shape of `_send_and_receive` / `_send_ipmi_msg` / `IpmiMsg.pack` /
`Session.increment_sequence_number` / the keep-alive callable, as read from the AST of today's
working tree, is the one the step function of the model hard-wires (one lock block holding
packing, transmission and reception; sequence bump before it; nothing re-queued; the keep-alive
and both public entry points run this program).  A change of that shape in `/repo` regenerates
`Gen/Threads.lean` and this stops being provable. -/
theorem source_shape : PyIpmi.Gen.Threads.shape = Shape.expected := by decide

theorem inv_all_schedules (c : Cfg) (hs : c.sessSeq ≤ 0xffffffff) (sched : List Nat) :
    Inv (run (init c) sched) :=
  run_inv (init_inv c hs) sched

theorem monitor_accepts_all_schedules (c : Cfg) (hs : c.sessSeq ≤ 0xffffffff) (sched : List Nat) :
    accepts (run (init c) sched).wireChron (run (init c) sched).results = true :=
  inv_accepts (inv_all_schedules c hs sched)

/-- Clause (X): request/reply exchanges are not interleaved on the socket. -/
theorem exchanges_not_interleaved (c : Cfg) (hs : c.sessSeq ≤ 0xffffffff) (sched : List Nat) :
    exchangesOk (run (init c) sched).wireChron = true := by
  have h := monitor_accepts_all_schedules c hs sched
  simp only [accepts, Bool.and_eq_true] at h
  exact h.1.1

/-- Clause (S): session sequence numbers appear strictly increasing in transmission order
(up to the 32-bit wrap 0xffffffff → 1 that IPMI prescribes). -/
theorem session_seq_increasing (c : Cfg) (hs : c.sessSeq ≤ 0xffffffff) (sched : List Nat) :
    seqIncreasing (run (init c) sched).wireChron = true := by
  have h := monitor_accepts_all_schedules c hs sched
  simp only [accepts, Bool.and_eq_true] at h
  exact h.1.2

/-- Clause (O): each caller received the reply to its own request. -/
theorem own_reply (c : Cfg) (hs : c.sessSeq ≤ 0xffffffff) (sched : List Nat) :
    ownReply (run (init c) sched).wireChron (run (init c) sched).results = true := by
  have h := monitor_accepts_all_schedules c hs sched
  simp only [accepts, Bool.and_eq_true] at h
  exact h.2

theorem mutual_exclusion (c : Cfg) (hs : c.sessSeq ≤ 0xffffffff) (sched : List Nat)
    (t1 t2 : Nat) (th1 th2 : Thr)
    (h1 : (run (init c) sched).thr[t1]? = some th1) (h2 : (run (init c) sched).thr[t2]? = some th2)
    (l1 : inLock th1.pc = true) (l2 : inLock th2.pc = true) : t1 = t2 := by
  have hi := inv_all_schedules c hs sched
  have a := (hi.owner t1 th1 h1).mp l1
  have b := (hi.owner t2 th2 h2).mp l2
  rw [a] at b
  injection b

/-- Two datagrams of different threads carry the same IPMB request sequence and command. -/
def sameRqOnWire (w : List WEv) : Bool :=
  w.any fun e1 => w.any fun e2 =>
    match e1, e2 with
    | .tx t1 _ _ r1 c1, .tx t2 _ _ r2 c2 => t1 != t2 && r1 == r2 && c1 == c2
    | _, _ => false

def allDone (s : Sys) : Bool := s.thr.all fun th => th.pc == .done

/-- two threads, one Get Device ID each, session sequence starting at 7 -/
def racyCfg : Cfg := ⟨4, 7, 0, [(1, 1), (1, 1)]⟩
/-- both load `next_sequence_number` before either stores it -/
def racySched : List Nat := [0, 1, 0, 1, 0, 1] ++ List.replicate 8 0 ++ List.replicate 8 1

theorem racy_seq_is_harmless :
    sameRqOnWire (run (init racyCfg) racySched).wire = true ∧
    allDone (run (init racyCfg) racySched) = true ∧
    accepts (run (init racyCfg) racySched).wireChron (run (init racyCfg) racySched).results = true :=
  ⟨by decide, by decide, monitor_accepts_all_schedules racyCfg (by decide) racySched⟩

theorem no_deadlock (c : Cfg) (hs : c.sessSeq ≤ 0xffffffff) (sched : List Nat) (t0 : Nat) (th0 : Thr)
    (hget : (run (init c) sched).thr[t0]? = some th0) (hnd : th0.pc ≠ .done) :
    ∃ t, (step (run (init c) sched) t).isSome = true :=
  deadlock_free (inv_all_schedules c hs sched) hget hnd

theorem steps_bounded (s s' : Sys) (t : Nat) (h : step s t = some s') : measure s' < measure s :=
  step_decreases h

theorem maximal_runs_complete (c : Cfg) (hs : c.sessSeq ≤ 0xffffffff) (sched : List Nat)
    (hterm : ∀ t, step (run (init c) sched) t = none) (t : Nat) (p : Nat × Nat)
    (hp : c.threads[t]? = some p) :
    ∃ th, (run (init c) sched).thr[t]? = some th ∧ th.pc = .done ∧ th.results.length = p.1 ∧
      ∀ r ∈ th.results, ∃ n, r = .ok n n ∧ sentBy (run (init c) sched).wireChron t n = true :=
  terminal_complete (inv_all_schedules c hs sched) (run_acc (init_acc c) sched) hterm t p hp

theorem accepted_trace_ok (c : Cfg) (hs : c.sessSeq ≤ 0xffffffff) (tr : List (Nat × Act)) (s : Sys)
    (h : replay (init c) tr = .ok s) : accepts s.wireChron s.results = true := by
  have := replayFrom_run h
  subst this
  exact monitor_accepts_all_schedules c hs _

/-! ### non-vacuity -/

-- the racy run really exchanges two datagrams and returns two results
example : (run (init racyCfg) racySched).wireChron =
    [.tx 0 0 8 5 1, .rx 0 0, .tx 1 1 9 5 1, .rx 1 1] := by decide
example : (run (init racyCfg) racySched).results = [⟨0, 0, some 0⟩, ⟨1, 1, some 1⟩] := by decide

-- three threads (the third is the keep-alive), MD5 packing, wrap of the session sequence
def wrapCfg : Cfg := ⟨63, 0xfffffffe, 1, [(2, 1), (1, 4), (1, 1)]⟩
def wrapSched : List Nat :=
  [2, 0, 0, 1, 0, 1, 1, 2, 2] ++ List.replicate 40 1 ++ List.replicate 40 0 ++ List.replicate 40 2
example : allDone (run (init wrapCfg) wrapSched) = true := by decide +kernel
example : (run (init wrapCfg) wrapSched).wireChron.filterMap
    (fun e => match e with | .tx _ _ s _ _ => some s | _ => none) = [0xffffffff, 1, 2, 3] := by decide +kernel

-- the monitor is not trivially true: each clause rejects a log that breaks it
example : exchangesOk [.tx 0 0 8 1 1, .tx 1 1 9 2 1, .rx 0 0, .rx 1 1] = false := by decide
example : exchangesOk [.tx 0 0 8 1 1, .rx 1 0] = false := by decide
example : exchangesOk [.tx 0 0 8 1 1, .rx 0 0, .rx 0 0] = false := by decide
example : seqIncreasing [.tx 0 0 9 1 1, .rx 0 0, .tx 1 1 9 2 1, .rx 1 1] = false := by decide
example : seqIncreasing [.tx 0 0 9 1 1, .rx 0 0, .tx 1 1 8 2 1, .rx 1 1] = false := by decide
example : seqIncreasing [.tx 0 0 0xffffffff 1 1, .rx 0 0, .tx 1 1 0 2 1] = false := by decide
example : ownReply [.tx 0 0 8 1 1, .rx 0 0, .tx 1 1 9 2 1, .rx 1 1] [⟨0, 0, some 1⟩] = false := by decide
example : ownReply [.tx 0 0 8 1 1, .rx 0 0] [⟨0, 0, none⟩] = false := by decide
example : ownReply [.tx 0 0 8 1 1, .rx 0 0] [⟨1, 0, some 0⟩] = false := by decide

-- the model does not accept a trace that sends without the lock
example : (replay (init racyCfg) [(0, .ldNS 4), (0, .stNS 5), (0, .ldNS 5), (0, .ldSS 7)]).toOption = none := by
  decide
example : (replay (init racyCfg) [(0, .ldNS 4), (0, .stNS 5), (0, .ldNS 5), (0, .acq), (0, .ldSS 7)]).toOption.isSome
    = true := by decide

end PyIpmi.Props.C14
