/-
  C14 — One LAN interface can be shared by threads, including its keep-alive.

  Model: `PyIpmi.Threads` (Model/Threads.lean) — any number of application threads, each making any
  number of `_send_and_receive` calls cut at every shared access (`Cfg.seqLocked` selects where the IPMB
  sequence number is advanced and read: `true` = inside the lock block, the source with fixes/C04-2.diff;
  `false` = before it, as shipped); the interface's own keep-alive thread as the
  loop of `call_repeatedly` (`while not stopped.wait(interval): func()`, the interval elapsing any
  number of times, at any moment); and — optionally — one application thread that ends with
  `Rmcp.close_session` (stop the keep-alive, Close Session through the same locked path, then
  `activated := False`; `IpmiMsg.pack` advances the session sequence number only `if activated`).
  `Cfg.join` selects what the stopper returned by `call_repeatedly` does: `false` = as shipped
  (`stopped.set`), `true` = set the event and join the thread (fixes/C14-1.diff).
  Retransmissions: `Cfg.maxRetries` is `Rmcp(max_retries=…)` (ANY number), `Cfg.loss` the loss plan of the
  network (the reply to datagram number k is lost iff `loss[k]`; ANY list — every loss pattern, for application
  threads, the keep-alive and Close Session alike): a thread whose reply is lost times out and, inside the SAME
  lock hold, packs again (`IpmiMsg.pack` takes the next session sequence number) and transmits again, at most
  `maxRetries` times per call; then the call ends in an error.  `Cfg.packOnce` is the variant "the session wrapper
  is built once, before the retry loop" (NOT the source: `source_is_safe_variant`).
  Spec:  `PyIpmi.Spec.Threads.accepts` — the clauses of the property as a monitor over the wire log and
  the per-call results: (X) exchanges not interleaved, (S) session sequence numbers strictly
  increasing over the whole log, retransmissions included, (O) every caller its own reply — or an error after a
  time-out on its own datagram —, (C) nothing is transmitted after Close Session (but its own retransmission).

  For EVERY configuration with `Cfg.Safe` (the stopper joins — or nobody closes the session —; the wrapper is
  packed per attempt — or there is no second attempt —; any number of threads, calls per thread and timer ticks,
  any initial counters, none/password/MD5 packing, ANY retry budget and ANY loss plan) and EVERY schedule (any
  list of thread ids — not a preemption bound):

  * `source_shape`               the lock scope, the place of the packing and of both sequence-number
                                 updates, the keep-alive loop, `close_session` and the `activated` guard of
                                 `IpmiMsg.pack`, read from the source on this run, are the ones the model
                                 hard-wires; the variant is what the source's stopper does
  * `inv_all_schedules`          the inductive invariants hold in every reachable state
  * `monitor_accepts_all_schedules`  hence the specification's monitor accepts the wire log and
                                 results of every reachable state; spelled out per clause:
      `exchanges_not_interleaved`, `session_seq_increasing`, `own_reply`, `nothing_after_close_session`
  * `mutual_exclusion`           two threads are never both inside the `with` block
  * `keepalive_gone_before_close_session`  once the closing thread is past the stopper, every other
                                 thread — the keep-alive included — has terminated
  * `deactivated_means_quiet`    once `activated` is False no thread is running any more
  * `join_waits_without_lock`    the thread waiting in the join does not hold the transaction lock
  * `no_deadlock`                while a thread has work left, some thread can move — in particular the
                                 join cannot deadlock
  * `steps_bounded`              every effective step decreases a natural-number measure
  * `own_reply_or_timeout_error` every finished call returned the reply to the datagram its caller transmitted last,
                                 or failed after the socket had timed out on that datagram, whose reply the loss
                                 plan says was lost; `lossless_no_call_fails`: without losses no call fails
  * `maximal_runs_complete`      in a reachable state where nothing can move, every thread is finished,
                                 every application thread made all its calls, each call got its own reply (or such
                                 an error); `maximal_runs_complete_lossless`: … and the session is deactivated
  * `packOnce_retransmission_repeats_session_seq`  the variant "wrapper built once before the retry loop": with
                                 max_retries = 1 and the first reply lost the wire shows session sequence numbers
                                 N, N, N+1 — clause (S) is false on that run (the same configuration with the
                                 per-attempt packing of the source: N, N+1, N+2, all clauses hold)
  * `accepted_trace_ok`          trace validation is sound: a logged access sequence that the
                                 model accepts ends in a state whose wire log and results the
                                 monitor accepts (used by the correspondence: the real wire log
                                 must equal the model's)
  * `rq_seq_distinct_on_wire`    with the sequence number allocated inside the lock block (`seqLocked`) and no
                                 retransmissions (`maxRetries = 0`: a retransmission repeats, as IPMI intends, the
                                 request sequence number of the datagram it repeats): under
                                 EVERY schedule every transmitted datagram carries an IPMB request sequence
                                 number different from the one transmitted before it, whichever threads sent
                                 them (clause (Q) of Spec/Threads.lean; property C04 words it, its quantifier
                                 names schedules)
  * `late_reply_cannot_match`    … and at the moment a thread transmits, the number in its header differs from
                                 the number on the latest datagram: the reply to THAT datagram, should it
                                 arrive late, fails the sequence comparison of the filter of this request
  * `racy_seq_asShipped_counterexample`  as shipped (counter advanced and read before the lock) a concrete
                                 schedule - A increments, B increments, B reads, A reads - puts two consecutive
                                 datagrams with the same request sequence number and command on the wire
                                 ((Q) is false; the fault-free clauses X, S, O, C still hold on that run, which
                                 is why only a late reply makes the defect observable: the check withholds one)
  * `exchangesOk_imp_multi`, `accepts_imp_acceptsMulti`  the monitor used for wire logs of threads that address
                                 BRIDGED targets (an exchange is tx (rx)+ owned by one thread, clause X′) accepts every
                                 log the one-reply monitor accepts: it generalises it.  The model has ONE lock cell and
                                 unbridged exchanges; that the source uses one lock object for every target is part of
                                 `source_shape` (`Shape.oneLock`), and schedules of threads addressing DIFFERENT targets
                                 (unbridged other IPMB address, routed through one / two bridges, next to the keep-alive)
                                 are judged on the real code by that monitor
  * `lock_per_target_counterexample`  the model with a lock PER TARGET ADDRESS (`stepT`: `_lock_for(target)`) - an
                                 application thread addressing 82h next to the keep-alive: one schedule interleaves the
                                 exchanges and hands the keep-alive the other's reply ((X), (O) false), another puts
                                 one session sequence number on two datagrams ((S) false); with both threads addressing
                                 the BMC the same schedules are runs of the one-lock model
  * `whole_exchange_owned_by_its_caller`  clause (W) of the monitor (the datagrams of one call - the request and its
                                 retransmissions - are consecutive datagrams of the log) together with (X) means: every
                                 datagram between two datagrams of one call is the calling thread's; for every log.
                                 (That every run of the MODEL satisfies (W) is not stated as a wire-log theorem: the model
                                 does not record the datagrams per call; what it proves is `mutual_exclusion` with the
                                 retry loop inside the lock block.  (W) is judged on the real code on every schedule.)
  * `release_in_retry_handler_counterexample`  the model whose retry handler releases and re-takes the lock before another
                                 attempt (`stepR`): one schedule puts another thread's whole exchange between a request
                                 and its retransmission; clauses (X) (S) (O) (C) accept that log, clause (W)
                                 (`Spec.Threads.wholeExchanges`, judged on the real code) does not; the one-lock-hold
                                 model gives consecutive datagrams under the same schedule
  * `source_is_safe_variant`, `source_cfg_safe`, `today_all_schedules`  TODAY's source is the safe variant of all three
                                 (stopper joins; number allocated inside the lock block; wrapper packed by the
                                 transmission of every attempt), so the theorems above
                                 hold for its configurations with no variant hypothesis left
  * `shipped_without_close_holds`  the variant AS SHIPPED satisfies all of the above as long as no thread
                                 closes the session (the close-free case: the theorems of the first version)

  and for the variant AS SHIPPED with a closing thread

  * `shipped_keepalive_after_close_session`  a concrete schedule — the interval elapses just before
                                 `close_session` calls the stopper — in which the keep-alive's Get Device ID
                                 is transmitted AFTER Close Session and repeats its session sequence number:
                                 clauses (C) and (S) are false on that run (genuine defect C14-1);
  * `joined_same_schedule_is_clean`  the same configuration and schedule with the joining stopper:
                                 the keep-alive's request precedes Close Session, all clauses hold.
-/
import PyIpmi.Lemmas.ThreadsProgress
import PyIpmi.Lemmas.ThreadsSeq
import PyIpmi.Lemmas.ThreadsWhole
import PyIpmi.Gen.Threads
namespace PyIpmi.Props.C14
open PyIpmi.Threads PyIpmi.Spec.Threads

/-- The shape of `_send_and_receive` / `_send_ipmi_msg` / `IpmiMsg.pack` /
`Session.increment_sequence_number` / `call_repeatedly` / `close_session`, as read from the AST of today's
working tree, is the one the step function of the model hard-wires (one lock block holding packing,
transmission and reception; sequence bump before it; nothing re-queued; the keep-alive and both public
entry points run this program; the loop looks at the event only in `wait`; `close_session` = stopper,
`activated` test, locked Close Session, `activated = False`; the retry loop with the one transmission per attempt and
the inner receive loop).  The stopper's behaviour, the place of the
sequence-number allocation (inside the lock block or before it) and the place of the packing (by the transmission of
every attempt, or once before the retry loop) are the model's variants.  A change of that shape in `/repo` regenerates `Gen/Threads.lean` and this stops being provable. -/
theorem source_shape : PyIpmi.Gen.Threads.shape =
    Shape.expected PyIpmi.Gen.Threads.shape.stopperJoins PyIpmi.Gen.Threads.shape.seqInLock
      PyIpmi.Gen.Threads.shape.packPerAttempt := by
  decide

/-- … and TODAY's source is the SAFE variant of all three: the stopper joins the keep-alive thread, the
sequence number is allocated inside the lock block, and the session wrapper is packed by the transmission of every
attempt (so a retransmission takes the next session sequence number).  The property theorems below are stated for `Cfg.Safe`
configurations (resp. `seqLocked = true`); without this equation nothing in this file says that the tree is
such a configuration (only the harness's probe did), and a regression to "set only" / "allocate before the
lock" would leave every theorem building.  With it `source_cfg_safe` discharges the variant hypotheses for
the configurations of today's source (`today_*` corollaries), and such a regression stops the build; the
run's directed schedules (interval elapses just before the stopper; both threads load the counter before
either stores) then produce the failing schedule. -/
theorem source_is_safe_variant : PyIpmi.Gen.Threads.shape = Shape.expected true true true := by
  decide

/-! ## exchanges of more than one datagram (threads addressing bridged targets) -/

/-- On every wire log clause (X) implies clause (X′): the multi-datagram reading of "exchanges are not interleaved"
generalises the one-reply-per-datagram reading, it does not contradict it. -/
theorem exchangesOk_imp_multi (w : List WEv) (h : exchangesOk w = true) : exchangesOkMulti w = true :=
  ((simM_fold w Mon.init MonM.init ⟨rfl, fun _ => ⟨rfl, Or.inl ⟨rfl, rfl⟩⟩⟩).2 h).1

theorem accepts_imp_acceptsMulti (w : List WEv) (rs : List Res) (h : accepts w rs = true) : acceptsMulti w rs = true := by
  simp only [accepts, acceptsMulti, Bool.and_eq_true] at h ⊢
  exact ⟨⟨⟨exchangesOk_imp_multi w h.1.1.1, h.1.1.2⟩, h.1.2⟩, h.2⟩

/-! ## a lock per target (NOT the source: `Shape.oneLock`) -/

/-- the model's system with one lock PER TARGET ADDRESS instead of the one lock cell: `held` are the threads that hold
the lock of the target they address -/
structure SysT where
  sys : Sys
  held : List Nat := []

/-- target address of thread `t` (`tg[t]`; beyond the list — the keep-alive — the BMC, 20h) -/
def targetOf (tg : List Nat) (t : Nat) : Nat := tg.getD t 0x20

/-- One step of thread `t` when `_send_and_receive` takes `self._lock_for(target)`: the step of the model, with the
lock cell showing the holder of the lock of `t`'s OWN target (free if only threads addressing other targets are in
their lock blocks). -/
def stepT (tg : List Nat) (st : SysT) (t : Nat) : Option SysT :=
  let owner := st.held.find? fun u => targetOf tg u == targetOf tg t
  match step { st.sys with lock := owner } t with
  | none => none
  | some s' =>
    some ⟨s', if s'.lock == some t && owner != some t then t :: st.held
              else if s'.lock == none && owner == some t then st.held.erase t else st.held⟩

def runT (tg : List Nat) (st : SysT) (sched : List Nat) : SysT :=
  sched.foldl (fun st t => (stepT tg st t).getD st) st

/-- an application thread making one call and the keep-alive (one tick); session sequence starting at 7 -/
def twoTargetsCfg : Cfg := { nextSeq := 4, sessSeq := 7, xl := 0, threads := [(1, 1)], ka := some 1 }
/-- the application thread transmits, the keep-alive's interval elapses and it runs its whole call, then the rest -/
def overtakeSched : List Nat := List.replicate 10 0 ++ List.replicate 14 1 ++ List.replicate 4 0
/-- the application thread is between the load and the store of `session.sequence_number += 1` when the keep-alive
runs its whole call -/
def sameSeqSched : List Nat := List.replicate 6 0 ++ List.replicate 13 1 ++ List.replicate 8 0

/-- both schedules continued until every thread has finished, whatever the locks let through -/
def fillSched : List Nat := List.replicate 14 0 ++ List.replicate 14 1

/-- **A lock per target is not the property's lock.**  With `self._lock_for(target)` the application thread (addressing
82h) and the keep-alive (addressing the BMC) are not serialised: under `overtakeSched` the keep-alive transmits inside
the application thread's exchange and takes its reply — clauses (X) and (O) are false, the application thread's call
ends in an error although nothing was lost —, under `sameSeqSched` both datagrams carry session sequence number 8 —
clause (S) is false.  With both threads addressing the BMC (one lock again) the very same schedules are runs of the
model (`run`), which the monitor accepts (`monitor_accepts_all_schedules`).  That the source has ONE lock object is
`Shape.oneLock` (`source_shape`); the schedules are found on the real code by the different-targets stream of the
check. -/
theorem lock_per_target_counterexample :
    exchangesOk (runT [0x82] ⟨init twoTargetsCfg, []⟩ overtakeSched).sys.wireChron = false ∧
    ownReply (runT [0x82] ⟨init twoTargetsCfg, []⟩ overtakeSched).sys.wireChron
      (runT [0x82] ⟨init twoTargetsCfg, []⟩ overtakeSched).sys.results = false ∧
    seqIncreasing (runT [0x82] ⟨init twoTargetsCfg, []⟩ sameSeqSched).sys.wireChron = false ∧
    (runT [0x20] ⟨init twoTargetsCfg, []⟩ (overtakeSched ++ fillSched)).sys.wireChron =
      (run (init twoTargetsCfg) (overtakeSched ++ fillSched)).wireChron ∧
    (runT [0x20] ⟨init twoTargetsCfg, []⟩ (sameSeqSched ++ fillSched)).sys.wireChron =
      (run (init twoTargetsCfg) (sameSeqSched ++ fillSched)).wireChron ∧
    (run (init twoTargetsCfg) (sameSeqSched ++ fillSched)).wireChron = [.tx 0 0 8 5 1, .rx 0 0, .tx 1 1 9 6 1, .rx 1 1] :=
  ⟨by decide +kernel, by decide +kernel, by decide +kernel, by decide +kernel, by decide +kernel, by decide +kernel⟩

/-! ## clause (W): a retransmission belongs to the exchange it repeats -/

/-- **What clause (W) adds to clause (X)** - for EVERY wire log and EVERY list of calls, whatever produced them: if the
log satisfies (X) and the calls satisfy (W), every datagram transmitted between two datagrams of one call (its request
and a retransmission of it, say) was transmitted by the calling thread: no other thread's exchange lies inside the call's
exchange.  (With (X): every reception / time-out in that stretch is the calling thread's too.) -/
theorem whole_exchange_owned_by_its_caller (w : List WEv) (cs : List Call) (hx : exchangesOk w = true)
    (hw : wholeExchanges w cs = true) (c : Call) (hc : c ∈ cs) (a b : Nat) (ha : a ∈ c.sent) (hb : b ∈ c.sent)
    (t n s r k : Nat) (ht : WEv.tx t n s r k ∈ w) (h1 : a ≤ n) (h2 : n ≤ b) : t = c.tid := by
  simp only [wholeExchanges, List.all_eq_true, Bool.and_eq_true] at hw
  obtain ⟨hcons, hsent⟩ := hw c hc
  have hn := consecutive_between c.sent hcons a b n ha hb h1 h2
  obtain ⟨s', r', k', hmem⟩ := sentBy_mem w c.tid n (hsent n hn)
  exact (serial_names_one w Mon.init hx).2 t c.tid n s r k s' r' k' ht hmem

/-! ## the lock released inside the retry handler (NOT the source: `Shape.lockOpsElsewhere = 0`, `Shape.retryLoop`) -/

/-- the model's system when the `except socket.timeout:` handler of the retry loop does `transaction_lock.release();
transaction_lock.acquire()` before another attempt: `back` are the threads that have released the lock there and have
not got it back yet -/
structure SysR where
  sys : Sys
  back : List Nat := []

/-- thread `t` is about to take a `socket.timeout` (nothing queued, nothing in the socket) with an attempt left -/
def timesOutWithAttemptLeft (s : Sys) (t : Nat) : Bool :=
  match s.thr[t]? with
  | some th => th.pc == .recv && s.q.isEmpty && s.sock.isEmpty && decide (th.retry + 1 ≤ s.par.maxRetries)
  | none => false

/-- One step of thread `t` in that variant: the step of the model, except that the time-out step with an attempt left
also frees the lock cell, and the thread's next step is to take the lock again - enabled only while the cell is free. -/
def stepR (st : SysR) (t : Nat) : Option SysR :=
  if st.back.contains t then
    (if st.sys.lock.isNone then some ⟨{ st.sys with lock := some t }, st.back.erase t⟩ else none)
  else
    match step st.sys t with
    | none => none
    | some s' =>
      if timesOutWithAttemptLeft st.sys t then some ⟨{ s' with lock := none }, t :: st.back⟩ else some ⟨s', st.back⟩

def runR (st : SysR) (sched : List Nat) : SysR := sched.foldl (fun st t => (stepR st t).getD st) st

/-- two application threads, one call each, `Rmcp(max_retries=1)`, the reply to the first datagram of the run is lost -/
def retryCfg : Cfg := { nextSeq := 4, sessSeq := 7, xl := 0, threads := [(1, 1), (1, 1)], maxRetries := 1, loss := [true] }
/-- thread 0 transmits and times out; thread 1 - a fair lock hands it the lock at the release - runs its whole call;
thread 0 takes the lock again, retransmits, is answered -/
def handOffSched : List Nat := List.replicate 11 0 ++ List.replicate 14 1 ++ List.replicate 12 0

/-- **A lock released between a time-out and the retransmission does not span the exchange.**  Under `handOffSched`
the variant puts thread 1's complete exchange between thread 0's request (datagram 0) and its retransmission
(datagram 2).  Datagram by datagram nothing is wrong - the monitor of clauses (X) (S) (O) (C) ACCEPTS that log: every
datagram is answered or timed out by its own sender, the session sequence numbers increase, each caller has its own
reply -; clause (W) (`Spec.Threads.wholeExchanges`: the datagrams of one call are consecutive) is false.  The model
(`run`: the lock is held from the first transmission to the end of the call) turns the same schedule (continued until
thread 1, which had to wait, has finished too) into the log with
thread 0's datagrams 0, 1 next to each other, which satisfies (W).  That the source never releases the lock inside the
block is `Shape.lockOpsElsewhere = 0` and `Shape.retryLoop` (`source_shape`); the schedule is found on the real code by
the lock-hand-off sweep of the retransmission stream. -/
theorem release_in_retry_handler_counterexample :
    (runR ⟨init retryCfg, []⟩ handOffSched).sys.wireChron =
      [.tx 0 0 8 5 1, .to 0 0, .tx 1 1 9 6 1, .rx 1 1, .tx 0 2 10 5 1, .rx 0 2] ∧
    accepts (runR ⟨init retryCfg, []⟩ handOffSched).sys.wireChron
      (runR ⟨init retryCfg, []⟩ handOffSched).sys.results = true ∧
    wholeExchanges (runR ⟨init retryCfg, []⟩ handOffSched).sys.wireChron [⟨0, [0, 2]⟩, ⟨1, [1]⟩] = false ∧
    (run (init retryCfg) (handOffSched ++ List.replicate 14 1)).wireChron =
      [.tx 0 0 8 5 1, .to 0 0, .tx 0 1 9 5 1, .rx 0 1, .tx 1 2 10 6 1, .rx 1 2] ∧
    wholeExchanges (run (init retryCfg) (handOffSched ++ List.replicate 14 1)).wireChron [⟨0, [0, 1]⟩, ⟨1, [2]⟩] = true :=
  ⟨by decide +kernel, by decide +kernel, by decide +kernel, by decide +kernel, by decide +kernel⟩

/-- a test configuration with the variant flags the translator read from today's source -/
def ofSource (c : Cfg) : Cfg :=
  { c with join := PyIpmi.Gen.Threads.shape.stopperJoins, seqLocked := PyIpmi.Gen.Threads.shape.seqInLock,
           packOnce := !PyIpmi.Gen.Threads.shape.packPerAttempt }

theorem source_cfg_safe (c : Cfg) (hcmd : ∀ p ∈ c.threads, p.2 ≠ closeCmd) :
    (ofSource c).Safe ∧ (ofSource c).seqLocked = true := by
  have h1 : PyIpmi.Gen.Threads.shape.stopperJoins = true := by rw [source_is_safe_variant]; rfl
  have h2 : PyIpmi.Gen.Threads.shape.seqInLock = true := by rw [source_is_safe_variant]; rfl
  have h3 : PyIpmi.Gen.Threads.shape.packPerAttempt = true := by rw [source_is_safe_variant]; rfl
  exact ⟨⟨Or.inl (by simp [ofSource, h1]), by simpa [ofSource] using hcmd, Or.inl (by simp [ofSource, h3])⟩,
    by simp [ofSource, h2]⟩

theorem inv_all_schedules (c : Cfg) (hc : c.Safe) (hs : c.sessSeq ≤ 0xffffffff) (sched : List Nat) :
    Inv (run (init c) sched) ∧ Tear (run (init c) sched) :=
  run_inv (init_inv c hs hc.2.2) (init_tear c hc) sched

theorem monitor_accepts_all_schedules (c : Cfg) (hc : c.Safe) (hs : c.sessSeq ≤ 0xffffffff) (sched : List Nat) :
    accepts (run (init c) sched).wireChron (run (init c) sched).results = true :=
  inv_accepts (inv_all_schedules c hc hs sched).1

/-- Clause (X): request/reply exchanges are not interleaved on the socket. -/
theorem exchanges_not_interleaved (c : Cfg) (hc : c.Safe) (hs : c.sessSeq ≤ 0xffffffff) (sched : List Nat) :
    exchangesOk (run (init c) sched).wireChron = true := by
  have h := monitor_accepts_all_schedules c hc hs sched
  simp only [accepts, Bool.and_eq_true] at h
  exact h.1.1.1

/-- Clause (S): session sequence numbers appear strictly increasing in transmission order
(up to the 32-bit wrap 0xffffffff → 1 that IPMI prescribes) — over the whole wire log, Close Session
and every RETRANSMISSION included: for every retry budget, every loss plan, every schedule. -/
theorem session_seq_increasing (c : Cfg) (hc : c.Safe) (hs : c.sessSeq ≤ 0xffffffff) (sched : List Nat) :
    seqIncreasing (run (init c) sched).wireChron = true := by
  have h := monitor_accepts_all_schedules c hc hs sched
  simp only [accepts, Bool.and_eq_true] at h
  exact h.1.1.2

/-- Clause (O): each caller received the reply to its own request — or an error, after a time-out on it. -/
theorem own_reply (c : Cfg) (hc : c.Safe) (hs : c.sessSeq ≤ 0xffffffff) (sched : List Nat) :
    ownReply (run (init c) sched).wireChron (run (init c) sched).results = true := by
  have h := monitor_accepts_all_schedules c hc hs sched
  simp only [accepts, Bool.and_eq_true] at h
  exact h.1.2

/-- Clause (C): no datagram — of any thread, the keep-alive included — follows Close Session (other than the
retransmission of Close Session by its sender). -/
theorem nothing_after_close_session (c : Cfg) (hc : c.Safe) (hs : c.sessSeq ≤ 0xffffffff) (sched : List Nat) :
    closeLast (run (init c) sched).wireChron = true := by
  have h := monitor_accepts_all_schedules c hc hs sched
  simp only [accepts, Bool.and_eq_true] at h
  exact h.2

theorem mutual_exclusion (c : Cfg) (hc : c.Safe) (hs : c.sessSeq ≤ 0xffffffff) (sched : List Nat)
    (t1 t2 : Nat) (th1 th2 : Thr)
    (h1 : (run (init c) sched).thr[t1]? = some th1) (h2 : (run (init c) sched).thr[t2]? = some th2)
    (l1 : inLock th1.pc = true) (l2 : inLock th2.pc = true) : t1 = t2 := by
  have hi := (inv_all_schedules c hc hs sched).1
  have a := (hi.owner t1 th1 h1).mp l1
  have b := (hi.owner t2 th2 h2).mp l2
  rw [a] at b
  injection b

/-- When the closing thread has left the stopper (it is about to test `activated`, is sending Close
Session, or has sent it), every other thread has terminated — the keep-alive thread too: this is what
the join buys. -/
theorem keepalive_gone_before_close_session (c : Cfg) (hc : c.Safe) (hs : c.sessSeq ≤ 0xffffffff)
    (sched : List Nat) (t t' : Nat) (th th' : Thr)
    (h : (run (init c) sched).thr[t]? = some th) (h' : (run (init c) sched).thr[t']? = some th')
    (hcl : th.closing = true) (ne : t' ≠ t) : th'.pc = .done :=
  (inv_all_schedules c hc hs sched).2.late t th h hcl t' th' h' ne

/-- Once `Session.activated` is False, no thread is running any more. -/
theorem deactivated_means_quiet (c : Cfg) (hc : c.Safe) (hs : c.sessSeq ≤ 0xffffffff) (sched : List Nat)
    (ha : (run (init c) sched).activated = false) (t : Nat) (th : Thr)
    (h : (run (init c) sched).thr[t]? = some th) : th.pc = .done :=
  (inv_all_schedules c hc hs sched).2.deact ha t th h

/-- The thread that waits in the join does not hold the transaction lock (and the event is set): the
keep-alive thread can always finish the call it is in. -/
theorem join_waits_without_lock (c : Cfg) (hc : c.Safe) (hs : c.sessSeq ≤ 0xffffffff) (sched : List Nat)
    (t : Nat) (th : Thr) (h : (run (init c) sched).thr[t]? = some th) (hp : th.pc = .joinKa) :
    (run (init c) sched).lock ≠ some t ∧ (run (init c) sched).stopped = true := by
  have hi := inv_all_schedules c hc hs sched
  refine ⟨?_, hi.2.stop t th h hp⟩
  intro hl
  have := (hi.1.owner t th h).mpr hl
  rw [hp] at this
  cases this

/-- Two datagrams of different threads carry the same IPMB request sequence and command. -/
def sameRqOnWire (w : List WEv) : Bool :=
  w.any fun e1 => w.any fun e2 =>
    match e1, e2 with
    | .tx t1 _ _ r1 c1, .tx t2 _ _ r2 c2 => t1 != t2 && r1 == r2 && c1 == c2
    | _, _ => false

def allDone (s : Sys) : Bool := s.thr.all fun th => th.pc == .done

/-- With the sequence number allocated inside the lock block: for every configuration, every number of
threads and calls, every schedule — consecutive transmissions carry different IPMB request sequence numbers. -/
theorem rq_seq_distinct_on_wire (c : Cfg) (hl : c.seqLocked = true) (hm : c.maxRetries = 0) (hc : c.Safe)
    (hs : c.sessSeq ≤ 0xffffffff)
    (sched : List Nat) : rqDistinct (run (init c) sched).wireChron = true := by
  have hq := run_seq (init_inv c hs hc.2.2) (init_tear c hc) (init_seq c hl hm) sched
  rw [Sys.wireChron, ← rqOk_eq]
  exact hq.ok

/-- … and whenever a thread is about to transmit, the number in its header is not the number of the
latest datagram on the wire: a late reply to that datagram (it echoes its number) cannot pass the
sequence comparison of this request's filter. -/
theorem late_reply_cannot_match (c : Cfg) (hl : c.seqLocked = true) (hm : c.maxRetries = 0) (hc : c.Safe)
    (hs : c.sessSeq ≤ 0xffffffff)
    (sched : List Nat) (t : Nat) (th : Thr) (h : (run (init c) sched).thr[t]? = some th) (hp : th.pc = .send)
    (r : Nat) (hr : lastRq (run (init c) sched).wire = some r) : r ≠ th.hdr := by
  have hi := inv_all_schedules c hc hs sched
  have hq := run_seq (init_inv c hs hc.2.2) (init_tear c hc) (init_seq c hl hm) sched
  have hown : (run (init c) sched).lock = some t := (hi.1.owner t th h).mp (by rw [hp]; rfl)
  have hh := hq.holder t th h hown
  simp only [HolderSeq, hp] at hh
  exact hh.2 r hr

/-- **Today's source, no variant hypothesis left**: for every number of threads, calls and keep-alive ticks,
with or without a closing thread, EVERY retry budget (`max_retries`), EVERY loss plan, every schedule — the monitor
(clauses X, S, O, C) accepts the run: in particular the session sequence numbers increase strictly over the whole
wire log, retransmissions included; and without retransmissions (`max_retries = 0`) consecutive transmissions carry
different request sequence numbers (clause Q). -/
theorem today_all_schedules (c : Cfg) (hcmd : ∀ p ∈ c.threads, p.2 ≠ closeCmd) (hs : c.sessSeq ≤ 0xffffffff)
    (sched : List Nat) :
    accepts (run (init (ofSource c)) sched).wireChron (run (init (ofSource c)) sched).results = true
    ∧ (c.maxRetries = 0 → rqDistinct (run (init (ofSource c)) sched).wireChron = true) := by
  obtain ⟨hsafe, hl⟩ := source_cfg_safe c hcmd
  have hs' : (ofSource c).sessSeq ≤ 0xffffffff := by simpa [ofSource] using hs
  exact ⟨monitor_accepts_all_schedules _ hsafe hs' sched,
    fun hm => rq_seq_distinct_on_wire _ hl (by simpa [ofSource] using hm) hsafe hs' sched⟩

/-- two threads, one Get Device ID each, session sequence starting at 7; sequence number allocated before
the lock (as shipped) -/
def racyCfg : Cfg := { nextSeq := 4, sessSeq := 7, xl := 0, threads := [(1, 1), (1, 1)], seqLocked := false }
/-- A loads, B loads, A stores, B stores (both 5), A reads 5, B reads 5 — then each runs its exchange -/
def racySched : List Nat := [0, 1, 0, 1, 0, 1] ++ List.replicate 9 0 ++ List.replicate 9 1
/-- "A increments, B increments, B reads, A reads": A load/store (5), B load/store (6), B reads 6, A reads 6 -/
def racySched2 : List Nat := [0, 0, 1, 1, 1, 0] ++ List.replicate 9 1 ++ List.replicate 9 0

theorem racy_seq_asShipped_counterexample :
    rqDistinct (run (init racyCfg) racySched).wireChron = false ∧
    rqDistinct (run (init racyCfg) racySched2).wireChron = false ∧
    sameRqOnWire (run (init racyCfg) racySched2).wire = true ∧
    allDone (run (init racyCfg) racySched2) = true ∧
    accepts (run (init racyCfg) racySched2).wireChron (run (init racyCfg) racySched2).results = true :=
  ⟨by decide, by decide, by decide, by decide,
   monitor_accepts_all_schedules racyCfg ⟨Or.inl rfl, by decide, Or.inl rfl⟩ (by decide) racySched2⟩

/-- While some thread is neither finished nor (the keep-alive loop) asleep for good, some thread can
move.  In particular the join cannot deadlock. -/
theorem no_deadlock (c : Cfg) (hc : c.Safe) (hs : c.sessSeq ≤ 0xffffffff) (sched : List Nat) (t0 : Nat)
    (th0 : Thr) (hget : (run (init c) sched).thr[t0]? = some th0) (hnp : ¬ parked (run (init c) sched) th0) :
    ∃ t, (step (run (init c) sched) t).isSome = true :=
  deadlock_free (inv_all_schedules c hc hs sched).1 (inv_all_schedules c hc hs sched).2 hget hnp

theorem steps_bounded (s s' : Sys) (t : Nat) (h : step s t = some s') : measure s' < measure s :=
  step_decreases h

/-- Every finished call, in every reachable state: it returned the reply to the datagram its caller transmitted
(last) — or it failed, and then the socket had timed out on that datagram and the loss plan says its reply was lost
(`Cfg.loss`): a call fails only when the network lost `max_retries + 1` replies in a row… -/
theorem own_reply_or_timeout_error (c : Cfg) (hc : c.Safe) (hs : c.sessSeq ≤ 0xffffffff) (sched : List Nat)
    (t : Nat) (th : Thr) (h : (run (init c) sched).thr[t]? = some th) (r : CallRes) (hr : r ∈ th.results) :
    (∃ n, r = .ok n n ∧ sentBy (run (init c) sched).wireChron t n = true) ∨
    (∃ n, r = .retryError n ∧ sentBy (run (init c) sched).wireChron t n = true ∧
      timedOut (run (init c) sched).wireChron t n = true ∧ lostAt c.loss n = true) := by
  have hp : (run (init c) sched).par.loss = c.loss := by rw [run_par]; rfl
  rcases (inv_all_schedules c hc hs sched).1.res t th h r hr with ⟨n, h1, h2⟩ | ⟨n, h1, h2, h3, h4⟩
  · exact Or.inl ⟨n, h1, by rw [Sys.wireChron, sentBy_reverse]; exact h2⟩
  · exact Or.inr ⟨n, h1, by rw [Sys.wireChron, sentBy_reverse]; exact h2,
      by rw [Sys.wireChron, timedOut_reverse]; exact h3, by rw [← hp]; exact h4⟩

/-- … in particular: when the network loses nothing, no call fails, whatever the schedule. -/
theorem lossless_no_call_fails (c : Cfg) (hc : c.Safe) (hs : c.sessSeq ≤ 0xffffffff)
    (hl : ∀ n, lostAt c.loss n = false) (sched : List Nat)
    (t : Nat) (th : Thr) (h : (run (init c) sched).thr[t]? = some th) (r : CallRes) (hr : r ∈ th.results) :
    ∃ n, r = .ok n n ∧ sentBy (run (init c) sched).wireChron t n = true := by
  rcases own_reply_or_timeout_error c hc hs sched t th h r hr with h1 | ⟨n, _, _, _, h4⟩
  · exact h1
  · rw [hl n] at h4; cases h4

/-- In a reachable state where nothing can move: every thread is finished (the keep-alive loop:
finished, or asleep with no interval left to elapse and nobody having stopped it), each call made got
the reply to the datagram that same thread sent — or failed after a time-out on a datagram whose reply was
lost —, every application thread other than the closing
one made all its calls, and — if a thread closes the session — Close Session is on the wire (by
`nothing_after_close_session`: followed by nothing but its own retransmission), every thread,
the keep-alive thread included, has terminated, and the session is deactivated unless a call of the closing
thread failed. -/
theorem maximal_runs_complete (c : Cfg) (hc : c.Safe) (hs : c.sessSeq ≤ 0xffffffff) (sched : List Nat)
    (hterm : ∀ t, step (run (init c) sched) t = none) :
    (∀ (t : Nat) (th : Thr), (run (init c) sched).thr[t]? = some th → parked (run (init c) sched) th ∧
      ∀ r ∈ th.results, (∃ n, r = .ok n n ∧ sentBy (run (init c) sched).wireChron t n = true) ∨
        (∃ n, r = .retryError n ∧ timedOut (run (init c) sched).wireChron t n = true ∧
          lostAt (run (init c) sched).par.loss n = true)) ∧
    (∀ (t : Nat) (p : Nat × Nat), c.threads[t]? = some p → c.closer ≠ some t →
      ∃ th, (run (init c) sched).thr[t]? = some th ∧ th.pc = .done ∧ th.results.length = p.1) ∧
    (∀ (t : Nat) (p : Nat × Nat), c.threads[t]? = some p → c.closer = some t →
      (monitor (run (init c) sched).wireChron).closed = true ∧
      (∀ (t' : Nat) (th' : Thr), (run (init c) sched).thr[t']? = some th' → th'.pc = .done) ∧
      ((run (init c) sched).activated = false ∨
        ∃ th, (run (init c) sched).thr[t]? = some th ∧ ∃ r ∈ th.results, r.isOk = false)) :=
  have h := run_all (init_inv c hs hc.2.2) (init_tear c hc) (init_close c) (init_acc c) sched
  terminal_complete h.1 h.2.1 h.2.2.1 h.2.2.2 hterm

/-- … and when the network loses nothing: the closing thread leaves the session deactivated. -/
theorem maximal_runs_complete_lossless (c : Cfg) (hc : c.Safe) (hs : c.sessSeq ≤ 0xffffffff)
    (hl : ∀ n, lostAt c.loss n = false) (sched : List Nat)
    (hterm : ∀ t, step (run (init c) sched) t = none) (t : Nat) (p : Nat × Nat)
    (hp : c.threads[t]? = some p) (hcl : c.closer = some t) :
    (run (init c) sched).activated = false ∧ (monitor (run (init c) sched).wireChron).closed = true ∧
      ∀ (t' : Nat) (th' : Thr), (run (init c) sched).thr[t']? = some th' → th'.pc = .done := by
  obtain ⟨h1, h2, h3⟩ := (maximal_runs_complete c hc hs sched hterm).2.2 t p hp hcl
  refine ⟨?_, h1, h2⟩
  rcases h3 with h3 | ⟨th, hget, r, hr, hbad⟩
  · exact h3
  · obtain ⟨n, hn, _⟩ := lossless_no_call_fails c hc hs hl sched t th hget r hr
    rw [hn] at hbad; cases hbad

theorem accepted_trace_ok (c : Cfg) (hc : c.Safe) (hs : c.sessSeq ≤ 0xffffffff) (tr : List (Nat × Act))
    (s : Sys) (h : replay (init c) tr = .ok s) : accepts s.wireChron s.results = true := by
  have := replayFrom_run h
  subst this
  exact monitor_accepts_all_schedules c hc hs _

/-- The close-free case (the first version of this file): in the variant AS SHIPPED (`join = false`)
every clause holds for every schedule as long as no thread closes the session. -/
theorem shipped_without_close_holds (c : Cfg) (_hj : c.join = false) (hcl : c.closer = none)
    (hcmd : ∀ p ∈ c.threads, p.2 ≠ closeCmd) (hp : c.packOnce = false ∨ c.maxRetries = 0)
    (hs : c.sessSeq ≤ 0xffffffff) (sched : List Nat) :
    Inv (run (init c) sched) ∧ accepts (run (init c) sched).wireChron (run (init c) sched).results = true :=
  have hc : c.Safe := ⟨Or.inr hcl, hcmd, hp⟩
  ⟨(inv_all_schedules c hc hs sched).1, monitor_accepts_all_schedules c hc hs sched⟩

/-! ### the variant as shipped, with a thread that closes the session (defect C14-1) -/

/-- one application thread that only closes the session (thread 0), the keep-alive thread (thread 1)
whose interval elapses once; stopper as shipped -/
def shippedCfg : Cfg :=
  { nextSeq := 4, sessSeq := 7, xl := 0, threads := [(0, 1)], ka := some 1, closer := some 0, join := false,
    seqLocked := false }
/-- the interval elapses (keep-alive: `wait` returned False) — then `close_session` runs to its end
(stopper, Close Session, `activated = False`) — then the keep-alive makes the call it had decided on -/
def lateTickSched : List Nat := [1] ++ List.replicate 17 0 ++ List.replicate 11 1

theorem shipped_keepalive_after_close_session :
    (run (init shippedCfg) lateTickSched).wireChron =
      [.tx 0 0 8 5 0x3c, .rx 0 0, .tx 1 1 8 6 1, .rx 1 1] ∧
    closeLast (run (init shippedCfg) lateTickSched).wireChron = false ∧
    seqIncreasing (run (init shippedCfg) lateTickSched).wireChron = false ∧
    allDone (run (init shippedCfg) lateTickSched) = true :=
  ⟨by decide, by decide, by decide, by decide⟩

/-- the same configuration with the joining stopper; the same schedule, continued: the closing thread is
held in the join until the keep-alive has finished its call (which now advances the sequence number: three
more steps) and left its loop, and only then goes on -/
def joinedCfg : Cfg := { shippedCfg with join := true }
def lateTickSchedJoined : List Nat := lateTickSched ++ [1, 1, 1] ++ List.replicate 15 0

theorem joined_same_schedule_is_clean :
    (run (init joinedCfg) lateTickSchedJoined).wireChron =
      [.tx 1 0 8 5 1, .rx 1 0, .tx 0 1 9 6 0x3c, .rx 0 1] ∧
    (run (init joinedCfg) lateTickSchedJoined).activated = false ∧
    allDone (run (init joinedCfg) lateTickSchedJoined) = true ∧
    accepts (run (init joinedCfg) lateTickSchedJoined).wireChron
      (run (init joinedCfg) lateTickSchedJoined).results = true :=
  ⟨by decide +kernel, by decide +kernel, by decide +kernel,
   monitor_accepts_all_schedules joinedCfg ⟨Or.inl rfl, by decide, Or.inl rfl⟩ (by decide) lateTickSchedJoined⟩

/-! ### the variant "session wrapper built once, before the retry loop" (not the source) -/

/-- two threads, one Get Device ID each, `Rmcp(max_retries=1)`, the reply to the first datagram is lost; the
session wrapper is built ONCE per request, before the retry loop -/
def onceCfg : Cfg :=
  { nextSeq := 4, sessSeq := 7, xl := 0, threads := [(1, 1), (1, 1)], maxRetries := 1, loss := [true], packOnce := true }
/-- the same with the packing of the source: `_send_ipmi_msg` packs for every attempt -/
def repackCfg : Cfg := { onceCfg with packOnce := false }
/-- thread 0 runs its call (time-out, retransmission, reply), then thread 1 -/
def retrySched : List Nat := List.replicate 20 0 ++ List.replicate 14 1

/-- Built once before the loop, the retransmission carries the session sequence number of the datagram it
repeats: the wire shows 8, 8, 9 — clause (S) is false on this run (the other clauses hold: nothing is interleaved,
every caller gets its own reply). -/
theorem packOnce_retransmission_repeats_session_seq :
    (run (init onceCfg) retrySched).wireChron =
      [.tx 0 0 8 5 1, .to 0 0, .tx 0 1 8 5 1, .rx 0 1, .tx 1 2 9 6 1, .rx 1 2] ∧
    seqIncreasing (run (init onceCfg) retrySched).wireChron = false ∧
    exchangesOk (run (init onceCfg) retrySched).wireChron = true ∧
    ownReply (run (init onceCfg) retrySched).wireChron (run (init onceCfg) retrySched).results = true ∧
    allDone (run (init onceCfg) retrySched) = true :=
  ⟨by decide +kernel, by decide +kernel, by decide +kernel, by decide +kernel, by decide +kernel⟩

/-- The same configuration, loss and schedule with the per-attempt packing of the source: 8, 9, 10. -/
theorem repacked_same_schedule_is_clean :
    (run (init repackCfg) retrySched).wireChron =
      [.tx 0 0 8 5 1, .to 0 0, .tx 0 1 9 5 1, .rx 0 1, .tx 1 2 10 6 1, .rx 1 2] ∧
    (run (init repackCfg) retrySched).results = [⟨0, 1, some 1⟩, ⟨1, 2, some 2⟩] ∧
    allDone (run (init repackCfg) retrySched) = true ∧
    accepts (run (init repackCfg) retrySched).wireChron (run (init repackCfg) retrySched).results = true :=
  ⟨by decide +kernel, by decide +kernel, by decide +kernel,
   monitor_accepts_all_schedules repackCfg ⟨Or.inl rfl, by decide, Or.inl rfl⟩ (by decide) retrySched⟩

/-! ### non-vacuity -/

-- retransmissions by the keep-alive AND of Close Session (MD5 packing, `max_retries = 2`): the keep-alive's first
-- reply is lost, Close Session's first two are; the closing thread waits in the join meanwhile; 8 9 | 10 11 12
def kaCloseLossCfg : Cfg :=
  { nextSeq := 4, sessSeq := 7, xl := 1, threads := [(0, 1)], ka := some 1, closer := some 0, maxRetries := 2,
    loss := [true, false, true, true] }
def kaCloseLossSched : List Nat := [1] ++ List.replicate 4 0 ++ List.replicate 40 1 ++ List.replicate 60 0
example : kaCloseLossCfg.Safe := ⟨Or.inl rfl, by decide, Or.inl rfl⟩
example : (run (init kaCloseLossCfg) kaCloseLossSched).wireChron =
    [.tx 1 0 8 5 1, .to 1 0, .tx 1 1 9 5 1, .rx 1 1,
     .tx 0 2 10 6 0x3c, .to 0 2, .tx 0 3 11 6 0x3c, .to 0 3, .tx 0 4 12 6 0x3c, .rx 0 4] := by decide +kernel
example : (run (init kaCloseLossCfg) kaCloseLossSched).activated = false ∧
    allDone (run (init kaCloseLossCfg) kaCloseLossSched) = true := ⟨by decide +kernel, by decide +kernel⟩
-- the budget used up (two replies lost in a row with `max_retries = 1`, across the 32-bit wrap): the call ends in
-- an error, the lock is released, the next caller is served: 0xffffffff 1 | 2
def exhaustCfg : Cfg :=
  { nextSeq := 4, sessSeq := 0xfffffffe, xl := 0, threads := [(1, 1), (1, 4)], maxRetries := 1, loss := [true, true] }
example : (run (init exhaustCfg) retrySched).wireChron =
    [.tx 0 0 0xffffffff 5 1, .to 0 0, .tx 0 1 1 5 1, .to 0 1, .tx 1 2 2 6 4, .rx 1 2] := by decide +kernel
example : (run (init exhaustCfg) retrySched).results = [⟨0, 1, none⟩, ⟨1, 2, some 2⟩] := by decide +kernel
example : accepts (run (init exhaustCfg) retrySched).wireChron (run (init exhaustCfg) retrySched).results = true :=
  monitor_accepts_all_schedules exhaustCfg ⟨Or.inl rfl, by decide, Or.inl rfl⟩ (by decide) retrySched
-- the monitor's new clauses are not trivially true
example : seqIncreasing [.tx 0 0 8 5 1, .to 0 0, .tx 0 1 8 5 1, .rx 0 1] = false := by decide
example : exchangesOk [.tx 0 0 8 5 1, .to 1 0, .tx 0 1 9 5 1, .rx 0 1] = false := by decide
example : exchangesOk [.tx 0 0 8 5 1, .tx 0 1 9 5 1, .rx 0 1] = false := by decide
example : ownReply [.tx 0 0 8 5 1, .rx 0 0] [⟨0, 0, none⟩] = false := by decide
example : ownReply [.tx 0 0 8 5 1, .to 0 0] [⟨0, 0, none⟩] = true := by decide
example : closeLast [.tx 0 0 8 1 0x3c, .to 0 0, .tx 0 1 9 1 0x3c, .rx 0 1] = true := by decide
example : closeLast [.tx 0 0 8 1 0x3c, .to 0 0, .tx 1 1 9 1 0x3c, .rx 1 1] = false := by decide
example : closeLast [.tx 0 0 8 1 0x3c, .to 0 0, .tx 0 1 9 1 1, .rx 0 1] = false := by decide
-- the model accepts the logged accesses of a retransmission (pack again) and rejects "transmit the stored datagram"
example : (replay (init repackCfg) [(0, .acq), (0, .ldNS 4), (0, .stNS 5), (0, .ldNS 5), (0, .ldAct true), (0, .ldSS 7),
    (0, .stSS 8), (0, .ldSS 8), (0, .ldSS 8), (0, .tx 0 8 5 1), (0, .rxTimeout), (0, .ldAct true), (0, .ldSS 8),
    (0, .stSS 9), (0, .ldSS 9), (0, .ldSS 9), (0, .tx 1 9 5 1), (0, .rx 1), (0, .rel)]).toOption.isSome = true := by
  decide +kernel
example : (replay (init repackCfg) [(0, .acq), (0, .ldNS 4), (0, .stNS 5), (0, .ldNS 5), (0, .ldAct true), (0, .ldSS 7),
    (0, .stSS 8), (0, .ldSS 8), (0, .ldSS 8), (0, .tx 0 8 5 1), (0, .rxTimeout), (0, .tx 1 8 5 1)]).toOption = none := by
  decide +kernel
example : (replay (init onceCfg) [(0, .acq), (0, .ldNS 4), (0, .stNS 5), (0, .ldNS 5), (0, .ldAct true), (0, .ldSS 7),
    (0, .stSS 8), (0, .ldSS 8), (0, .ldSS 8), (0, .tx 0 8 5 1), (0, .rxTimeout), (0, .tx 1 8 5 1)]).toOption.isSome
    = true := by decide +kernel

-- the same two threads and the same schedules with the sequence number allocated inside the lock block:
-- thread 1 cannot enter while thread 0 is between "take the lock" and "release" - the datagrams carry 5 and 6
def lockedCfg : Cfg := { racyCfg with seqLocked := true }
example : (run (init lockedCfg) (racySched ++ List.replicate 12 1)).wireChron =
    [.tx 0 0 8 5 1, .rx 0 0, .tx 1 1 9 6 1, .rx 1 1] := by decide +kernel
example : (run (init lockedCfg) (racySched2 ++ List.replicate 12 1 ++ List.replicate 12 0)).wireChron =
    [.tx 0 0 8 5 1, .rx 0 0, .tx 1 1 9 6 1, .rx 1 1] := by decide +kernel
example : rqDistinct [.tx 0 0 8 5 1, .rx 0 0, .tx 1 1 9 5 1, .rx 1 1] = false ∧
    rqDistinct [.tx 0 0 8 5 1, .rx 0 0, .tx 1 1 9 6 1, .rx 1 1, .tx 0 2 10 5 1] = true := by decide

-- the racy run really exchanges two datagrams and returns two results
example : (run (init racyCfg) racySched).wireChron =
    [.tx 0 0 8 5 1, .rx 0 0, .tx 1 1 9 5 1, .rx 1 1] := by decide
example : (run (init racyCfg) racySched).results = [⟨0, 0, some 0⟩, ⟨1, 1, some 1⟩] := by decide

-- two workers and the keep-alive, MD5 packing, wrap of the session sequence
def wrapCfg : Cfg :=
  { nextSeq := 63, sessSeq := 0xfffffffe, xl := 1, threads := [(2, 1), (1, 4)], ka := some 1, seqLocked := false }
def wrapSched : List Nat :=
  [2, 0, 0, 1, 0, 1, 1, 2, 2] ++ List.replicate 40 1 ++ List.replicate 40 0 ++ List.replicate 40 2
example : wrapCfg.Safe := ⟨Or.inl rfl, by decide, Or.inl rfl⟩
example : (run (init wrapCfg) wrapSched).wireChron.filterMap
    (fun e => match e with | .tx _ _ s _ _ => some s | _ => none) = [0xffffffff, 1, 2, 3] := by decide +kernel
-- … at the end the workers are finished and the keep-alive loop is asleep in `wait` (nobody stopped it)
example : (run (init wrapCfg) wrapSched).thr.map (·.pc) = [.done, .done, .kaWait] := by decide +kernel

-- two workers, a closing thread with one call of its own, the keep-alive firing twice (joining stopper):
-- the closing thread waits for the workers, then for the keep-alive, then closes
def closeCfg : Cfg :=
  { nextSeq := 0, sessSeq := 0x20, xl := 0, threads := [(1, 1), (1, 4), (1, 8)], ka := some 2, closer := some 2,
    seqLocked := false }
def closeSched : List Nat :=
  [3, 2, 2, 0, 3, 3] ++ List.replicate 14 2 ++ List.replicate 14 3 ++ List.replicate 14 0 ++ List.replicate 14 1 ++
    List.replicate 30 2 ++ List.replicate 14 3 ++ List.replicate 30 2
example : closeCfg.Safe := ⟨Or.inl rfl, by decide, Or.inl rfl⟩
example : allDone (run (init closeCfg) closeSched) = true := by decide +kernel
example : (run (init closeCfg) closeSched).activated = false := by decide +kernel
example : (run (init closeCfg) closeSched).wireChron.filterMap
    (fun e => match e with | .tx t _ s _ c => some (t, s, c) | _ => none) =
    [(2, 0x21, 8), (3, 0x22, 1), (0, 0x23, 1), (1, 0x24, 4), (3, 0x25, 1), (2, 0x26, 0x3c)] := by decide +kernel

-- the monitor is not trivially true: each clause rejects a log that breaks it
example : exchangesOk [.tx 0 0 8 1 1, .tx 1 1 9 2 1, .rx 0 0, .rx 1 1] = false := by decide
example : exchangesOk [.tx 0 0 8 1 1, .rx 1 0] = false := by decide
example : exchangesOk [.tx 0 0 8 1 1, .rx 0 0, .rx 0 0] = false := by decide
example : seqIncreasing [.tx 0 0 9 1 1, .rx 0 0, .tx 1 1 9 2 1, .rx 1 1] = false := by decide
example : seqIncreasing [.tx 0 0 9 1 1, .rx 0 0, .tx 1 1 8 2 1, .rx 1 1] = false := by decide
example : seqIncreasing [.tx 0 0 0xffffffff 1 1, .rx 0 0, .tx 1 1 0 2 1] = false := by decide
example : ownReply [.tx 0 0 8 1 1, .rx 0 0, .tx 1 1 9 2 1, .rx 1 1] [⟨0, 0, some 1⟩] = false := by decide
example : ownReply [.tx 0 0 8 1 1, .rx 0 0] [⟨0, 0, none⟩] = false := by decide
example : ownReply [.tx 0 0 8 1 1, .rx 0 0] [⟨1, 0, some 0⟩] = false := by decide
example : closeLast [.tx 0 0 8 1 0x3c, .rx 0 0, .tx 1 1 9 2 1, .rx 1 1] = false := by decide
example : closeLast [.tx 1 0 8 1 1, .rx 1 0, .tx 0 1 9 2 0x3c, .rx 0 1] = true := by decide

-- multi-datagram exchanges (clause X′ of Spec/Threads.lean)
-- bridged exchange: tx, acknowledgement, wrapped reply; then the keep-alive's exchange
example : acceptsMulti [.tx 0 0 8 5 0x34, .rx 0 0, .rx 0 0, .tx 1 1 9 6 1, .rx 1 1] [⟨0, 0, some 0⟩, ⟨1, 1, some 1⟩] = true ∧
    exchangesOk [.tx 0 0 8 5 0x34, .rx 0 0, .rx 0 0, .tx 1 1 9 6 1, .rx 1 1] = false := by decide
-- a lock per target: the keep-alive's exchange inside the bridged one; it takes the acknowledgement
example : exchangesOkMulti [.tx 0 0 8 5 0x34, .tx 1 1 9 6 1, .rx 1 0, .rx 1 1, .rx 0 0] = false ∧
    exchangesOkMulti [.tx 0 0 8 5 0x34, .rx 0 0, .tx 1 1 9 6 1, .rx 1 1, .rx 0 0] = false ∧
    exchangesOkMulti [.tx 0 0 8 5 0x34, .rx 0 0, .tx 1 1 9 6 1, .rx 0 0, .rx 1 1] = false ∧
    exchangesOkMulti [.tx 0 0 8 5 0x34, .tx 1 1 9 6 1] = false ∧
    exchangesOkMulti [.tx 0 0 8 5 0x34, .rx 0 0, .to 1 0] = false := by decide
-- the model does not accept a trace that sends without the lock
example : (replay (init racyCfg) [(0, .ldNS 4), (0, .stNS 5), (0, .ldNS 5), (0, .ldAct true)]).toOption = none := by
  decide
example : (replay (init racyCfg) [(0, .ldNS 4), (0, .stNS 5), (0, .ldNS 5), (0, .acq), (0, .ldAct true),
    (0, .ldSS 7)]).toOption.isSome = true := by decide
-- … nor, with the joining stopper, a closing thread that goes on while the keep-alive is in a call
example : (replay (init joinedCfg) [(1, .tick), (0, .await), (0, .stopSet), (0, .ldAct true)]).toOption = none := by
  decide
example : (replay (init shippedCfg) [(1, .tick), (0, .await), (0, .stopSet), (0, .ldAct true)]).toOption.isSome
    = true := by decide

end PyIpmi.Props.C14
