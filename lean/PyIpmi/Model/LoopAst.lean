/-
  Model/LoopAst.lean — a tiny abstract syntax for the Python functions that make up the
  request/response exchanges of property C04:

      Rmcp._send_and_receive, Rmcp._drain_socket        (pyipmi/interfaces/rmcp.py)
      IpmbDev._send_and_receive, IpmbDev._receive_raw, IpmbDev.is_ipmc_accessible    (pyipmi/interfaces/ipmbdev.py)
      Aardvark._send_and_receive, Aardvark._receive_raw, Aardvark.is_ipmc_accessible (pyipmi/interfaces/aardvark.py)

  `harness/translate/loops04.py` re-reads these functions from the working tree on every run
  and writes them, statement by statement, as values of type `Fun` into Gen/Loops04.lean.
  The translation is syntax-directed and keeps everything that decides the control flow:

    * statement order and nesting (`with` ⊃ `while` ⊃ `try` ⊃ `while`; `else:` of a loop),
    * every test, every assignment (with its right-hand side), every call with its arguments,
      `break` / `continue` / `raise` (exception class) / `return` (expression) / `assert`,
    * the exception classes of `except` clauses, in order,
    * local variables by NUMBER (parameters first, then by first assignment in source order):
      renaming a local is invisible; attribute, method, global and keyword names are `Sym`s.

  Left out on purpose: docstrings, comments, the message of a raised exception, and the
  format string / computed arguments of `log().debug(…)` — of a logging call only the
  subscripts and calls it evaluates are kept (`S.log`), because `rx_data[3]` raises IndexError on a
  short frame.

  Fail closed: a name outside `Sym` becomes `Sym.other crc32(name)`, an expression or statement
  outside this grammar becomes `E.other` / `S.other` carrying the CRC-32 of its `ast.dump`.
  The expected values (`Loops.Shape.*`, next to the hand-written step functions they
  describe) contain no `other`, so any such value makes the theorems
  `Props.C04.source_shape_*` stop building.

  Core Lean only.
-/
namespace PyIpmi.LoopAst

/-- Attribute, method, global and keyword names that occur in the five functions (leading
underscore written `u_`). -/
inductive Sym where
  | CMDID_SEND_MESSAGE | NETFN_APP | IOError | OSError | IpmbHeaderReq | IpmiTimeoutError | RetryError
  | NotSupportedError
  | u_dev | u_sock | u_inc_sequence_number | u_drain_socket | u_q | u_receive_ipmi_msg | u_receive_raw
  | u_send_ipmi_msg | u_send_raw | gettimeout | settimeout | recvfrom | verify
  | array | cmdid | constants | decode_bridged_message | empty | encode_bridged_message | encode_ipmb_msg
  | get | put | i2c_slave_read | ignore_rq_seq | ignore_sdu_length | int | ipmb_address | len | max_retries
  | netfn | next_sequence_number | os | poll | py3_array_tobytes | read | routing | range
  | rq_lun | rq_sa | rq_seq | rs_lun | rs_sa | rx_filter | select | slave_address | sleep | socket | time
  | timeout | transaction_lock
  | other (crc : Nat)
  deriving DecidableEq, Repr

inductive CmpOp where
  | le | lt | ge | gt | eq | ne | is_ | isNot | in_ | notIn
  deriving DecidableEq, Repr

inductive BinOp where
  | add | sub | mul | mod | shl | shr | bor | band | div | fdiv
  deriving DecidableEq, Repr

mutual
/-- expressions -/
inductive E where
  | none | tt | ff                     -- None, True, False
  | self_                              -- `self`
  | num (n : Nat)                      -- non-negative int literal
  | neg (n : Nat)                      -- `-n`
  | frac (p q : Nat)                   -- float literal as a fraction (0.2 = 1/5)
  | chr (c : Nat)                      -- one-character string literal ('B' = 66)
  | var (i : Nat)                      -- parameter / local variable number i
  | glob (s : Sym)                     -- any other bare name (module, class, function)
  | attr (e : E) (s : Sym)             -- e.s
  | call (f : E) (args : Es)           -- f(args…, kw=…)
  | kw (s : Sym) (e : E)               -- keyword argument, only inside `call`
  | cmp (op : CmpOp) (a b : E)
  | and_ (a b : E) | or_ (a b : E) | not_ (a : E)
  | bin (op : BinOp) (a b : E)
  | index (e i : E)                    -- e[i]
  | slice (e lo hi : E)                -- e[lo:hi]   (`none` = bound left out)
  | tuple (es : Es) | list (es : Es)
  | other (crc : Nat)
inductive Es where
  | nil | cons (e : E) (r : Es)
end
deriving instance DecidableEq for E, Es
deriving instance Repr for E, Es

mutual
/-- statements -/
inductive S where
  | expr (e : E)                       -- call for its effect
  | log (subs : Es)                    -- log().debug(…): the subscripts and calls it evaluates
  | assign (target e : E)
  | aug (op : BinOp) (target e : E)    -- target op= e
  | ite (c : E) (t f : B)
  | while_ (c : E) (body orelse : B)
  | for_ (target iter : E) (body orelse : B)
  | try_ (body : B) (handlers : H)
  | tryf (body : B) (handlers : H) (final : B)   -- try … except … finally
  | with_ (ctx : E) (body : B)
  | brk | cont | pass_
  | raise (exc : E)                    -- exception class (message dropped); `none` = re-raise
  | ret (e : E)
  | assert_ (e : E)
  | other (crc : Nat)
/-- a suite -/
inductive B where
  | nil | cons (s : S) (r : B)
/-- `except <class>: <suite>` clauses in order -/
inductive H where
  | nil | cons (exc : E) (body : B) (r : H)
end
deriving instance DecidableEq for S, B, H
deriving instance Repr for S, B, H

/-- a method: number of parameters after `self` (they are `var 0 … var (params-1)`) and its body -/
structure Fun where
  params : Nat
  body : B
  deriving DecidableEq, Repr

/-- `args[e₁, …, eₙ]` : `Es` -/
scoped syntax "args[" term,* "]" : term
/-- `py[s₁, …, sₙ]` : `B` -/
scoped syntax "py[" term,* "]" : term

macro_rules
  | `(args[]) => `(Es.nil)
  | `(args[$x]) => `(Es.cons $x Es.nil)
  | `(args[$x, $xs,*]) => `(Es.cons $x args[$xs,*])
macro_rules
  | `(py[]) => `(B.nil)
  | `(py[$x]) => `(B.cons $x B.nil)
  | `(py[$x, $xs,*]) => `(B.cons $x py[$xs,*])

/-! Readers used to state facts about a generated function in words (`Props.C04`). -/

mutual
/-- number of calls `….s(…)` / `s(…)` anywhere in an expression -/
def E.calls (s : Sym) : E → Nat
  | .attr e _ => e.calls s
  | .call f a => (match f with
      | .attr _ s' => if s' = s then 1 else 0
      | .glob s' => if s' = s then 1 else 0
      | _ => 0) + f.calls s + a.calls s
  | .kw _ e => e.calls s
  | .cmp _ a b => a.calls s + b.calls s
  | .and_ a b => a.calls s + b.calls s
  | .or_ a b => a.calls s + b.calls s
  | .not_ a => a.calls s
  | .bin _ a b => a.calls s + b.calls s
  | .index e i => e.calls s + i.calls s
  | .slice e lo hi => e.calls s + lo.calls s + hi.calls s
  | .tuple es => es.calls s
  | .list es => es.calls s
  | _ => 0
def Es.calls (s : Sym) : Es → Nat
  | .nil => 0
  | .cons e r => e.calls s + r.calls s
end

mutual
/-- number of calls of `s` anywhere in a statement -/
def S.calls (s : Sym) : S → Nat
  | .expr e => e.calls s
  | .log es => es.calls s
  | .assign t e => t.calls s + e.calls s
  | .aug _ t e => t.calls s + e.calls s
  | .ite c t f => c.calls s + t.calls s + f.calls s
  | .while_ c b o => c.calls s + b.calls s + o.calls s
  | .for_ t i b o => t.calls s + i.calls s + b.calls s + o.calls s
  | .try_ b h => b.calls s + h.calls s
  | .tryf b h f => b.calls s + h.calls s + f.calls s
  | .with_ c b => c.calls s + b.calls s
  | .raise e => e.calls s
  | .ret e => e.calls s
  | .assert_ e => e.calls s
  | _ => 0
def B.calls (s : Sym) : B → Nat
  | .nil => 0
  | .cons x r => x.calls s + r.calls s
def H.calls (s : Sym) : H → Nat
  | .nil => 0
  | .cons e b r => e.calls s + b.calls s + r.calls s
end

/-- first statement of a suite -/
def B.head? : B → Option S
  | .nil => none
  | .cons s _ => some s

/-- a suite without its first statement -/
def B.tail : B → B
  | .nil => .nil
  | .cons _ r => r

def B.length : B → Nat
  | .nil => 0
  | .cons _ r => r.length + 1

end PyIpmi.LoopAst
