/-
  Executable model of the bridging part of `pyipmi/interfaces/ipmb.py`:
  `encode_send_message`, `encode_bridged_message`, `decode_bridged_message`, and of the part of
  `Rmcp._send_and_receive` (interfaces/rmcp.py) that C09 (and the last clause of C03) is about:
  recognise and unwrap a Send Message response, `continue` WITHOUT charging the retry counter when
  only an acknowledgement came.  Two variants of the recognition: as shipped / repaired (`Variant`).

  Send Message ids and the bit positions of the channel byte come from `Gen/IpmbFilter.lean`
  (live `SendMessageReq` class); frames are built by the C03 model `encodeIpmbMsg`.
-/
import PyIpmi.Model.Ipmb
namespace PyIpmi.Bridge
open PyIpmi PyIpmi.Ipmb PyIpmi.Spec.Wire

/-- `pyipmi.Routing(rq_sa, rs_sa, channel)` -/
structure Route where
  rqSa : Nat
  rsSa : Nat
  channel : Nat
  deriving DecidableEq, Repr

/-- 8-bit addresses, 4-bit channel number -/
def Route.InRange (r : Route) : Prop := r.rqSa < 256 ∧ r.rsSa < 256 ∧ r.channel < 16

/-- `Bitfield.BitWrapper._get_value` for `SendMessageReq.channel`:
`value |= (bit_value & (2**width - 1)) << offset` for number, (authenticated, encrypted: defaults), tracking -/
def channelByte (channel tracking : Nat) : Nat :=
  let n := Gen.IpmbFilter.chanNumber
  let t := Gen.IpmbFilter.chanTracking
  ((channel &&& (2 ^ n.2 - 1)) <<< n.1) ||| Gen.IpmbFilter.chanOther ||| ((tracking &&& (2 ^ t.2 - 1)) <<< t.1)

/-- `encode_send_message(payload, rq_sa, rs_sa, channel, seq, tracking=1)` -/
def encodeSendMessage (payload : List Nat) (rqSa rsSa channel seq : Nat) (tracking : Nat := 1) :
    Outcome (List Nat) :=
  encodeIpmbMsg { netfn := Gen.IpmbFilter.sendMsgNetfn, rsLun := 0, rsSa := rsSa, seq := seq, rqLun := 0,
                  rqSa := rqSa, cmd := Gen.IpmbFilter.sendMsgCmd }
    (channelByte channel tracking :: payload)

/-- `encode_bridged_message(routing, header, payload, seq)`: the header's addresses are replaced
by the last hop's, then one Send Message per entry of `reversed(routing[:-1])` is wrapped
around, innermost first. -/
def encodeBridged (routing : List Route) (h : Hdr) (payload : List Nat) (seq : Nat) : Outcome (List Nat) :=
  match routing.getLast? with
  | none => .pyError "IndexError"
  | some last =>
    routing.dropLast.foldr
      (fun b acc => acc.bind fun tx => encodeSendMessage tx b.rqSa b.rsSa b.channel seq)
      (encodeIpmbMsg { h with rqSa := last.rqSa, rsSa := last.rsSa } payload)

/-- The part of `pyipmi.Target` that bridging depends on: the stored path (the class attribute
`routing = None` until a path is set). -/
structure Target where
  routing : Option (List Route) := none
  deriving Repr

/-- `Target.set_routing(routing)` (also `set_routing_information`, and `Target(routing=…)`):
`self.routing = [Routing(*route) for route in routing]` — the stored path is REPLACED by the
new one, whatever was stored before (nothing of an earlier path survives). -/
def Target.setRouting (t : Target) (rs : List Route) : Target := { t with routing := some rs }

/-- a history of `set_routing` calls on ONE Target object, oldest first -/
def Target.reroute (t : Target) (paths : List (List Route)) : Target := paths.foldl Target.setRouting t

/-- what the transport transmits for a routed target (`if target.routing:` branch of
`Rmcp._send_and_receive`): the nest for the path stored AT THAT MOMENT -/
def Target.request (t : Target) (h : Hdr) (payload : List Nat) (seq : Nat) : Outcome (List Nat) :=
  match t.routing with
  | some (r :: rs) => encodeBridged (r :: rs) h payload seq
  | _ => .pyError "not-routed"

/-- The two states of the source that the checks tell apart (DESIGN §2.4):

* `asShipped` — a Send Message response is recognised by its command byte alone
  (`array('B', rx_data)[5] == CMDID_SEND_MESSAGE`, in `decode_bridged_message` and in
  `Rmcp._send_and_receive`), nothing of the wrapper is verified, and the transport unwraps
  whether or not the request in hand was bridged;
* `repaired` (fixes/C09-1.diff) — `is_send_message_response`: netFn App + 1 AND command 34h, both
  checksums when the caller asks (`verify=True`); the transport unwraps only a frame that passes
  `rx_filter` for the Send Message request it has outstanding. -/
inductive Variant where
  | asShipped
  | repaired
  deriving DecidableEq, Repr

/-- `is_send_message_response(rx_data, verify)` (repaired) / the byte-5 test (as shipped), on a
frame of at least six bytes -/
def isSendMsgRsp (v : Variant) (verify : Bool) (rx : List Nat) : Bool :=
  match v with
  | .asShipped => byteAt rx 5 == Gen.IpmbFilter.constSendMsgCmd
  | .repaired =>
    (byteAt rx 1 >>> 2 == Gen.IpmbFilter.constNetfnApp + 1) && (byteAt rx 5 == Gen.IpmbFilter.constSendMsgCmd) &&
    (!verify || (pyChecksum (rx.take 3) == 0 && pyChecksum (rx.drop 3) == 0))

/-- the same test on a frame shorter than six bytes: `data[5]` raises IndexError — unless (repaired)
`data[1] >> 2 != NETFN_APP + 1` already decided (`or` short-circuits) -/
def shortFrame (v : Variant) (rx : List Nat) : Outcome (List Nat) :=
  match v with
  | .asShipped => .pyError "IndexError"
  | .repaired =>
    if rx.length ≤ 1 then .pyError "IndexError"
    else if byteAt rx 1 >>> 2 ≠ Gen.IpmbFilter.constNetfnApp + 1 then .ok rx
    else .pyError "IndexError"

/-- `decode_bridged_message(rx_data, verify)`:
```
while is_send_message_response(rx_data, verify):        # as shipped: array('B', rx_data)[5] == CMDID_SEND_MESSAGE
    rsp = SendMessageRsp; decode_message(rsp, rx_data[6:]); check_completion_code(rsp.completion_code)
    rx_data = rx_data[7:-1]
    if len(rx_data) < 6: break
return rx_data
``` -/
def decodeN (v : Variant) (verify : Bool) : Nat → List Nat → Outcome (List Nat)
  | 0, rx => .ok rx
  | n + 1, rx =>
    if 5 < rx.length then
      if isSendMsgRsp v verify rx then
        match rx.drop 6 with
        | [] => .decodingError                       -- no completion code: "Data too short for message"
        | cc :: _ =>
          if cc ≠ 0 then .ccError cc
          else
            let rx' := (rx.drop 7).dropLast
            if rx'.length < 6 then .ok rx' else decodeN v verify n rx'
      else .ok rx
    else shortFrame v rx

/-- the loop above; the fuel (structural recursion, so that `decide` can run it) never runs out: every
round removes eight bytes (`Bridge.decodeBridged_eq`) -/
def decodeBridged (v : Variant) (verify : Bool) (rx : List Nat) : Outcome (List Nat) :=
  decodeN v verify (rx.length + 1) rx

/-- an exception propagates unchanged, whatever the type of the value would have been -/
def errAs {α β : Type} : Outcome α → Outcome β
  | .ok _ => .pyError "internal"
  | .decodingError => .decodingError
  | .encodingError => .encodingError
  | .ccError c => .ccError c
  | .retryError => .retryError
  | .hpmError => .hpmError
  | .timeoutError => .timeoutError
  | .notSupported => .notSupported
  | .pyError n => .pyError n

/-- What the body of the receive loop of `Rmcp._send_and_receive` makes of one received frame, as far
as bridging is concerned. -/
inductive RxClass where
  | ack                              -- only the acknowledgement came: `continue`, `received_retry` untouched
  | hit (data : List Nat)            -- `rx_filter` said yes: `rx_data[6:-1]` is returned
  | noise                            -- `rx_filter` said no (what happens next is property C04's)
  | err (e : Outcome (List Nat))     -- an exception leaves the function
  deriving DecidableEq, Repr

/-- `received = rx_filter(header, rx_data, rq_seq=…)` and the returned slice -/
def afterFilter (req : Hdr) (fl : Flags) (g : List Nat) : RxClass :=
  match rxFilter req g fl with
  | .ok true => .hit (g.drop 6).dropLast
  | .ok false => .noise
  | e => .err (errAs e)

/-- `rx_data = decode_bridged_message(…); if not rx_data: continue` then the filter -/
def afterUnwrap (req : Hdr) (fl : Flags) : Outcome (List Nat) → RxClass
  | .ok [] => .ack
  | .ok g => afterFilter req fl g
  | e => .err (errAs e)

/-- `bridge_header` of the repaired `_send_and_receive`: what the response to the outermost Send
Message of THIS request must match (netFn App, LUN 0, command 34h, the request's sequence number);
`None` unless the routing has more than one entry.  The address fields stay unset in the Python
(`rx_filter` does not compare them under the flags the transport passes). -/
def bridgeHdr (seq : Nat) : Hdr :=
  { netfn := Gen.IpmbFilter.constNetfnApp, rsLun := 0, seq := seq, cmd := Gen.IpmbFilter.constSendMsgCmd,
    rsSa := 0, rqSa := 0, rqLun := 0 }

def bridgeOf (routing : List Route) (seq : Nat) : Option Hdr :=
  if 1 < routing.length then some (bridgeHdr seq) else none

/-- One received frame in the loop body.

As shipped: `if array('B', rx_data)[5] == CMDID_SEND_MESSAGE: rx_data = decode_bridged_message(rx_data)`
— whatever request is outstanding.  Repaired: `if bridge_header is not None and rx_filter(bridge_header,
rx_data, rq_seq=…): rx_data = decode_bridged_message(rx_data, verify=True)`; every other frame goes to
the reply filter as it is. -/
def classifyRx (v : Variant) (bridge : Option Hdr) (req : Hdr) (fl : Flags) (f : List Nat) : RxClass :=
  match v with
  | .asShipped =>
    if 5 < f.length then
      if byteAt f 5 = Gen.IpmbFilter.constSendMsgCmd then afterUnwrap req fl (decodeBridged .asShipped false f)
      else afterFilter req fl f
    else .err (.pyError "IndexError")
  | .repaired =>
    match bridge with
    | none => afterFilter req fl f
    | some bh =>
      match rxFilter bh f { rqSeq := fl.rqSeq } with
      | .ok true => afterUnwrap req fl (decodeBridged .repaired true f)
      | .ok false => afterFilter req fl f
      | e => .err (errAs e)

/-- Receive side of `Rmcp._send_and_receive` as far as bridging is concerned, over the frames
that arrive after the request was sent (`none` = all consumed, still waiting): acknowledgements are
skipped without touching `received_retry`; the first other frame decides.  What happens after a
frame that does NOT match (retry accounting) is property C04's and is left abstract here. -/
def recvBridged (v : Variant) (bridge : Option Hdr) (req : Hdr) (fl : Flags) :
    List (List Nat) → Option (Outcome (List Nat))
  | [] => none
  | f :: rest =>
    match classifyRx v bridge req fl f with
    | .ack => recvBridged v bridge req fl rest
    | .hit d => some (.ok d)
    | .noise => some (.pyError "unmatched-frame:C04")
    | .err e => some e

/-- Both loops of `Rmcp._send_and_receive` as far as bridging is concerned, over the attempts of ONE request:
`attempts` holds, per transmission, the frames that arrive before the read times out; `budget` = the
transmissions left (`max_retries + 1` at the start).  `except socket.timeout: retry += 1` sends the SAME
`tx_data` again, and `header` / `bridge_header` (built once, in front of the loop) are what every attempt's
frames are compared with: the sequence number of a request is constant over its retransmissions.
`none` = the script is used up while the transport still waits. -/
def retryBridged (v : Variant) (bridge : Option Hdr) (req : Hdr) (fl : Flags) :
    Nat → List (List (List Nat)) → Option (Outcome (List Nat))
  | 0, _ => some .retryError
  | _ + 1, [] => none
  | n + 1, att :: rest =>
    match recvBridged v bridge req fl att with
    | none => retryBridged v bridge req fl n rest
    | some o => some o

/-- number of datagrams `retryBridged` transmits (driver output only) -/
def retryAttempts (v : Variant) (bridge : Option Hdr) (req : Hdr) (fl : Flags) :
    Nat → List (List (List Nat)) → Nat
  | 0, _ => 0
  | _ + 1, [] => 0
  | n + 1, att :: rest =>
    match recvBridged v bridge req fl att with
    | none => 1 + retryAttempts v bridge req fl n rest
    | some _ => 1

end PyIpmi.Bridge
