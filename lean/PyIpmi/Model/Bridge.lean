/-
  Executable model of the bridging part of `pyipmi/interfaces/ipmb.py`:
  `encode_send_message`, `encode_bridged_message`, `decode_bridged_message`, and of the part of
  `Rmcp._send_and_receive` (interfaces/rmcp.py) that C09 is about: unwrap a Send Message
  response, `continue` WITHOUT charging the retry counter when only an acknowledgement came.

  Send Message ids and the bit positions of the channel byte come from `Gen/IpmbFilter.lean`
  (live `SendMessageReq` class); frames are built by the C03 model `encodeIpmbMsg`.
-/
import PyIpmi.Model.Ipmb
namespace PyIpmi.Bridge
open PyIpmi PyIpmi.Ipmb PyIpmi.Spec.Wire

/-- `pyipmi.Routing(rq_sa, rs_sa, channel)` -/
structure Route where
  rqSa : Nat
  rsSa : Nat
  channel : Nat
  deriving DecidableEq, Repr

/-- 8-bit addresses, 4-bit channel number -/
def Route.InRange (r : Route) : Prop := r.rqSa < 256 ∧ r.rsSa < 256 ∧ r.channel < 16

/-- `Bitfield.BitWrapper._get_value` for `SendMessageReq.channel`:
`value |= (bit_value & (2**width - 1)) << offset` for number, (authenticated, encrypted: defaults), tracking -/
def channelByte (channel tracking : Nat) : Nat :=
  let n := Gen.IpmbFilter.chanNumber
  let t := Gen.IpmbFilter.chanTracking
  ((channel &&& (2 ^ n.2 - 1)) <<< n.1) ||| Gen.IpmbFilter.chanOther ||| ((tracking &&& (2 ^ t.2 - 1)) <<< t.1)

/-- `encode_send_message(payload, rq_sa, rs_sa, channel, seq, tracking=1)` -/
def encodeSendMessage (payload : List Nat) (rqSa rsSa channel seq : Nat) (tracking : Nat := 1) :
    Outcome (List Nat) :=
  encodeIpmbMsg { netfn := Gen.IpmbFilter.sendMsgNetfn, rsLun := 0, rsSa := rsSa, seq := seq, rqLun := 0,
                  rqSa := rqSa, cmd := Gen.IpmbFilter.sendMsgCmd }
    (channelByte channel tracking :: payload)

/-- `encode_bridged_message(routing, header, payload, seq)`: the header's addresses are replaced
by the last hop's, then one Send Message per entry of `reversed(routing[:-1])` is wrapped
around, innermost first. -/
def encodeBridged (routing : List Route) (h : Hdr) (payload : List Nat) (seq : Nat) : Outcome (List Nat) :=
  match routing.getLast? with
  | none => .pyError "IndexError"
  | some last =>
    routing.dropLast.foldr
      (fun b acc => acc.bind fun tx => encodeSendMessage tx b.rqSa b.rsSa b.channel seq)
      (encodeIpmbMsg { h with rqSa := last.rqSa, rsSa := last.rsSa } payload)

/-- The part of `pyipmi.Target` that bridging depends on: the stored path (the class attribute
`routing = None` until a path is set). -/
structure Target where
  routing : Option (List Route) := none
  deriving Repr

/-- `Target.set_routing(routing)` (also `set_routing_information`, and `Target(routing=…)`):
`self.routing = [Routing(*route) for route in routing]` — the stored path is REPLACED by the
new one, whatever was stored before (nothing of an earlier path survives). -/
def Target.setRouting (t : Target) (rs : List Route) : Target := { t with routing := some rs }

/-- a history of `set_routing` calls on ONE Target object, oldest first -/
def Target.reroute (t : Target) (paths : List (List Route)) : Target := paths.foldl Target.setRouting t

/-- what the transport transmits for a routed target (`if target.routing:` branch of
`Rmcp._send_and_receive`): the nest for the path stored AT THAT MOMENT -/
def Target.request (t : Target) (h : Hdr) (payload : List Nat) (seq : Nat) : Outcome (List Nat) :=
  match t.routing with
  | some (r :: rs) => encodeBridged (r :: rs) h payload seq
  | _ => .pyError "not-routed"

/-- `decode_bridged_message(rx_data)`:
```
while array('B', rx_data)[5] == CMDID_SEND_MESSAGE:
    rsp = SendMessageRsp; decode_message(rsp, rx_data[6:]); check_completion_code(rsp.completion_code)
    rx_data = rx_data[7:-1]
    if len(rx_data) < 6: break
return rx_data
``` -/
def decodeBridged (rx : List Nat) : Outcome (List Nat) :=
  if h : 5 < rx.length then
    if rx[5] ≠ Gen.IpmbFilter.constSendMsgCmd then .ok rx
    else
      match rx.drop 6 with
      | [] => .decodingError                       -- no completion code: "Data too short for message"
      | cc :: _ =>
        if cc ≠ 0 then .ccError cc
        else
          let rx' := (rx.drop 7).dropLast
          if rx'.length < 6 then .ok rx' else decodeBridged rx'
  else .pyError "IndexError"
termination_by rx.length
decreasing_by
  simp only [List.length_dropLast, List.length_drop]
  omega

/-- an exception propagates unchanged, whatever the type of the value would have been -/
def errAs {α β : Type} : Outcome α → Outcome β
  | .ok _ => .pyError "internal"
  | .decodingError => .decodingError
  | .encodingError => .encodingError
  | .ccError c => .ccError c
  | .retryError => .retryError
  | .hpmError => .hpmError
  | .timeoutError => .timeoutError
  | .notSupported => .notSupported
  | .pyError n => .pyError n

/-- Receive side of `Rmcp._send_and_receive` as far as bridging is concerned, over the frames
that arrive after the request was sent (`none` = all consumed, still waiting):
a Send Message response is unwrapped; an empty result means "only the acknowledgement came,
the forwarded reply is in the next packet" and the loop continues without touching
`received_retry`; the first other frame is given to `rx_filter` and, if it matches, its
completion code and data (`rx_data[6:-1]`) are returned.  What happens to a frame that does NOT
match (re-queue, retry accounting) is property C04's and is left abstract here. -/
def recvBridged (req : Hdr) (fl : Flags) : List (List Nat) → Option (Outcome (List Nat))
  | [] => none
  | f :: rest =>
    if h : 5 < f.length then
      let unwrapped := if f[5] = Gen.IpmbFilter.constSendMsgCmd then decodeBridged f else .ok f
      match unwrapped with
      | .ok [] => recvBridged req fl rest
      | .ok g =>
        match rxFilter req g fl with
        | .ok true => some (.ok (g.drop 6).dropLast)
        | .ok false => some (.pyError "unmatched-frame:C04")
        | e => some (errAs e)
      | e => some (errAs e)
    else some (.pyError "IndexError")

end PyIpmi.Bridge
