/-
  Executable model of the LAN wire layer of pyipmi/interfaces/rmcp.py (C05):

    RmcpMsg.pack / unpack          -> rmcpPack / rmcpUnpack
    IpmiMsg.pack / unpack          -> ipmiPack / ipmiUnpack
    Rmcp._send_ipmi_msg            -> sendIpmi
    Rmcp._receive_ipmi_msg         -> receiveIpmi  (as shipped / intended, see below)
    AsfMsg.pack, AsfPing           -> asfPack, pingDatagram
    Rmcp._receive_asf_msg(AsfPong) -> receivePongV (as shipped / intended), receivePong

  It MIRRORS the Python: order of effects (the session sequence number is incremented
  before anything can fail), `struct` semantics for the format characters in use
  (`! > < B H I x <n>s`), the double byte swap of `_pack_session_id`, `ljust` padding (does
  not truncate) versus `16s` (truncates), `array('B', [len])` overflowing above 255, and
  the Python exception classes (`struct.error` is `pyError "error"`).

  Formats, constants, argument orders and the authentication dispatch come from
  `Gen/RmcpFormats.lean`, regenerated from the working tree on every run.
  `md5` is a parameter (instantiated with `PyIpmi.Md5.md5` in the drivers).
-/
import PyIpmi.Base.Bytes
import PyIpmi.Base.Outcome
import PyIpmi.Gen.RmcpFormats
namespace PyIpmi.RmcpWire
open PyIpmi PyIpmi.Gen.RmcpFormats

/-! ### `struct` -/

/-- big-endian bytes -/
def beBytes (n v : Nat) : List Nat := (leBytes n v).reverse

def beVal (l : List Nat) : Nat := leVal l.reverse

/-- a value handed to `struct.pack` -/
inductive SVal where
  | int (v : Nat)
  | bytes (b : List Nat)
  deriving Repr, DecidableEq

def intBytes (big : Bool) (n v : Nat) : Outcome (List Nat) :=
  if v < 256 ^ n then .ok (if big then beBytes n v else leBytes n v) else .pyError "error"

/-- `struct.pack(fmt, *vals)`; `struct.error` is `pyError "error"` -/
def packItems (big : Bool) : List Fmt → List SVal → Outcome (List Nat)
  | [], [] => .ok []
  | .pad :: fs, vs => do let r ← packItems big fs vs; pure (0 :: r)
  | .u8 :: fs, .int v :: vs => do
      let h ← intBytes big 1 v; let r ← packItems big fs vs; pure (h ++ r)
  | .u16 :: fs, .int v :: vs => do
      let h ← intBytes big 2 v; let r ← packItems big fs vs; pure (h ++ r)
  | .u32 :: fs, .int v :: vs => do
      let h ← intBytes big 4 v; let r ← packItems big fs vs; pure (h ++ r)
  | .bytes n :: fs, .bytes b :: vs => do
      let r ← packItems big fs vs; pure (b.take n ++ List.replicate (n - b.length) 0 ++ r)
  | .bytesVar :: fs, .bytes b :: vs => do let r ← packItems big fs vs; pure (b ++ r)
  | _, _ => .pyError "error"

def structPack (f : Format) (vs : List SVal) : Outcome (List Nat) := packItems f.big f.items vs

def Fmt.size : Fmt → Nat
  | .u8 => 1 | .u16 => 2 | .u32 => 4 | .pad => 1 | .bytes n => n | .bytesVar => 0

def calcsize (f : Format) : Nat := (f.items.map Fmt.size).sum

def unpackItems (big : Bool) : List Fmt → List Nat → List SVal
  | [], _ => []
  | .pad :: fs, d => unpackItems big fs (d.drop 1)
  | .u8 :: fs, d => .int (d.headD 0) :: unpackItems big fs (d.drop 1)
  | .u16 :: fs, d => .int (if big then beVal (d.take 2) else leVal (d.take 2)) :: unpackItems big fs (d.drop 2)
  | .u32 :: fs, d => .int (if big then beVal (d.take 4) else leVal (d.take 4)) :: unpackItems big fs (d.drop 4)
  | .bytes n :: fs, d => .bytes (d.take n) :: unpackItems big fs (d.drop n)
  | .bytesVar :: fs, d => unpackItems big fs d

/-- `struct.unpack(fmt, data)`: the buffer must have exactly `calcsize(fmt)` bytes -/
def structUnpack (f : Format) (d : List Nat) : Outcome (List SVal) :=
  if d.length = calcsize f then .ok (unpackItems f.big f.items d) else .pyError "error"

def SVal.nat : SVal → Nat
  | .int v => v
  | .bytes _ => 0

/-- `struct.unpack(fu, struct.pack(fp, v))[0]` -/
def repack (fp fu : Format) (v : Nat) : Outcome Nat := do
  let b ← structPack fp [.int v]
  let r ← structUnpack fu b
  pure ((r.headD (.int 0)).nat)

/-! ### RMCP header -/

/-- `RmcpMsg(cls).pack(sdu, seq)` -/
def rmcpPack (cls seqNo : Nat) (sdu : List Nat) : Outcome (List Nat) := do
  let h ← structPack rmcpHeader [.int rmcpVersion, .int seqNo, .int cls]
  pure (h ++ sdu)

/-- `RmcpMsg().unpack(pdu)` → (seq_number, class_of_msg, sdu) -/
def rmcpUnpack (pdu : List Nat) : Outcome (Nat × Nat × List Nat) := do
  let n := calcsize rmcpHeader
  let vs ← structUnpack rmcpHeader (pdu.take n)
  match vs with
  | [.int ver, .int seqNo, .int cls] =>
    if ver ≠ rmcpVersion then .decodingError else pure (seqNo, cls, pdu.drop n)
  | _ => .pyError "ValueError"

/-! ### IPMI session header -/

/-- the `Session` object as far as `IpmiMsg` reads it -/
structure Sess where
  auth : Nat
  sid : Nat
  seq : Nat
  activated : Bool
  pw : List Nat
  deriving Repr, DecidableEq

/-- `Session.increment_sequence_number` -/
def incSeq (n : Nat) : Nat := if n + 1 > 0xffffffff then 1 else n + 1

/-- `password.ljust(padWidth, fill)` (never truncates) -/
def padPw (pw : List Nat) : List Nat := pw ++ List.replicate (padWidth - pw.length) padFill

def argVal (auth sid seq : Nat) (pw sdu : List Nat) : Arg → Outcome SVal
  | .auth => .ok (.int auth)
  | .seq => do let v ← repack seqPack seqUnpack seq; pure (.int v)
  | .sid => do let v ← repack sidPack sidUnpack sid; pure (.int v)
  | .pw => .ok (.bytes (padPw pw))
  | .sdu => .ok (.bytes sdu)

def argVals (auth sid seq : Nat) (pw sdu : List Nat) : List Arg → Outcome (List SVal)
  | [] => .ok []
  | a :: as => do
      let v ← argVal auth sid seq pw sdu a
      let r ← argVals auth sid seq pw sdu as
      pure (v :: r)

def lookupCode (auth : Nat) : List (Nat × Code) → Option Code
  | [] => none
  | (a, c) :: r => if a = auth then some c else lookupCode auth r

/-- the bytes `_pack_auth_code_md5` hashes -/
def md5Input (sid seq : Nat) (pw sdu : List Nat) : Outcome (List Nat) := do
  let vs ← argVals 0 sid seq pw sdu md5Args
  structPack md5Fmt vs

def authCode (md5 : List Nat → List Nat) (auth sid seq : Nat) (pw sdu : List Nat) :
    Outcome (List Nat) :=
  match lookupCode auth packAuth with
  | some .none => .ok []
  | some .straight => .ok (padPw pw)
  | some .md5 => do let x ← md5Input sid seq pw sdu; pure (md5 x)
  | none => .notSupported

/-- body of `IpmiMsg.pack` after the sequence number was incremented -/
def ipmiPackCore (md5 : List Nat → List Nat) (auth sid seq : Nat) (pw sdu : List Nat) :
    Outcome (List Nat) := do
  let vs ← argVals auth sid seq pw sdu packHeaderArgs
  let h ← structPack packHeader vs
  let c ← authCode md5 auth sid seq pw sdu
  if sdu.length > 255 then .pyError "OverflowError" else
  pure (h ++ c ++ [sdu.length] ++ sdu)

/-- session state after `IpmiMsg(session).pack(..)` (whether or not it raised) -/
def sessAfterPack : Option Sess → Option Sess
  | none => none
  | some s => some (if s.activated then { s with seq := incSeq s.seq } else s)

/-- `IpmiMsg(session).pack(sdu)` -/
def ipmiPack (md5 : List Nat → List Nat) (s : Option Sess) (sdu : List Nat) : Outcome (List Nat) :=
  match sessAfterPack s with
  | none => ipmiPackCore md5 authNone 0 0 [] sdu
  | some s' => ipmiPackCore md5 s'.auth s'.sid s'.seq s'.pw sdu

/-- `Rmcp._send_ipmi_msg(data)`: the datagram handed to `sendto` (RMCP sequence `seqNo`) -/
def sendIpmi (md5 : List Nat → List Nat) (seqNo : Nat) (s : Option Sess) (sdu : List Nat) :
    Outcome (List Nat) := do
  let tx ← ipmiPack md5 s sdu
  rmcpPack classIpmi seqNo tx

/-- the part of `IpmiMsg.unpack` after the header was read: `hl` = header length, `dl` = the
length byte.  `none` is Python's `None`. -/
def unpackBody (ignore : Bool) (pdu : List Nat) (hl dl : Nat) : Outcome (Option (List Nat)) :=
  if !ignore then
    if pdu.length < hl + dl then .decodingError
    else if pdu.length > hl + dl then .decodingError
    else if dl ≠ 0 then .ok (some ((pdu.drop hl).take dl)) else .ok none
  else
    let sdu := pdu.drop hl
    .ok (if sdu.isEmpty then none else some sdu)

/-- `IpmiMsg(ignore_sdu_length=ignore).unpack(pdu)` -/
def ipmiUnpack (ignore : Bool) (pdu : List Nat) : Outcome (Option (List Nat)) :=
  match pdu with
  | [] => .pyError "IndexError"                       -- array('B', pdu)[0]
  | auth :: _ =>
    if auth ≠ 0 then
      -- struct.unpack('!I', pdu[1:5]); ('!I', pdu[5:9]); ('!16B', pdu[9:25]); array('B', pdu)[25]
      if pdu.length < 25 then .pyError "error"
      else if pdu.length < 26 then .pyError "IndexError"
      else unpackBody ignore pdu (calcsize hdrAuth) (pdu.getD 25 0)
    else
      -- struct.unpack(HEADER_FORMAT_NO_AUTH, pdu[:10])
      if pdu.length < calcsize hdrNoAuth then .pyError "error"
      else unpackBody ignore pdu (calcsize hdrNoAuth) (pdu.getD 9 0)

/-- How `_receive_ipmi_msg` treats a datagram without payload (`IpmiMsg.unpack` gives `None`):
as shipped its debug line evaluates `array('B', None)` and raises `TypeError`; intended is to
hand the (empty) payload on. -/
inductive EmptyRx where
  | asShipped
  | intended
  deriving Repr, DecidableEq

/-- `Rmcp._receive_ipmi_msg(ignore_sdu_length)` on the datagram returned by `recvfrom` -/
def receiveIpmi (v : EmptyRx) (ignore : Bool) (dgram : List Nat) : Outcome (Option (List Nat)) := do
  let (_, cls, pdu) ← rmcpUnpack dgram
  if cls ≠ classIpmi then .decodingError else do
    let r ← ipmiUnpack ignore pdu
    match r, v with
    | none, .asShipped => .pyError "TypeError"
    | r, _ => pure r

/-! ### ASF presence ping / pong -/

/-- `AsfMsg.pack` -/
def asfPack (type tag : Nat) (data : List Nat) : Outcome (List Nat) := do
  let h ← structPack asfHeader [.int asfIana, .int type, .int tag, .int data.length]
  pure (h ++ data)

/-- the datagram `Rmcp.ping()` sends -/
def pingDatagram (seqNo : Nat) : Outcome (List Nat) := do
  let sdu ← asfPack pingType pingTag []
  rmcpPack classAsf seqNo sdu

/-- What `AsfPong.check_data` does with the Supported Interactions byte: as shipped it raises
DecodingError('SDU malformed') unless the byte is 0, i.e. it refuses every pong of a device that
advertises RMCP security extensions (bit 7, ASF 2.0) or DASH (bit 5); intended is to take the byte
as the capability bit field it is (fixes/C05-2.diff). -/
inductive PongCheck where
  | asShipped
  | intended
  deriving Repr, DecidableEq

/-- the attributes of the `AsfPong` object after `unpack` -/
structure PongFields where
  iana : Nat
  type : Nat
  tag : Nat
  oemIana : Nat
  oemDefined : Nat
  entities : Nat
  interactions : Nat
  deriving Repr, DecidableEq

/-- `AsfPong().unpack(sdu)`; the result is the object's attributes -/
def pongUnpackV (v : PongCheck) (sdu : List Nat) : Outcome PongFields := do
  let hl := calcsize asfHeader
  let vs ← structUnpack asfHeader (sdu.take hl)
  match vs with
  | [.int iana, .int type, .int tag, .int dl] =>
    if sdu.length < hl + dl then .decodingError
    else if sdu.length > hl + dl then .decodingError
    else
      let data := (sdu.drop hl).take dl
      -- check_header
      if type ≠ asfPong then .decodingError
      else if dl = 0 then .pyError "TypeError"
      else if data.length ≠ calcsize pongData then .decodingError
      else do
        let ws ← structUnpack pongData data
        match ws with
        | [.int oemIana, .int oemDefined, .int entities, .int interactions] =>
          -- check_data
          if oemIana = asfIana ∧ oemDefined ≠ 0 then .decodingError
          else if v = .asShipped ∧ interactions ≠ 0 then .decodingError
          else pure ⟨iana, type, tag, oemIana, oemDefined, entities, interactions⟩
        | _ => .pyError "ValueError"
  | _ => .pyError "ValueError"

/-- `Rmcp._receive_asf_msg(AsfPong)` on the datagram returned by `recvfrom` -/
def receivePongV (v : PongCheck) (dgram : List Nat) : Outcome PongFields := do
  let (_, cls, sdu) ← rmcpUnpack dgram
  if cls ≠ classAsf then .decodingError else pongUnpackV v sdu

/-- `Rmcp.ping()`'s use of it (the object is dropped); the session model of C06 builds on this one.
The variants agree on every pong whose interactions byte is 0 (`receivePongV_variants_agree`). -/
def receivePong (dgram : List Nat) : Outcome Unit := do
  let _ ← receivePongV .intended dgram
  pure ()

end PyIpmi.RmcpWire
