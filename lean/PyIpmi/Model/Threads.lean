/-
  C14 — small-step interleaving semantics of N threads sharing one `Rmcp` interface.

  Mirrors `pyipmi/interfaces/rmcp.py:Rmcp._send_and_receive` (any `max_retries`, unbridged
  target) together with `IpmiMsg.pack` / `Session.increment_sequence_number`, cut at every
  access to state shared between threads.  One call of `_send_and_receive` is the path
  (`Sys.seqLocked = true`, the source with fixes/C04-2.diff: the lock is taken FIRST)

    idle      with self.transaction_lock:                 (blocks while held)
    lkLoad    v = self.next_sequence_number               (load,  inside the lock)    _inc_sequence_number
    lkStore   self.next_sequence_number = (v + 1) % 64    (store, inside the lock)
    lkHdr     header.rq_seq = self.next_sequence_number   (load,  inside the lock)

  or (`seqLocked = false`, the source AS SHIPPED: sequence number and header before the lock)

    idle      v = self.next_sequence_number               (load,  OUTSIDE the lock)   _inc_sequence_number
    incStore  self.next_sequence_number = (v + 1) % 64    (store, OUTSIDE the lock)
    hdrLoad   header.rq_seq = self.next_sequence_number   (load,  OUTSIDE the lock)
    acquire   with self.transaction_lock:                 (blocks while held)

  and then, in both,

    actLoad   if self.session.activated:                  (IpmiMsg.pack: the bump below only when activated)
    ssLoad    v = session.sequence_number                 } self.sequence_number += 1
    ssStore   session.sequence_number = v + 1             }
    ssChk     if session.sequence_number > 0xffffffff
    ssWrap        session.sequence_number = 1
    ssHdr k   _pack_sequence_number(): load (k further loads follow: 0 for none/password, 1 for MD5)
    send      self._sock.sendto(pdu)                      datagram carries the value loaded last; received_retry = 0
    recv      self._q.get() if not self._q.empty() else self._sock.recvfrom()
              rx_filter(header, rx_data): request sequence and command must match
              nothing there → socket.timeout → `except socket.timeout: retry += 1`: while `retry <= max_retries`
              the loop body runs again — `_send_ipmi_msg` packs AGAIN (back to actLoad: the retransmission takes the
              next session sequence number) and transmits, all inside the same lock hold; else the loop ends
              (→ release, RetryError)
    requeue   (filter said no: the frame is dropped; before fix e9c3a5d it was put back into `_q`)
              received_retry += 1: while `received_retry <= max_retries` read again (→ recv), else RetryError
    release   leaving the `with` block; then `return rx_data[6:-1]` or `raise RetryError`

  (`Par.packOnce = true` is the VARIANT "the session wrapper is built once, before the retry loop": after a
  time-out the stored datagram is transmitted again — back to `send`, with the session sequence number it had.)

  The BMC answers a datagram at once — the reply (tagged with the serial number of the datagram it answers,
  echoing its request sequence and command) is appended to the socket's receive queue — unless the network
  loses the reply: `Par.loss` is the loss plan of the run (the reply to datagram number k is lost iff
  `loss[k] = true`; any list: every loss pattern).  A lost reply is never delivered; its sender times out.

  Three kinds of thread run that call path:

  * `worker`     an application thread making `todo` calls;
  * `keepAlive`  the loop of `call_repeatedly`:  `while not stopped.wait(interval): func()` with
                 `func = _get_device_id` (→ `send_and_receive` → `_send_and_receive`):

      kaWait    stopped.wait(interval)   one atomic decision: the flag is set → the loop (and the thread) ends;
                                         otherwise the interval elapses ("tick", at most `todo` more times) and
                                         the call path above is entered — WITHOUT looking at the flag again
                                         (an exception other than socket.timeout ends the thread)

  * `closer`     an application thread that, after its calls, tears the session down
                 (`Rmcp.close_session`).  It first waits for the other application threads (the
                 application's own discipline: nobody uses an interface that is being closed):

      await     (application) join the other workers
      stopSet   if self._stop_keep_alive: self._stop_keep_alive()       → stopped.set()
      joinKa        … and, in the variant `join` (fixes/C14-1.diff), t.join(): blocks until the keep-alive
                    thread has terminated.  The closer does NOT hold the lock here.
      chkAct    if self._session.activated is False: return
                Close Session through the same locked call path (command 3Ch)
      actStore  self._session.activated = False                         (outside the lock)

  `Sys.join` selects the stopper: `false` = as shipped (`return stopped.set`), `true` = set and join.
  `Sys.seqLocked` selects where the IPMB sequence number is allocated (see above).
  `Sys.par` holds the retry budget (`Rmcp.max_retries`), the loss plan and the packing variant.


  `step s t` runs the next atomic action of thread `t` (`none`: no such thread, finished, or
  blocked on the lock); `label s t` is the shared access that action performs, with the
  values the real code would observe — the vocabulary of the logged traces.
-/
import PyIpmi.Spec.Threads
namespace PyIpmi.Threads
open PyIpmi.Spec.Threads (WEv)

/-- The concurrency-relevant shape of `rmcp.py` / `session.py` as the translator
(`harness/translate/threads.py`) reads it from the AST on every run (`Gen/Threads.lean`). -/
structure Shape where
  lockBlocks : Nat                  -- `with self.transaction_lock:` blocks in `_send_and_receive`
  oneLock : Bool                    -- ONE lock object for every caller and every target: the context expression of that
                                    -- block is the attribute `self.transaction_lock` itself, `_send_and_receive` has no other
                                    -- `with` statement, `transaction_lock` is assigned once in class `Rmcp` (in `__init__`,
                                    -- `threading.Lock()`), and the class creates no other lock (a lock chosen per target /
                                    -- per thread / per call serialises nothing between the threads the model serialises)
  lockOpsElsewhere : Nat            -- mentions of `self.transaction_lock` in class `Rmcp` OTHER than its one assignment and
                                    -- the context expression of that block: the lock is taken and released by the `with`
                                    -- statement only - no explicit `.release()` / `.acquire()` (inside the block, between a
                                    -- time-out and the retransmission, it would end the exchange's mutual exclusion half-way:
                                    -- `Props.C14.stepR`, `release_in_retry_handler_counterexample`), no alias
  incFirst : Bool                   -- the first statement executed is `self._inc_sequence_number()`: first statement of
                                    -- the function, or of the lock block when the function begins with that
  seqInLock : Bool                  -- no mention of `next_sequence_number` / `_inc_sequence_number` outside the lock
                                    -- block: the VARIANT `seqLocked`
  incCalls : Nat
  ioOutsideLock : Nat               -- socket / queue accesses of `_send_and_receive` outside the block
  sendsInLock : Nat                 -- `self._send_ipmi_msg` calls inside the block
  recvsInLock : Nat                 -- `self._receive_ipmi_msg` calls inside the block
  qGetInLock : Nat                  -- `self._q.get` calls inside the block
  qPut : Nat                        -- `self._q.put` calls (re-queuing)
  packInSar : Nat                   -- `.pack(` calls in `_send_and_receive` itself (packing outside `_send_ipmi_msg`)
  packInSend : Nat                  -- `IpmiMsg(…).pack(` calls `_send_ipmi_msg` reaches (itself or through a helper method)
  sendBuildsIpmiMsg : Bool          -- `_send_ipmi_msg` builds `IpmiMsg(self._session)` (itself or through that helper)
  retryLoop : Bool                  -- the lock block ends with `retry = 0; while retry <= self.max_retries: try: <send>;
                                    -- received = False; received_retry = 0; while received is False and received_retry <=
                                    -- self.max_retries: <read, filter, received_retry += 1>; if not received: raise RetryError;
                                    -- break; except socket.timeout: retry += 1`, the one transmission being the first
                                    -- statement of the `try` and every reception being in the inner loop
  packBeforeLoop : Nat              -- session wrappers built in the lock block BEFORE the retry loop
  packPerAttempt : Bool             -- the transmission inside the loop builds the wrapper itself, unconditionally, on
                                    -- every attempt (`_send_ipmi_msg(tx_data)`): the VARIANT (`false`: it is handed a
                                    -- datagram built before the loop — `Par.packOnce`)
  packIncs : Nat                    -- `increment_sequence_number()` calls in `IpmiMsg.pack`
  packIncGuardedByActivated : Bool
  seqAdd : Nat                      -- `_inc_sequence_number`: (n + seqAdd) % seqMod
  seqMod : Nat
  keepAliveLocked : Bool            -- the callable given to `call_repeatedly` reaches `_send_and_receive`
  rawLocked : Bool                  -- `send_and_receive_raw` reaches `_send_and_receive`
  msgLocked : Bool                  -- `send_and_receive` reaches `_send_and_receive`
  sessAdd : Nat                     -- `Session.increment_sequence_number`: += sessAdd; if > sessLimit: = sessWrapTo
  sessLimit : Nat
  sessWrapTo : Nat
  -- session teardown
  loopWaitsThenCalls : Bool         -- call_repeatedly: thread running `while not stopped.wait(interval): try: func(*args) …`
  loopSwallowsOnlyTimeout : Bool    -- … `except socket.timeout: pass` and nothing else
  stopperSets : Bool                -- the returned stopper sets the event
  stopperJoins : Bool               -- … and then joins the thread (unless called from that thread): the VARIANT
  closeStopsFirst : Bool            -- close_session: first `if self._stop_keep_alive: self._stop_keep_alive()`
  closeChecksActivated : Bool       -- then `if self._session.activated is False: return`
  closeLocked : Bool                -- the Close Session request goes through `send_and_receive` (→ the lock)
  closeDeactivatesLast : Bool       -- last statement: `self._session.activated = False`; no other store to it
deriving DecidableEq, Repr

/-- The shape the step function below hard-wires: the IPMB sequence number is bumped first and read into
the header, one lock block (`acquire` / `idle` … `release`) on ONE lock object shared by every caller whatever target
it addresses (`Sys.lock` is a single cell) holds the session
sequence bump and the packing (`ssLoad` … `ssHdr`, inside `_send_ipmi_msg`), the one transmission
(`send`) and the reception (`recv`, reading `_q` first; the drain of the socket, if any, is inside too);
nothing is put back into `_q`; every caller,
the keep-alive included, runs this program; the keep-alive loop and `close_session` are the ones described
above; the retry loop is the one described above.  Three things are left open: what the stopper returned by
`call_repeatedly` does after setting the
event (`join = false` as shipped, `join = true` with fixes/C14-1.diff), whether the sequence number is
allocated and read inside the lock block (`seqLocked = true` with fixes/C04-2.diff) or before it (as shipped),
and whether the session wrapper is built by the transmission of every attempt (`perAttempt = true`, the source) or
once before the retry loop (`false`: a retransmission repeats the session sequence number). -/
def Shape.expected (join : Bool) (seqLocked : Bool := true) (perAttempt : Bool := true) : Shape :=
  { lockBlocks := 1, oneLock := true, lockOpsElsewhere := 0, incFirst := true, seqInLock := seqLocked, incCalls := 1, ioOutsideLock := 0, sendsInLock := 1, recvsInLock := 1,
    qGetInLock := 1, qPut := 0, packInSar := 0, packInSend := 1, sendBuildsIpmiMsg := true,
    retryLoop := true, packBeforeLoop := if perAttempt then 0 else 1, packPerAttempt := perAttempt, packIncs := 1,
    packIncGuardedByActivated := true, seqAdd := 1, seqMod := 64, keepAliveLocked := true, rawLocked := true,
    msgLocked := true, sessAdd := 1, sessLimit := 0xffffffff, sessWrapTo := 1,
    loopWaitsThenCalls := true, loopSwallowsOnlyTimeout := true, stopperSets := true, stopperJoins := join,
    closeStopsFirst := true, closeChecksActivated := true, closeLocked := true, closeDeactivatesLast := true }

/-- A reply waiting in the socket (or in `Rmcp._q`). -/
structure Reply where
  serial : Nat      -- the datagram it answers
  rq : Nat          -- echoed IPMB request sequence number
  cmd : Nat         -- echoed command
deriving DecidableEq, Repr

inductive PC where
  | idle | incStore | hdrLoad | acquire
  | lkLoad | lkStore | lkHdr
  | actLoad | ssLoad | ssStore | ssChk | ssWrap | ssHdr (k : Nat) | send | recv | requeue | release
  | kaWait
  | await | stopSet | joinKa | chkAct | actStore
  | done
deriving DecidableEq, Repr

inductive Kind where
  | worker | keepAlive | closer
deriving DecidableEq, Repr

/-- Result of one call of `_send_and_receive`. -/
inductive CallRes where
  | ok (sent got : Nat)        -- returned the reply that answers datagram `got`; own datagram was `sent`
  | retryError (sent : Nat)    -- raised RetryError (time-out or filter mismatch)
deriving DecidableEq, Repr

structure Thr where
  pc : PC
  todo : Nat                   -- worker: calls still to make (including the one in progress); closer: the same,
                               -- Close Session counted as one more; keep-alive: times the interval may still elapse
  cmd : Nat                    -- the command this thread issues
  kind : Kind := .worker
  closing : Bool := false      -- closer only: past the barrier and past the stopper (→ Close Session → deactivate)
  reg : Nat := 0               -- value loaded last
  hdr : Nat := 0               -- header.rq_seq
  mine : Nat := 0              -- serial of the datagram sent in this call
  got : Option Reply := none   -- reply accepted by the filter
  results : List CallRes := [] -- newest first
  retry : Nat := 0             -- `retry` of the current call: time-outs so far
  rretry : Nat := 0            -- `received_retry` of the current attempt: frames the filter rejected
deriving DecidableEq, Repr

/-- Constants of a run: the retry budget, what the network loses, and the packing variant. -/
structure Par where
  maxRetries : Nat := 0        -- Rmcp.max_retries
  loss : List Bool := []       -- the reply to datagram number k is lost iff loss[k] = true (beyond the list: delivered)
  packOnce : Bool := false     -- VARIANT: the session wrapper is built once, before the retry loop
deriving DecidableEq, Repr

/-- Is the reply to datagram number `k` lost? -/
def lostAt (loss : List Bool) (k : Nat) : Bool := loss.getD k false

structure Sys where
  nextSeq : Nat                -- Rmcp.next_sequence_number
  sessSeq : Nat                -- Session.sequence_number
  lock : Option Nat            -- Rmcp.transaction_lock holder
  q : List Reply               -- Rmcp._q
  sock : List Reply            -- socket receive queue
  serial : Nat                 -- datagrams transmitted so far
  wire : List WEv              -- wire log, NEWEST FIRST
  thr : List Thr
  xl : Nat                     -- extra loads of the session sequence while packing (MD5: 1)
  activated : Bool := true     -- Session.activated
  stopped : Bool := false      -- the Event of call_repeatedly
  join : Bool := true          -- variant: the stopper joins the keep-alive thread
  seqLocked : Bool := true     -- variant: the IPMB sequence number is allocated inside the lock block
  par : Par := {}              -- retry budget, loss plan, packing variant
deriving Repr

def inLock : PC → Bool
  | .lkLoad | .lkStore | .lkHdr | .actLoad | .ssLoad | .ssStore | .ssChk | .ssWrap | .ssHdr _ | .send | .recv | .requeue | .release => true
  | _ => false

def Sys.upd (s : Sys) (t : Nat) (th : Thr) : Sys := { s with thr := s.thr.set t th }

def CallRes.isOk : CallRes → Bool
  | .ok _ _ => true
  | .retryError _ => false

/-- Where a thread goes when a call returns (`ok`) or raises. -/
def nextPc (th : Thr) (ok : Bool) : PC :=
  match th.kind with
  | .keepAlive => if ok then .kaWait else .done           -- RetryError is not caught by the loop: the thread dies
  | .worker => if th.todo - 1 = 0 then .done else .idle
  | .closer =>
    if th.closing then (if ok then .actStore else .done)  -- an exception leaves close_session before the store
    else if th.todo - 1 = 0 then .done else if th.todo - 1 = 1 then .await else .idle

def afterCall (th : Thr) (r : CallRes) : Thr :=
  { th with results := r :: th.results, got := none, retry := 0, rretry := 0,
            todo := if th.kind = .keepAlive then th.todo else th.todo - 1,
            pc := nextPc th r.isOk }

def allDone (k : Kind) (l : List Thr) : Bool := l.all fun x => x.kind != k || x.pc == .done
def hasKa (l : List Thr) : Bool := l.any fun x => x.kind == .keepAlive

/-- The action of thread `t` (whose record is `th`) at each program point. -/
def stepThr (s : Sys) (t : Nat) (th : Thr) : Option Sys :=
  match th.pc with
  | .idle =>
    if s.seqLocked then
      match s.lock with
      | none => some ({ s with lock := some t }.upd t { th with pc := .lkLoad })
      | some _ => none
    else some (s.upd t { th with reg := s.nextSeq, pc := .incStore })
  | .lkLoad => some (s.upd t { th with reg := s.nextSeq, pc := .lkStore })
  | .lkStore => some ({ s with nextSeq := (th.reg + 1) % 64 }.upd t { th with pc := .lkHdr })
  | .lkHdr => some (s.upd t { th with hdr := s.nextSeq, pc := .actLoad })
  | .incStore => some ({ s with nextSeq := (th.reg + 1) % 64 }.upd t { th with pc := .hdrLoad })
  | .hdrLoad => some (s.upd t { th with hdr := s.nextSeq, pc := .acquire })
  | .acquire =>
    match s.lock with
    | none => some ({ s with lock := some t }.upd t { th with pc := .actLoad })
    | some _ => none
  | .actLoad =>
    some (s.upd t { th with reg := if s.activated then 1 else 0,
                            pc := if s.activated then .ssLoad else .ssHdr s.xl })
  | .ssLoad => some (s.upd t { th with reg := s.sessSeq, pc := .ssStore })
  | .ssStore => some ({ s with sessSeq := th.reg + 1 }.upd t { th with pc := .ssChk })
  | .ssChk =>
    some (s.upd t { th with reg := s.sessSeq,
                            pc := if s.sessSeq > 0xffffffff then .ssWrap else .ssHdr s.xl })
  | .ssWrap => some ({ s with sessSeq := 1 }.upd t { th with pc := .ssHdr s.xl })
  | .ssHdr 0 => some (s.upd t { th with reg := s.sessSeq, pc := .send })
  | .ssHdr (k + 1) => some (s.upd t { th with reg := s.sessSeq, pc := .ssHdr k })
  | .send =>
    some ({ s with wire := .tx t s.serial th.reg th.hdr th.cmd :: s.wire,
                   sock := if lostAt s.par.loss s.serial then s.sock else s.sock ++ [Reply.mk s.serial th.hdr th.cmd],
                   serial := s.serial + 1 }.upd t { th with mine := s.serial, rretry := 0, pc := .recv })
  | .recv =>
    match s.q with
    | r :: q' =>
      some ({ s with q := q' }.upd t
        { th with got := some r, pc := if r.rq = th.hdr ∧ r.cmd = th.cmd then .release else .requeue })
    | [] =>
      match s.sock with
      | r :: sk =>
        some ({ s with sock := sk, wire := .rx t r.serial :: s.wire }.upd t
          { th with got := some r, pc := if r.rq = th.hdr ∧ r.cmd = th.cmd then .release else .requeue })
      | [] =>
        -- socket.timeout: `retry += 1`; the next attempt (packing again — or, variant, the stored datagram), or
        -- the budget is used up: the loop ends and RetryError is raised after the block
        some ({ s with wire := .to t th.mine :: s.wire }.upd t
          { th with got := none, retry := th.retry + 1,
                    pc := if th.retry + 1 ≤ s.par.maxRetries then (if s.par.packOnce then .send else .actLoad)
                          else .release })
  | .requeue =>
    -- since the fix of C04 (e9c3a5d) a frame the filter rejects is dropped, not put back into `_q`;
    -- `received_retry += 1`: read again within the budget, else RetryError (raised inside the block)
    some (s.upd t { th with got := none, rretry := th.rretry + 1,
                            pc := if th.rretry + 1 ≤ s.par.maxRetries then .recv else .release })
  | .release =>
    some ({ s with lock := none }.upd t
      (afterCall th (match th.got with
        | some r => .ok th.mine r.serial
        | none => .retryError th.mine)))
  | .kaWait =>
    if s.stopped then some (s.upd t { th with pc := .done })
    else if th.todo = 0 then none
    else some (s.upd t { th with todo := th.todo - 1, pc := .idle })
  | .await =>
    if allDone .worker s.thr then
      some (s.upd t (if hasKa s.thr then { th with pc := .stopSet } else { th with pc := .chkAct, closing := true }))
    else none
  | .stopSet =>
    some ({ s with stopped := true }.upd t
      (if s.join then { th with pc := .joinKa } else { th with pc := .chkAct, closing := true }))
  | .joinKa =>
    if allDone .keepAlive s.thr then some (s.upd t { th with pc := .chkAct, closing := true }) else none
  | .chkAct =>
    some (s.upd t (if s.activated then { th with cmd := PyIpmi.Spec.Threads.closeCmd, pc := .idle }
                   else { th with todo := 0, pc := .done }))
  | .actStore => some ({ s with activated := false }.upd t { th with pc := .done })
  | .done => none

def step (s : Sys) (t : Nat) : Option Sys :=
  match s.thr[t]? with
  | none => none
  | some th => stepThr s t th

/-- Shared accesses as they appear in a logged trace of the real code. -/
inductive Act where
  | ldNS (v : Nat) | stNS (v : Nat) | acq | rel | ldSS (v : Nat) | stSS (v : Nat)
  | tx (serial seq rq cmd : Nat) | rx (serial : Nat) | rxTimeout
  | qget (serial : Nat) | qput (serial : Nat) | tau
  | ldAct (v : Bool) | stAct (v : Bool) | tick | kaExit | await | stopSet | join
deriving DecidableEq, Repr

def labelThr (s : Sys) (th : Thr) : Option Act :=
  match th.pc with
  | .idle => if s.seqLocked then (if s.lock.isNone then some .acq else none) else some (.ldNS s.nextSeq)
  | .lkLoad => some (.ldNS s.nextSeq)
  | .lkStore => some (.stNS ((th.reg + 1) % 64))
  | .lkHdr => some (.ldNS s.nextSeq)
  | .incStore => some (.stNS ((th.reg + 1) % 64))
  | .hdrLoad => some (.ldNS s.nextSeq)
  | .acquire => if s.lock.isNone then some .acq else none
  | .actLoad => some (.ldAct s.activated)
  | .ssLoad => some (.ldSS s.sessSeq)
  | .ssStore => some (.stSS (th.reg + 1))
  | .ssChk => some (.ldSS s.sessSeq)
  | .ssWrap => some (.stSS 1)
  | .ssHdr _ => some (.ldSS s.sessSeq)
  | .send => some (.tx s.serial th.reg th.hdr th.cmd)
  | .recv =>
    match s.q, s.sock with
    | r :: _, _ => some (.qget r.serial)
    | [], r :: _ => some (.rx r.serial)
    | [], [] => some .rxTimeout
  | .requeue => some .tau
  | .release => some .rel
  | .kaWait => if s.stopped then some .kaExit else if th.todo = 0 then none else some .tick
  | .await => if allDone .worker s.thr then some .await else none
  | .stopSet => some .stopSet
  | .joinKa => if allDone .keepAlive s.thr then some .join else none
  | .chkAct => some (.ldAct s.activated)
  | .actStore => some (.stAct false)
  | .done => none

def label (s : Sys) (t : Nat) : Option Act :=
  match s.thr[t]? with
  | none => none
  | some th => labelThr s th

/-- A schedule is a list of thread ids; a choice that is not enabled is a stutter. -/
def run (s : Sys) (sched : List Nat) : Sys :=
  sched.foldl (fun s t => (step s t).getD s) s

/-- Trace validation: does the model accept this logged access sequence (thread id and
observed access per step)?  `ok s'`: every access was the enabled next action of that thread
with exactly the logged values; `error (i, expected)`: step `i` is not a step of the model. -/
def replayFrom (i : Nat) (s : Sys) : List (Nat × Act) → Except (Nat × Option Act) Sys
  | [] => .ok s
  | (t, a) :: rest =>
    match label s t, step s t with
    | some a', some s' => if a' = a then replayFrom (i + 1) s' rest else .error (i, some a')
    | l, _ => .error (i, l)

def replay (s : Sys) (tr : List (Nat × Act)) : Except (Nat × Option Act) Sys := replayFrom 0 s tr

/-- Initial configuration. -/
structure Cfg where
  nextSeq : Nat                  -- Rmcp.next_sequence_number after session set-up
  sessSeq : Nat                  -- initial inbound sequence number handed out by the BMC
  xl : Nat
  threads : List (Nat × Nat)     -- per application thread: (number of calls, command)
  ka : Option Nat := none        -- the keep-alive thread (it comes last): how often its interval may elapse
  closer : Option Nat := none    -- the application thread that ends with `close_session`
  join : Bool := true            -- the stopper of `call_repeatedly` joins the thread (false: as shipped)
  seqLocked : Bool := true       -- sequence number allocated inside the lock block (false: as shipped)
  maxRetries : Nat := 0          -- Rmcp(max_retries=…)
  loss : List Bool := []         -- loss plan: the reply to datagram number k is lost iff loss[k] = true
  packOnce : Bool := false       -- variant: session wrapper built once before the retry loop (true: NOT the source)

def initThr (closer : Option Nat) (i : Nat) (p : Nat × Nat) : Thr :=
  if closer = some i then
    { pc := if p.1 = 0 then .await else .idle, todo := p.1 + 1, cmd := p.2, kind := .closer }
  else
    { pc := if p.1 = 0 then .done else .idle, todo := p.1, cmd := p.2 }

def initKa (n : Nat) : Thr := { pc := .kaWait, todo := n, cmd := 1, kind := .keepAlive }

def init (c : Cfg) : Sys :=
  { nextSeq := c.nextSeq, sessSeq := c.sessSeq, lock := none, q := [], sock := [], serial := 0,
    wire := [], xl := c.xl, join := c.join, seqLocked := c.seqLocked,
    par := { maxRetries := c.maxRetries, loss := c.loss, packOnce := c.packOnce },
    thr := c.threads.mapIdx (initThr c.closer) ++ (match c.ka with | some n => [initKa n] | none => []) }

/-- The wire log in transmission order. -/
def Sys.wireChron (s : Sys) : List WEv := s.wire.reverse

def resOf (t : Nat) : CallRes → PyIpmi.Spec.Threads.Res
  | .ok sent got => ⟨t, sent, some got⟩
  | .retryError sent => ⟨t, sent, none⟩

/-- All finished calls of thread number `t` onwards. -/
def resultsFrom : Nat → List Thr → List PyIpmi.Spec.Threads.Res
  | _, [] => []
  | t, th :: rest => th.results.map (resOf t) ++ resultsFrom (t + 1) rest

def Sys.results (s : Sys) : List PyIpmi.Spec.Threads.Res := resultsFrom 0 s.thr

end PyIpmi.Threads
