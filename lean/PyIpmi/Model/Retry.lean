/-
  Model/Retry.lean — executable models that MIRROR the retry / reservation loops of
  pyipmi/helper.py and pyipmi/__init__.py (C13; the chunk loop is shared with C11):

    * `chunkLoop`    = helper.get_sdr_chunk_helper(send_fn, req, reserve_fn, retry)
    * `chunkRes`     = what `req.reservation_id` holds when that helper is left
    * `clearLoop`    = helper._clear_repository(reserve_fn, clear_fn, ctrl, retry, reservation)
    * `clearHelper`  = helper.clear_repository_helper(reserve_fn, clear_fn, retry, reservation)
    * `sendLoop`     = Ipmi.send_message(req, retry)   (as shipped / intended, see `SendVariant`)

  Every loop is generic in the environment it talks to (state `σ`, callables returning a new
  state and an `Outcome`), so that the same definition runs against an outcome *script* (C13) and
  against the reference SDR device (C11).  All recursion is structural on the retry budget —
  termination for every environment is by construction.  `time.sleep` is not modelled (it is
  substituted by a no-op in the correspondence run).  Constants (budgets, completion codes) are
  parameters filled from `Gen/Loops11.lean`, which is regenerated from the source on every run.
  Core Lean only.
-/
import PyIpmi.Base.Outcome
namespace PyIpmi.Model.Retry
open PyIpmi

/-- Re-type an error outcome (Python: the exception simply propagates). -/
def recast {α β : Type} : Outcome α → Outcome β
  | .ok _ => .pyError "recast-of-ok"
  | .decodingError => .decodingError
  | .encodingError => .encodingError
  | .ccError c => .ccError c
  | .retryError => .retryError
  | .hpmError => .hpmError
  | .timeoutError => .timeoutError
  | .notSupported => .notSupported
  | .pyError n => .pyError n

/-- Constants of the loops, extracted from the source by `harness/translate/loops11.py`. -/
structure Consts where
  ccOk : Nat
  -- get_sdr_chunk_helper
  chunkRetryDefault : Nat
  chunkRenew : Nat            -- completion code answered by re-reserving
  chunkRetry1 : Nat           -- completion codes answered by simply repeating
  chunkRetry2 : Nat
  -- _clear_repository / clear_repository_helper
  clearRetryDefault : Nat
  clearRenew : Nat
  ctrlInitiate : Nat
  ctrlStatus : Nat
  statusInProgress : Nat
  statusCompleted : Nat
  -- Ipmi.send_message
  sendRetryDefault : Nat
  sendBusy : Nat
  deriving Repr, DecidableEq, Inhabited

/-- Comparison operators, for the loop-shape facts read from the source. -/
inductive Cmp where
  | eq | ne | lt | le | gt | ge
  deriving Repr, DecidableEq, Inhabited

/-- Control-flow facts of the three loops that the definitions below hard-wire.  The translator
reads them from the source on every run; `Props.C13.source_shape` states that they are the
expected ones, so an edit of a loop test re-opens the obligation. -/
structure RetryShape where
  chunkDecr : Nat               -- `retry -= 1`
  chunkExhaustCmp : Cmp         -- `if retry == 0: raise RetryError()`
  chunkExhaustAt : Nat
  chunkElseRaises : Bool        -- `else: check_completion_code(rsp.completion_code)`
  clearDecr : Nat
  clearExhaustCmp : Cmp         -- `if retry <= 0: raise RetryError()`
  clearExhaustAt : Nat
  clearElseRaises : Bool        -- `else: check_completion_code(e.cc)`
  clearChainsReservation : Bool -- reserve only `if reservation is None`; both phases are
                                -- `reservation = _clear_repository(…, retry, reservation)`
  sendDecr : Nat
  sendLoopCmp : Cmp             -- `while retry > 0:`
  sendLoopAt : Nat
  sendElseRaisesRetryError : Bool
  deriving Repr, DecidableEq, Inhabited

def RetryShape.expected : RetryShape :=
  ⟨1, .eq, 0, true, 1, .le, 0, true, true, 1, .gt, 0, true⟩

/-! ### get_sdr_chunk_helper

```
while True:
    retry -= 1
    if retry == 0: raise RetryError()
    rsp = send_fn(req)
    if   cc == CC_OK: break
    elif cc == CC_RES_CANCELED: sleep; req.reservation_id = reserve_fn(); continue
    elif cc == CC_TIMEOUT: sleep; continue
    elif cc == CC_RESP_COULD_NOT_BE_PRV: sleep; continue
    else: check_completion_code(cc)          # raises CompletionCodeError(cc)
return rsp
```
`send st res` is `send_fn(req)` with `req.reservation_id = res`; it yields the completion code
and the rest of the response.  The budget argument is Python's `retry` *before* the decrement;
for `retry = 0` the Python counter goes negative and never equals 0 again (an unbounded loop):
that value is outside the model (`unmodelled`), budgets are ≥ 1 everywhere. -/
def chunkLoop {σ ρ : Type} (K : Consts) (send : σ → Nat → σ × Outcome (Nat × ρ))
    (reserve : σ → σ × Outcome Nat) : Nat → σ → Nat → σ × Outcome ρ
  | 0, st, _ => (st, .pyError "unmodelled:retry<1")
  | r + 1, st, res =>
    if r = 0 then (st, .retryError) else
    match send st res with
    | (st1, .ok (cc, p)) =>
      if cc = K.ccOk then (st1, .ok p)
      else if cc = K.chunkRenew then
        match reserve st1 with
        | (st2, .ok res') => chunkLoop K send reserve r st2 res'
        | (st2, e) => (st2, recast e)
      else if cc = K.chunkRetry1 ∨ cc = K.chunkRetry2 then chunkLoop K send reserve r st1 res
      else (st1, .ccError cc)
    | (st1, e) => (st1, recast e)

/-- `req.reservation_id` when get_sdr_chunk_helper is left - by `return rsp` or by an exception:
the renewing branch writes the id `reserve_fn()` returned into the request object, the caller
(`_get_sdr_chunk` / `_get_device_sdr_chunk`) still holds that object.  Same recursion as
`chunkLoop`; whether the caller looks at the value is a matter of `SdrXfer.Variant.staleRes`. -/
def chunkRes {σ ρ : Type} (K : Consts) (send : σ → Nat → σ × Outcome (Nat × ρ))
    (reserve : σ → σ × Outcome Nat) : Nat → σ → Nat → Nat
  | 0, _, res => res
  | r + 1, st, res =>
    if r = 0 then res else
    match send st res with
    | (st1, .ok (cc, _)) =>
      if cc = K.ccOk then res
      else if cc = K.chunkRenew then
        match reserve st1 with
        | (st2, .ok res') => chunkRes K send reserve r st2 res'
        | (_, _) => res
      else if cc = K.chunkRetry1 ∨ cc = K.chunkRetry2 then chunkRes K send reserve r st1 res
      else res
    | (_, _) => res

/-! ### _clear_repository

```
while True:
    retry -= 1
    if retry <= 0: raise RetryError()
    try: in_progress = clear_fn(ctrl, reservation)
    except CompletionCodeError as e:
        if e.cc == CC_RES_CANCELED: sleep; reservation = reserve_fn(); continue
        else: check_completion_code(e.cc)
    if in_progress == REPOSITORY_ERASURE_IN_PROGRESS: sleep; continue
    break
return reservation
```
(`CompletionCodeError(0)` cannot come from a device and is outside the model.) -/
def clearLoop {σ : Type} (K : Consts) (clear : σ → Nat → Nat → σ × Outcome Nat)
    (reserve : σ → σ × Outcome Nat) (ctrl : Nat) : Nat → σ → Nat → σ × Outcome Nat
  | 0, st, _ => (st, .retryError)
  | r + 1, st, res =>
    if r = 0 then (st, .retryError) else
    match clear st ctrl res with
    | (st1, .ok status) =>
      if status = K.statusInProgress then clearLoop K clear reserve ctrl r st1 res
      else (st1, .ok res)
    | (st1, .ccError c) =>
      if c = K.clearRenew then
        match reserve st1 with
        | (st2, .ok res') => clearLoop K clear reserve ctrl r st2 res'
        | (st2, e) => (st2, recast e)
      else if c = K.ccOk then (st1, .pyError "unmodelled:CompletionCodeError(0)")
      else (st1, .ccError c)
    | (st1, e) => (st1, recast e)

/-- clear_repository_helper(reserve_fn, clear_fn, retry, reservation=None): reserve unless given,
initiate (own budget), then poll (own budget, reservation as left by the first phase). -/
def clearHelper {σ : Type} (K : Consts) (clear : σ → Nat → Nat → σ × Outcome Nat)
    (reserve : σ → σ × Outcome Nat) (retry : Nat) (reservation : Option Nat) (st : σ) :
    σ × Outcome Unit :=
  let start : σ × Outcome Nat :=
    match reservation with
    | some r => (st, .ok r)
    | none => reserve st
  match start with
  | (st0, .ok r0) =>
    match clearLoop K clear reserve K.ctrlInitiate retry st0 r0 with
    | (st1, .ok r1) =>
      match clearLoop K clear reserve K.ctrlStatus retry st1 r1 with
      | (st2, .ok _) => (st2, .ok ())
      | (st2, e) => (st2, recast e)
    | (st1, e) => (st1, recast e)
  | (st0, e) => (st0, recast e)

/-! ### Ipmi.send_message

```
while retry > 0:
    retry -= 1
    try: rsp = self.interface.send_and_receive(req); break
    except CompletionCodeError as e:
        if e.cc == CC_NODE_BUSY: continue
        # as shipped: nothing here — control falls out of the handler and the loop goes on
        # intended:   else: raise
else: raise RetryError()
return rsp
```
-/
structure SendVariant where
  /-- the `except` branch falls through for a non-busy completion code (as shipped) -/
  retryAnyCode : Bool
  deriving Repr, DecidableEq, Inhabited

def SendVariant.asShipped : SendVariant := ⟨true⟩
def SendVariant.intended : SendVariant := ⟨false⟩

def sendLoop {σ ρ : Type} (K : Consts) (v : SendVariant) (xfer : σ → σ × Outcome ρ) :
    Nat → σ → σ × Outcome ρ
  | 0, st => (st, .retryError)
  | r + 1, st =>
    match xfer st with
    | (st1, .ok rsp) => (st1, .ok rsp)
    | (st1, .ccError c) =>
      if c = K.sendBusy then sendLoop K v xfer r st1
      else if v.retryAnyCode then sendLoop K v xfer r st1
      else (st1, .ccError c)
    | (st1, e) => (st1, e)

/-! ### scripted environment (C13): the device's behaviour is an outcome sequence -/

/-- What a device can answer to one request. -/
inductive Letter where
  | completed | inProgress | resCancelled | timeout | respUnavailable | nodeBusy
  | other (c : Nat)
  deriving Repr, DecidableEq, Inhabited

/-- Completion code carried by a letter (IPMI table 5-2). -/
def Letter.code : Letter → Nat
  | .completed => 0x00
  | .inProgress => 0x00
  | .resCancelled => 0xC5
  | .timeout => 0xC3
  | .respUnavailable => 0xCE
  | .nodeBusy => 0xC0
  | .other c => c

/-- A finite prefix followed by one letter repeated for ever. -/
structure Script where
  pre : List Letter
  tail : Letter
  deriving Repr, DecidableEq, Inhabited

def Script.next (s : Script) : Letter × Script :=
  match s.pre with
  | [] => (s.tail, s)
  | l :: rest => (l, { s with pre := rest })

/-- One call made by a helper to a callable it was given, with the outcome it received. -/
inductive Ev where
  | reserve (granted : Nat)
  | clear (ctrl res : Nat) (l : Letter)
  | chunk (res : Nat) (l : Letter)
  | xfer (l : Letter)
  | reserveFailed (code : Nat)     -- `reserve_fn()` raised CompletionCodeError(code) (only `EnvR`)
  deriving Repr, DecidableEq, Inhabited

structure Env where
  script : Script
  lastRes : Nat           -- reservation ids are granted consecutively: lastRes + 1, …
  trace : List Ev         -- oldest first
  deriving Repr, Inhabited

/-- `reserve_fn()`: always succeeds, grants a fresh id (so staleness is visible in the trace). -/
def Env.reserve (e : Env) : Env × Outcome Nat :=
  let id := e.lastRes + 1
  ({ e with lastRes := id, trace := e.trace ++ [.reserve id] }, .ok id)

/-- erase status a letter stands for, if it is a normal completion -/
def Letter.status? (K : Consts) : Letter → Option Nat
  | .completed => some K.statusCompleted
  | .inProgress => some K.statusInProgress
  | _ => none

/-- `clear_fn(ctrl, reservation)`: a normal completion returns the erase status (1 completed /
0 in progress), anything else raises CompletionCodeError(code). -/
def Env.clear (K : Consts) (e : Env) (ctrl res : Nat) : Env × Outcome Nat :=
  let (l, s) := e.script.next
  let e' := { e with script := s, trace := e.trace ++ [.clear ctrl res l] }
  match l.status? K with
  | some st => (e', .ok st)
  | none => (e', .ccError l.code)

/-- `send_fn(req)` of the chunk helper: returns a response carrying the letter's completion code. -/
def Env.chunk (e : Env) (res : Nat) : Env × Outcome (Nat × Unit) :=
  let (l, s) := e.script.next
  ({ e with script := s, trace := e.trace ++ [.chunk res l] }, .ok (l.code, ()))

/-- `interface.send_and_receive(req)`: code 0 returns a response, anything else raises
CompletionCodeError(code) (that is how the IPMB / RMCP interfaces report a failed bridge hop). -/
def Env.xfer (e : Env) : Env × Outcome Unit :=
  let (l, s) := e.script.next
  let e' := { e with script := s, trace := e.trace ++ [.xfer l] }
  if l.code = 0 then (e', .ok ()) else (e', .ccError l.code)

/-! ### the same environment with a `reserve_fn` that can fail

`rplan` lists the outcomes of the reserve calls in the order they are made (the helper's own first
Reserve, then the renewals); a letter with completion code 0 - and every call after the list is
used up - grants the next id, any other letter makes `reserve_fn()` raise CompletionCodeError(code)
(that is what `get_sel_reservation_id` / `get_sdr_repository_reservation_id` do with a refused
Reserve command: node busy, timeout, any other error). -/
structure EnvR where
  env : Env
  rplan : List Letter
  deriving Repr, Inhabited

def EnvR.reserve (e : EnvR) : EnvR × Outcome Nat :=
  match e.rplan with
  | [] => (⟨e.env.reserve.1, []⟩, e.env.reserve.2)
  | l :: rest =>
    if l.code = 0 then (⟨e.env.reserve.1, rest⟩, e.env.reserve.2)
    else (⟨{ e.env with trace := e.env.trace ++ [.reserveFailed l.code] }, rest⟩, .ccError l.code)

def EnvR.chunk (e : EnvR) (res : Nat) : EnvR × Outcome (Nat × Unit) :=
  (⟨(e.env.chunk res).1, e.rplan⟩, (e.env.chunk res).2)

def EnvR.clear (K : Consts) (e : EnvR) (ctrl res : Nat) : EnvR × Outcome Nat :=
  (⟨(Env.clear K e.env ctrl res).1, e.rplan⟩, (Env.clear K e.env ctrl res).2)

def runChunkR (K : Consts) (retry res0 : Nat) (s : Script) (rplan : List Letter) : EnvR × Outcome Unit :=
  chunkLoop K EnvR.chunk EnvR.reserve retry ⟨⟨s, res0, []⟩, rplan⟩ res0

def runClearR (K : Consts) (retry : Nat) (reservation : Option Nat) (s : Script) (rplan : List Letter) :
    EnvR × Outcome Unit :=
  clearHelper K (EnvR.clear K) EnvR.reserve retry reservation ⟨⟨s, reservation.getD 0, []⟩, rplan⟩

def runChunk (K : Consts) (retry res0 : Nat) (s : Script) : Env × Outcome Unit :=
  chunkLoop K Env.chunk Env.reserve retry ⟨s, res0, []⟩ res0

def runClear (K : Consts) (retry : Nat) (reservation : Option Nat) (s : Script) : Env × Outcome Unit :=
  clearHelper K (Env.clear K) Env.reserve retry reservation ⟨s, reservation.getD 0, []⟩

def runClearLoop (K : Consts) (ctrl retry res0 : Nat) (s : Script) : Env × Outcome Nat :=
  clearLoop K (Env.clear K) Env.reserve ctrl retry ⟨s, res0, []⟩ res0

def runSend (K : Consts) (v : SendVariant) (retry : Nat) (s : Script) : Env × Outcome Unit :=
  sendLoop K v Env.xfer retry ⟨s, 0, []⟩

end PyIpmi.Model.Retry
