/-
  Model/RetryNoAnswer.lean — the scripted environment of Model/Retry.lean over the outcome alphabet
  with BOTH forms of "timeout" (C13; seeded change C13g):

    * `LetterX.ans l`    the target answered: `l` is a letter of `Retry.Letter` (completed, in
                         progress, reservation cancelled, timeout = completion code C3h, response
                         unavailable, node busy, other code);
    * `LetterX.noAnswer` the target did not answer at all: the callable the helper was given
                         (`send_fn`, `clear_fn`, `reserve_fn`, `interface.send_and_receive`) RAISES
                         `pyipmi.errors.IpmiTimeoutError` - that is how the rmcp / ipmb / aardvark
                         interfaces report a silent target.

  The loops themselves (`chunkLoop`, `clearLoop`, `clearHelper`, `sendLoop`) are the ones of
  Model/Retry.lean, unchanged: they are generic in the environment, and an outcome that is neither a
  response nor a CompletionCodeError already leaves them through their `recast` branch (Python: the
  exception is not caught by `except CompletionCodeError` and propagates).  Only the environment is
  new.  Core Lean only.
-/
import PyIpmi.Model.Retry
namespace PyIpmi.Model.RetryNA
open PyIpmi PyIpmi.Model.Retry

inductive LetterX where
  | ans (l : Letter)
  | noAnswer
  deriving Repr, DecidableEq, Inhabited

/-- A finite prefix followed by one letter repeated for ever. -/
structure ScriptX where
  pre : List LetterX
  tail : LetterX
  deriving Repr, DecidableEq, Inhabited

def ScriptX.next (s : ScriptX) : LetterX × ScriptX :=
  match s.pre with
  | [] => (s.tail, s)
  | l :: rest => (l, { s with pre := rest })

/-- One call made by a helper to a callable it was given, with the outcome it received. -/
inductive EvX where
  | reserve (granted : Nat)
  | clear (ctrl res : Nat) (l : LetterX)
  | chunk (res : Nat) (l : LetterX)
  | xfer (l : LetterX)
  | reserveFailed (l : LetterX)       -- `reserve_fn()` raised (CompletionCodeError / IpmiTimeoutError)
  deriving Repr, DecidableEq, Inhabited

structure EnvX where
  script : ScriptX
  rplan : List LetterX    -- outcomes of the reserve calls in order; afterwards every one is granted
  lastRes : Nat
  trace : List EvX        -- oldest first
  deriving Repr, Inhabited

def EnvX.granted (e : EnvX) (rest : List LetterX) : EnvX :=
  { e with rplan := rest, lastRes := e.lastRes + 1, trace := e.trace ++ [.reserve (e.lastRes + 1)] }

def EnvX.grant (e : EnvX) (rest : List LetterX) : EnvX × Outcome Nat :=
  (e.granted rest, .ok (e.lastRes + 1))

def EnvX.refused (e : EnvX) (rest : List LetterX) (l : LetterX) : EnvX :=
  { e with rplan := rest, trace := e.trace ++ [.reserveFailed l] }

def EnvX.refuse (e : EnvX) (rest : List LetterX) (l : LetterX) (o : Outcome Nat) : EnvX × Outcome Nat :=
  (e.refused rest l, o)

def EnvX.reserve (e : EnvX) : EnvX × Outcome Nat :=
  match e.rplan with
  | [] => e.grant []
  | .noAnswer :: rest => e.refuse rest .noAnswer .timeoutError
  | .ans a :: rest => if a.code = 0 then e.grant rest else e.refuse rest (.ans a) (.ccError a.code)

/-- the environment after the next letter was consumed by the call recorded as `ev` -/
def EnvX.adv (e : EnvX) (ev : EvX) : EnvX :=
  { e with script := e.script.next.2, trace := e.trace ++ [ev] }

def EnvX.peek (e : EnvX) : LetterX := e.script.next.1

/-- `send_fn(req)` of the chunk helper -/
def EnvX.chunk (e : EnvX) (res : Nat) : EnvX × Outcome (Nat × Unit) :=
  (e.adv (.chunk res e.peek),
   match e.peek with
   | .ans a => .ok (a.code, ())
   | .noAnswer => .timeoutError)

/-- `clear_fn(ctrl, reservation)` -/
def EnvX.clear (K : Consts) (e : EnvX) (ctrl res : Nat) : EnvX × Outcome Nat :=
  (e.adv (.clear ctrl res e.peek),
   match e.peek with
   | .ans a =>
     (match a.status? K with
      | some st => .ok st
      | none => .ccError a.code)
   | .noAnswer => .timeoutError)

/-- `interface.send_and_receive(req)` -/
def EnvX.xfer (e : EnvX) : EnvX × Outcome Unit :=
  (e.adv (.xfer e.peek),
   match e.peek with
   | .ans a => if a.code = 0 then .ok () else .ccError a.code
   | .noAnswer => .timeoutError)

def runChunkX (K : Consts) (retry res0 : Nat) (s : ScriptX) (rplan : List LetterX) : EnvX × Outcome Unit :=
  chunkLoop K EnvX.chunk EnvX.reserve retry ⟨s, rplan, res0, []⟩ res0

def runClearX (K : Consts) (retry : Nat) (reservation : Option Nat) (s : ScriptX) (rplan : List LetterX) :
    EnvX × Outcome Unit :=
  clearHelper K (EnvX.clear K) EnvX.reserve retry reservation ⟨s, rplan, reservation.getD 0, []⟩

def runSendX (K : Consts) (v : SendVariant) (retry : Nat) (s : ScriptX) : EnvX × Outcome Unit :=
  sendLoop K v EnvX.xfer retry ⟨s, [], 0, []⟩

end PyIpmi.Model.RetryNA
