/-
  Executable model of `SdrFullSensorRecord.convert_sensor_raw_to_value`,
  `convert_sensor_value_to_raw`, `lin` and `_convert_complement` (pyipmi/sdr.py), mirroring the
  Python: same bit expressions, same order of operations, same exception kinds.  Arithmetic is
  exact (`Rat`) where the Python uses IEEE doubles; `round()` is modelled as round-half-even
  on the exact value.  Floating-point rounding is NOT modelled (see Props/C17).

  `Variant` carries the places where the pinned source deviates from the property
  (DESIGN §2.4): the inverse formula, the rule choosing the negative encoding, and the cube-root
  linearisation (`math.pow(x, 1.0/3)` raises ValueError for every negative argument).
  `Variant.asShipped` is the pinned code, `Variant.intended` the repaired code; the
  correspondence run probes the real code to decide which one it must agree with.  For the
  linearisation the variant shows in the FUNCTION TAG the translator derives from the shape of
  the source (`Variant.cubertTag`: 11 = `math.pow(x, 1.0/3)`, 12 =
  `math.copysign(math.pow(abs(x), 1.0/3), x)`), so the generated table itself says which one the
  working tree contains.
  Core only.
-/
import PyIpmi.Base.Outcome
import PyIpmi.Spec.Sensor
import PyIpmi.Gen.SdrTables
namespace PyIpmi.Sensor
open PyIpmi

/-- The attributes of a full sensor record the conversion reads. -/
structure Rec where
  fmt : Nat      -- analog_data_format
  lin : Nat      -- linearization
  m : Int
  b : Int
  k1 : Int
  k2 : Int
  deriving Repr, DecidableEq, Inhabited

/-- `_convert_complement(value, size)`:
`if value & (1 << (size - 1)): value = -(1 << size) + value`. -/
def convertComplement (value size : Nat) : Int :=
  if value &&& (1 <<< (size - 1)) ≠ 0 then -((1 <<< size : Nat) : Int) + (value : Int) else (value : Int)

/-- The sign handling at the top of `convert_sensor_raw_to_value`:
fmt 1: `if raw & 0x80: raw = -((raw & 0x7f) ^ 0x7f)`;
fmt 2: `if raw & 0x80: raw = -((raw & 0x7f) ^ 0x7f) - 1`; any other fmt: unchanged. -/
def signedRaw (fmt raw : Nat) : Int :=
  if fmt = 1 then
    if raw &&& 0x80 ≠ 0 then -(((raw &&& 0x7f) ^^^ 0x7f : Nat) : Int) else (raw : Int)
  else if fmt = 2 then
    if raw &&& 0x80 ≠ 0 then -(((raw &&& 0x7f) ^^^ 0x7f : Nat) : Int) - 1 else (raw : Int)
  else (raw : Int)

/-- Python `10**k` for an `int` k (an `int` for k ≥ 0, the float `10.0**k` otherwise), exact. -/
def pow10 (k : Int) : Rat :=
  if k < 0 then ((10 : Rat) ^ k.natAbs)⁻¹ else (10 : Rat) ^ k.toNat

/-- `{…}[self.linearization & 0x7f]` with a key ↦ function-tag table: the tag, `none` = KeyError. -/
def linTagIn (tbl : List (Nat × Nat)) (lin : Nat) : Option Nat :=
  List.lookup (lin &&& Gen.SdrTables.linMask) tbl

/-- … with the table generated from the working tree. -/
def linTag (lin : Nat) : Option Nat := linTagIn Gen.SdrTables.lin lin

/-- The function behind a tag (tags are defined by harness/translate/sdr.py from the shape of
each lambda): 0 `x`, 7 `1.0 / x`, 8 `math.pow(x, 2)`, 9 `math.pow(x, 3)`; the rest are the
`math` functions, parameters here.  Two shapes stand for the cube root:
* 11 `math.pow(x, 1.0/3)` — the host's `pow` refuses a negative base with a fractional exponent
  (`ValueError: math domain error`); for `x ≥ 0` it is the cube root;
* 12 `math.copysign(math.pow(abs(x), 1.0/3), x)` — the cube root of `|x|` with the sign of `x`. -/
def applyTag (F : Spec.Sensor.Fns) (tag : Nat) (x : Rat) : Outcome Rat :=
  match tag with
  | 0 => .ok x
  | 1 => F.ln x
  | 2 => F.log10 x
  | 3 => F.log2 x
  | 4 => F.exp x
  | 5 => F.exp10 x
  | 6 => F.exp2 x
  | 7 => if x = 0 then .pyError "ZeroDivisionError" else .ok (1 / x)
  | 8 => .ok (x * x)
  | 9 => .ok (x * x * x)
  | 10 => F.sqrt x
  | 11 => if x < 0 then .pyError "ValueError" else F.cubert x
  | 12 => if x < 0 then Spec.Sensor.negO (F.cubert (-x)) else F.cubert x
  | _ => .pyError "TieBroken"

/-- The argument handed to `self.lin(…)`: `(self.m * raw + (self.b * 10**self.k1)) * 10**self.k2`. -/
def arg (r : Rec) (raw : Nat) : Rat :=
  ((r.m : Rat) * (signedRaw r.fmt raw : Rat) + ((r.b : Rat) * pow10 r.k1)) * pow10 r.k2

/-- `convert_sensor_raw_to_value` with a given key ↦ function-tag table of `lin`. -/
def convertIn (tbl : List (Nat × Nat)) (F : Spec.Sensor.Fns) (r : Rec) : Option Nat → Option (Outcome Rat)
  | none => none
  | some raw =>
    some (match linTagIn tbl r.lin with
      | none => .decodingError
      | some t => applyTag F t (arg r raw))

/-- `convert_sensor_raw_to_value` of the working tree (generated table). -/
def convert (F : Spec.Sensor.Fns) (r : Rec) : Option Nat → Option (Outcome Rat) :=
  convertIn Gen.SdrTables.lin F r

/-! ### inverse -/

/-- Which of the deviations of the pinned source are present. -/
structure Variant where
  /-- `value*10^-k2 / m - b*10^k1` instead of `(value*10^-k2 - b*10^k1) / m`. -/
  formulaShipped : Bool
  /-- negative encoding chosen by `value < 0` instead of `raw < 0`. -/
  signShipped : Bool
  /-- cube root written `math.pow(x, 1.0/3)`: ValueError for every `x < 0`
  (intended: the real cube root, `math.copysign(math.pow(abs(x), 1.0/3), x)`). -/
  cubertPowShipped : Bool
  deriving Repr, DecidableEq, Inhabited

def Variant.asShipped : Variant := ⟨true, true, true⟩
def Variant.intended : Variant := ⟨false, false, false⟩

/-- The function tag (= shape of the source) of the cube-root entry of `lin`. -/
def Variant.cubertTag (v : Variant) : Nat := if v.cubertPowShipped then 11 else 12

/-- The function tag that stands for each linearisation of table 43-1 in the source of a variant:
the table code, except for the cube root. -/
def Variant.tagOf (v : Variant) : Spec.Sensor.Lin → Nat
  | .cubert => v.cubertTag
  | l => l.code

/-- The `lin` dictionary of a variant: table code ↦ function tag, in key order. -/
def Variant.linTable (v : Variant) : List (Nat × Nat) :=
  [(0, 0), (1, 1), (2, 2), (3, 3), (4, 4), (5, 5), (6, 6), (7, 7), (8, 8), (9, 9), (10, 10),
   (11, v.cubertTag)]

/-- Python 3 `round(x)` for a float: nearest integer, ties to even (on the exact value). -/
def roundHalfEven (q : Rat) : Int :=
  let f := q.floor
  let d := q - (f : Rat)
  if d < 1 / 2 then f
  else if 1 / 2 < d then f + 1
  else if f % 2 = 0 then f else f + 1

/-- Python `z ^ 0x7f` on an unbounded int (two's-complement semantics for negatives:
`~n ^ m = ~(n ^ m)`). -/
def pyXor7f : Int → Int
  | .ofNat n => .ofNat (n ^^^ 0x7f)
  | .negSucc n => .negSucc (n ^^^ 0x7f)

/-- Python `z | 0x80` on an unbounded int (`~n | m = ~(n & ~m)`). -/
def pyOr80 : Int → Int
  | .ofNat n => .ofNat (n ||| 0x80)
  | .negSucc n => .negSucc (n - (n &&& 0x80))

/-- The raw value before rounding. -/
def rawQ (v : Variant) (r : Rec) (value : Rat) : Rat :=
  if v.formulaShipped then (value * pow10 (-1 * r.k2)) / (r.m : Rat) - (r.b : Rat) * pow10 r.k1
  else (value * pow10 (-1 * r.k2) - (r.b : Rat) * pow10 r.k1) / (r.m : Rat)

/-- The encoding of the rounded raw value according to the analog data format. -/
def encodeSigned (fmt : Nat) (neg : Bool) (raw : Int) : Int :=
  if fmt = 1 then (if neg then pyOr80 (pyXor7f (-raw)) else raw)
  else if fmt = 2 then (if neg then pyOr80 (pyXor7f (-(raw + 1))) else raw)
  else raw

/-- `convert_sensor_value_to_raw`. -/
def valueToRaw (v : Variant) (r : Rec) (value : Rat) : Outcome Int :=
  if r.lin &&& 0x7f ≠ 0 then .pyError "NotImplementedError"
  else if r.m = 0 then .pyError "ZeroDivisionError"
  else
    let raw := roundHalfEven (rawQ v r value)
    let neg : Bool := if v.signShipped then decide (value < 0) else decide (raw < 0)
    let raw := encodeSigned r.fmt neg raw
    if raw > 0xff then .pyError "ValueError" else .ok raw

/-! ### histories on ONE record object

The record object of the Python is mutable: its attributes are assigned by `_from_data` (decoding) and may be
reassigned at any time afterwards; the conversions are methods of that object.  The model of the object IS the
tuple of the six attributes the conversions read (`Rec`): it has no other conversion-relevant state, in
particular nothing computed at decode time and kept.  That modelling decision is tied by the correspondence run
(record histories of harness/props/c17.py, driver op `hist`): construction path x reassignment of every
attribute x re-decoding x interleaved conversions on one object of the real code. -/

/-- The attributes the conversions read. -/
inductive Field where
  | fmt | lin | m | b | k1 | k2
  deriving Repr, DecidableEq

/-- `record.<field> = v` (analog_data_format / linearization are naturals in the model). -/
def Rec.set (r : Rec) : Field → Int → Rec
  | .fmt, v => { r with fmt := v.toNat }
  | .lin, v => { r with lin := v.toNat }
  | .m, v => { r with m := v }
  | .b, v => { r with b := v }
  | .k1, v => { r with k1 := v }
  | .k2, v => { r with k2 := v }

/-- One operation on the record object. -/
inductive Step where
  /-- `record.<field> = v` -/
  | set (f : Field) (v : Int)
  /-- assignment of an attribute the conversions do not read (tolerance, accuracy, thresholds, …) -/
  | other
  /-- `record._from_data(bytes)`: every attribute is replaced by what the bytes say -/
  | redecode (r : Rec)
  /-- `record.convert_sensor_raw_to_value(raw)` -/
  | forward (raw : Option Nat)
  /-- `record.convert_sensor_value_to_raw(value)` -/
  | inverse (value : Rat)
  deriving Repr

/-- What a conversion step returns. -/
inductive Out where
  | value (o : Option (Outcome Rat))
  | raw (o : Outcome Int)

/-- The attributes after a sequence of operations. -/
def stateAfter : Rec → List Step → Rec
  | r, [] => r
  | r, .set f v :: t => stateAfter (r.set f v) t
  | r, .other :: t => stateAfter r t
  | _, .redecode r' :: t => stateAfter r' t
  | r, .forward _ :: t => stateAfter r t
  | r, .inverse _ :: t => stateAfter r t

/-- The results of the conversion steps of a history, in order. -/
def runHistory (F : Spec.Sensor.Fns) (v : Variant) : Rec → List Step → List Out
  | _, [] => []
  | r, .set f x :: t => runHistory F v (r.set f x) t
  | r, .other :: t => runHistory F v r t
  | _, .redecode r' :: t => runHistory F v r' t
  | r, .forward raw :: t => .value (convert F r raw) :: runHistory F v r t
  | r, .inverse y :: t => .raw (valueToRaw v r y) :: runHistory F v r t

end PyIpmi.Sensor
