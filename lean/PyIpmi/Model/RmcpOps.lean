/-
  Model/RmcpOps.lean — the operations of ONE `Rmcp` interface object that put requests on the wire (C04:
  "for all sequences of requests on one interface object").

  `send_and_receive` / `send_and_receive_raw` make one request.  `establish_session` and `close_session` make
  requests too — Get Channel Authentication Capabilities, Get Session Challenge, Activate Session, Set Session
  Privilege Level, Close Session go through the very same `_send_and_receive` — and they are the only other
  operations that do.  What one request hands to the next is the interface state of Model/RmcpLoop.lean
  (`IfState`: `next_sequence_number`, `_q`, what is unread in the socket); the session operations reach it
  THROUGH the requests they make and in no other way:

    * establish_session: the keep-alive stopper, assignments to the Session object and to `_session`, host /
      port — none of them part of `IfState`; then the presence ping, which sends an ASF datagram and reads ONE
      datagram from the socket (`ping`: an arbitrary function of the socket content — it may take a datagram
      away, its pong may stay unread; it fails or succeeds); then the handshake requests one after the other,
      the next one only if the one before returned data the caller accepts (`go`: completion code, offered
      authentication types …), i.e. a PREFIX of them;
    * close_session: nothing (no session) or one request.

  That this is all they do to the state is read from the source on every run: Gen/IfaceState04.lean lists every
  function of the module that stores `next_sequence_number` / `_q` or calls `_inc_sequence_number`, and
  `Props.C04.source_state_writers` demands exactly `__init__` / `_inc_sequence_number` / `_send_and_receive`.
  The correspondence run observes every request inside the real establish_session / close_session and compares
  the state a request starts from with the state the request before it left.

  Core Lean only.
-/
import PyIpmi.Model.RmcpLoop
namespace PyIpmi.Loops

/-- what the presence ping does: new content of the socket, and whether a pong was read -/
abbrev Ping := List RxEvent → List RxEvent × Bool

inductive Op where
  /-- `send_and_receive(_raw)`: one request, `evs` arrive from the moment it is sent -/
  | request (req : Req) (evs : List RxEvent)
  /-- `establish_session`: ping, then the handshake requests in order, request `k + 1` only if request `k`
  returned data `d` with `go k d` -/
  | establish (ping : Ping) (hs : List (Req × List RxEvent)) (go : Nat → Frame → Bool)
  /-- `close_session`: no request (no active session) or Close Session -/
  | close (cs : Option (Req × List RxEvent))

/-- the requests of a handshake from number `k` on, until one fails or returns what the caller does not accept -/
def runChain (cfg : Cfg) (go : Nat → Frame → Bool) : IfState → Nat → List (Req × List RxEvent) → IfState × List Step
  | st, _, [] => (st, [])
  | st, k, (req, evs) :: more =>
    let s := rmcpRequest cfg st req evs
    match s.out with
    | .ok d => if go k d then ((runChain cfg go s.st (k + 1) more).1, s :: (runChain cfg go s.st (k + 1) more).2)
               else (s.st, [s])
    | _ => (s.st, [s])

/-- one operation: the state it leaves and the requests it made, in order -/
def runOp (cfg : Cfg) (st : IfState) : Op → IfState × List Step
  | .request req evs => ((rmcpRequest cfg st req evs).st, [rmcpRequest cfg st req evs])
  | .establish ping hs go =>
    if (ping st.sock).2 then runChain cfg go { st with sock := (ping st.sock).1 } 0 hs
    else ({ st with sock := (ping st.sock).1 }, [])
  | .close none => (st, [])
  | .close (some (req, evs)) => ((rmcpRequest cfg st req evs).st, [rmcpRequest cfg st req evs])

/-- a history of operations on one interface object -/
def runOps (cfg : Cfg) : IfState → List Op → IfState × List Step
  | st, [] => (st, [])
  | st, op :: more =>
    ((runOps cfg (runOp cfg st op).1 more).1, (runOp cfg st op).2 ++ (runOps cfg (runOp cfg st op).1 more).2)

/-- `Trace cfg st steps st'`: `steps` is a run of requests — each `rmcpRequest` for some request and events —
that starts with the counter and `_q` of `st` and ends in `st'`; between two of them (and before the first)
ONLY the socket content may have changed (a ping). -/
inductive Trace (cfg : Cfg) : IfState → List Step → IfState → Prop
  | nil (st : IfState) : Trace cfg st [] st
  | sock (st : IfState) (sock : List RxEvent) {steps : List Step} {st' : IfState} :
      Trace cfg { st with sock := sock } steps st' → Trace cfg st steps st'
  | cons (st : IfState) (req : Req) (evs : List RxEvent) {steps : List Step} {st' : IfState} :
      Trace cfg (rmcpRequest cfg st req evs).st steps st' →
      Trace cfg st (rmcpRequest cfg st req evs :: steps) st'

end PyIpmi.Loops
