/-
  C06 — the FORM in which the user name and the password are configured on a `Session`
  (pyipmi/session.py: `_auth_username = None`, `_auth_password = None` until `set_auth_type_user(u, p)`
  stores the two objects as they are), and the two places of pyipmi/interfaces/rmcp.py that turn the
  objects into the 16-byte fields of the protocol:

    Rmcp._get_session_challenge   if session._auth_username:  req.user_name = <name padded to 16 with NUL>
                                  (else the field keeps its default, sixteen NULs: the null user)
    IpmiMsg._padd_password        password = session._auth_password;  str → encode;  ljust(16, b'\x00')
                                  (the MD5 / straight-password key of every datagram from Activate Session on)

  IPMI v1.5 §6.11.1 / Table 18-13,14: the user name is 16 bytes, "all 0s for null user name (User 1)"; a
  password is 16 bytes, zero padded — the null password is sixteen zero bytes.  `None` (nothing configured: what
  `pyipmi.create_connection()` hands out) therefore stands for the ZERO-LENGTH user name / password, and what goes
  on the wire depends on the BYTES a credential stands for only.  The byte-level model (`Model/Session.lean`:
  `userField`, `RmcpWire.padPw`) starts from those bytes; this module is the step before it.

  Variant flags (probed on the real code by harness/props/c06.py `_probe_cred_forms`):
  * `nullPw`    — intended: `password = self.session._auth_password or b''`; as shipped `None.ljust` raises
                  AttributeError while Activate Session is packed (whenever the chosen type is not `none`).
  * `bytesUser` — intended: the name is encoded when it is a `str` and padded with `b'\x00'`; as shipped
                  `name.ljust(16, '\x00')` (a str fill character) raises TypeError for a `bytes` name before
                  Get Session Challenge is sent.
-/
import PyIpmi.Model.Session
namespace PyIpmi.Session.Cred
open PyIpmi PyIpmi.RmcpWire PyIpmi.Session

/-- a credential as configured: nothing (`None`), a `str` (given by its encoding; ASCII for user names), `bytes` -/
inductive Form where
  | none
  | str (encoded : List Nat)
  | bytes (bs : List Nat)
deriving Repr, DecidableEq

/-- the bytes a credential stands for: `None` is the null (zero-length) user name / password -/
def Form.denote : Form → List Nat
  | .none => []
  | .str b => b
  | .bytes b => b

inductive PyErr where
  | attributeError
  | typeError
deriving Repr, DecidableEq

structure Var where
  nullPw : Bool
  bytesUser : Bool
deriving Repr, DecidableEq

def intended : Var := ⟨true, true⟩
def asShipped : Var := ⟨false, false⟩

/-- `IpmiMsg._padd_password` -/
def key (v : Var) : Form → Except PyErr (List Nat)
  | .none => if v.nullPw then .ok (padPw []) else .error .attributeError
  | .str b => .ok (padPw b)
  | .bytes b => .ok (padPw b)

/-- the user-name field built by `Rmcp._get_session_challenge` (an empty name is falsy: field default) -/
def userName (v : Var) : Form → Except PyErr (List Nat)
  | .none => .ok (userField [])
  | .str b => .ok (userField b)
  | .bytes b => if b.isEmpty then .ok (userField []) else if v.bytesUser then .ok (userField b) else .error .typeError

/-- Where a handshake whose exchanges are all answered ends in a Python error because of the credential FORM:
`some (n, e)` = error `e` after `n` datagrams (2: ping and Get Channel Authentication Capabilities, the challenge
request cannot be built; 3: Activate Session cannot be packed with authentication type `auth` ≠ none). -/
def failsAfter (v : Var) (u p : Form) (auth : Nat) : Option (Nat × PyErr) :=
  match userName v u with
  | .error e => some (2, e)
  | .ok _ =>
    if auth = 0 then none else
    match key v p with
    | .error e => some (3, e)
    | .ok _ => none

end PyIpmi.Session.Cred
