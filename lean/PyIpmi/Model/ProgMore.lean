/-
  More interaction programs (C08): the handlers and operations that Model/Prog.lean does not
  model, each mirroring the Python control flow statement by statement.

  * `sendRaw`          Ipmi.send_message / Ipmi.raw_command: the response goes to the caller
                       with its completion code (primitives)
  * `Prog.tryCc`       `try: v = p  except CompletionCodeError as e:` -- value or caught code
  * `selEntry`         sel.get_sel_entry            (selBackoff: FFh -> 16 -> 15 ... on CAh)
  * `listLoop`         the `while True: x = get(id); yield x; if next == END: break; id = next`
                       loop of sel_entries / sdr_repository_entries / device_sdr_entries
  * `selEntries`       sel.sel_entries / get_sel_entries
  * `getAndClear`      sel.get_and_clear_sel_entry  (restartOnCancel: reserve/read/delete again on C5h)
  * `sdrDataLoop`, `sdrData`   helper.get_sdr_data_helper (sdrBackoff: 20 -> 16 ... on CAh,
                       as fixed by 01f2987: retry with the reduced size, RetryError at <= 0)
  * `sdrChunkOp`       sdr._get_sdr_chunk / sensor._get_device_sdr_chunk on top of `sdrChunk`
  * `sdrEntries`       sdr.sdr_repository_entries / sensor.device_sdr_entries
  * `readFruRange`, `readFruArea`   fru.read_fru_data(offset, count) and fru._read_fru_area
  * `SkH.run`          skeletons whose calls of modelled operations are interpreted by the
                       models (`leaf`) instead of being inlined: the compositions
                       (get_fru_inventory, upgrade_stage, get_repository_sdr_list, ...)

  `while True` loops run on fuel (out of fuel = `pyError "Hang"`).  Core Lean only.
-/
import PyIpmi.Model.Prog
namespace PyIpmi.Prog

/-- A pure computation between two exchanges (a parser that may raise). -/
def Prog.ofRes {α : Type} : Res α → Prog α
  | .ok a => .done a
  | .error e => .fail e

/-- `try: v = p  except CompletionCodeError as e: …`: the value, or the caught code. -/
def Prog.tryCc {α : Type} : Prog α → Prog (Except Nat α)
  | .done a => .done (.ok a)
  | .fail (.ccError c) => .done (.error c)
  | .fail e => .fail e
  | .send r k => .send r (fun rsp => (k rsp).tryCc)

/-- `Ipmi.send_message(req)` / `Ipmi.raw_command(...)`: whatever the BMC answered is
returned, completion code included; the caller checks it. -/
def sendRaw (r : Req) : Prog Rsp := .send r .done

/-! ### sel.get_sel_entry -/

/-- Constants of get_sel_entry: ENTIRE_RECORD (FFh), the fall-back length (16), the record
length (16), the decrement (1), CC_CANT_RET_NUM_REQ_BYTES (CAh), and the floor of max_req_len
(`if self.max_req_len <= F: raise RetryError()` behind the decrement; `none`: the pinned source,
which lowers the length without end). -/
structure SelCfg where
  entire : Nat
  full : Nat
  recLen : Nat
  step : Nat
  shrink : Nat
  floor : Option Nat
  deriving Repr, DecidableEq

/-- `req.length = self.max_req_len; if max_req_len != 0xff and offset + length > 16: length = 16 - offset` -/
def selLen (cfg : SelCfg) (maxReq off : Nat) : Nat :=
  if maxReq ≠ cfg.entire ∧ off + maxReq > cfg.recLen then cfg.recLen - off else maxReq

/-- `if self.max_req_len == 0xff: self.max_req_len = 16  else: self.max_req_len -= 1` and, where the
source has it, `if self.max_req_len <= F: raise RetryError()` (`none`).  (Without a floor Python's int
goes below zero after 17 refusals; here it stays at 0 -- that is why the theorems about a source
without floor admit at most 16 answers CAh; the exact model of that loop is Model/SelXfer.lean, C13.) -/
def selShrink (cfg : SelCfg) (maxReq : Nat) : Option Nat :=
  if maxReq = cfg.entire then some cfg.full
  else
    match cfg.floor with
    | some f => if maxReq - cfg.step ≤ f then none else some (maxReq - cfg.step)
    | none => some (maxReq - cfg.step)

/-- One iteration of get_sel_entry after the response arrived.  `fin data next` is
`(SelEntry(record_data), rsp.next_record_id)` (DecodingError for a wrong length / type). -/
def selStep {β : Type} (cfg : SelCfg) (nextOf : Rsp → Nat) (pay : Rsp → List Nat)
    (fin : List Nat → Nat → Res β) (self : Nat → List Nat → Prog β)
    (maxReq : Nat) (acc : List Nat) (rsp : Rsp) : Prog β :=
  if rsp.cc = cfg.shrink then
    (match selShrink cfg maxReq with
     | some m => self m acc
     | none => .fail .retryError)
  else if rsp.cc ≠ 0 then .fail (.ccError rsp.cc)
  else if cfg.recLen ≤ (acc ++ pay rsp).length then .ofRes (fin (acc ++ pay rsp) (nextOf rsp))
  else self maxReq (acc ++ pay rsp)

/-- The `while True` loop of get_sel_entry: `mk off len` is Get SEL Entry for this record and
reservation; the offset of a read is the number of bytes collected so far. -/
def selEntry {β : Type} (cfg : SelCfg) (mk : Nat → Nat → Req) (nextOf : Rsp → Nat) (pay : Rsp → List Nat)
    (fin : List Nat → Nat → Res β) : Nat → Nat → List Nat → Prog β
  | 0, _, _ => .fail (.pyError "Hang")
  | f + 1, maxReq, acc =>
    .send (mk acc.length (selLen cfg maxReq acc.length))
      (selStep cfg nextOf pay fin (selEntry cfg mk nextOf pay fin f) maxReq acc)

/-- get_sel_entry(record_id, reservation). -/
def getSelEntry {β : Type} (cfg : SelCfg) (mk : Nat → Nat → Req) (nextOf : Rsp → Nat) (pay : Rsp → List Nat)
    (fin : List Nat → Nat → Res β) (fuel : Nat) : Prog β :=
  selEntry cfg mk nextOf pay fin fuel cfg.entire []

/-! ### listings -/

/-- `while True: x = entry(id); yield x; if next(x) == END: break; id = next(x)` collected by
`list(...)`.  `nextOf` may raise (an SDR object without `next_id`). -/
def listLoop {β : Type} (entry : Nat → Prog β) (nextOf : β → Res Nat) (last : Nat) :
    Nat → Nat → List β → Prog (List β)
  | 0, _, _ => .fail (.pyError "Hang")
  | f + 1, rid, acc =>
    (entry rid).bind fun b => (Prog.ofRes (nextOf b)).bind fun nx =>
      if nx = last then .done (acc ++ [b]) else listLoop entry nextOf last f nx (acc ++ [b])

/-- sel.sel_entries: Get SEL Info (empty log: nothing), Reserve SEL, the chain from `first`. -/
def selEntries {β : Type} (info : Req) (count : Rsp → Nat) (reserve : Prog Nat)
    (entry : Nat → Nat → Prog β) (nextOf : β → Res Nat) (first last fuel : Nat) : Prog (List β) :=
  (sendChecked info).bind fun ri =>
    if count ri = 0 then .done []
    else reserve.bind fun res => listLoop (entry res) nextOf last fuel first []

/-! ### sel.get_and_clear_sel_entry -/

/-- `except CompletionCodeError as e: if e.cc == CC_RES_CANCELED: continue  else: raise` -/
def gacStep {β γ : Type} (cancel : Nat) (again : Prog β) (x : Except Nat γ) (k : γ → Prog β) : Prog β :=
  match x with
  | .ok v => k v
  | .error c => if c = cancel then again else .fail (.ccError c)

/-- reserve; read (restart on C5h); delete (restart on C5h); return the entry.  `exh` is what the
loop ends with when its recursion argument is used up: `.retryError` for `while retry > 0: retry -= 1
… raise RetryError()` (the argument is `retry`), `.pyError "Hang"` for the pinned `while True` (the
argument is fuel). -/
def getAndClear {β : Type} (cancel : Nat) (reserve : Prog Nat) (entry : Nat → Prog β) (del : Nat → Req)
    (exh : Err) : Nat → Prog β
  | 0 => .fail exh
  | f + 1 =>
    reserve.bind fun res =>
      (entry res).tryCc.bind fun x =>
        gacStep cancel (getAndClear cancel reserve entry del exh f) x fun e =>
          (sendChecked (del res)).tryCc.bind fun y =>
            gacStep cancel (getAndClear cancel reserve entry del exh f) y fun _ => .done e

/-! ### helper.get_sdr_data_helper -/

/-- Constants of get_sdr_data_helper: header length (5), max_req_len (20), its decrement (4),
retry (20), CC_CANT_RET_NUM_REQ_BYTES (CAh). -/
structure SdrCfg where
  hdrLen : Nat
  maxReq : Nat
  dec : Nat
  retry : Nat
  shrink : Nat
  deriving Repr, DecidableEq

/-- `length = max_req_len; if offset + length > record_length: length = record_length - offset` -/
def sdrLen (recLen off maxReq : Nat) : Nat := if off + maxReq > recLen then recLen - off else maxReq

/-- What the handler of the data loop does with a caught code (as fixed by 01f2987):
CAh: `max_req_len -= 4; if max_req_len <= 0: raise RetryError(); continue`; else re-raise. -/
def sdrCaught {β : Type} (cfg : SdrCfg) (self : Nat → Prog β) (maxReq c : Nat) : Prog β :=
  if c = cfg.shrink then (if maxReq ≤ cfg.dec then .fail .retryError else self (maxReq - cfg.dec))
  else .fail (.ccError c)

/-- One iteration of the data loop after `get_fn` returned or raised CompletionCodeError. -/
def sdrDataStep (cfg : SdrCfg) (recLen : Nat) (self : Nat → List Nat → Prog (Nat × List Nat))
    (maxReq : Nat) (acc : List Nat) (x : Except Nat (Nat × List Nat)) : Prog (Nat × List Nat) :=
  match x with
  | .error c => sdrCaught cfg (fun m => self m acc) maxReq c
  | .ok v =>
    if recLen ≤ (acc ++ v.2).length then .done (v.1, acc ++ v.2)
    else self maxReq (acc ++ v.2)

/-- The `while True` of get_sdr_data_helper; first argument: iterations left (`retry - 1`).
`chunk off len` is `get_fn(reservation_id, record_id, off, len)` → (next id, bytes). -/
def sdrDataLoop (cfg : SdrCfg) (chunk : Nat → Nat → Prog (Nat × List Nat)) (recLen : Nat) :
    Nat → Nat → List Nat → Prog (Nat × List Nat)
  | 0, _, _ => .fail .retryError
  | n + 1, maxReq, acc =>
    (chunk acc.length (sdrLen recLen acc.length maxReq)).tryCc.bind
      (sdrDataStep cfg recLen (sdrDataLoop cfg chunk recLen n) maxReq acc)

/-- The five header bytes: record id (16 bit LE), version, type, payload length →
(record id, record length = payload length + 5); DecodingError when short. -/
def sdrHeader (h : List Nat) : Res (Nat × Nat) :=
  match h with
  | lo :: hi :: _ :: _ :: len :: _ => .ok (lo + 256 * hi, len + 5)
  | _ => .error .decodingError

/-- `if reservation_id is None: reservation_id = reserve_fn()` -/
def sdrReservation (reserve : Prog Nat) (resOpt : Option Nat) : Prog Nat :=
  match resOpt with
  | none => reserve
  | some r => .done r

/-- get_sdr_data_helper(reserve_fn, get_fn, record_id, reservation_id): the record id of the
later reads is the one found in the header. -/
def sdrData (cfg : SdrCfg) (reserve : Prog Nat) (chunk : Nat → Nat → Nat → Nat → Prog (Nat × List Nat))
    (hdr : List Nat → Res (Nat × Nat)) (resOpt : Option Nat) (rid : Nat) : Prog (Nat × List Nat) :=
  (sdrReservation reserve resOpt).bind fun res =>
    (chunk res rid 0 cfg.hdrLen).bind fun h =>
      (Prog.ofRes (hdr h.2)).bind fun x =>
        sdrDataLoop cfg (chunk res x.1) x.2 (cfg.retry - 1) cfg.maxReq h.2

/-- sdr._get_sdr_chunk / sensor._get_device_sdr_chunk: one request through get_sdr_chunk_helper. -/
def sdrChunkOp (cs : ChunkCodes) (reserve : Prog Nat) (setRes : Nat → Req → Req) (budget : Nat)
    (mk : Nat → Nat → Nat → Nat → Req) (nextOf : Rsp → Nat) (pay : Rsp → List Nat)
    (res rid off len : Nat) : Prog (Nat × List Nat) :=
  (sdrChunk cs reserve setRes budget (mk res rid off len)).bind fun rsp => .done (nextOf rsp, pay rsp)

/-- sdr.sdr_repository_entries / sensor.device_sdr_entries: reserve once, then the chain from 0;
`entry res rid` is get_repository_sdr / get_device_sdr. -/
def sdrEntries {β : Type} (reserve : Prog Nat) (entry : Nat → Nat → Prog β) (nextOf : β → Res Nat)
    (first last fuel : Nat) : Prog (List β) :=
  reserve.bind fun res => listLoop (entry res) nextOf last fuel first []

/-! ### fru area reads -/

/-- read_fru_data(offset=off, count=count): the loop over [off, off + count), request size 32. -/
def readFruRange (mk : Nat → Nat → Req) (cnt : Rsp → Nat) (pay : Rsp → List Nat) (back : List Nat)
    (reqSize fuel off count : Nat) : Prog (List Nat) :=
  readFru mk cnt pay back (off + count) fuel off reqSize []

/-- fru._read_fru_area(offset): the 5-byte area header, then the whole area, whose length in
multiples of 8 bytes is the header's second byte. -/
def readFruArea (mk : Nat → Nat → Req) (cnt : Rsp → Nat) (pay : Rsp → List Nat) (back : List Nat)
    (reqSize fuel off : Nat) : Prog (List Nat) :=
  (readFruRange mk cnt pay back reqSize fuel off 5).bind fun d =>
    readFruRange mk cnt pay back reqSize fuel off (d.getD 1 0 * 8)

/-! ### compositions: skeletons over modelled operations -/

/-- As `Sk.run`, but a call of an operation that has a model (`leaf op = some L`) runs the
model on the current state instead of inlining the callee's skeleton. -/
def SkH.run (env : Env) (leaf : Nat → Option (St → Prog St)) (table : List Sk) : Nat → Sk → St → Prog St
  | 0, _, _ => .fail (.pyError "Hang")
  | _ + 1, .skip, st => .done st
  | _ + 1, .send m, st =>
    (sendChecked ⟨m, env.payload m st.hist⟩).bind fun rsp => .done { st with hist := rsp :: st.hist }
  | f + 1, .call op, st =>
    match leaf op with
    | some L => (L st).bind fun st' => .done { st' with stopped := false }
    | none =>
      match table[op]? with
      | some sk => (SkH.run env leaf table f sk st).bind fun st' => .done { st' with stopped := false }
      | none => .fail (.pyError "AttributeError")
  | f + 1, .seq a b, st =>
    (SkH.run env leaf table f a st).bind fun st' =>
      if st'.stopped then .done st' else SkH.run env leaf table f b st'
  | f + 1, .alt a b, st =>
    let st' := { st with pc := st.pc + 1 }
    if env.choose st.hist st.pc then SkH.run env leaf table f a st' else SkH.run env leaf table f b st'
  | f + 1, .rep body, st =>
    let st' := { st with pc := st.pc + 1 }
    if env.choose st.hist st.pc then
      (SkH.run env leaf table f body st').bind fun st'' =>
        if st''.stopped then .done st'' else SkH.run env leaf table f (.rep body) st''
    else .done st'
  | _ + 1, .stop, st =>
    match env.exit st.hist st.pc with
    | none => .done { st with stopped := true }
    | some e => .fail e

end PyIpmi.Prog
