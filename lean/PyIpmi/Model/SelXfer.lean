/-
  Model of the SEL retrieval code of pyipmi/sel.py (class `Sel`) over an abstract transport
  (same conventions as Model/FruXfer.lean: `send` is the byte-level peer, every exchange is
  traced, `while True` loops run on fuel, out of fuel = `pyError "nontermination"`).

  * `get_sel_entry`: the request length starts at `ENTIRE_RECORD = 0xff`, falls back to 16 and
    then decrements by one on every CAh; the offset of the next partial read is the number
    of bytes collected so far; the loop ends when ≥ 16 bytes are there; `SelEntry` then
    demands exactly 16 bytes and a known record type (else DecodingError).
    A completed answer may carry FEWER bytes than asked for (the loop advances by what it got);
    with none at all the pinned loop sends the identical request again, for ever -
    `Variant.emptyStop` is the repaired loop: RetryError on an empty completed answer.
    `max_req_len` is a Python int: as shipped nothing stops the decrement, after 1 come 0, −1, −2 …
    which `UnsignedInt.encode` puts on the wire modulo 256 (00, FF, FE …) - the model keeps it as
    an `Int` and sends `wireByte`.  `Variant.floor = some F` is the repaired loop: `if
    self.max_req_len <= F: raise RetryError()` behind the decrement.
  * `sel_entries`: Get SEL Info (empty log ⇒ nothing), Reserve SEL, then the next-record
    chain from 0 until FFFFh.
  * `get_and_clear_sel_entry`: reserve / read / delete, all three repeated when the read or
    the delete is answered C5h.  As shipped it is `while True` (`Variant.budget = none`): the
    recursion argument is fuel and running out of it is `pyError "nontermination"` - a peer that
    cancels every reservation is never given up on.  Repaired (`budget = some N`, N the default) it is
    `while retry > 0: retry -= 1 … raise RetryError()`: the recursion argument IS `retry`.
  * constants come from the source through `Cfg`, the variant through `Variant` (Gen/Loops10.lean);
    the harness probes the variant on the real code.
-/
import PyIpmi.Base.Outcome
import PyIpmi.Base.Bytes
import PyIpmi.Model.FruXfer
namespace PyIpmi.SelXfer
open PyIpmi
open PyIpmi.FruXfer (Wire Xchg Send World Res xchg castErr)

structure Cfg where
  entire : Nat          -- ENTIRE_RECORD = 0xff
  full : Nat            -- self.max_req_len = 16 (fallback length)
  recLen : Nat          -- the 16 of `> 16`, `16 - req.offset`, `>= 16`
  step : Nat            -- self.max_req_len -= 1
  ccShrink : Nat        -- CC_CANT_RET_NUM_REQ_BYTES
  ccCancel : Nat        -- CC_RES_CANCELED
  first : Nat           -- START_SEL_RECORD_ID
  last : Nat            -- END_SEL_RECORD_ID
  deriving Repr, DecidableEq, Inhabited

/-- The three places where the pinned and the repaired pyipmi/sel.py differ. -/
structure Variant where
  /-- get_sel_entry: `if self.max_req_len <= F: raise RetryError()` behind `self.max_req_len -= 1`
  (`none`: as shipped, the length is lowered without end) -/
  floor : Option Int
  /-- get_and_clear_sel_entry(record_id, retry=N) runs on a retry budget and ends in RetryError:
  `some N` (`none`: `while True`, no such parameter) -/
  budget : Option Nat
  /-- get_sel_entry: `if len(rsp.record_data) == 0: raise RetryError()` behind the completion-code
  check - a "completed" answer that carries no record byte ends the read (`false`: as shipped and
  after 8f8257b, nothing is appended, the offset stays and the identical request is sent again) -/
  emptyStop : Bool := false
  deriving Repr, DecidableEq, Inhabited

/-- the pinned tree -/
def Variant.asShipped : Variant := ⟨none, none, false⟩
/-- after 8f8257b / 934f8f8: the CAh ladder has a floor, get-and-clear a budget; an empty completed
answer is still asked for again without end -/
def Variant.floored : Variant := ⟨some 0, some 5, false⟩
def Variant.intended : Variant := ⟨some 0, some 5, true⟩

def infoReq : Wire := ⟨0x40, []⟩
def reserveReq : Wire := ⟨0x42, []⟩
def getReq (res rid off len : Nat) : Wire :=
  ⟨0x43, leBytes 2 res ++ leBytes 2 rid ++ [off % 256, len % 256]⟩
def deleteReq (res rid : Nat) : Wire := ⟨0x46, leBytes 2 res ++ leBytes 2 rid⟩

/-- GetSelInfoRsp (cc, version, entries(2), free(2), 2 timestamps, support) → entries. -/
def decodeInfoRsp (raw : List Nat) : Outcome Nat :=
  match raw with
  | [] => .decodingError
  | cc :: rest =>
    if cc ≠ 0 then .ccError cc else
    if rest.length = 14 then .ok (rest.getD 1 0 + 256 * rest.getD 2 0) else .decodingError

/-- ReserveSelRsp / DeleteSelEntryRsp: cc, one 16-bit value; the completion code is checked. -/
def decodeU16Rsp (raw : List Nat) : Outcome Nat :=
  match raw with
  | [] => .decodingError
  | cc :: rest =>
    if cc ≠ 0 then .ccError cc else
    match rest with
    | [lo, hi] => .ok (lo + 256 * hi)
    | _ => .decodingError

/-- GetSelEntryRsp via `send_message` (completion code NOT checked): (cc, next, data). -/
def decodeGetRsp (raw : List Nat) : Outcome (Nat × Nat × List Nat) :=
  match raw with
  | [] => .decodingError
  | cc :: rest =>
    if cc ≠ 0 then .ok (cc, 0, []) else
    match rest with
    | lo :: hi :: data => .ok (0, lo + 256 * hi, data)
    | _ => .decodingError

/-- `SelEntry(record_data)`: 16 bytes and a known record type. -/
def selEntry (data : List Nat) (next : Nat) : Outcome (List Nat × Nat) :=
  if data.length ≠ 16 then .decodingError
  else
    let t := data.getD 2 0
    if t = 2 ∨ (0xC0 ≤ t ∧ t < 0x100) then .ok (data, next) else .decodingError

/-- `UnsignedInt.encode` of a one-byte field: `value >> 0 & 0xff` of a Python int. -/
def wireByte (i : Int) : Nat := (i % 256).toNat

/-- What `SelEntry._from_response` leaves in the object. -/
structure Entry where
  data : List Nat
  recordId : Nat
  type : Nat
  timestamp : Nat
  generatorId : Nat
  evmRev : Nat
  sensorType : Nat
  sensorNumber : Nat
  deassert : Bool          -- event_direction == EVENT_DEASSERTION
  eventType : Nat
  eventData : List Nat
  deriving Repr, DecidableEq, Inhabited

/-- `SelEntry._from_response(data)`: 16 bytes, `pop_unsigned_int` (little endian) field by field
- record id 2, type 1 (02h / C0h..FFh, else DecodingError), timestamp 4, generator id 2, EvM rev,
sensor type, sensor number, `event_desc` (`& 0x80` direction, `& 0x7f` event type), 3 data bytes -
whatever the record type is. -/
def decodeEntry (data : List Nat) : Outcome Entry :=
  if data.length ≠ 16 then .decodingError
  else
    let t := data.getD 2 0
    if t = 2 ∨ (0xC0 ≤ t ∧ t < 0x100) then
      let desc := data.getD 12 0
      .ok { data := data
            recordId := leVal (data.take 2)
            type := t
            timestamp := leVal ((data.drop 3).take 4)
            generatorId := leVal ((data.drop 7).take 2)
            evmRev := data.getD 9 0
            sensorType := data.getD 10 0
            sensorNumber := data.getD 11 0
            deassert := desc / 128 % 2 == 1
            eventType := desc % 128
            eventData := (data.drop 13).take 3 }
    else .decodingError

/-- `req.length = self.max_req_len`, clamped to the end of the record for partial reads. -/
def reqLen (cfg : Cfg) (maxReq : Int) (off : Nat) : Int :=
  if maxReq ≠ (cfg.entire : Int) ∧ (off : Int) + maxReq > (cfg.recLen : Int) then (cfg.recLen : Int) - (off : Int)
  else maxReq

/-- The CAh branch: `max_req_len = 16` after the whole-record request, else `max_req_len -= 1`
(and, repaired, RetryError = `none` once that is at or below the floor). -/
def shrink (cfg : Cfg) (v : Variant) (maxReq : Int) : Option Int :=
  if maxReq = (cfg.entire : Int) then some (cfg.full : Int)
  else
    match v.floor with
    | some f => if maxReq - (cfg.step : Int) ≤ f then none else some (maxReq - (cfg.step : Int))
    | none => some (maxReq - (cfg.step : Int))

/-- `if len(rsp.record_data) == 0: raise RetryError()` (where the source has it): a completed answer
without a single record byte.  Appending it would leave the offset where it is - the next request
would be the one just made. -/
def emptyAnswer (v : Variant) (data : List Nat) : Bool := v.emptyStop && data.isEmpty

/-- The `while True` loop of `get_sel_entry`. -/
def entryLoop {σ} (cfg : Cfg) (v : Variant) (send : Send σ) :
    Nat → World σ → (res rid : Nat) → (maxReq : Int) → (acc : List Nat) → Res σ (List Nat × Nat)
  | 0, w, _, _, _, _ => ⟨w, .pyError "nontermination"⟩
  | fuel + 1, w, res, rid, maxReq, acc =>
    let off := acc.length
    let len := reqLen cfg maxReq off
    let r := xchg send w (getReq res rid off (wireByte len))
    match decodeGetRsp r.2 with
    | .ok (cc, next, data) =>
      if cc = cfg.ccShrink then
        match shrink cfg v maxReq with
        | some m => entryLoop cfg v send fuel r.1 res rid m acc
        | none => ⟨r.1, .retryError⟩
      else if cc ≠ 0 then ⟨r.1, .ccError cc⟩
      else if emptyAnswer v data then ⟨r.1, .retryError⟩
      else if (acc ++ data).length ≥ cfg.recLen then ⟨r.1, selEntry (acc ++ data) next⟩
      else entryLoop cfg v send fuel r.1 res rid maxReq (acc ++ data)
    | e => ⟨r.1, castErr e⟩

def entryFuel : Nat := 64

/-- `get_sel_entry(record_id, reservation)` → (entry bytes, next record id). -/
def getSelEntry {σ} (cfg : Cfg) (v : Variant) (send : Send σ) (w : World σ) (rid res : Nat) :
    Res σ (List Nat × Nat) :=
  entryLoop cfg v send entryFuel w res rid (cfg.entire : Int) []

/-- `get_sel_reservation_id`. -/
def reserve {σ} (send : Send σ) (w : World σ) : Res σ Nat :=
  let r := xchg send w reserveReq
  ⟨r.1, decodeU16Rsp r.2⟩

/-- `delete_sel_entry(record_id, reservation)`. -/
def deleteEntry {σ} (send : Send σ) (w : World σ) (rid res : Nat) : Res σ Nat :=
  let r := xchg send w (deleteReq res rid)
  ⟨r.1, decodeU16Rsp r.2⟩

/-- The `while True` of `sel_entries`. -/
def walk {σ} (cfg : Cfg) (v : Variant) (send : Send σ) :
    Nat → World σ → (res next : Nat) → (acc : List (List Nat)) → Res σ (List (List Nat))
  | 0, w, _, _, _ => ⟨w, .pyError "nontermination"⟩
  | fuel + 1, w, res, next, acc =>
    let r := getSelEntry cfg v send w next res
    match r.out with
    | .ok (e, nx) =>
      if nx = cfg.last then ⟨r.w, .ok (acc ++ [e])⟩
      else walk cfg v send fuel r.w res nx (acc ++ [e])
    | e => ⟨r.w, castErr e⟩

def walkFuel : Nat := 65537

/-- `get_sel_entries()` = `list(sel_entries())`. -/
def selEntries {σ} (cfg : Cfg) (v : Variant) (send : Send σ) (w : World σ) : Res σ (List (List Nat)) :=
  let i := xchg send w infoReq
  match decodeInfoRsp i.2 with
  | .ok n =>
    if n = 0 then ⟨i.1, .ok []⟩
    else
      let r := reserve send i.1
      match r.out with
      | .ok res => walk cfg v send walkFuel r.w res cfg.first []
      | e => ⟨r.w, castErr e⟩
  | e => ⟨i.1, castErr e⟩

/-- What the loop of `get_and_clear_sel_entry` ends with when its recursion argument is used up:
the retry budget is exhausted (repaired), or the model ran out of fuel on a `while True` that
would go on (as shipped). -/
def gacExhausted (v : Variant) : Outcome (List Nat) :=
  if v.budget.isSome then .retryError else .pyError "nontermination"

/-- `get_and_clear_sel_entry(record_id, retry)`; the first argument is `retry` for the repaired
variant and fuel for the pinned one. -/
def getAndClear {σ} (cfg : Cfg) (v : Variant) (send : Send σ) :
    Nat → World σ → (rid : Nat) → Res σ (List Nat)
  | 0, w, _ => ⟨w, gacExhausted v⟩
  | fuel + 1, w, rid =>
    let r := reserve send w
    match r.out with
    | .ok res =>
      let g := getSelEntry cfg v send r.w rid res
      match g.out with
      | .ok (e, _) =>
        let d := deleteEntry send g.w rid res
        match d.out with
        | .ok _ => ⟨d.w, .ok e⟩
        | .ccError c => if c = cfg.ccCancel then getAndClear cfg v send fuel d.w rid else ⟨d.w, .ccError c⟩
        | x => ⟨d.w, castErr x⟩
      | .ccError c => if c = cfg.ccCancel then getAndClear cfg v send fuel g.w rid else ⟨g.w, .ccError c⟩
      | x => ⟨g.w, castErr x⟩
    | e => ⟨r.w, castErr e⟩

end PyIpmi.SelXfer
