/-
  Model of the SEL retrieval code of pyipmi/sel.py (class `Sel`) over an abstract transport
  (same conventions as Model/FruXfer.lean: `send` is the byte-level peer, every exchange is
  traced, `while True` loops run on fuel, out of fuel = `pyError "nontermination"`).

  * `get_sel_entry`: the request length starts at `ENTIRE_RECORD = 0xff`, falls back to 16 and
    then decrements by one on every CAh; the offset of the next partial read is the number
    of bytes collected so far; the loop ends when ≥ 16 bytes are there; `SelEntry` then
    demands exactly 16 bytes and a known record type (else DecodingError).
    `max_req_len` is a Python int and may go below zero on a peer that refuses every length;
    here it saturates at 0 – the two differ only on a device with partial-read limit 0,
    which is outside the property (limits 1..16) and never generated.
  * `sel_entries`: Get SEL Info (empty log ⇒ nothing), Reserve SEL, then the next-record
    chain from 0 until FFFFh.
  * `get_and_clear_sel_entry`: reserve / read / delete, all three repeated when the read or
    the delete is answered C5h.  Its fuel is an argument: it has to exceed the number of
    cancellations the peer will produce (the loop really does not terminate otherwise).
  * constants come from the source through `Cfg` (Gen/Loops10.lean).
-/
import PyIpmi.Base.Outcome
import PyIpmi.Base.Bytes
import PyIpmi.Model.FruXfer
namespace PyIpmi.SelXfer
open PyIpmi
open PyIpmi.FruXfer (Wire Xchg Send World Res xchg castErr)

structure Cfg where
  entire : Nat          -- ENTIRE_RECORD = 0xff
  full : Nat            -- self.max_req_len = 16 (fallback length)
  recLen : Nat          -- the 16 of `> 16`, `16 - req.offset`, `>= 16`
  step : Nat            -- self.max_req_len -= 1
  ccShrink : Nat        -- CC_CANT_RET_NUM_REQ_BYTES
  ccCancel : Nat        -- CC_RES_CANCELED
  first : Nat           -- START_SEL_RECORD_ID
  last : Nat            -- END_SEL_RECORD_ID
  deriving Repr, DecidableEq, Inhabited

def infoReq : Wire := ⟨0x40, []⟩
def reserveReq : Wire := ⟨0x42, []⟩
def getReq (res rid off len : Nat) : Wire :=
  ⟨0x43, leBytes 2 res ++ leBytes 2 rid ++ [off % 256, len % 256]⟩
def deleteReq (res rid : Nat) : Wire := ⟨0x46, leBytes 2 res ++ leBytes 2 rid⟩

/-- GetSelInfoRsp (cc, version, entries(2), free(2), 2 timestamps, support) → entries. -/
def decodeInfoRsp (raw : List Nat) : Outcome Nat :=
  match raw with
  | [] => .decodingError
  | cc :: rest =>
    if cc ≠ 0 then .ccError cc else
    if rest.length = 14 then .ok (rest.getD 1 0 + 256 * rest.getD 2 0) else .decodingError

/-- ReserveSelRsp / DeleteSelEntryRsp: cc, one 16-bit value; the completion code is checked. -/
def decodeU16Rsp (raw : List Nat) : Outcome Nat :=
  match raw with
  | [] => .decodingError
  | cc :: rest =>
    if cc ≠ 0 then .ccError cc else
    match rest with
    | [lo, hi] => .ok (lo + 256 * hi)
    | _ => .decodingError

/-- GetSelEntryRsp via `send_message` (completion code NOT checked): (cc, next, data). -/
def decodeGetRsp (raw : List Nat) : Outcome (Nat × Nat × List Nat) :=
  match raw with
  | [] => .decodingError
  | cc :: rest =>
    if cc ≠ 0 then .ok (cc, 0, []) else
    match rest with
    | lo :: hi :: data => .ok (0, lo + 256 * hi, data)
    | _ => .decodingError

/-- `SelEntry(record_data)`: 16 bytes and a known record type. -/
def selEntry (data : List Nat) (next : Nat) : Outcome (List Nat × Nat) :=
  if data.length ≠ 16 then .decodingError
  else
    let t := data.getD 2 0
    if t = 2 ∨ (0xC0 ≤ t ∧ t < 0x100) then .ok (data, next) else .decodingError

/-- `req.length = self.max_req_len`, clamped to the end of the record for partial reads. -/
def reqLen (cfg : Cfg) (maxReq off : Nat) : Nat :=
  if maxReq ≠ cfg.entire ∧ off + maxReq > cfg.recLen then cfg.recLen - off else maxReq

/-- The `while True` loop of `get_sel_entry`. -/
def entryLoop {σ} (cfg : Cfg) (send : Send σ) :
    Nat → World σ → (res rid maxReq : Nat) → (acc : List Nat) → Res σ (List Nat × Nat)
  | 0, w, _, _, _, _ => ⟨w, .pyError "nontermination"⟩
  | fuel + 1, w, res, rid, maxReq, acc =>
    let off := acc.length
    let len := reqLen cfg maxReq off
    let r := xchg send w (getReq res rid off len)
    match decodeGetRsp r.2 with
    | .ok (cc, next, data) =>
      if cc = cfg.ccShrink then
        entryLoop cfg send fuel r.1 res rid (if maxReq = cfg.entire then cfg.full else maxReq - cfg.step) acc
      else if cc ≠ 0 then ⟨r.1, .ccError cc⟩
      else if (acc ++ data).length ≥ cfg.recLen then ⟨r.1, selEntry (acc ++ data) next⟩
      else entryLoop cfg send fuel r.1 res rid maxReq (acc ++ data)
    | e => ⟨r.1, castErr e⟩

def entryFuel : Nat := 64

/-- `get_sel_entry(record_id, reservation)` → (entry bytes, next record id). -/
def getSelEntry {σ} (cfg : Cfg) (send : Send σ) (w : World σ) (rid res : Nat) :
    Res σ (List Nat × Nat) :=
  entryLoop cfg send entryFuel w res rid cfg.entire []

/-- `get_sel_reservation_id`. -/
def reserve {σ} (send : Send σ) (w : World σ) : Res σ Nat :=
  let r := xchg send w reserveReq
  ⟨r.1, decodeU16Rsp r.2⟩

/-- `delete_sel_entry(record_id, reservation)`. -/
def deleteEntry {σ} (send : Send σ) (w : World σ) (rid res : Nat) : Res σ Nat :=
  let r := xchg send w (deleteReq res rid)
  ⟨r.1, decodeU16Rsp r.2⟩

/-- The `while True` of `sel_entries`. -/
def walk {σ} (cfg : Cfg) (send : Send σ) :
    Nat → World σ → (res next : Nat) → (acc : List (List Nat)) → Res σ (List (List Nat))
  | 0, w, _, _, _ => ⟨w, .pyError "nontermination"⟩
  | fuel + 1, w, res, next, acc =>
    let r := getSelEntry cfg send w next res
    match r.out with
    | .ok (e, nx) =>
      if nx = cfg.last then ⟨r.w, .ok (acc ++ [e])⟩
      else walk cfg send fuel r.w res nx (acc ++ [e])
    | e => ⟨r.w, castErr e⟩

def walkFuel : Nat := 65537

/-- `get_sel_entries()` = `list(sel_entries())`. -/
def selEntries {σ} (cfg : Cfg) (send : Send σ) (w : World σ) : Res σ (List (List Nat)) :=
  let i := xchg send w infoReq
  match decodeInfoRsp i.2 with
  | .ok n =>
    if n = 0 then ⟨i.1, .ok []⟩
    else
      let r := reserve send i.1
      match r.out with
      | .ok res => walk cfg send walkFuel r.w res cfg.first []
      | e => ⟨r.w, castErr e⟩
  | e => ⟨i.1, castErr e⟩

/-- `get_and_clear_sel_entry(record_id)`. -/
def getAndClear {σ} (cfg : Cfg) (send : Send σ) :
    Nat → World σ → (rid : Nat) → Res σ (List Nat)
  | 0, w, _ => ⟨w, .pyError "nontermination"⟩
  | fuel + 1, w, rid =>
    let r := reserve send w
    match r.out with
    | .ok res =>
      let g := getSelEntry cfg send r.w rid res
      match g.out with
      | .ok (e, _) =>
        let d := deleteEntry send g.w rid res
        match d.out with
        | .ok _ => ⟨d.w, .ok e⟩
        | .ccError c => if c = cfg.ccCancel then getAndClear cfg send fuel d.w rid else ⟨d.w, .ccError c⟩
        | x => ⟨d.w, castErr x⟩
      | .ccError c => if c = cfg.ccCancel then getAndClear cfg send fuel g.w rid else ⟨g.w, .ccError c⟩
      | x => ⟨g.w, castErr x⟩
    | e => ⟨r.w, castErr e⟩

end PyIpmi.SelXfer
