/-
  Python's bit operators on an unbounded signed `int` whose right operand is a non-negative
  constant, as used by the GENERATED expressions of `Gen/SdrExpr.lean` (C16, C17).  Python
  defines `&`, `|`, `^` on negative ints through the infinite two's-complement representation
  (`-(n+1) = ~n`):

      ~n ^ c = ~(n ^ c)        ~n | c = ~(n & ~c)        ~n & c = c & ~n

  `Int.negSucc n` is `-(n+1) = ~n`, so each case is one `Nat` operation.  `Model/Sensor.lean`
  has the two instances the hand-written model needs (`pyXor7f`, `pyOr80`); `pyXor_7f` /
  `pyOr_80` below show they are these functions at `0x7f` / `0x80`.  Core only.
-/
import PyIpmi.Model.Sensor
namespace PyIpmi.PyInt

/-- Python `z ^ c` for an int `z` and a constant `c ≥ 0`. -/
def pyXor (z : Int) (c : Nat) : Int :=
  match z with
  | .ofNat n => .ofNat (n ^^^ c)
  | .negSucc n => .negSucc (n ^^^ c)

/-- Python `z | c` for an int `z` and a constant `c ≥ 0`  (`n & ~c = n - (n & c)`). -/
def pyOr (z : Int) (c : Nat) : Int :=
  match z with
  | .ofNat n => .ofNat (n ||| c)
  | .negSucc n => .negSucc (n - (n &&& c))

/-- Python `z & c` for an int `z` and a constant `c ≥ 0`  (`c & ~n = c - (c & n)`). -/
def pyAnd (z : Int) (c : Nat) : Int :=
  match z with
  | .ofNat n => .ofNat (n &&& c)
  | .negSucc n => .ofNat (c - (c &&& n))

theorem pyXor_7f (z : Int) : pyXor z 0x7f = Sensor.pyXor7f z := by
  cases z <;> rfl

theorem pyOr_80 (z : Int) : pyOr z 0x80 = Sensor.pyOr80 z := by
  cases z <;> rfl

/-- On non-negative ints the three are the `Nat` operators. -/
theorem pyXor_ofNat (n c : Nat) : pyXor (n : Int) c = ((n ^^^ c : Nat) : Int) := rfl
theorem pyOr_ofNat (n c : Nat) : pyOr (n : Int) c = ((n ||| c : Nat) : Int) := rfl
theorem pyAnd_ofNat (n c : Nat) : pyAnd (n : Int) c = ((n &&& c : Nat) : Int) := rfl

end PyIpmi.PyInt
