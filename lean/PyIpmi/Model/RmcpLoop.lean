/-
  Model/RmcpLoop.lean — `Rmcp._send_and_receive` (pyipmi/interfaces/rmcp.py) as a pure function
  of the list of receive events, together with the pieces of interfaces/ipmb.py it calls
  (`checksum`, `IpmbHeaderReq.encode`, `encode_ipmb_msg`, `encode_send_message`,
  `encode_bridged_message`, `decode_bridged_message`, `rx_filter`).

  Mirrors the Python, including what is lax in it:
    * `_q` is read BEFORE the socket; a frame that fails the filter is put back at the end of
      `_q` (`Cfg.requeue = true`, as shipped).  `requeue = false` is the intended variant
      (DESIGN §2.4): an unmatched frame is dropped.
    * `Cfg.cmdOnly = true` (as shipped): a frame whose byte 5 is the Send Message command is unwrapped
      first (`decode_bridged_message`), whatever request is outstanding and whatever else the frame
      says; `cmdOnly = false` (repaired): only a frame that passes `rx_filter` for the Send Message
      request of THIS transaction is unwrapped, every layer verified.  An empty result is the bare
      acknowledgement and `continue`s without touching `received_retry`.
    * the socket's receive queue outlives a request (`IfState.sock`): what one request leaves unread is
      the first thing the next one reads — unless (`Cfg.drain`, repaired) it is discarded first.
    * `received_retry` counts filtered frames, `retry` counts socket time-outs; both loops run
      while `counter <= max_retries`.
    * exceptions other than socket.timeout leave the function (IndexError for frames shorter
      than 6 bytes, TypeError for an empty payload, DecodingError, CompletionCodeError of an
      envelope).
  Loop bounds, the sequence-number rule, the Send Message ids and the slice of the
  returned data come from Gen/Loops04.lean (regenerated from the source on every run).
  The control flow itself is tied too: `Shape.rmcp` at the end of this file is the Python function,
  statement by statement, each annotated with the definition here that mirrors it; the translator
  regenerates the same value from the working tree and `Props.C04.source_shape_rmcp` demands equality.

  Core Lean only.  All recursion is structural (on the queue, the event list, the budgets), so
  the model is total by construction and `decide` can run it.
-/
import PyIpmi.Base.Outcome
import PyIpmi.Gen.Loops04
namespace PyIpmi.Loops
open PyIpmi

abbrev Frame := List Nat

/-- Python: `-csum % 256`. -/
def pyChecksum (l : List Nat) : Nat := (256 - l.sum % 256) % 256

/-- `IpmbHeaderReq` as filled in by `_send_and_receive`. -/
structure Hdr where
  rsSa : Nat
  netfn : Nat
  rsLun : Nat
  rqSa : Nat
  rqLun : Nat
  seq : Nat
  cmd : Nat
  deriving Repr, DecidableEq

/-- `IpmbHeaderReq.encode` (values are assumed in range; `array('B')` would raise otherwise). -/
def Hdr.encode (h : Hdr) : List Nat :=
  let b1 := h.netfn <<< 2 ||| h.rsLun
  [h.rsSa, b1, pyChecksum [h.rsSa, b1], h.rqSa, h.seq <<< 2 ||| h.rqLun, h.cmd]

/-- `encode_ipmb_msg`. -/
def encodeIpmbMsg (h : Hdr) (data : List Nat) : Frame :=
  let m := h.encode ++ data
  m ++ [pyChecksum (m.drop 3)]

/-- One entry of `Target.routing`. -/
structure Hop where
  rqSa : Nat
  rsSa : Nat
  channel : Nat
  deriving Repr, DecidableEq

/-- `encode_send_message(payload, rq_sa, rs_sa, channel, seq, tracking=1)`:
SendMessageReq = channel bit-field (number:4, authenticated:1, encrypted:1, tracking:2) + data. -/
def encodeSendMessage (payload : Frame) (rqSa rsSa channel seq : Nat) : Frame :=
  let h : Hdr := { rsSa := rsSa, netfn := 6, rsLun := 0, rqSa := rqSa, rqLun := 0, seq := seq,
                   cmd := Gen.Loops04.cmdSendMessage }
  encodeIpmbMsg h ((channel % 16 ||| 1 <<< 6) :: payload)

/-- `encode_bridged_message(routing, header, payload, seq)` for non-empty routing. -/
def encodeBridged (routing : List Hop) (h : Hdr) (payload : List Nat) (seq : Nat) : Frame :=
  let last := routing.getLast?.getD ⟨0, 0, 0⟩
  let h' := { h with rqSa := last.rqSa, rsSa := last.rsSa }
  routing.dropLast.foldr (fun b tx => encodeSendMessage tx b.rqSa b.rsSa b.channel seq)
    (encodeIpmbMsg h' payload)

/-- `rx_filter(header, data, rq_seq=checkSeq)` with the other flags at their defaults
(rs_lun checked; rq_sa, rs_sa, rq_lun not).  Caller guarantees `6 ≤ f.length`. -/
def rxFilter (checkSeq : Bool) (h : Hdr) (f : Frame) : Bool :=
  pyChecksum (f.take 3) == 0 &&
  pyChecksum (f.drop 3) == 0 &&
  (f.getD 1 0 >>> 2) == (h.netfn ||| 1) &&
  f.getD 5 0 == h.cmd &&
  (f.getD 4 0 &&& 3) == h.rsLun &&
  (!checkSeq || (f.getD 4 0 >>> 2) == h.seq)

/-- `is_send_message_response(rx_data, verify=True)` of the repaired source (netFn App + 1, command
34h, both checksums) / the byte-5 test of the source as shipped (`cmdOnly`). -/
def isSendMsgRsp (cmdOnly : Bool) (f : Frame) : Bool :=
  if cmdOnly then f.getD 5 0 == Gen.Loops04.cmdSendMessage
  else
    (f.getD 1 0 >>> 2) == Gen.Loops04.netfnApp + 1 && f.getD 5 0 == Gen.Loops04.cmdSendMessage &&
    pyChecksum (f.take 3) == 0 && pyChecksum (f.drop 3) == 0

/-- `decode_bridged_message(rx_data, verify=True)` (as shipped: without `verify`); entered with
`6 ≤ f.length`.
`while is_send_message_response(f): decode SendMessageRsp from f[6:]; check cc; f = f[7:-1]; if len f < 6: break`.
Fuel = length of the frame (each round removes 8 bytes). -/
def peelN (cmdOnly : Bool) : Nat → Frame → Outcome Frame
  | 0, f => .ok f
  | n + 1, f =>
    if isSendMsgRsp cmdOnly f then
      match f.drop 6 with
      | [] => .decodingError                      -- no completion code byte
      | cc :: _ =>
        if cc ≠ 0 then .ccError cc
        else
          let g := (f.drop 7).dropLast
          if g.length < 6 then .ok g else peelN cmdOnly n g
    else .ok f

/-- What the body of the receive loop makes of one frame (from `_q` or from the socket). -/
inductive Cls where
  | err (e : Outcome Frame)      -- an exception leaves `_send_and_receive`
  | ack                          -- bare acknowledgement: `continue`
  | noise (g : Frame)            -- filter said no   (g: the frame after unwrapping)
  | hit (g : Frame)              -- filter said yes
  deriving Repr, DecidableEq

/-- `received = rx_filter(header, rx_data, …)` on a frame that was not unwrapped -/
def plain (checkSeq : Bool) (h : Hdr) (f : Frame) : Cls :=
  if f.length < 6 then .err (.pyError "IndexError")
  else if rxFilter checkSeq h f then .hit f else .noise f

/-- `rx_data = decode_bridged_message(…); if not rx_data: continue`, then the filter -/
def afterPeel (checkSeq : Bool) (h : Hdr) : Outcome Frame → Cls
  | .ok g =>
    if g.isEmpty then .ack
    else if g.length < 6 then .err (.pyError "IndexError")
    else if rxFilter checkSeq h g then .hit g else .noise g
  | e => .err e

/-- `bridge_header` of the repaired source: the Send Message request this transaction has
outstanding (netFn App, LUN 0, command 34h, the request's sequence number); the addresses stay unset
and are not compared. -/
def bridgeHdr (seq : Nat) : Hdr :=
  { rsSa := 0, netfn := Gen.Loops04.netfnApp, rsLun := 0, rqSa := 0, rqLun := 0, seq := seq,
    cmd := Gen.Loops04.cmdSendMessage }

/-- One received frame in the loop body.

As shipped (`cmdOnly`): `if array('B', rx_data)[5] == CMDID_SEND_MESSAGE: rx_data = decode_bridged_message(rx_data)`
whatever request is outstanding.  Repaired: `if bridge_header is not None and rx_filter(bridge_header, rx_data,
rq_seq=…): rx_data = decode_bridged_message(rx_data, verify=True)`; every other frame goes to the reply filter
as it is (`bridge = none`: the request is not bridged). -/
def classify (cmdOnly : Bool) (checkSeq : Bool) (bridge : Option Hdr) (h : Hdr) (f : Frame) : Cls :=
  if cmdOnly then
    if f.length ≤ 5 then .err (.pyError "IndexError")
    else if f.getD 5 0 = Gen.Loops04.cmdSendMessage then afterPeel checkSeq h (peelN true f.length f)
    else plain checkSeq h f
  else
    match bridge with
    | none => plain checkSeq h f
    | some bh =>
      if f.length < 6 then .err (.pyError "IndexError")
      else if rxFilter checkSeq bh f then afterPeel checkSeq h (peelN false f.length f)
      else plain checkSeq h f

/-- What `recvfrom` delivers. -/
inductive RxEvent where
  | frame (bs : Frame)       -- well-formed RMCP + IPMI session wrapper around `bs`
  | badLen (bs : Frame)      -- payload-length byte of the session header is wrong
  | malformed                -- RMCP header with another version
  | timeout                  -- socket.timeout
  deriving Repr, DecidableEq

/-- `maxRetries` and the two quirks are the interface's configuration; the three Booleans select
the state of the SOURCE (DESIGN §2.4) — the defaults are the repaired source, every theorem says
which it is about:

* `requeue`  — before fixes/C04-1.diff an unmatched frame was put back into `_q` (read before the socket);
* `cmdOnly`  — before fixes/C09-1.diff every frame whose sixth byte is 34h was unwrapped as a Send Message
               response, unverified, whether or not the request was bridged;
* `drain`    — since fixes/C04-3.diff the datagrams an earlier request left in the socket are discarded
               before a request is sent. -/
structure Cfg where
  maxRetries : Nat
  ignoreRqSeq : Bool := false
  ignoreSduLength : Bool := false
  requeue : Bool := false
  cmdOnly : Bool := false
  drain : Bool := true
  slaveAddr : Nat := 0x81
  deriving Repr, DecidableEq

/-- the source as pinned (after fixes/C04-1.diff, before C09-1 / C04-3) -/
def Cfg.shipped (c : Cfg) : Cfg := { c with requeue := false, cmdOnly := true, drain := false }

/-- all repairs in place -/
def Cfg.Repaired (c : Cfg) : Prop := c.requeue = false ∧ c.cmdOnly = false ∧ c.drain = true

instance (c : Cfg) : Decidable c.Repaired := by unfold Cfg.Repaired; infer_instance

def Cfg.checkSeq (c : Cfg) : Bool := !c.ignoreRqSeq

/-- `_receive_ipmi_msg`. -/
inductive Recv where
  | got (f : Frame)
  | timeout
  | err (e : Outcome Frame)

def recvIpmi (cfg : Cfg) : RxEvent → Recv
  | .timeout => .timeout
  | .malformed => .err .decodingError
  | .badLen bs =>
    if cfg.ignoreSduLength then (if bs.isEmpty then .err (.pyError "TypeError") else .got bs)
    else .err .decodingError
  | .frame bs => if bs.isEmpty then .err (.pyError "TypeError") else .got bs

/-- Result of running the loop body until a frame has been filtered (bare acknowledgements
are skipped without counting). -/
inductive Next where
  | counted (g : Frame) (isHit : Bool) (q : List Frame) (evs : List RxEvent)
  | timeout (evs : List RxEvent)
  | abort (e : Outcome Frame) (q : List Frame) (evs : List RxEvent)

/-- `_q` is empty: read the socket. -/
def nextSock (cfg : Cfg) (bridge : Option Hdr) (h : Hdr) : List RxEvent → Next
  | [] => .timeout []                      -- nothing more arrives
  | ev :: rest =>
    match recvIpmi cfg ev with
    | .timeout => .timeout rest
    | .err e => .abort e [] rest
    | .got f =>
      match classify cfg.cmdOnly cfg.checkSeq bridge h f with
      | .ack => nextSock cfg bridge h rest
      | .err e => .abort e [] rest
      | .noise g => .counted g false [] rest
      | .hit g => .counted g true [] rest

/-- `if not self._q.empty(): rx_data = self._q.get() else: rx_data = self._receive_ipmi_msg()`. -/
def nextQ (cfg : Cfg) (bridge : Option Hdr) (h : Hdr) : List Frame → List RxEvent → Next
  | [], evs => nextSock cfg bridge h evs
  | f :: q, evs =>
    match classify cfg.cmdOnly cfg.checkSeq bridge h f with
    | .ack => nextQ cfg bridge h q evs
    | .err e => .abort e q evs
    | .noise g => .counted g false q evs
    | .hit g => .counted g true q evs

inductive Inner where
  | done (g : Frame) (q : List Frame) (evs : List RxEvent)
  | exhausted (q : List Frame) (evs : List RxEvent)      -- RetryError "Max retry while checking…"
  | timeout (evs : List RxEvent)
  | abort (e : Outcome Frame) (q : List Frame) (evs : List RxEvent)

/-- `while received is False and received_retry <= self.max_retries`; `b` = iterations left. -/
def inner (cfg : Cfg) (bridge : Option Hdr) (h : Hdr) : Nat → List Frame → List RxEvent → Inner
  | 0, q, evs => .exhausted q evs
  | b + 1, q, evs =>
    match nextQ cfg bridge h q evs with
    | .counted g true q' evs' => .done g q' evs'
    | .counted g false q' evs' => inner cfg bridge h b (if cfg.requeue then q' ++ [g] else q') evs'
    | .timeout evs' => .timeout evs'
    | .abort e q' evs' => .abort e q' evs'

/-- Python `rx_data[a:-b]` (b ≥ 1). -/
def pySlice (lo hi : Nat) (f : Frame) : Frame := (f.take (f.length - hi)).drop lo

structure Result where
  out : Outcome Frame
  queue : List Frame
  rest : List RxEvent
  sends : Nat
  deriving Repr

def innerBudget (cfg : Cfg) : Nat := cfg.maxRetries + Gen.Loops04.rmcpInnerExtra
def outerBudget (cfg : Cfg) : Nat := cfg.maxRetries + Gen.Loops04.rmcpOuterExtra

/-- `while retry <= self.max_retries: try: send; … except socket.timeout: retry += 1`;
`r` = iterations left, `n` = datagrams sent so far. -/
def outer (cfg : Cfg) (bridge : Option Hdr) (h : Hdr) : Nat → List Frame → List RxEvent → Nat → Result
  | 0, q, evs, n => ⟨.retryError, q, evs, n⟩
  | r + 1, q, evs, n =>
    match inner cfg bridge h (innerBudget cfg) q evs with
    | .done g q' evs' => ⟨.ok (pySlice Gen.Loops04.rmcpDataLo Gen.Loops04.rmcpDataHi g), q', evs', n + 1⟩
    | .exhausted q' evs' => ⟨.retryError, q', evs', n + 1⟩
    | .abort e q' evs' => ⟨e, q', evs', n + 1⟩
    | .timeout evs' => outer cfg bridge h r [] evs' (n + 1)

/-- A request as passed to `send_and_receive_raw`. -/
structure Req where
  rsSa : Nat
  netfn : Nat
  lun : Nat
  cmd : Nat
  payload : List Nat := []
  routing : List Hop := []
  deriving Repr, DecidableEq

/-- What an `Rmcp` object carries from one request to the next: the sequence counter, `_q`, and —
not an attribute of the object but just as persistent — the receive queue of its UDP socket: the
datagrams that were delivered while an earlier request was under way and that nobody has read. -/
structure IfState where
  nextSeq : Nat
  queue : List Frame
  sock : List RxEvent := []
  deriving Repr, DecidableEq

def IfState.init : IfState := ⟨Gen.Loops04.rmcpSeqInit, [], []⟩

/-- `_inc_sequence_number`. -/
def incSeq (s : Nat) : Nat := (s + Gen.Loops04.rmcpSeqInc) % Gen.Loops04.rmcpSeqMod

def mkHdr (slaveAddr : Nat) (req : Req) (seq : Nat) : Hdr :=
  { rsSa := req.rsSa, netfn := req.netfn, rsLun := req.lun, rqSa := slaveAddr, rqLun := 0,
    seq := seq, cmd := req.cmd }

def txData (cfg : Cfg) (req : Req) (seq : Nat) : Frame :=
  let h := mkHdr cfg.slaveAddr req seq
  if req.routing.isEmpty then encodeIpmbMsg h req.payload
  else encodeBridged req.routing h req.payload seq

/-- `bridge_header`: set only when the routing has more than one entry (a one-entry routing sends the
plain request) -/
def bridgeOf (req : Req) (seq : Nat) : Option Hdr :=
  if 1 < req.routing.length then some (bridgeHdr seq) else none

/-- a datagram (not a period of silence) -/
def RxEvent.isDatagram : RxEvent → Bool
  | .timeout => false
  | _ => true

/-- What stays in the socket: the datagrams among the events a request did not read (silence leaves
nothing behind). -/
def leftover (evs : List RxEvent) : List RxEvent := evs.filter RxEvent.isDatagram

/-- What the receive calls of a request see, oldest first: as shipped whatever is still in the socket,
then what arrives; repaired (`_drain_socket` before the request is sent) only what arrives. -/
def pending (cfg : Cfg) (st : IfState) (evs : List RxEvent) : List RxEvent :=
  if cfg.drain then evs else st.sock ++ evs

structure Step where
  st : IfState
  out : Outcome Frame
  tx : List Frame
  rest : List RxEvent
  deriving Repr

/-- One call of `Rmcp._send_and_receive` on an interface in state `st` while the network delivers
`evs`.  Everything happens under `transaction_lock`: the sequence number is advanced, header and frame
are built, the socket is drained (repaired source), then the loops run.  The events the loops did not
consume stay in the socket (`leftover`) for whoever reads it next. -/
def rmcpRequest (cfg : Cfg) (st : IfState) (req : Req) (evs : List RxEvent) : Step :=
  let seq := incSeq st.nextSeq
  let h := mkHdr cfg.slaveAddr req seq
  let r := outer cfg (bridgeOf req seq) h (outerBudget cfg) st.queue (pending cfg st evs) 0
  { st := ⟨seq, r.queue, leftover r.rest⟩, out := r.out, tx := List.replicate r.sends (txData cfg req seq),
    rest := r.rest }

/-- Several requests on one interface object; `evs` of a request is what the network delivers from
the moment the request is sent — what the request does not read is still there for the next one. -/
def runSession (cfg : Cfg) (st : IfState) : List (Req × List RxEvent) → IfState
  | [] => st
  | (req, evs) :: more => runSession cfg (rmcpRequest cfg st req evs).st more

/-- Payloads of the datagrams that `_receive_ipmi_msg` can hand to the loop. -/
def framesOf : List RxEvent → List Frame
  | [] => []
  | .frame bs :: r => bs :: framesOf r
  | .badLen bs :: r => bs :: framesOf r
  | _ :: r => framesOf r

/-! ## What the functions above hard-wire, as the source states it

`Shape.rmcp` is `Rmcp._send_and_receive` written in the syntax of Model/LoopAst.lean; the
translator writes the same function, re-read from the working tree, to
`Gen.Loops04.rmcpSendAndReceive` on every run, and `Props.C04.source_shape_rmcp` states that the
two are EQUAL.  Each statement is annotated with the place of this file that mirrors it, so a
statement that moves, disappears, appears or changes breaks that theorem and points here.

This is the REPAIRED source (`Cfg.Repaired`: fixes/C04-1, C09-1, C04-2, C04-3).  What the pinned source had
instead: `if not received: self._q.put(rx_data)` in front of `received_retry += 1` (`requeue`, before C04-1);
`if array('B', rx_data)[5] == constants.CMDID_SEND_MESSAGE:` + `decode_bridged_message(rx_data)` and no
`bridge_header` (`cmdOnly`, before C09-1); the statements up to `tx_data = …` in FRONT of the `with`
block (before C04-2: two threads could put the same `rq_seq` on consecutive requests — C14); no
`self._drain_socket()` (`drain = false`, before C04-3). -/
namespace Shape
open PyIpmi.LoopAst

/-- variables: 0=target, 1=lun, 2=netfn, 3=cmdid, 4=payload (parameters), 5=header, 6=bridge_header,
7=tx_data, 8=retry, 9=received, 10=received_retry, 11=rx_data -/
def rmcp : Fun :=
  { params := 5, body := py[
    -- ONE lock block around everything that touches `next_sequence_number`, the socket or `_q`: allocating
    -- the sequence number, building the frame and the whole exchange are one critical section (C14:
    -- `Threads` model, `rq_seq_distinct_on_wire`)
    .with_ (.attr .self_ .transaction_lock) py[
      -- `rmcpRequest`: `seq := incSeq st.nextSeq` comes FIRST and on every path — the new state
      -- carries `seq` whatever the outcome (a failed request uses its number up)
      .expr (.call (.attr .self_ .u_inc_sequence_number) args[]),
      -- `mkHdr cfg.slaveAddr req seq`: the seven header fields; rq_seq is the number just advanced
      .assign (.var 5) (.call (.glob .IpmbHeaderReq) args[]),
      .assign (.attr (.var 5) .netfn) (.var 2),
      .assign (.attr (.var 5) .rs_lun) (.var 1),
      .assign (.attr (.var 5) .rs_sa) (.attr (.var 0) .ipmb_address),
      .assign (.attr (.var 5) .rq_seq) (.attr .self_ .next_sequence_number),
      .assign (.attr (.var 5) .rq_lun) (.num 0),
      .assign (.attr (.var 5) .rq_sa) (.attr .self_ .slave_address),
      .assign (.attr (.var 5) .cmdid) (.var 3),
      -- `bridgeOf req seq`: `none` unless the request goes out inside a Send Message …
      .assign (.var 6) .none,
      -- `txData`: built ONCE, before the loops, with the same number (also in every Send Message envelope)
      .ite (.attr (.var 0) .routing) py[
        .assign (.var 7) (.call (.glob .encode_bridged_message) args[.attr (.var 0) .routing, .var 5, .var 4, .attr .self_ .next_sequence_number]),
        -- … `some (bridgeHdr seq)` when the routing has more than one entry: netFn App, LUN 0, the SAME
        -- sequence number, command Send Message (`Gen.netfnApp`, `Gen.cmdSendMessage`)
        .ite (.cmp .gt (.call (.glob .len) args[.attr (.var 0) .routing]) (.num 1)) py[
          .assign (.var 6) (.call (.glob .IpmbHeaderReq) args[]),
          .assign (.attr (.var 6) .netfn) (.attr (.glob .constants) .NETFN_APP),
          .assign (.attr (.var 6) .rs_lun) (.num 0),
          .assign (.attr (.var 6) .rq_seq) (.attr (.var 5) .rq_seq),
          .assign (.attr (.var 6) .cmdid) (.attr (.glob .constants) .CMDID_SEND_MESSAGE)] py[]] py[
        .assign (.var 7) (.call (.glob .encode_ipmb_msg) args[.var 5, .var 4])],
      -- `pending cfg st evs` with `cfg.drain = true`: what is still in the socket is discarded BEFORE the
      -- request is sent (`Shape.rmcpDrainSocket`); the loops see only what arrives from now on
      .expr (.call (.attr .self_ .u_drain_socket) args[]),
      -- `outer … (outerBudget cfg) … 0`: counter from 0 while `<= max_retries` (Gen.rmcpOuterExtra = 1)
      .assign (.var 8) (.num 0),
      .while_ (.cmp .le (.var 8) (.attr .self_ .max_retries)) py[
        .try_ py[
          -- `outer`: every round sends the SAME tx_data once (`n + 1`, `List.replicate r.sends (txData …)`)
          .expr (.call (.attr .self_ .u_send_ipmi_msg) args[.var 7]),
          -- `inner cfg bridge h (innerBudget cfg)`: fresh budget every round, `<= max_retries` (Gen.rmcpInnerExtra = 1)
          .assign (.var 9) .ff,
          .assign (.var 10) (.num 0),
          .while_ (.and_ (.cmp .is_ (.var 9) .ff) (.cmp .le (.var 10) (.attr .self_ .max_retries))) py[
            -- `nextQ` before `nextSock`: `_q` is read first, the socket only when it is empty;
            -- `socket.timeout` from the receive leaves BOTH inner constructs (`Next.timeout`, `Inner.timeout`)
            .ite (.not_ (.call (.attr (.attr .self_ .u_q) .empty) args[])) py[
              .assign (.var 11) (.call (.attr (.attr .self_ .u_q) .get) args[])] py[
              .assign (.var 11) (.call (.attr .self_ .u_receive_ipmi_msg) args[.attr .self_ .ignore_sdu_length])],
            -- `classify` (cmdOnly = false): ONLY with a `bridge_header` and ONLY a frame that passes
            -- `rxFilter cfg.checkSeq bh` (both checksums, netFn 07h, command 34h, LUN 0, this request's
            -- sequence number) is unwrapped — `peelN false`, every layer verified; an empty result = bare
            -- acknowledgement = `Cls.ack` → `continue` WITHOUT touching the counter (`nextQ`/`nextSock` recurse)
            .ite (.and_ (.cmp .isNot (.var 6) .none) (.call (.glob .rx_filter) args[.var 6, .var 11, .kw .rq_seq (.not_ (.attr .self_ .ignore_rq_seq))])) py[
              .assign (.var 11) (.call (.glob .decode_bridged_message) args[.var 11, .kw .verify .tt]),
              .ite (.not_ (.var 11)) py[
                .cont] py[]] py[],
            -- `plain` / `afterPeel`: `rxFilter cfg.checkSeq h g` decides hit / noise, `received` is ONLY ever the filter's verdict
            .assign (.var 9) (.call (.glob .rx_filter) args[.var 5, .var 11, .kw .rq_seq (.not_ (.attr .self_ .ignore_rq_seq))]),
            -- `inner`: a filtered frame costs one unit of budget (`b + 1 ↦ b`); NOTHING is put back into
            -- `_q` (`cfg.requeue = false`: the unmatched frame is dropped)
            .aug .add (.var 10) (.num 1)] py[],
          -- `Inner.exhausted` → RetryError leaves the function (not caught: only socket.timeout is)
          .ite (.not_ (.var 9)) py[
            .raise (.glob .RetryError)] py[],
          -- `Inner.done g` → leave the retry loop with rx_data = the frame that passed the filter
          .brk] (.cons (.attr (.glob .socket) .timeout) py[
          -- `Inner.timeout` → `outer … r …`: one retry used, next round re-sends
          .aug .add (.var 8) (.num 1)] .nil)] py[]],
    -- `outer 0` → RetryError: the give-up test is the COUNTER, not the content of rx_data
    .ite (.cmp .gt (.var 8) (.attr .self_ .max_retries)) py[
      .raise (.glob .RetryError)] py[],
    -- `Inner.done g` → `.ok (pySlice Gen.rmcpDataLo Gen.rmcpDataHi g)`; rx_data can only be a frame that
    -- passed rx_filter in the LAST round (`break` is the only way here with retry <= max_retries)
    .ret (.slice (.var 11) (.num 6) (.neg 1))] }

/-- `Rmcp._drain_socket`: `pending` with `drain = true` forgets `st.sock` — every datagram that is
already in the socket is read and thrown away with the socket non-blocking (`settimeout(0)`: a read
never waits, so nothing that arrives later is touched and no time passes), until a read finds nothing
(`BlockingIOError`, an `OSError`); the caller's timeout is restored on every path.  variables: 0=timeout -/
def rmcpDrainSocket : Fun :=
  { params := 0, body := py[
    .assign (.var 0) (.call (.attr (.attr .self_ .u_sock) .gettimeout) args[]),
    .expr (.call (.attr (.attr .self_ .u_sock) .settimeout) args[.num 0]),
    .tryf py[
      .while_ .tt py[
        .expr (.call (.attr (.attr .self_ .u_sock) .recvfrom) args[.num 4096])] py[]] (.cons (.glob .OSError) py[
      .pass_] .nil) py[
      .expr (.call (.attr (.attr .self_ .u_sock) .settimeout) args[.var 0])]] }

end Shape

end PyIpmi.Loops
