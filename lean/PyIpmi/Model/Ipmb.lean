/-
  Executable model of `pyipmi/interfaces/ipmb.py` (framing part):
  `checksum`, `IpmbHeaderReq.encode`, `IpmbHeaderRsp.decode`, `encode_ipmb_msg`, `rx_filter`.

  The arithmetic content (which bytes, which checks) is NOT written here: it is evaluated from
  `Gen/IpmbFilter.lean`, regenerated from the source on every run.  What is hand-written is the
  control flow around it, mirrored from the Python:

    * `array('B').append(v)` raises OverflowError when `v > 255`;
    * `IpmbHeaderRsp(data=data)` skips `decode` when `data` is empty (fields stay `None`, and the
      debug line `'{:d}'.format(None)` of the first failing check raises TypeError);
    * `data[k]` on a frame shorter than the largest index raises IndexError;
    * optional checks are appended under their flag; the result is the conjunction of all
      `left == right`;
    * `encode_ipmb_msg`: header bytes, data, then `checksum(msg[3:])`.
-/
import PyIpmi.Base.Outcome
import PyIpmi.Gen.IpmbFilter
namespace PyIpmi.Ipmb
open PyIpmi PyIpmi.Spec.Wire

/-- `checksum(data)` -/
def pyChecksum (l : List Nat) : Nat := runChecksum Gen.IpmbFilter.cksum l

/-- the `data.append(...)` sequence of a header `encode` -/
def appendAll (h : Hdr) : List Term → List Nat → Outcome (List Nat)
  | [], acc => .ok acc
  | t :: ts, acc =>
    let v := evalTerm Gen.IpmbFilter.cksum { self := h, bytes := acc } t
    if v < 256 then appendAll h ts (acc ++ [v]) else .pyError "OverflowError"

/-- `IpmbHeaderReq.encode()` -/
def encodeHeader (h : Hdr) : Outcome (List Nat) := appendAll h Gen.IpmbFilter.reqHeaderBytes []

/-- `encode_ipmb_msg(header, data)` (`data=None` behaves as `b''`) -/
def encodeIpmbMsg (h : Hdr) (data : List Nat) : Outcome (List Nat) :=
  match encodeHeader h with
  | .ok hdr =>
    let msg := hdr ++ data
    .ok (msg ++ [pyChecksum (msg.drop 3)])
  | e => e

/-- number of bytes `IpmbHeaderRsp.decode` touches -/
def rspNeeds : Nat :=
  ((Gen.IpmbFilter.rspHeaderFields.map (fun p => needs p.2)) ++ Gen.IpmbFilter.rspIgnored.map needs).foldl max 0

/-- `IpmbHeaderRsp.decode(data)` for a long enough frame -/
def decodeRspFields (f : List Nat) : Hdr :=
  Gen.IpmbFilter.rspHeaderFields.foldl (fun h p => hset h p.1 (eval { bytes := f } p.2)) default

/-- is this check in the `checks` list under flags `fl`? -/
def active (fl : Flags) (c : Check) : Bool :=
  match c.guard with
  | none => true
  | some g => fget fl g

def checkHolds (req rsp : Hdr) (f : List Nat) (c : Check) : Bool :=
  let ρ : Env := { self := req, rsp := rsp, bytes := f }
  evalTerm Gen.IpmbFilter.cksum ρ c.lhs == evalTerm Gen.IpmbFilter.cksum ρ c.rhs

/-- `rx_filter(header, data, rq_sa=…, rs_sa=…, rq_lun=…, rs_lun=…, rq_seq=…)` -/
def rxFilter (req : Hdr) (f : List Nat) (fl : Flags) : Outcome Bool :=
  if f.length = 0 then .pyError "TypeError"
  else if f.length < rspNeeds then .pyError "IndexError"
  else
    let rsp := decodeRspFields f
    .ok ((Gen.IpmbFilter.rxChecks.filter (active fl)).all (checkHolds req rsp f))

end PyIpmi.Ipmb
