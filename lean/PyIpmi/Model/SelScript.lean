/-
  Model/SelScript.lean — the SEL loops of pyipmi/sel.py (Model/SelXfer.lean: `get_sel_entry`,
  `get_and_clear_sel_entry`) run against an OUTCOME SCRIPT (C13), the way Model/SdrXfer.lean's
  `scriptX` does it for the SDR reads:

    * every Get SEL Entry / Delete SEL Entry consumes one letter of `script` (a finite prefix, then
      one letter for ever - `Model.Retry.Script`): a letter with completion code 0 ("completed",
      "in progress") is served - a Get returns exactly the requested bytes of the one record the
      device holds (`FFh` = all from the offset on), a Delete is acknowledged -, any other letter is
      answered with its bare completion code;
    * the Reserve SEL requests have their own outcome list `rplan` (first Reserve, renewals …): a
      letter with code 0 (or an exhausted list) grants the next consecutive reservation id, any
      other letter is answered with its code.  (Two lists because an "every request is answered
      C5h" script would never get past the first Reserve.)

  Nothing here follows the library: what a real device does about limits and reservations is the
  reference device of C12 (Spec/SelDevice.lean).  Core Lean only.
-/
import PyIpmi.Model.Retry
import PyIpmi.Model.SelXfer
namespace PyIpmi.SelXfer
open PyIpmi
open PyIpmi.Model.Retry (Script Letter)
open PyIpmi.FruXfer (Wire Xchg Send World Res xchg castErr)

structure ScriptSel where
  script : Script          -- outcomes of Get SEL Entry / Delete SEL Entry
  rplan : List Letter      -- outcomes of the Reserve SEL requests, in order; then always granted
  lastRes : Nat            -- reservation ids are granted consecutively: lastRes + 1, …
  entry : List Nat         -- the record served (16 bytes)
  next : Nat               -- "next record id" reported with it
  deriving Repr, Inhabited

def ScriptSel.grant (d : ScriptSel) (rplan : List Letter) : ScriptSel × List Nat :=
  let id := d.lastRes + 1
  ({ d with lastRes := id, rplan := rplan }, [0, id % 256, id / 256 % 256])

def scriptSend : Send ScriptSel := fun d cmd p =>
  if cmd = 0x42 then
    match d.rplan with
    | [] => d.grant []
    | l :: rest => if l.code = 0 then d.grant rest else ({ d with rplan := rest }, [l.code])
  else if cmd = 0x43 then
    let d' := { d with script := d.script.next.2 }
    if d.script.next.1.code ≠ 0 then (d', [d.script.next.1.code])
    else
      match p with
      | [_, _, _, _, off, len] =>
        (d', 0 :: d.next % 256 :: d.next / 256 % 256 ::
          (if len = 0xFF then d.entry.drop off else (d.entry.drop off).take len))
      | _ => (d', [0xC7])
  else if cmd = 0x46 then
    let d' := { d with script := d.script.next.2 }
    if d.script.next.1.code ≠ 0 then (d', [d.script.next.1.code])
    else
      match p with
      | [_, _, ilo, ihi] => (d', [0, ilo, ihi])
      | _ => (d', [0xC7])
  else (d, [0xC1])

/-- get_sel_entry(record_id, reservation) on an outcome script. -/
def runEntry (cfg : Cfg) (v : Variant) (d : ScriptSel) (rid res : Nat) : Res ScriptSel (List Nat × Nat) :=
  getSelEntry cfg v scriptSend ⟨d, []⟩ rid res

/-- get_and_clear_sel_entry(record_id, retry = n) on an outcome script (as shipped `n` is fuel). -/
def runGac (cfg : Cfg) (v : Variant) (n : Nat) (d : ScriptSel) (rid : Nat) : Res ScriptSel (List Nat) :=
  getAndClear cfg v scriptSend n ⟨d, []⟩ rid

end PyIpmi.SelXfer
