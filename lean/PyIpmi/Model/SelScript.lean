/-
  Model/SelScript.lean — the SEL loops of pyipmi/sel.py (Model/SelXfer.lean: `get_sel_entry`,
  `get_and_clear_sel_entry`) run against an OUTCOME SCRIPT (C13), the way Model/SdrXfer.lean's
  `scriptX` does it for the SDR reads:

    * every Get SEL Entry / Delete SEL Entry consumes one letter of `script` (a finite prefix, then
      one letter for ever - `Model.Retry.Script`): a letter with completion code 0 ("completed",
      "in progress") is served, any other letter is answered with its bare completion code;
    * "completed" says nothing about HOW MUCH data the answer carries: in step with `script` runs
      `caps` (`Caps`: a finite prefix, then one value for ever) - a served Get SEL Entry returns the
      requested bytes of the one record the device holds (`FFh` = all from the offset on), cut to at
      most `k` bytes where the cap is `some k`: completed with k' bytes, 0 ≤ k' ≤ requested.
      `some 0` is the answer `00 next-lo next-hi` without a single record byte; `none` the full
      answer.  A served Delete is acknowledged (the cap of its letter plays no role);
    * the Reserve SEL requests have their own outcome list `rplan` (first Reserve, renewals …): a
      letter with code 0 (or an exhausted list) grants the next consecutive reservation id, any
      other letter is answered with its code.  (Two lists because an "every request is answered
      C5h" script would never get past the first Reserve.)

  Nothing here follows the library: what a real device does about limits and reservations is the
  reference device of C12 (Spec/SelDevice.lean).  Core Lean only.
-/
import PyIpmi.Model.Retry
import PyIpmi.Model.SelXfer
namespace PyIpmi.SelXfer
open PyIpmi
open PyIpmi.Model.Retry (Script Letter)
open PyIpmi.FruXfer (Wire Xchg Send World Res xchg castErr)

/-- How many record bytes the successive served answers carry at most (`none`: all asked for), in
step with the outcome script: a finite prefix, then one value for ever. -/
structure Caps where
  pre : List (Option Nat)
  tail : Option Nat
  deriving Repr, DecidableEq, Inhabited

def Caps.next (c : Caps) : Option Nat × Caps :=
  match c.pre with
  | [] => (c.tail, c)
  | x :: rest => (x, { c with pre := rest })

/-- every completed answer carries all the bytes asked for -/
def Caps.full : Caps := ⟨[], none⟩

/-- every completed answer carries no record byte at all -/
def Caps.zero : Caps := ⟨[], some 0⟩

/-- no completed answer is empty: every cap leaves at least one byte -/
def Caps.Positive (c : Caps) : Prop := (∀ k, some k ∈ c.pre → 1 ≤ k) ∧ (∀ k, c.tail = some k → 1 ≤ k)

/-- the bytes a served answer carries under a cap -/
def cut (cap : Option Nat) (data : List Nat) : List Nat :=
  match cap with
  | none => data
  | some k => data.take k

structure ScriptSel where
  script : Script          -- outcomes of Get SEL Entry / Delete SEL Entry
  caps : Caps              -- … and how many bytes a served Get carries at most
  rplan : List Letter      -- outcomes of the Reserve SEL requests, in order; then always granted
  lastRes : Nat            -- reservation ids are granted consecutively: lastRes + 1, …
  entry : List Nat         -- the record served (16 bytes)
  next : Nat               -- "next record id" reported with it
  deriving Repr, Inhabited

def ScriptSel.grant (d : ScriptSel) (rplan : List Letter) : ScriptSel × List Nat :=
  let id := d.lastRes + 1
  ({ d with lastRes := id, rplan := rplan }, [0, id % 256, id / 256 % 256])

/-- one letter (and its cap) consumed -/
def ScriptSel.advance (d : ScriptSel) : ScriptSel :=
  { d with script := d.script.next.2, caps := d.caps.next.2 }

def scriptSend : Send ScriptSel := fun d cmd p =>
  if cmd = 0x42 then
    match d.rplan with
    | [] => d.grant []
    | l :: rest => if l.code = 0 then d.grant rest else ({ d with rplan := rest }, [l.code])
  else if cmd = 0x43 then
    if d.script.next.1.code ≠ 0 then (d.advance, [d.script.next.1.code])
    else
      match p with
      | [_, _, _, _, off, len] =>
        (d.advance, 0 :: d.next % 256 :: d.next / 256 % 256 ::
          cut d.caps.next.1 (if len = 0xFF then d.entry.drop off else (d.entry.drop off).take len))
      | _ => (d.advance, [0xC7])
  else if cmd = 0x46 then
    if d.script.next.1.code ≠ 0 then (d.advance, [d.script.next.1.code])
    else
      match p with
      | [_, _, ilo, ihi] => (d.advance, [0, ilo, ihi])
      | _ => (d.advance, [0xC7])
  else (d, [0xC1])

/-- get_sel_entry(record_id, reservation) on an outcome script. -/
def runEntry (cfg : Cfg) (v : Variant) (d : ScriptSel) (rid res : Nat) : Res ScriptSel (List Nat × Nat) :=
  getSelEntry cfg v scriptSend ⟨d, []⟩ rid res

/-- get_and_clear_sel_entry(record_id, retry = n) on an outcome script (as shipped `n` is fuel). -/
def runGac (cfg : Cfg) (v : Variant) (n : Nat) (d : ScriptSel) (rid : Nat) : Res ScriptSel (List Nat) :=
  getAndClear cfg v scriptSend n ⟨d, []⟩ rid

end PyIpmi.SelXfer
