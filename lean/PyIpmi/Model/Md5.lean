/-
  MD5 (RFC 1321) over byte lists, core Lean only.

  Stands in for `hashlib.md5(x).digest()` in the executable drivers.  The theorems of C05/C06
  take the digest function as a parameter (they are about WHAT is hashed, not about MD5);
  this implementation is validated against `hashlib` on the RFC 1321 test suite and on seeded
  random inputs around every padding boundary in each run of C05 (`md5` driver op).
  The only fact proved about it is the digest length.
-/
import PyIpmi.Base.Bytes
namespace PyIpmi.Md5
open PyIpmi

def M32 : Nat := 4294967296

/-- floor(2^32 · |sin(i+1)|) -/
def K : Array Nat := #[
  0xd76aa478, 0xe8c7b756, 0x242070db, 0xc1bdceee, 0xf57c0faf, 0x4787c62a, 0xa8304613, 0xfd469501,
  0x698098d8, 0x8b44f7af, 0xffff5bb1, 0x895cd7be, 0x6b901122, 0xfd987193, 0xa679438e, 0x49b40821,
  0xf61e2562, 0xc040b340, 0x265e5a51, 0xe9b6c7aa, 0xd62f105d, 0x02441453, 0xd8a1e681, 0xe7d3fbc8,
  0x21e1cde6, 0xc33707d6, 0xf4d50d87, 0x455a14ed, 0xa9e3e905, 0xfcefa3f8, 0x676f02d9, 0x8d2a4c8a,
  0xfffa3942, 0x8771f681, 0x6d9d6122, 0xfde5380c, 0xa4beea44, 0x4bdecfa9, 0xf6bb4b60, 0xbebfbc70,
  0x289b7ec6, 0xeaa127fa, 0xd4ef3085, 0x04881d05, 0xd9d4d039, 0xe6db99e5, 0x1fa27cf8, 0xc4ac5665,
  0xf4292244, 0x432aff97, 0xab9423a7, 0xfc93a039, 0x655b59c3, 0x8f0ccc92, 0xffeff47d, 0x85845dd1,
  0x6fa87e4f, 0xfe2ce6e0, 0xa3014314, 0x4e0811a1, 0xf7537e82, 0xbd3af235, 0x2ad7d2bb, 0xeb86d391]

/-- per-round left-rotation amounts -/
def S : Array Nat := #[
  7, 12, 17, 22, 7, 12, 17, 22, 7, 12, 17, 22, 7, 12, 17, 22,
  5, 9, 14, 20, 5, 9, 14, 20, 5, 9, 14, 20, 5, 9, 14, 20,
  4, 11, 16, 23, 4, 11, 16, 23, 4, 11, 16, 23, 4, 11, 16, 23,
  6, 10, 15, 21, 6, 10, 15, 21, 6, 10, 15, 21, 6, 10, 15, 21]

def rotl (x s : Nat) : Nat := ((x <<< s) % M32) ||| (x >>> (32 - s))

def not32 (x : Nat) : Nat := (M32 - 1) ^^^ x

/-- message ++ 0x80 ++ zeros up to 56 mod 64 ++ bit length as 8 little-endian bytes -/
def pad (msg : List Nat) : List Nat :=
  let n := msg.length
  let z := (55 + 64 - n % 64) % 64
  msg ++ [0x80] ++ List.replicate z 0 ++ leBytes 8 ((8 * n) % 18446744073709551616)

/-- 16 little-endian 32-bit words of one 64-byte block -/
def words : Nat → List Nat → List Nat
  | 0, _ => []
  | n + 1, l => leVal (l.take 4) :: words n (l.drop 4)

structure St where
  a : Nat
  b : Nat
  c : Nat
  d : Nat

def round (w : Array Nat) (s : St) (i : Nat) : St :=
  let (f, g) :=
    if i < 16 then ((s.b &&& s.c) ||| (not32 s.b &&& s.d), i)
    else if i < 32 then ((s.d &&& s.b) ||| (not32 s.d &&& s.c), (5 * i + 1) % 16)
    else if i < 48 then (s.b ^^^ s.c ^^^ s.d, (3 * i + 5) % 16)
    else (s.c ^^^ (s.b ||| not32 s.d), (7 * i) % 16)
  let x := (s.a + f + K[i]! + w[g]!) % M32
  { a := s.d, d := s.c, c := s.b, b := (s.b + rotl x S[i]!) % M32 }

def block (s : St) (blk : List Nat) : St :=
  let w := (words 16 blk).toArray
  let r := (List.range 64).foldl (round w) s
  { a := (s.a + r.a) % M32, b := (s.b + r.b) % M32, c := (s.c + r.c) % M32, d := (s.d + r.d) % M32 }

/-- fold over the 64-byte blocks; `fuel` = number of blocks -/
def blocks : Nat → St → List Nat → St
  | 0, s, _ => s
  | n + 1, s, l => blocks n (block s (l.take 64)) (l.drop 64)

def md5 (msg : List Nat) : List Nat :=
  let p := pad msg
  let s := blocks (p.length / 64) ⟨0x67452301, 0xefcdab89, 0x98badcfe, 0x10325476⟩ p
  leBytes 4 s.a ++ leBytes 4 s.b ++ leBytes 4 s.c ++ leBytes 4 s.d

theorem md5_length (msg : List Nat) : (md5 msg).length = 16 := by
  simp [md5]

theorem md5_bytes (msg : List Nat) : Bytes (md5 msg) := by
  unfold md5
  exact Bytes.append (Bytes.append (Bytes.append (leBytes_bytes _ _) (leBytes_bytes _ _))
    (leBytes_bytes _ _)) (leBytes_bytes _ _)

end PyIpmi.Md5
