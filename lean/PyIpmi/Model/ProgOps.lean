/-
  The SEL / SDR operations of pyipmi.Ipmi as instances of the handler models of
  Model/ProgMore.lean, and the scripted device they are run against in the C08
  correspondence (the Lean twin of `harness/sim/fault_iface.py` for the record reads).

  Requests carry their fields as numbers (`[reservation, record id, offset, length]`): the byte
  layout is the codec's business (C01/C02), not this property's.

  * `opGetSelEntry`, `opSelEntries`, `opGetAndClear`      pyipmi/sel.py
  * `opSdrChunk`, `opGetSdr`, `opSdrEntries`              pyipmi/sdr.py, pyipmi/sensor.py over helper.py
  * `Script`, `Script.base`                               a stateless BMC holding SEL and SDR records

  Core Lean only (the driver links it).
-/
import PyIpmi.Model.ProgMore
namespace PyIpmi.Prog.Ops
open PyIpmi.Prog

/-! ### request classes (tags of the scripted device, not registry indices) -/
def cSelInfo : Nat := 20
def cReserveSel : Nat := 21
def cGetSel : Nat := 22
def cDelSel : Nat := 23
def cReserveSdr : Nat := 30
def cGetSdr : Nat := 31

/-- Get SEL Entry / Get SDR / Get Device SDR: reservation, record id, offset, bytes to read. -/
def mkGet (cmd res rid off len : Nat) : Req := ⟨cmd, [res, rid, off, len]⟩

/-- The answer to a record read: next record id, then the bytes. -/
def rspNext (r : Rsp) : Nat := r.data.headD 0
def rspPay (r : Rsp) : List Nat := r.data.tail

/-- `rsp = send_message_with_name('Reserve…'); return rsp.reservation_id` -/
def reserveOp (cmd : Nat) : Prog Nat :=
  (sendChecked ⟨cmd, []⟩).bind fun rsp => .done (rsp.data.headD 0)

/-- `req.reservation_id = r` -/
def setResOp (r : Nat) (q : Req) : Req := { q with data := r :: q.data.tail }

/-! ### pyipmi/sel.py -/

/-- `(SelEntry(record_data), rsp.next_record_id)`: 16 bytes and a known record type, else DecodingError. -/
def finSel (data : List Nat) (next : Nat) : Res (List Nat × Nat) :=
  if data.length ≠ 16 then .error .decodingError
  else
    let t := data.getD 2 0
    if t = 2 ∨ (0xC0 ≤ t ∧ t < 0x100) then .ok (data, next) else .error .decodingError

def selFuel : Nat := 64

/-- Sel.get_sel_entry(record_id, reservation) -/
def opGetSelEntry (cfg : SelCfg) (res rid : Nat) : Prog (List Nat × Nat) :=
  getSelEntry cfg (mkGet cGetSel res rid) rspNext rspPay finSel selFuel

/-- Sel.sel_entries / get_sel_entries -/
def opSelEntries (cfg : SelCfg) (first last fuel : Nat) : Prog (List (List Nat × Nat)) :=
  selEntries ⟨cSelInfo, []⟩ (fun rsp => rsp.data.headD 0) (reserveOp cReserveSel)
    (opGetSelEntry cfg) (fun b => .ok b.2) first last fuel

/-- what get_and_clear_sel_entry ends with when its rounds are used up: RetryError where the source has
a retry budget (`budget = some default`), else the model is out of fuel on a `while True` -/
def gacExhaust (budget : Option Nat) : Err := if budget.isSome then .retryError else .pyError "Hang"

/-- Sel.get_and_clear_sel_entry(record_id[, retry]); `fuel` = `retry` where there is a budget -/
def opGetAndClear (cfg : SelCfg) (cancel : Nat) (budget : Option Nat) (fuel rid : Nat) : Prog (List Nat) :=
  getAndClear cancel (reserveOp cReserveSel)
    (fun res => (opGetSelEntry cfg res rid).bind fun b => .done b.1)
    (fun res => ⟨cDelSel, [res, rid]⟩) (gacExhaust budget) fuel

/-! ### pyipmi/sdr.py, pyipmi/sensor.py -/

/-- `_get_sdr_chunk` / `_get_device_sdr_chunk` (get_sdr_chunk_helper with `retry` = 5). -/
def opSdrChunk (cs : ChunkCodes) (retry res rid off len : Nat) : Prog (Nat × List Nat) :=
  sdrChunkOp cs (reserveOp cReserveSdr) setResOp (retry - 1) (mkGet cGetSdr) rspNext rspPay res rid off len

/-- get_repository_sdr / get_device_sdr up to the parse of the record: (next id, record bytes). -/
def opGetSdr (cfg : SdrCfg) (cs : ChunkCodes) (retry : Nat) (resOpt : Option Nat) (rid : Nat) :
    Prog (Nat × List Nat) :=
  sdrData cfg (reserveOp cReserveSdr) (opSdrChunk cs retry) sdrHeader resOpt rid

/-- `s.next_id`: `SdrCommon.__init__` sets it only `if next_id:`. -/
def sdrNext (b : Nat × List Nat) : Res Nat :=
  if b.1 = 0 then .error (.pyError "AttributeError") else .ok b.1

/-- sdr_repository_entries / device_sdr_entries (and the `…_list` wrappers). -/
def opSdrEntries (cfg : SdrCfg) (cs : ChunkCodes) (retry first last fuel : Nat) :
    Prog (List (Nat × List Nat)) :=
  sdrEntries (reserveOp cReserveSdr) (fun res rid => opGetSdr cfg cs retry (some res) rid) sdrNext
    first last fuel

/-! ### the scripted device -/

/-- The record with id `rid` and the id of its successor (FFFFh after the last one). -/
def findRec : List (Nat × List Nat) → Nat → Option (Nat × List Nat)
  | [], _ => none
  | (id, d) :: rest, rid =>
    if rid = id then some ((match rest with | (n, _) :: _ => n | [] => 0xFFFF), d)
    else findRec rest rid

/-- Record id 0 means the first record. -/
def lookupRec (recs : List (Nat × List Nat)) (rid : Nat) : Option (Nat × List Nat) :=
  if rid = 0 then (match recs with | (id, _) :: _ => findRec recs id | [] => none)
  else findRec recs rid

/-- IPMI v2.0 31.5 / 33.12 / 35.3: next record id, then `len` bytes from `off` (FFh: the rest);
CBh for an unknown record. -/
def readRecord (recs : List (Nat × List Nat)) (data : List Nat) : Rsp :=
  match data with
  | [_, rid, off, len] =>
    match lookupRec recs rid with
    | none => ⟨0xCB, []⟩
    | some x => ⟨0, x.1 :: (if len = 0xFF then x.2.drop off else (x.2.drop off).take len)⟩
  | _ => ⟨0xC7, []⟩

/-- A stateless BMC: SEL records, SDR records, the reservation id it hands out. -/
structure Script where
  sel : List (Nat × List Nat)
  sdr : List (Nat × List Nat)
  resId : Nat
  deriving Repr

def Script.base (s : Script) : Req → Rsp := fun r =>
  if r.cmd = cSelInfo then ⟨0, [s.sel.length]⟩
  else if r.cmd = cReserveSel ∨ r.cmd = cReserveSdr then ⟨0, [s.resId]⟩
  else if r.cmd = cGetSel then readRecord s.sel r.data
  else if r.cmd = cGetSdr then readRecord s.sdr r.data
  else if r.cmd = cDelSel then ⟨0, [r.data.getD 1 0]⟩
  else ⟨0, []⟩

end PyIpmi.Prog.Ops
