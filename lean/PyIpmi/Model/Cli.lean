/-
  C20 — executable model of `pyipmi/ipmitool.py` (the command-line tool).

  MIRRORS the Python: `_get_command_function` + the prefix loop of `main` (`lookup`),
  `getopt.getopt` for short options (`getopt`), the `for o, a in opts` chain (`applyOpts`),
  `int(s, 0)` / `int(s)` (`pyInt`), `parse_interface_options`, `cmd_raw`, the `except` clauses
  of `main` (`exitOf`), the try / except / finally around the handler call (`mainEnd`), the whole of `main`
  up to the call of the handler (`mainModel`), the numeric conversions of the handlers (`ArgConv`) and what
  the printing handlers do with optional API results (`HandlerShape`) and which sensor - LUN and number - they
  read for a full / compact sensor record (`SensorRead`, `sensorReadOf`).

  Strings are lists of code points (`Str = List Nat`) so that every table check is a `Nat`
  computation in the kernel and every proof is a proof about lists.  Tables (command table,
  API signatures, option rules, exit clauses) are NOT written here: they are generated from
  the working tree into `Gen/Cli.lean`; this file only defines their types and semantics.

  Core Lean only (drivers link natively).
-/
import PyIpmi.Base.Outcome
namespace PyIpmi.Cli

/-- a Python `str` as its code points -/
abbrev Str := List Nat

def ofString (s : String) : Str := s.toList.map Char.toNat
def toStr (s : Str) : String := String.ofList (s.map Char.ofNat)

/-! ## generated-table vocabulary -/

/-- Signature of one public attribute of `pyipmi.Ipmi` (`self` already dropped).
Names are interned: an id is an index into `Gen.Cli.names`. -/
structure ApiSig where
  name : Nat
  callable : Bool
  params : List Nat        -- positional-or-keyword parameters, in order
  nRequired : Nat          -- the first `nRequired` of them have no default
  varPos : Bool            -- `*args`
  varKw : Bool             -- `**kwargs`
  kwOnlyReq : List Nat
  kwOnlyOpt : List Nat
  deriving Repr, DecidableEq

/-- One `ipmi.<name>` occurrence in a handler: referenced only, or called with `nPos`
positional arguments and the keyword arguments `kws`. -/
structure MethodRef where
  name : Nat
  called : Bool
  nPos : Nat
  kws : List Nat
  deriving Repr, DecidableEq

structure Command where
  name : Str               -- as written in COMMANDS, e.g. "chassis power off"
  toks : List Str          -- name.split(' ')
  handler : Nat            -- interned name of the handler function ("<lambda>" for a lambda)
  refs : List MethodRef    -- in source order, handler and the helpers it passes `ipmi` to
  deriving Repr, DecidableEq

/-! ## does a table entry resolve?  (Python attribute lookup + argument binding) -/

def findSig (api : List ApiSig) (id : Nat) : Option ApiSig := api.find? (fun s => s.name == id)

/-- `inspect.Signature.bind`: can a call with `nPos` positionals and keywords `kws` be bound? -/
def bindOk (s : ApiSig) (nPos : Nat) (kws : List Nat) : Bool :=
  (decide (nPos ≤ s.params.length) || s.varPos)
  && kws.all (fun k => (s.params.drop nPos).contains k || s.kwOnlyReq.contains k
                        || s.kwOnlyOpt.contains k || s.varKw)
  && (List.range s.nRequired).all (fun i => decide (i < nPos) ||
        (match s.params[i]? with | some p => kws.contains p | none => false))
  && s.kwOnlyReq.all (fun k => kws.contains k)

inductive Resolution where
  | ok
  | attributeError      -- name not an attribute of Ipmi
  | typeError           -- not callable / arguments do not fit the signature
  deriving Repr, DecidableEq

def resolveRef (api : List ApiSig) (r : MethodRef) : Resolution :=
  match findSig api r.name with
  | none => .attributeError
  | some s =>
    if !r.called then .ok
    else if s.callable && bindOk s r.nPos r.kws then .ok else .typeError

def refOk (api : List ApiSig) (r : MethodRef) : Bool := resolveRef api r == .ok

def commandOk (api : List ApiSig) (c : Command) : Bool := c.refs.all (refOk api)

def resolvesAll (api : List ApiSig) (cmds : List Command) : Bool := cmds.all (commandOk api)

/-- (entry index, ref index) of every reference that does not resolve -/
def unresolved (api : List ApiSig) (cmds : List Command) : List (Nat × Nat) :=
  (List.range cmds.length).flatMap fun i =>
    match cmds[i]? with
    | none => []
    | some c => (List.range c.refs.length).filterMap fun j =>
        match c.refs[j]? with
        | some r => if refOk api r then none else some (i, j)
        | none => none

/-- what running the handler does at its first unresolved reference -/
def entryResolution (api : List ApiSig) (c : Command) : Resolution :=
  match c.refs.find? (fun r => !refOk api r) with
  | none => .ok
  | some r => resolveRef api r

/-! ### as shipped / intended (DESIGN §2.4)

The pinned tree ships three entries that do not resolve.  `intended` is the table the tool
is meant to have: the same table with exactly these references repaired.  On a tree in
which they are repaired `intended` is the identity, so the theorem about
`intended Gen.commands` checks on both trees and fails for any *other* broken entry. -/

structure Repair where
  entry : String            -- command name
  shipped : String          -- method name in the entry as shipped
  intendedName : String     -- the API's method
  intendedPos : Option Nat  -- intended number of positional arguments (none: unchanged)

def repairs : List Repair := [
  ⟨"chassis power diag", "chassis_control_power_diagnostic_interrupt",
    "chassis_control_diagnostic_interrupt", none⟩,
  ⟨"chassis power soft", "chassis_control_power_soft_shutdown",
    "chassis_control_soft_shutdown", none⟩,
  -- send_channel_power(channel, enable, current_limit, primary_pm=1, backup_pm=0)
  ⟨"picmg channel power", "send_channel_power", "send_channel_power", some 3⟩]

def idOf (names : List String) (s : String) : Nat := names.idxOf s

def applyRepair (names : List String) (c : Command) (r : Repair) : Command :=
  if c.name = ofString r.entry then
    { c with refs := c.refs.map fun m =>
        if m.name = idOf names r.shipped && m.called then
          { m with name := idOf names r.intendedName,
                   nPos := match r.intendedPos with | some n => n | none => m.nPos }
        else m }
  else c

def intended (names : List String) (cmds : List Command) : List Command :=
  cmds.map fun c => repairs.foldl (applyRepair names) c

/-! ## command lookup (`main`: `for i in range(len(args)): _get_command_function(' '.join(args[0:i+1]))`) -/

/-- `' '.join` -/
def joinSp : List Str → Str
  | [] => []
  | [a] => a
  | a :: b :: rest => a ++ 32 :: joinSp (b :: rest)

/-- `_get_command_function`: first entry whose name equals `name` -/
def find {α} : List (Str × α) → Str → Option α
  | [], _ => none
  | (n, f) :: rest, name => if n = name then some f else find rest name

def lookupAux {α} (t : List (Str × α)) (args : List Str) : Nat → Nat → Option (α × List Str)
  | _, 0 => none
  | i, fuel + 1 =>
    match find t (joinSp (args.take (i + 1))) with
    | some f => some (f, args.drop (i + 1))
    | none => lookupAux t args (i + 1) fuel

/-- the handler of the first (= shortest) prefix of `args` that names a command, and the
remaining arguments; `none` ↦ `usage(); sys.exit(1)` -/
def lookup {α} (t : List (Str × α)) (args : List Str) : Option (α × List Str) :=
  lookupAux t args 0 args.length

/-- the command table as `lookup` sees it: name ↦ index of the entry -/
def nameTable (cmds : List Command) : List (Str × Nat) :=
  (List.range cmds.length).zipWith (fun i c => (c.name, i)) cmds

/-- no entry is shadowed: names are the joins of their tokens, pairwise different, and no
proper token prefix of a name is itself a name -/
def prefixFree (cmds : List Command) : Bool :=
  let t := nameTable cmds
  (List.range cmds.length).all fun i =>
    match cmds[i]? with
    | none => false
    | some c =>
      !c.toks.isEmpty && joinSp c.toks == c.name && find t c.name == some i
      && (List.range c.toks.length).all fun k =>
           k == 0 || find t (joinSp (c.toks.take k)) == none

/-! ## `int(s, 0)` and `int(s)` -/

/-- blanks `int()` skips: C `isspace` for ASCII (so NOT 1Ch–1Fh), `Py_UNICODE_ISSPACE` above 127 -/
def isSpace (c : Nat) : Bool :=
  (9 ≤ c && c ≤ 13) || c == 32 || c == 0x85 || c == 0xa0
  || c == 0x1680 || (0x2000 ≤ c && c ≤ 0x200a) || c == 0x2028 || c == 0x2029
  || c == 0x202f || c == 0x205f || c == 0x3000

/-- `_PyLong_DigitValue` (37 = not a digit) -/
def digitVal (c : Nat) : Nat :=
  if 48 ≤ c ∧ c ≤ 57 then c - 48
  else if 97 ≤ c ∧ c ≤ 122 then c - 87
  else if 65 ≤ c ∧ c ≤ 90 then c - 55
  else 37

/-- `long_from_string_base`'s scan: digits `< base` with single underscores between them;
returns the value and the unread rest.  `prevUs`: previous character was `_`;
`seen`: at least one character consumed. -/
def scanDigits (base : Nat) : Str → (acc : Nat) → (prevUs seen : Bool) → Option (Nat × Str)
  | [], acc, prevUs, seen => if prevUs || !seen then none else some (acc, [])
  | c :: rest, acc, prevUs, seen =>
    if c == 95 then
      if prevUs || !seen then none          -- double / leading underscore
      else scanDigits base rest acc true true
    else if digitVal c < base then scanDigits base rest (acc * base + digitVal c) false true
    else if prevUs || !seen then none       -- trailing underscore / empty
    else some (acc, c :: rest)

def dropSpaces : Str → Str
  | [] => []
  | c :: rest => if isSpace c then dropSpaces rest else c :: rest

/-- "One underscore allowed here" (after a base prefix) -/
def skipUs : Str → Str
  | 95 :: r => r
  | r => r

/-- base detection of `PyLong_FromString`: (base, digits to scan, value must be zero).
With base 0 a leading `0` that is not a prefix is an "old octal literal": only zero is accepted. -/
def detect (base0 : Bool) (s : Str) : Nat × Str × Bool :=
  if base0 then
    match s with
    | 48 :: x :: rest =>
      if x == 120 || x == 88 then (16, skipUs rest, false)
      else if x == 111 || x == 79 then (8, skipUs rest, false)
      else if x == 98 || x == 66 then (2, skipUs rest, false)
      else (10, s, true)
    | 48 :: [] => (10, s, true)
    | _ => (10, s, false)
  else (10, s, false)

/-- digits, trailing blanks, end of string -/
def finish (d : Nat × Str × Bool) : Option Nat :=
  match scanDigits d.1 d.2.1 0 false false with
  | none => none
  | some (v, rest) =>
    if d.2.2 && v != 0 then none
    else if dropSpaces rest == [] then some v else none

/-- after the sign: base detection, prefix, digits, trailing blanks, end of string -/
def pyIntBody (base0 : Bool) (s : Str) : Option Nat := finish (detect base0 s)

/-- Python `int(s, 0)` (`base0 = true`) / `int(s)` (`base0 = false`) on a `str`;
`none` ↦ `ValueError`.  ASCII digits only (Unicode decimal digits are not modelled). -/
def pyInt (base0 : Bool) (s : Str) : Option Int :=
  match dropSpaces s with
  | 43 :: rest => (pyIntBody base0 rest).map Int.ofNat
  | 45 :: rest => (pyIntBody base0 rest).map (fun n => - Int.ofNat n)
  | rest => (pyIntBody base0 rest).map Int.ofNat

def pyInt0 (s : Str) : Option Int := pyInt true s
def pyInt10 (s : Str) : Option Int := pyInt false s

/-! ## getopt (short options only, as `main` calls it) -/

inductive GetoptErr where
  | notRecognized (c : Nat)        -- option -c not recognized
  | requiresArg (c : Nat)          -- option -c requires argument
  | longNotRecognized              -- option --… not recognized (no long options are declared)
  deriving Repr, DecidableEq

/-- `short_has_arg`: first position `i` with `shortopts[i] == opt != ':'` decides -/
def hasArg : Str → Nat → Option Bool
  | [], _ => none
  | x :: rest, c =>
    if c == x && x != 58 then some (match rest with | 58 :: _ => true | _ => false)
    else hasArg rest c

/-- `do_shorts` -/
def doShorts (so : Str) : Str → List Str → List (Nat × Str) →
    Except GetoptErr (List (Nat × Str) × List Str)
  | [], args, acc => .ok (acc, args)
  | c :: os, args, acc =>
    match hasArg so c with
    | none => .error (.notRecognized c)
    | some true =>
      if os.isEmpty then
        match args with
        | [] => .error (.requiresArg c)
        | a :: args' => .ok (acc ++ [(c, a)], args')
      else .ok (acc ++ [(c, os)], args)
    | some false => doShorts so os args (acc ++ [(c, [])])

/-- `getopt.getopt(args, so)`; `fuel` ≥ number of arguments -/
def getoptAux (so : Str) : Nat → List Str → List (Nat × Str) →
    Except GetoptErr (List (Nat × Str) × List Str)
  | 0, args, acc => .ok (acc, args)
  | _ + 1, [], acc => .ok (acc, [])
  | fuel + 1, a :: rest, acc =>
    match a with
    | 45 :: b :: more =>
      if b == 45 then
        if more.isEmpty then .ok (acc, rest) else .error .longNotRecognized
      else
        match doShorts so (b :: more) rest acc with
        | .error e => .error e
        | .ok (acc', rest') => getoptAux so fuel rest' acc'
    | _ => .ok (acc, a :: rest)

def getopt (so : Str) (args : List Str) : Except GetoptErr (List (Nat × Str) × List Str) :=
  getoptAux so (args.length + 1) args []

/-! ## the option chain of `main` -/

inductive Conv where
  | str                          -- x = a
  | int0                         -- x = int(a, 0)
  | int10                        -- x = int(a)
  | constTrue                    -- x = True
  | routeChannel (rq ch : Nat) (base0 : Bool)   -- x = [(rq, int(a), ch)] / [(rq, int(a, 0), ch)]
  deriving Repr, DecidableEq

inductive OptAct where
  | assign (var : Nat) (conv : Conv)
  | exitOk                       -- usage()/version(); sys.exit()
  deriving Repr, DecidableEq

structure OptRule where
  opt : Nat
  act : OptAct
  deriving Repr, DecidableEq

inductive Val where
  | none
  | bool (b : Bool)
  | int (i : Int)
  | str (s : Str)
  | route (rq : Int) (rs : Int) (ch : Int)
  | route2 (rq1 : Int) (rs1 : Int) (ch1 : Int) (rq2 : Int) (rs2 : Int)   -- [(rq1, rs1, ch1), (rq2, rs2, None)]
  | emptyList
  deriving Repr, DecidableEq

def convert : Conv → Str → Option Val
  | .str, a => some (.str a)
  | .int0, a => (pyInt0 a).map .int
  | .int10, a => (pyInt10 a).map .int
  | .constTrue, _ => some (.bool true)
  | .routeChannel rq ch base0, a => (pyInt base0 a).map fun n => .route rq n ch

def ruleOf (rules : List OptRule) (c : Nat) : Option OptAct :=
  (rules.find? (fun r => r.opt == c)).map (·.act)

inductive OptsResult where
  | vals (vs : List Val)
  | exit (status : Nat)
  | raise (exc : String)
  deriving Repr, DecidableEq

/-- the `for o, a in opts:` chain (first matching branch, in order, early exit) -/
def applyOpts (rules : List OptRule) : List (Nat × Str) → List Val → OptsResult
  | [], vs => .vals vs
  | (c, a) :: rest, vs =>
    match ruleOf rules c with
    | none => .raise "AssertionError"
    | some .exitOk => .exit 0
    | some (.assign x conv) =>
      match convert conv a with
      | none => .raise "ValueError"
      | some v => applyOpts rules rest (vs.set x v)

/-! ## `parse_interface_options` -/

def splitOn (sep : Nat) : Str → List Str
  | [] => [[]]
  | c :: rest =>
    if c == sep then [] :: splitOn sep rest
    else match splitOn sep rest with
      | [] => [[c]]
      | h :: t => (c :: h) :: t

/-- `option.split('=', 1)` as a pair; `none` ↦ ValueError (no `=`) -/
def split1 (sep : Nat) : Str → Option (Str × Str)
  | [] => none
  | c :: rest =>
    if c == sep then some ([], rest)
    else (split1 sep rest).map fun (a, b) => (c :: a, b)

inductive OVal where
  | s (v : Str)
  | b (v : Bool)
  deriving Repr, DecidableEq

def dictSet (d : List (String × OVal)) (k : String) (v : OVal) : List (String × OVal) :=
  if d.any (·.1 == k) then d.map (fun e => if e.1 == k then (k, v) else e) else d ++ [(k, v)]

def onOff (key : String) (value : Str) (d : List (String × OVal)) : List (String × OVal) :=
  if value = ofString "on" then dictSet d key (.b true)
  else if value = ofString "off" then dictSet d key (.b false)
  else d      -- prints a warning

def ifaceOption (iface : Str) (name value : Str) (d : List (String × OVal)) : List (String × OVal) :=
  if iface = ofString "aardvark" then
    if name = ofString "serial" then dictSet d "serial_number" (.s value)
    else if name = ofString "pullups" then onOff "enable_i2c_pullups" value d
    else if name = ofString "power" then onOff "enable_target_power" value d
    else if name = ofString "fastmode" then onOff "enable_fastmode" value d
    else d
  else if iface = ofString "ipmitool" then
    if name = ofString "interface_type" then dictSet d "interface_type" (.s value)
    else if name = ofString "cipher" then dictSet d "cipher" (.s value)
    else d
  else if iface = ofString "ipmbdev" then
    if name = ofString "port" then dictSet d "port" (.s value) else d
  else d

def ifaceOptionsLoop (iface : Str) : List Str → List (String × OVal) → Option (List (String × OVal))
  | [], d => some d
  | o :: rest, d =>
    match split1 61 o with
    | none => none
    | some (n, v) => ifaceOptionsLoop iface rest (ifaceOption iface n v d)

/-- `parse_interface_options(interface_name, options)`; `options` is `list()` (emptyList) or the
`-o` string; `none` ↦ ValueError -/
def parseInterfaceOptions (iface : Str) (options : Val) : Option (List (String × OVal)) :=
  match options with
  | .str [] => some []
  | .str s => ifaceOptionsLoop iface (splitOn 44 s) []
  | _ => some []

/-! ## `cmd_raw` -/

inductive RawResult where
  | usage
  | request (lun netfn : Int) (bytes : List Nat)
  | raise (exc : String)
  deriving Repr, DecidableEq

/-- `[int(d, 0) for d in …]`; `none` ↦ ValueError -/
def parseAll : List Str → Option (List Int)
  | [] => some []
  | d :: ds =>
    match pyInt0 d, parseAll ds with
    | some v, some vs => some (v :: vs)
    | _, _ => none

def rawBody (lun : Int) (args : List Str) : RawResult :=
  match args with
  | nf :: d :: ds =>
    match pyInt0 nf with
    | none => .raise "ValueError"
    | some netfn =>
      match parseAll (d :: ds) with
      | none => .raise "ValueError"
      | some vs =>
        if vs.all (fun v => 0 ≤ v && v < 256) then .request lun netfn (vs.map Int.toNat)
        else .raise "OverflowError"
  | _ => .usage

def cmdRaw (args : List Str) : RawResult :=
  match args with
  | l :: v :: rest =>
    if l = ofString "lun" then
      match pyInt0 v with
      | none => .raise "ValueError"
      | some lun => rawBody lun rest
    else rawBody 0 args
  | _ => rawBody 0 args

def hexDigit (n : Nat) : Nat := if n < 10 then 48 + n else 87 + n

/-- `' '.join('%02x' % d for d in rsp)` -/
def printHex : List Nat → Str
  | [] => []
  | [b] => [hexDigit (b / 16), hexDigit (b % 16)]
  | b :: c :: rest => hexDigit (b / 16) :: hexDigit (b % 16) :: 32 :: printHex (c :: rest)

/-! ## numeric arguments of the handlers -/

/-- one `int(args[k])` / `int(args[k], 0)` of a handler: table entry, argument index, base 0? -/
structure ArgConv where
  entry : Nat
  arg : Nat
  base0 : Bool
  deriving Repr, DecidableEq

def ArgConv.parse (c : ArgConv) (s : Str) : Option Int := pyInt c.base0 s

/-- the conversions that do NOT read `0x…` (the property quantifies over decimal and hex) -/
def base10Args (l : List ArgConv) : List (Nat × Nat) := (l.filter (!·.base0)).map fun c => (c.entry, c.arg)

/-- option letters whose value is converted with `int(a)` -/
def base10Opts (rules : List OptRule) : List Nat :=
  rules.filterMap fun r => match r.act with
    | .assign _ .int10 => some r.opt
    | .assign _ (.routeChannel _ _ false) => some r.opt
    | _ => none

/-! ## exception → exit status -/

/-- the exception classes of `pyipmi/errors.py` (every one derives directly from `Exception`) -/
inductive LibErr where
  | decodingError | encodingError | ipmiTimeoutError | completionCodeError | notSupportedError
  | descriptionError | retryError | dataNotFound | hpmError | ipmiConnectionError | ipmiLongPasswordError
  deriving Repr, DecidableEq

def LibErr.all : List LibErr :=
  [.decodingError, .encodingError, .ipmiTimeoutError, .completionCodeError, .notSupportedError,
   .descriptionError, .retryError, .dataNotFound, .hpmError, .ipmiConnectionError, .ipmiLongPasswordError]

def LibErr.className : LibErr → String
  | .decodingError => "DecodingError"
  | .encodingError => "EncodingError"
  | .ipmiTimeoutError => "IpmiTimeoutError"
  | .completionCodeError => "CompletionCodeError"
  | .notSupportedError => "NotSupportedError"
  | .descriptionError => "DescriptionError"
  | .retryError => "RetryError"
  | .dataNotFound => "DataNotFound"
  | .hpmError => "HpmError"
  | .ipmiConnectionError => "IpmiConnectionError"
  | .ipmiLongPasswordError => "IpmiLongPasswordError"

def LibErr.ofName (n : String) : Option LibErr := LibErr.all.find? (fun c => c.className == n)

/-- what can arrive at the `except` clauses of `main` -/
inductive Raised where
  | lib (c : LibErr)
  | socketTimeout               -- `socket.timeout` (= `TimeoutError` ⊂ `OSError`): the transport gave up waiting
  | keyboardInterrupt
  | other (name : String)       -- any other subclass of `Exception` that is not an `OSError`
  deriving Repr, DecidableEq

/-- BMC error codes and time-outs, however the library reports them -/
def Raised.isFailure : Raised → Bool
  | .lib _ => true
  | .socketTimeout => true
  | _ => false

def Raised.name : Raised → String
  | .lib c => c.className
  | .socketTimeout => "TimeoutError"
  | .keyboardInterrupt => "KeyboardInterrupt"
  | .other n => n

/-- a class named in an `except` clause -/
inductive ExcKind where
  | lib (c : LibErr)            -- pyipmi.errors.<c>
  | socketTimeout               -- socket.timeout / TimeoutError
  | osError                     -- OSError / IOError / EnvironmentError / socket.error
  | exception                   -- Exception
  | baseException               -- BaseException
  | keyboardInterrupt
  | other (name : String)
  deriving Repr, DecidableEq

/-- `isinstance(raised, clause class)` -/
def ExcKind.catches : ExcKind → Raised → Bool
  | .lib c, .lib d => c == d
  | .socketTimeout, .socketTimeout => true
  | .osError, .socketTimeout => true
  | .exception, .keyboardInterrupt => false
  | .exception, _ => true
  | .baseException, _ => true
  | .keyboardInterrupt, .keyboardInterrupt => true
  | .other n, .other m => n == m
  | _, _ => false

inductive MsgFmt where
  | lit (s : Str)
  | hex2cc (pre : Str)         -- '<pre>%02x' % e.cc
  | reprExc (pre : Str)        -- '<pre>%r' % e
  | strExc (pre : Str)         -- '<pre>%s' % e
  deriving Repr, DecidableEq

structure ExitClause where
  excs : List ExcKind          -- `except A:` / `except (A, B, …):`
  msg : Option MsgFmt
  status : Nat
  deriving Repr, DecidableEq

structure ExitResult where
  status : Nat
  message : Str
  deriving Repr, DecidableEq

/-- what the message formats read off the exception object (opaque text comes from the run) -/
structure ExcInfo where
  cc : Nat := 0
  repr : Str := []
  str : Str := []
  deriving Repr, DecidableEq

def fmtMsg (i : ExcInfo) : Option MsgFmt → Str
  | none => []
  | some (.lit s) => s
  | some (.hex2cc pre) => pre ++ [hexDigit (i.cc / 16 % 16), hexDigit (i.cc % 16)]
  | some (.reprExc pre) => pre ++ i.repr
  | some (.strExc pre) => pre ++ i.str

/-- the first clause (in source order) one of whose classes the exception is an instance of -/
def clauseOf (clauses : List ExitClause) (e : Raised) : Option ExitClause :=
  clauses.find? (fun c => c.excs.any (·.catches e))

/-- what the `except` clauses of `main` do with exception `e`:
`some r` ↦ prints `r.message`, `sys.exit(r.status)`; `none` ↦ no clause: the exception propagates -/
def exitOf (clauses : List ExitClause) (e : Raised) (i : ExcInfo) : Option ExitResult :=
  (clauseOf clauses e).map fun c => ⟨c.status, fmtMsg i c.msg⟩

/-- how `main` ends -/
inductive Ending where
  | returns
  | exits (status : Nat) (message : Str)            -- message printed, then SystemExit(status)
  | raises (e : Raised) (printed : Option Str)      -- the exception leaves `main` (a traceback); a message may have been printed before
  deriving Repr, DecidableEq

def handleExc (clauses : List ExitClause) (e : Raised) (i : ExcInfo) : Ending :=
  match exitOf clauses e i with
  | some r => .exits r.status r.message
  | none => .raises e none

/-- The end of `main`: `body` = what `ipmi.open(); cmd(ipmi, args)` raised, `close` = what `ipmi.close()` raised.

* `closeInside = false` (as shipped): `try: body  except …: print; sys.exit  finally: close` — the clauses do not
  cover `close`, and an exception of `close` replaces the pending `SystemExit`;
* `closeInside = true`: `try: (try: body finally: close)  except …` — whatever is raised last is mapped. -/
def mainEnd (closeInside : Bool) (clauses : List ExitClause)
    (body close : Option (Raised × ExcInfo)) : Ending :=
  if closeInside then
    match close, body with
    | some (f, i), _ => handleExc clauses f i
    | none, some (e, i) => handleExc clauses e i
    | none, none => .returns
  else
    match body, close with
    | none, none => .returns
    | none, some (f, _) => .raises f none
    | some (e, i), none => handleExc clauses e i
    | some (e, i), some (f, _) =>
      match exitOf clauses e i with
      | some r => .raises f (some r.message)
      | none => .raises f none

/-! ### executable hypotheses of the error theorems (evaluated on the generated clauses by the driver) -/

/-- a clause that ends the tool with a non-zero status and a non-empty message -/
def ExitClause.reports (c : ExitClause) : Bool :=
  c.status != 0 &&
    (match c.msg with
     | some (.lit s) => !s.isEmpty
     | some (.hex2cc _) => true
     | some (.reprExc pre) => !pre.isEmpty
     | some (.strExc pre) => !pre.isEmpty
     | none => false)

/-- the clause that handles `e` (the first whose classes it is an instance of) reports -/
def reportsB (cl : List ExitClause) (e : Raised) : Bool :=
  match clauseOf cl e with
  | some c => c.reports
  | none => false

/-- every failure class: the eleven classes of pyipmi.errors and the transport time-out -/
def allFailures : List Raised := LibErr.all.map Raised.lib ++ [.socketTimeout]

/-- the failures that `cl` does NOT end with a message and a non-zero status -/
def escaping (cl : List ExitClause) : List Raised := allFailures.filter (fun e => !reportsB cl e)

/-- executable hypothesis: every failure class is reported -/
def exitsCover (cl : List ExitClause) : Bool := allFailures.all (reportsB cl)

/-- the two classes the shipped clauses were written for -/
def exitsWf (cl : List ExitClause) : Bool :=
  reportsB cl (.lib .completionCodeError) && reportsB cl (.lib .ipmiTimeoutError)

/-- an ending that the property accepts for a run on which something failed -/
def Ending.reported : Ending → Bool
  | .exits status message => status != 0 && !message.isEmpty
  | _ => false

/-! ## what the printing handlers do with values the API may legitimately return -/

/-- Python's built-in hierarchy as far as the handlers meet it: does `except <clause>` catch `<raised>`? -/
def pyAncestors (raised : String) : List String :=
  if raised == "ZeroDivisionError" || raised == "OverflowError" || raised == "FloatingPointError" then
    ["ArithmeticError", "Exception", "BaseException"]
  else if raised == "IndexError" || raised == "KeyError" then ["LookupError", "Exception", "BaseException"]
  else ["Exception", "BaseException"]

def pyCatches (clause raised : String) : Bool := clause == raised || (pyAncestors raised).contains clause

/-- facts the translator reads off the handlers -/
structure HandlerShape where
  linkNoneGuard : Bool         -- `print_link_state` tolerates `p is None` (channel without link)
  idStringGuard : Bool         -- `sdr_show` prints `device_id_string` only if the record has one
  entityGuard : Bool           -- … `entity_id` / `entity_instance` only if the record has them
  stateNoneGuard : Bool        -- `sdr_show` formats the sensor states only if there are any
  convCatch : List (String × List String)
      -- command ↦ exception classes caught somewhere between `convert_sensor_raw_to_value(…)` and `main`
  deriving Repr, DecidableEq

/-- `picmg portstate get` / `getall` on the pair `get_port_state` returns: `hasLink = false` ↦ `(None, None)` -/
def linkStateRaises (h : HandlerShape) (hasLink : Bool) : Option String :=
  if hasLink || h.linkNoneGuard then none else some "AttributeError"

/-- the two header lines of `sdr_show` on a record object with / without the attributes -/
def sdrShowRaises (h : HandlerShape) (hasIdString hasEntity : Bool) : Option String :=
  if !hasIdString && !h.idStringGuard then some "AttributeError"
  else if !hasEntity && !h.entityGuard then some "AttributeError"
  else none

/-- the "Reading state" line of `sdr_show`: `get_sensor_reading` returns `(None, None)` while the sensor flags
"reading/state unavailable" -/
def sdrStateRaises (h : HandlerShape) (available : Bool) : Option String :=
  if available || h.stateNoneGuard then none else some "TypeError"

/-- SDR record type ↦ (has `device_id_string`, has `entity_id`) of the class `SdrCommon.from_data` builds -/
def sdrAttrs (classes : List (Nat × Bool × Bool)) (dflt : Bool × Bool) (t : Nat) : Bool × Bool :=
  match classes.find? (fun c => c.1 == t) with
  | some c => c.2
  | none => dflt

inductive Sign where
  | neg | zero | pos
  deriving Repr, DecidableEq

/-- `SdrFullSensorRecord.lin` applied to x of the given sign, by the linearisation byte of the record (sdr.py
L_*): which exception, if any.  The property `lin` looks `linearization & 0x7f` up in a table of twelve functions
(codes 0..11) BEFORE the function is applied: every other code - 70h "non-linear" and 71h..7Fh "OEM non-linear"
included - is a `KeyError` that `lin` turns into `pyipmi.errors.DecodingError`, whatever x is.  For the twelve:
`math.log(0)`, `1.0 / 0`, `math.sqrt(-1)` (magnitudes within float range). -/
def linRaises (code : Nat) (s : Sign) : Option String :=
  let c := code % 128
  if 12 ≤ c then some "DecodingError"
  else if c == 1 || c == 2 || c == 3 then (if s == .pos then none else some "ValueError")
  else if c == 7 then (if s == .zero then some "ZeroDivisionError" else none)
  else if c == 10 then (if s == .neg then some "ValueError" else none)
  else none

def catchOf (h : HandlerShape) (cmd : String) : List String :=
  match h.convCatch.find? (fun e => e.1 == cmd) with
  | some e => e.2
  | none => []

/-- does converting one reading / threshold in command `cmd` end the command with a Python error? -/
def cellRaises (caught : List String) (code : Nat) (s : Sign) : Option String :=
  match linRaises code s with
  | none => none
  | some x => if caught.any (fun c => pyCatches c x) then none else some x

/-- the classes a handler must catch around the conversion of a reading / threshold -/
def catchesArithmetic (caught : List String) : Bool :=
  caught.any (fun c => pyCatches c "ValueError") && caught.any (fun c => pyCatches c "ZeroDivisionError")

/-- … and, for a record whose linearisation is none of the twelve formulas (70h..7Fh: a non-linear sensor has
no formula at all), the `DecodingError` of `lin` -/
def catchesDecoding (caught : List String) : Bool := caught.any (fun c => pyCatches c "DecodingError")

/-- everything the conversion of a reading / threshold of a conforming full sensor record may raise -/
def catchesConversion (caught : List String) : Bool := catchesArithmetic caught && catchesDecoding caught

/-! ## which sensor the printing handlers read

`sdr list`, `sdr show <id>` and `sdr showall` read the sensor of a full / compact sensor record with
`ipmi.get_sensor_reading(<rec>.number[, <lun>])`.  The sensor a record describes is named by (owner, owner LUN,
number); the LUN argument of the call becomes the responder LUN of the Get Sensor Reading request (the API's
`lun` parameter, C07), the number its data byte.  The translator reads, for each of the three commands and each
`if <rec>.type is SDR_TYPE_…` branch, which LUN argument the call carries (through helper functions as well). -/

/-- the `lun` argument of one `ipmi.get_sensor_reading(<rec>.number[, lun])` call -/
inductive LunArg where
  | default          -- no second argument: the default of the API's `lun` parameter
  | ownerLun         -- `<rec>.owner_lun` (positional or `lun=`)
  | const (n : Nat)  -- an integer literal
  deriving Repr, DecidableEq

/-- one `get_sensor_reading` call of a printing command: table entry, record-type branch it sits in
(01h full / 02h compact sensor record), its LUN argument -/
structure SensorRead where
  cmd : String
  recType : Nat
  lun : LunArg
  deriving Repr, DecidableEq

/-- the LUN the call names for a record whose sensor owner LUN is `ownerLun` (`dflt` = default of the API parameter) -/
def LunArg.eval (dflt : Nat) : LunArg → Nat → Nat
  | .default, _ => dflt
  | .ownerLun, l => l
  | .const n, _ => n

/-- NetFn Sensor/Event, command Get Sensor Reading (as the request appears at the interface: LUN, NetFn,
command byte + data) -/
def sensorReadingRequest (lun number : Nat) : Nat × Nat × List Nat := (lun, 0x04, [0x2d, number])

/-- The Get Sensor Reading request command `cmd` issues for a record of type `t` with sensor owner LUN `ownerLun`
and sensor number `number`: that of the FIRST `get_sensor_reading` call of the branch; `none` ↦ the command
reads no sensor for a record of this type. -/
def sensorReadOf (reads : List SensorRead) (dflt : Nat) (cmd : String) (t ownerLun number : Nat) :
    Option (Nat × Nat × List Nat) :=
  (reads.find? fun r => r.cmd == cmd && r.recType == t).map fun r =>
    sensorReadingRequest (r.lun.eval dflt ownerLun) number

/-- The reads of the tool as it is meant to be (and as it is shipped): `sdr show` / `sdr showall` of a FULL
sensor record address the sensor on its owner LUN; `sdr list` and the compact branch of `sdr show` call the API
without a LUN (DESIGN §9.7: judged an observation, not a defect - the property compares the tool with the API
call it makes).  `Props.C20.sensor_reads_today` equates today's source with this table, so ANY change of a LUN
argument (dropped, added, another expression) stops the build. -/
def intendedSensorReads : List SensorRead := [
  ⟨"sdr list", 0x01, .default⟩, ⟨"sdr list", 0x02, .default⟩,
  ⟨"sdr show", 0x01, .ownerLun⟩, ⟨"sdr show", 0x02, .default⟩,
  ⟨"sdr showall", 0x01, .ownerLun⟩, ⟨"sdr showall", 0x02, .default⟩]

/-! ## `Aardvark.open`: which interface options reach the adapter

`-I aardvark -o pullups=<on|off>,power=<on|off>,fastmode=<on|off>` become the keyword arguments
`enable_i2c_pullups` / `enable_target_power` / `enable_fastmode` (True / False; absent: None) of the interface;
`open()` writes them to the adapter under a guard the translator reads off the source: `if self.x is not None:`
or `if self.x:` (as shipped for pull-ups and target power - `off` never reaches the adapter). -/

structure AardvarkGuards where
  pullupsNotNone : Bool     -- `if self.i2c_pullups is not None:` (true) / `if self.i2c_pullups:` (false)
  powerNotNone : Bool       -- `if self.target_power is not None:` / `if self.target_power:`
  deriving Repr, DecidableEq

inductive AdapterWrite where
  | pullups (on : Bool)
  | power (on : Bool)
  | bitrate (khz : Nat)
  deriving Repr, DecidableEq

/-- `if v is not None:` / `if v:` on a value that is None, True or False -/
def guardPasses (notNone : Bool) : Option Bool → Bool
  | none => false
  | some v => notNone || v

/-- the attribute writes of `Aardvark.open()`, in order (fast mode: 400 kHz, else - `off` or absent - 100 kHz) -/
def aardvarkOpenWrites (g : AardvarkGuards) (pullups power fastmode : Option Bool) : List AdapterWrite :=
  (match pullups with
    | some v => if guardPasses g.pullupsNotNone pullups then [.pullups v] else []
    | none => []) ++
  (match power with
    | some v => if guardPasses g.powerNotNone power then [.power v] else []
    | none => []) ++
  [.bitrate (if fastmode == some true then 400 else 100)]

/-! ## `main` up to the handler call -/

/-- the constants and variable roles the translator reads off `main` -/
structure MainShape where
  optString : Str
  rules : List OptRule
  defaults : List Val
  getoptExit : Nat          -- except getopt.GetoptError: … sys.exit(2)
  noArgsExit : Nat          -- if len(args) == 0: usage(); sys.exit(1)
  noCmdExit : Nat           -- for … else: usage(); sys.exit(1)
  ifaceErrExit : Nat        -- except RuntimeError: print(e); sys.exit(1)
  vIface : Nat              -- create_interface(<vIface>, **parse_interface_options(<vIface>, <vIfaceOpts>))
  vIfaceOpts : Nat
  vTarget : Nat             -- pyipmi.Target(<vTarget>)
  vRouting : Nat            -- if <vRouting> is not None: ipmi.target.set_routing(<vRouting>)
  vHost : Nat               -- if <vHost> is not None: set_session_type_rmcp(<vHost>, <vPort>)
  vPort : Nat
  vUser : Nat               --                         set_auth_type_user(<vUser>, <vPassword>)
  vPassword : Nat
  vPriv : Nat               --   if <vPriv> is not None: set_priv_level(<vPriv>)
  closeInside : Bool        -- `ipmi.close()` in a try/finally INSIDE the try that has the except clauses
  /-- `if <vRouting> is None and <vChannel> is not None: <vRouting> = [(rq1, rs1, <vChannel>), (rq2, <vTarget>, None)]`
  after the option loop: (vChannel, rq1, rs1, rq2); `none` ↦ main has no such statement (as shipped: `-b` writes
  a ONE-hop list into <vRouting> itself, `Conv.routeChannel`) -/
  bridge : Option (Nat × Int × Int × Int) := none
  deriving Repr

def lower (s : Str) : Str := s.map fun c => if 65 ≤ c ∧ c ≤ 90 then c + 32 else c

/-- `Session.set_priv_level`: LEVELS[level.lower()] (ASCII lowering) -/
def privLevel (s : Str) : Option Nat :=
  let l := lower s
  if l = ofString "user" then some 2
  else if l = ofString "operator" then some 3
  else if l = ofString "administrator" then some 4
  else none

/-- what the handler is started with -/
structure Launch where
  entry : Nat
  args : List Str
  iface : Val
  ifaceOpts : List (String × OVal)
  target : Val              -- Target(target_address).ipmb_address: `none` if the address is 0
  routing : Val             -- none | route … | str (literal to be evaluated by ast.literal_eval)
  session : Option (Val × Val × Val × Val × Nat)   -- host, port, user, password, priv level
  deriving Repr

inductive MainResult where
  | exit (status : Nat)
  | raise (exc : String)
  | launch (l : Launch)
  deriving Repr

def getv (vs : List Val) (i : Nat) : Val := vs.getD i .none

/-- the routing handed to `Target.set_routing`: the explicit one (`-r`, or as shipped the list `-b` wrote), else -
if main has the bridging statement and a channel was given - the two hops "console → BMC over the channel → target" -/
def bridgedRouting (sh : MainShape) (vs : List Val) : Val :=
  match sh.bridge with
  | none => getv vs sh.vRouting
  | some (vc, rq1, rs1, rq2) =>
    match getv vs sh.vRouting, getv vs vc, getv vs sh.vTarget with
    | .none, .int ch, .int t => .route2 rq1 rs1 ch rq2 t
    | r, _, _ => r

def mainModel (sh : MainShape) (cmds : List Command) (knownIfaces : List Str) (argv : List Str) :
    MainResult :=
  match getopt sh.optString argv with
  | .error _ => .exit sh.getoptExit
  | .ok (opts, args) =>
    match applyOpts sh.rules opts sh.defaults with
    | .exit s => .exit s
    | .raise e => .raise e
    | .vals vs =>
      if args.isEmpty then .exit sh.noArgsExit
      else match lookup (nameTable cmds) args with
      | none => .exit sh.noCmdExit
      | some (entry, rest) =>
        let iface := getv vs sh.vIface
        let ifaceS := match iface with | .str s => s | _ => []
        match parseInterfaceOptions ifaceS (getv vs sh.vIfaceOpts) with
        | none => .raise "ValueError"
        | some io =>
          if !knownIfaces.contains ifaceS then .exit sh.ifaceErrExit
          else
            let target := match getv vs sh.vTarget with
              | .int 0 => Val.none
              | v => v
            let routing := bridgedRouting sh vs
            match getv vs sh.vHost with
            | .none => .launch ⟨entry, rest, iface, io, target, routing, none⟩
            | host =>
              match getv vs sh.vPriv with
              | .none => .launch ⟨entry, rest, iface, io, target, routing,
                           some (host, getv vs sh.vPort, getv vs sh.vUser, getv vs sh.vPassword, 4)⟩
              | .str p =>
                match privLevel p with
                | none => .raise "KeyError"
                | some lv => .launch ⟨entry, rest, iface, io, target, routing,
                               some (host, getv vs sh.vPort, getv vs sh.vUser, getv vs sh.vPassword, lv)⟩
              | _ => .raise "AttributeError"

end PyIpmi.Cli
