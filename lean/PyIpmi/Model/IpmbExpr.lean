/-
  Vocabulary of the GENERATED description of `pyipmi/interfaces/ipmb.py`
  (`Gen/IpmbFilter.lean`, written by `harness/translate/ipmb.py`): a tiny integer-expression
  language with Python's semantics on non-negative integers, its evaluator, and the shapes of
  the three things that are extracted from the source rather than modelled by hand:

    * `checksum`                  : accumulator loop + return expression      (`CksumDef`)
    * `IpmbHeaderReq.encode`      : the list of appended byte expressions      (`List Term`)
    * `IpmbHeaderRsp.decode`      : field := expression over `data[k]`         (`List (Fld × Expr)`)
    * `rx_filter`'s `checks` list : (guard flag?, lhs, rhs)                    (`List Check`)

  All values are naturals: header fields, bytes and their shifts/ors never go negative; the
  only negation in the source, `-csum % 256`, is the single node `negMod` (Python's floor
  modulo of a negated non-negative number by a positive constant).  Anything else with a
  minus sign is outside the translator's grammar and aborts generation.
-/
import PyIpmi.Spec.Wire
namespace PyIpmi.Ipmb
open PyIpmi PyIpmi.Spec.Wire

/-- names of the header attributes (`rs_sa`, `rs_lun`, `netfn`, `rq_sa`, `rq_lun`, `rq_seq`, `cmdid`) -/
inductive Fld where
  | rsSa | rsLun | netfn | rqSa | rqLun | seq | cmd
  deriving DecidableEq, Repr

def hget (h : Hdr) : Fld → Nat
  | .rsSa => h.rsSa | .rsLun => h.rsLun | .netfn => h.netfn | .rqSa => h.rqSa
  | .rqLun => h.rqLun | .seq => h.seq | .cmd => h.cmd

def hset (h : Hdr) (f : Fld) (v : Nat) : Hdr :=
  match f with
  | .rsSa => { h with rsSa := v } | .rsLun => { h with rsLun := v } | .netfn => { h with netfn := v }
  | .rqSa => { h with rqSa := v } | .rqLun => { h with rqLun := v } | .seq => { h with seq := v }
  | .cmd => { h with cmd := v }

/-- keyword flags of `rx_filter` -/
inductive Flag where
  | rqSa | rsSa | rqLun | rsLun | rqSeq
  deriving DecidableEq, Repr

def fget (fl : Flags) : Flag → Bool
  | .rqSa => fl.rqSa | .rsSa => fl.rsSa | .rqLun => fl.rqLun | .rsLun => fl.rsLun | .rqSeq => fl.rqSeq

inductive Expr where
  | const (n : Nat)
  | self (f : Fld)            -- `self.<f>` in a header method, `header.<f>` in rx_filter
  | rsp (f : Fld)             -- `rsp_header.<f>`
  | byte (k : Nat)            -- `data[k]`
  | var (i : Nat)             -- locals of `checksum`: 0 = accumulator, 1 = loop element
  | add (a b : Expr)
  | shl (a b : Expr)
  | shr (a b : Expr)
  | bor (a b : Expr)
  | band (a b : Expr)
  | mod (a : Expr) (m : Nat)      -- `a % m`, m a positive literal
  | negMod (a : Expr) (m : Nat)   -- `-a % m`, m a positive literal
  deriving Repr

structure Env where
  self : Hdr := default
  rsp : Hdr := default
  bytes : List Nat := []
  v0 : Nat := 0
  v1 : Nat := 0

def eval (ρ : Env) : Expr → Nat
  | .const n => n
  | .self f => hget ρ.self f
  | .rsp f => hget ρ.rsp f
  | .byte k => ρ.bytes.getD k 0
  | .var i => if i = 0 then ρ.v0 else ρ.v1
  | .add a b => eval ρ a + eval ρ b
  | .shl a b => eval ρ a <<< eval ρ b
  | .shr a b => eval ρ a >>> eval ρ b
  | .bor a b => eval ρ a ||| eval ρ b
  | .band a b => eval ρ a &&& eval ρ b
  | .mod a m => eval ρ a % m
  | .negMod a m => (m - eval ρ a % m) % m

/-- largest `data[k]` index used, plus one -/
def needs : Expr → Nat
  | .byte k => k + 1
  | .add a b | .shl a b | .shr a b | .bor a b | .band a b => max (needs a) (needs b)
  | .mod a _ | .negMod a _ => needs a
  | _ => 0

/-- `def checksum(data): acc = init; for b in data: acc = step(acc, b); return ret(acc)` -/
structure CksumDef where
  init : Nat
  step : Expr
  ret : Expr

def runChecksum (d : CksumDef) (l : List Nat) : Nat :=
  eval { v0 := l.foldl (fun acc b => eval { v0 := acc, v1 := b } d.step) d.init } d.ret

inductive Term where
  | e (x : Expr)
  | cksumTuple (xs : List Expr)                 -- `checksum((x, y, …))`
  | cksumSlice (a : Nat) (b : Option Nat)       -- `checksum(data[a:b])`
  deriving Repr

def evalTerm (ck : CksumDef) (ρ : Env) : Term → Nat
  | .e x => eval ρ x
  | .cksumTuple xs => runChecksum ck (xs.map (eval ρ))
  | .cksumSlice a none => runChecksum ck (ρ.bytes.drop a)
  | .cksumSlice a (some b) => runChecksum ck ((ρ.bytes.take b).drop a)

/-- one entry of `checks`: `guard = none` for the literal list, `some flag` for an
`if flag: checks.append(...)` -/
structure Check where
  guard : Option Flag
  lhs : Term
  rhs : Term
  deriving Repr

end PyIpmi.Ipmb
