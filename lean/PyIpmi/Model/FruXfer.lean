/-
  Model of the FRU transfer code of pyipmi/fru.py (class `Fru`) over an abstract transport.

  * `send : σ → cmd → data → σ × raw`   is the other end of `interface.send_and_receive`
    (NetFn Storage; `raw` starts with the completion code).  The model keeps the *trace* of
    every exchange (request bytes as they go on the wire, raw response).
  * requests are encoded as `Message._encode` does for the three request layouts
    (`push_unsigned_int` truncates silently: `fru_id % 256`, `offset % 65536`, `count % 256`);
    responses are decoded as `Message._decode` + `check_rsp_completion_code` do
    (non-OK code ⇒ `CompletionCodeError`, short/extra data ⇒ `DecodingError`).
  * `while` loops are structural recursions on a fuel that is computed from the loop's own
    measure `(area_size − off) + req_size`; running out of fuel is the outcome
    `pyError "nontermination"` and can only happen when the peer answers a read with zero
    bytes (Python would spin forever on such a peer).
  * the constants of the loops (`req_size = 32`, `-= 2`, the caught completion codes,
    `write_length = 16`) are a parameter `Cfg`, generated from the source (Gen/Loops10.lean).
  * the FRU *parsers* are not part of this model except `InventoryCommonHeader` (its fields
    steer the transfer); the area readers return the bytes handed to the parser.
  * `get_fru_multirecord_area` exists in two variants: `Var.mrShipped = true` mirrors the source before
    fixes/C10-1.diff (the inner `read_fru_data` calls do not pass `fru_id`, i.e. use the default 0);
    `false` is the intended behaviour.
  * `_read_fru_area` exists in two variants: `Var.lenChk = false` mirrors the source before fixes/C15-2.diff (an
    area length byte 0 makes the second `read_fru_data` a read of 0 bytes: no request, `b''` is handed
    to the parser); `true`: `if count == 0: raise DecodingError` behind the 5-byte read, no second read.
  * `read_fru_data(offset=None, count=None)` exists in two variants (`Var.rangeFix`): `false` mirrors the
    pinned source (the whole inventory is read whenever `offset is None` - a `count` given alone is dropped -
    and `offset + None` is a TypeError before any request); `true` is the source after fixes/C10-2.diff
    (`off = offset or 0`; the area size is asked for only when `count is None`).
  * the four area getters exist in two variants each (`Var.absC/absB/absP/absM`): `false` mirrors the pinned
    source (the `None` offset of an area the common header declares ABSENT is passed on to `_read_fru_area` /
    the record walk unchecked, which with `rangeFix = false` reads the whole inventory); `true` is the source
    after fixes/C10-2.diff (`if not header.x_area_offset: return None` behind the header read).  All flags are
    PROBED by the harness on the tree under test (`Var`).
-/
import PyIpmi.Base.Outcome
import PyIpmi.Base.Bytes
namespace PyIpmi.FruXfer
open PyIpmi

structure Cfg where
  initReq : Nat            -- req_size = 32
  dec : Nat                -- req_size -= 2
  caught : List Nat        -- ex.cc in (…)
  writeLen : Nat           -- self.write_length = 16
  deriving Repr, DecidableEq, Inhabited

/-- One request on the wire (NetFn Storage). -/
structure Wire where
  cmd : Nat
  payload : List Nat
  deriving Repr, DecidableEq, Inhabited

/-- One exchange: request and raw response. -/
structure Xchg where
  req : Wire
  rsp : List Nat
  deriving Repr, DecidableEq, Inhabited

abbrev Send (σ : Type) := σ → Nat → List Nat → σ × List Nat

structure World (σ : Type) where
  dev : σ
  trace : List Xchg

structure Res (σ α : Type) where
  w : World σ
  out : Outcome α

/-- `interface.send_and_receive(req)` at the byte level, recording the exchange. -/
def xchg {σ} (send : Send σ) (w : World σ) (q : Wire) : World σ × List Nat :=
  let r := send w.dev q.cmd q.payload
  (⟨r.1, w.trace ++ [⟨q, r.2⟩]⟩, r.2)

/-! ### the three request layouts and their responses -/

def infoReq (id : Nat) : Wire := ⟨0x10, [id % 256]⟩
def readReq (id off cnt : Nat) : Wire := ⟨0x11, [id % 256, off % 256, off / 256 % 256, cnt % 256]⟩
def writeReq (id off : Nat) (data : List Nat) : Wire :=
  ⟨0x12, [id % 256, off % 256, off / 256 % 256] ++ data⟩

/-- GetFruInventoryAreaInfoRsp: cc, area_size (2, LE), area_info (1).  Returns area_size. -/
def decodeInfoRsp (raw : List Nat) : Outcome Nat :=
  match raw with
  | [] => .decodingError
  | cc :: rest =>
    if cc ≠ 0 then .ccError cc else
    match rest with
    | [lo, hi, _] => .ok (lo + 256 * hi)
    | _ => .decodingError

/-- ReadFruDataRsp: cc, count, data[count].  Returns data (`rsp.count = len(rsp.data)`). -/
def decodeReadRsp (raw : List Nat) : Outcome (List Nat) :=
  match raw with
  | [] => .decodingError
  | cc :: rest =>
    if cc ≠ 0 then .ccError cc else
    match rest with
    | [] => .decodingError
    | n :: data => if data.length = n then .ok data else .decodingError

/-- WriteFruDataRsp: cc, count_written. -/
def decodeWriteRsp (raw : List Nat) : Outcome Nat :=
  match raw with
  | [] => .decodingError
  | cc :: rest =>
    if cc ≠ 0 then .ccError cc else
    match rest with
    | [n] => .ok n
    | _ => .decodingError

/-- Propagate a non-`ok` outcome at another result type. -/
def castErr {α β} : Outcome α → Outcome β
  | .ok _ => .pyError "cast"
  | .decodingError => .decodingError
  | .encodingError => .encodingError
  | .ccError c => .ccError c
  | .retryError => .retryError
  | .hpmError => .hpmError
  | .timeoutError => .timeoutError
  | .notSupported => .notSupported
  | .pyError n => .pyError n

/-! ### read_fru_data -/

/-- The `while off < area_size` loop of `read_fru_data`. -/
def readLoop {σ} (cfg : Cfg) (send : Send σ) :
    Nat → World σ → (id areaSize off reqSize : Nat) → (acc : List Nat) → Res σ (List Nat)
  | 0, w, _, _, _, _, _ => ⟨w, .pyError "nontermination"⟩
  | fuel + 1, w, id, areaSize, off, reqSize, acc =>
    if off < areaSize then
      let reqSize := if off + reqSize > areaSize then areaSize - off else reqSize
      let r := xchg send w (readReq id off reqSize)
      match decodeReadRsp r.2 with
      | .ok data => readLoop cfg send fuel r.1 id areaSize (off + data.length) reqSize (acc ++ data)
      | .ccError c =>
        if cfg.caught.contains c then
          if reqSize ≤ cfg.dec then ⟨r.1, .ccError c⟩
          else readLoop cfg send fuel r.1 id areaSize off (reqSize - cfg.dec) acc
        else ⟨r.1, .ccError c⟩
      | e => ⟨r.1, e⟩
    else ⟨w, .ok acc⟩

/-- `get_fru_inventory_area_info`. -/
def areaInfo {σ} (send : Send σ) (w : World σ) (id : Nat) : Res σ Nat :=
  let r := xchg send w (infoReq id)
  ⟨r.1, decodeInfoRsp r.2⟩

/-- `read_fru_data(offset, count, fru_id)`; `offset = none` is Python's `None` (whole area). -/
def readFruData {σ} (cfg : Cfg) (send : Send σ) (w : World σ) (offset : Option Nat) (count : Nat)
    (id : Nat) : Res σ (List Nat) :=
  match offset with
  | none =>
    let r := areaInfo send w id
    match r.out with
    | .ok size => readLoop cfg send (size + cfg.initReq + 1) r.w id size 0 cfg.initReq []
    | e => ⟨r.w, castErr e⟩
  | some off =>
    readLoop cfg send (count + cfg.initReq + 1) w id (off + count) off cfg.initReq []

/-- `read_fru_data_full`. -/
def readFruDataFull {σ} (cfg : Cfg) (send : Send σ) (w : World σ) (id : Nat) : Res σ (List Nat) :=
  readFruData cfg send w none 0 id

/-- Variant flags of the model, probed by the harness on the tree under test. -/
structure Var where
  mrShipped : Bool      -- get_fru_multirecord_area: the inner reads use FRU 0 (before fixes/C10-1.diff)
  lenChk : Bool         -- _read_fru_area rejects an area length byte 0 (fixes/C15-2.diff)
  rangeFix : Bool       -- read_fru_data: `off = offset or 0`, whole-area size only when `count is None` (fixes/C10-2.diff)
  absC : Bool           -- get_fru_chassis_area returns None for an absent area (fixes/C10-2.diff)
  absB : Bool           -- get_fru_board_area …
  absP : Bool           -- get_fru_product_area …
  absM : Bool           -- get_fru_multirecord_area …
  deriving Repr, DecidableEq, Inhabited

/-- the behaviour the property asks for (`lenChk` is C15's business and stays a parameter) -/
def Var.intended (lenChk : Bool) : Var := ⟨false, lenChk, true, true, true, true, true⟩

/-- pyipmi/fru.py as pinned (with fixes/C10-1.diff and fixes/C15-2.diff, without fixes/C10-2.diff) -/
def Var.pinned : Var := ⟨false, true, false, false, false, false, false⟩

/-- `read_fru_data(offset=None, count=None, fru_id=0)` as pinned: `if offset is None: <whole inventory>
else: area_size = offset + count` (a count given alone is dropped; an offset given alone is `int + None`,
a TypeError before any request). -/
def readFruDataPinned {σ} (cfg : Cfg) (send : Send σ) (w : World σ) :
    Option Nat → Option Nat → Nat → Res σ (List Nat)
  | none, _, id => readFruData cfg send w none 0 id
  | some _, none, _ => ⟨w, .pyError "TypeError"⟩
  | some off, some c, id => readFruData cfg send w (some off) c id

/-- … after fixes/C10-2.diff: `off = offset or 0; if count is None: area_size = <Get FRU Inventory Area
Info> else: area_size = off + count`. -/
def readFruDataFixed {σ} (cfg : Cfg) (send : Send σ) (w : World σ) (offset : Option Nat) :
    Option Nat → Nat → Res σ (List Nat)
  | some c, id => readFruData cfg send w (some (offset.getD 0)) c id
  | none, id =>
    let r := areaInfo send w id
    match r.out with
    | .ok size => readLoop cfg send (size + cfg.initReq + 1) r.w id size (offset.getD 0) cfg.initReq []
    | e => ⟨r.w, castErr e⟩

/-- `read_fru_data` with BOTH range arguments optional, in the variant the harness probed. -/
def readFruDataV {σ} (rangeFix : Bool) (cfg : Cfg) (send : Send σ) (w : World σ) (offset count : Option Nat)
    (id : Nat) : Res σ (List Nat) :=
  if rangeFix then readFruDataFixed cfg send w offset count id
  else readFruDataPinned cfg send w offset count id

/-! ### write_fru_data -/

/-- `utils.chunks(data, n)` for `n ≥ 1` (`range(0, len(data), n)`); fuel = `len(data)`. -/
def chunksAux (n : Nat) : Nat → List Nat → List (List Nat)
  | 0, _ => []
  | fuel + 1, data => if data = [] then [] else data.take n :: chunksAux n fuel (data.drop n)

def chunks (n : Nat) (data : List Nat) : List (List Nat) := chunksAux n data.length data

def writeChunks {σ} (send : Send σ) : World σ → Nat → Nat → List (List Nat) → Res σ Unit
  | w, _, _, [] => ⟨w, .ok ()⟩
  | w, id, off, c :: cs =>
    let r := xchg send w (writeReq id off c)
    match decodeWriteRsp r.2 with
    | .ok n =>
      if n ≠ c.length then ⟨r.1, .pyError "Exception"⟩
      else writeChunks send r.1 id (off + c.length) cs
    | e => ⟨r.1, castErr e⟩

/-- `write_fru_data(data, offset, fru_id)`; `range()` with step 0 is a ValueError. -/
def writeFruData {σ} (cfg : Cfg) (send : Send σ) (w : World σ) (data : List Nat) (off id : Nat) :
    Res σ Unit :=
  if cfg.writeLen = 0 then ⟨w, .pyError "ValueError"⟩
  else writeChunks send w id off (chunks cfg.writeLen data)

/-! ### area readers -/

/-- `InventoryCommonHeader`: the five area offsets (`data[i] * 8 or None`). -/
structure Header where
  internal : Option Nat
  chassis : Option Nat
  board : Option Nat
  product : Option Nat
  multi : Option Nat
  deriving Repr, DecidableEq, Inhabited

def hdrField (data : List Nat) (i : Nat) : Option Nat :=
  if data.getD i 0 * 8 = 0 then none else some (data.getD i 0 * 8)

def parseHeader (data : List Nat) : Outcome Header :=
  if data.length ≠ 8 then .decodingError
  else if data.sum % 256 ≠ 0 then .decodingError
  else .ok ⟨hdrField data 1, hdrField data 2, hdrField data 3, hdrField data 4, hdrField data 5⟩

/-- `get_fru_inventory_header`. -/
def getHeader {σ} (cfg : Cfg) (send : Send σ) (w : World σ) (id : Nat) : Res σ Header :=
  let r := readFruData cfg send w (some 0) 8 id
  match r.out with
  | .ok data => ⟨r.w, parseHeader data⟩
  | e => ⟨r.w, castErr e⟩

/-- `_read_fru_area(offset, fru_id)`: 5 header bytes, then `data[1] * 8` bytes
(`lenChk`: `if count == 0: raise DecodingError` in between). -/
def readFruArea {σ} (cfg : Cfg) (send : Send σ) (v : Var) (w : World σ) (offset : Option Nat)
    (id : Nat) : Res σ (List Nat) :=
  let r := readFruDataV v.rangeFix cfg send w offset (some 5) id
  match r.out with
  | .ok data =>
    match data[1]? with
    | none => ⟨r.w, .pyError "IndexError"⟩
    | some b =>
      if v.lenChk && b * 8 == 0 then ⟨r.w, .decodingError⟩
      else readFruDataV v.rangeFix cfg send r.w offset (some (b * 8)) id
  | e => ⟨r.w, e⟩

inductive Area where
  | chassis | board | product
  deriving Repr, DecidableEq, Inhabited

def Header.area (h : Header) : Area → Option Nat
  | .chassis => h.chassis
  | .board => h.board
  | .product => h.product

/-- does the getter of info area `a` return `None` for an area the header declares absent? -/
def Var.abs (v : Var) : Area → Bool
  | .chassis => v.absC
  | .board => v.absB
  | .product => v.absP

/-- `x` as the getter's result (`some` = an area object built from these bytes). -/
def someRes {σ} (r : Res σ (List Nat)) : Res σ (Option (List Nat)) :=
  match r.out with
  | .ok d => ⟨r.w, .ok (some d)⟩
  | e => ⟨r.w, castErr e⟩

/-- `get_fru_chassis_area` / `get_fru_board_area` / `get_fru_product_area`: the bytes handed to
the area parser; `none` = the getter returns `None` (`v.abs a`: `if not header.x_area_offset: return None`). -/
def getInfoArea {σ} (cfg : Cfg) (send : Send σ) (v : Var) (w : World σ) (a : Area) (id : Nat) :
    Res σ (Option (List Nat)) :=
  let h := getHeader cfg send w id
  match h.out with
  | .ok hd =>
    if v.abs a && (hd.area a).isNone then ⟨h.w, .ok none⟩
    else someRes (readFruArea cfg send v h.w (hd.area a) id)
  | e => ⟨h.w, castErr e⟩

/-- The record-header walk of `get_fru_multirecord_area`; returns the accumulated `count`.
`rid` is the FRU id the inner reads name. -/
def mrWalk {σ} (rangeFix : Bool) (cfg : Cfg) (send : Send σ) :
    Nat → World σ → (rid : Nat) → (offset : Option Nat) → (count : Nat) → Res σ Nat
  | 0, w, _, _, _ => ⟨w, .pyError "nontermination"⟩
  | fuel + 1, w, rid, offset, count =>
    let r := readFruDataV rangeFix cfg send w offset (some 5) rid
    match r.out with
    | .ok data =>
      match data[1]?, data[2]? with
      | some b1, some len =>
        match offset with
        | none => ⟨r.w, .pyError "TypeError"⟩
        | some off =>
          if b1 / 128 % 2 = 1 then ⟨r.w, .ok (count + len + 5)⟩
          else mrWalk rangeFix cfg send fuel r.w rid (some (off + len + 5)) (count + len + 5)
      | _, _ => ⟨r.w, .pyError "IndexError"⟩
    | e => ⟨r.w, castErr e⟩

def mrFuel : Nat := 20000

/-- `get_fru_multirecord_area(fru_id)`: the bytes handed to `InventoryMultiRecordArea`; `none` = the getter
returns `None` (`v.absM`: `if not header.multirecord_area_offset: return None`). -/
def getMultirecord {σ} (cfg : Cfg) (send : Send σ) (v : Var) (w : World σ) (id : Nat) :
    Res σ (Option (List Nat)) :=
  let rid := if v.mrShipped then 0 else id
  let h := getHeader cfg send w id
  match h.out with
  | .ok hd =>
    if v.absM && hd.multi.isNone then ⟨h.w, .ok none⟩
    else
    let c := mrWalk v.rangeFix cfg send mrFuel h.w rid hd.multi 0
    match c.out with
    | .ok count => someRes (readFruDataV v.rangeFix cfg send c.w hd.multi (some count) rid)
    | e => ⟨c.w, castErr e⟩
  | e => ⟨h.w, castErr e⟩

/-- What `get_fru_inventory` hands to the four area parsers. -/
structure Inventory where
  chassis : Option (List Nat)
  board : Option (List Nat)
  product : Option (List Nat)
  multi : Option (List Nat)
  deriving Repr, DecidableEq, Inhabited

/-- `if header.x_offset: fru.x = self.get_fru_x_area(fru_id)` (the attribute is `None` otherwise; the
getter reads the header again and decides on its own reading) -/
def optArea {σ} (present : Bool) (w : World σ) (f : World σ → Res σ (Option (List Nat))) :
    Res σ (Option (List Nat)) :=
  if present then f w else ⟨w, .ok none⟩

/-- `get_fru_inventory(fru_id)`. -/
def getInventory {σ} (cfg : Cfg) (send : Send σ) (v : Var) (w : World σ) (id : Nat) :
    Res σ Inventory :=
  let h := getHeader cfg send w id
  match h.out with
  | .ok hd =>
    let c := optArea hd.chassis.isSome h.w (fun w => getInfoArea cfg send v w .chassis id)
    match c.out with
    | .ok ch =>
      let b := optArea hd.board.isSome c.w (fun w => getInfoArea cfg send v w .board id)
      match b.out with
      | .ok bo =>
        let p := optArea hd.product.isSome b.w (fun w => getInfoArea cfg send v w .product id)
        match p.out with
        | .ok pr =>
          let m := optArea hd.multi.isSome p.w (fun w => getMultirecord cfg send v w id)
          match m.out with
          | .ok mr => ⟨m.w, .ok ⟨ch, bo, pr, mr⟩⟩
          | e => ⟨m.w, castErr e⟩
        | e => ⟨p.w, castErr e⟩
      | e => ⟨b.w, castErr e⟩
    | e => ⟨c.w, castErr e⟩
  | e => ⟨h.w, castErr e⟩

end PyIpmi.FruXfer
