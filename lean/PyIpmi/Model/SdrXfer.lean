/-
  Model/SdrXfer.lean — executable model that MIRRORS the SDR retrieval code (C11):

    * `reserve`     = Sdr.reserve_sdr_repository / Sensor.reserve_device_sdr_repository
    * `getChunk`    = Sdr._get_sdr_chunk / Sensor._get_device_sdr_chunk  (over Retry.chunkLoop =
                      helper.get_sdr_chunk_helper, budget 5)
    * `getSdrData`  = helper.get_sdr_data_helper  (header first, then the chunk loop with the
                      shrinking request size, budget 20)
    * `sdrList`     = Sdr.sdr_repository_entries / Sensor.device_sdr_entries collected into a list

  The model talks to a transport `x : σ → Req → σ × Rsp` on decoded messages; the truncation the
  message codec applies to request fields (16-bit ids, 8-bit offset and count) is modelled where
  the request is built.  The places where the source differs (differed) from what the properties
  need are a `Variant`: the model runs either way; the translator reads the variant from the working
  tree on every run (`Gen.Loops11.variantRead`) and the checks also probe the real code.
  Pinned commit 816fdee: `Variant.asShipped`; after 01f2987 / 91e28cb (C11): `⟨false, .repo, .dev, true⟩`
  - the reservation id a chunk read obtained after a cancellation is still dropped (`staleRes`, C13);
  with that repaired as well: `Variant.intended`.
  Core Lean only.
-/
import PyIpmi.Model.Retry
import PyIpmi.Spec.SdrDevice
namespace PyIpmi.Model.SdrXfer
open PyIpmi PyIpmi.Model.Retry
open PyIpmi.Spec.Sdr (Store Req Rsp)

/-- Constants of get_sdr_data_helper / the entries generators (from `Gen/Loops11.lean`). -/
structure XConsts where
  hdrLen : Nat        -- bytes of the first read
  dataRetry : Nat     -- `retry = 20`
  maxReqLen : Nat     -- `max_req_len = 20`
  reqLenDec : Nat     -- `max_req_len -= 4`
  cantReturn : Nat    -- the completion code that shrinks the request
  lastId : Nat        -- 0xffff ends the listing
  deriving Repr, DecidableEq, Inhabited

structure Variant where
  /-- after "cannot return number of requested bytes" the loop body goes on and appends the
  previous chunk again (as shipped) instead of repeating the read with the smaller size -/
  fallThrough : Bool
  /-- store whose reservation command `Sdr._get_sdr_chunk` hands to the chunk helper -/
  repoRenew : Store
  /-- same for `Sensor._get_device_sdr_chunk` -/
  devRenew : Store
  /-- the reservation id get_sdr_chunk_helper obtains after "reservation cancelled" stays in the
  request object of that one chunk: get_sdr_data_helper hands the id it started with to every
  following chunk and the entries generators to every following record (as shipped).  Intended:
  the chunk reader hands back the id its request ended up with - as third element of its result,
  or on the CompletionCodeError it raises -, get_sdr_data_helper goes on with it and returns it to
  the generator for the next record. -/
  staleRes : Bool
  deriving Repr, DecidableEq, Inhabited

def Variant.asShipped : Variant := ⟨true, .dev, .dev, true⟩
def Variant.intended : Variant := ⟨false, .repo, .dev, false⟩

def Variant.renew (v : Variant) : Store → Store
  | .repo => v.repoRenew
  | .dev => v.devRenew

/-- Control-flow and call-site facts of get_sdr_data_helper and its callers that the definitions
below hard-wire; read from the source on every run (`Props.C11.source_shape`). -/
structure XferShape where
  headerOffset : Nat            -- first read: `get_fn(reservation_id, record_id, 0, 5)`
  headerPops : List Nat         -- `pop_unsigned_int` sizes: id 2, version 1, type 1, payload length 1
  recordLengthAdd : Nat         -- `record_length = record_payload_length + 5`
  dataDecr : Nat                -- `retry -= 1`
  dataExhaustCmp : Cmp          -- `if retry == 0: raise RetryError()`
  dataExhaustAt : Nat
  dataClampCmp : Cmp            -- `if (offset + length) > record_length:`
  dataBreakCmp : Cmp            -- `if len(record_data) >= record_length: break`
  dataOtherCodeReraises : Bool  -- `else: raise CompletionCodeError(e.cc)`
  repoDataReserve : Store       -- reserve_fn given to get_sdr_data_helper by get_repository_sdr
  devDataReserve : Store        -- … by get_device_sdr
  repoListReserve : Store       -- reservation taken by sdr_repository_entries
  devListReserve : Store        -- … by device_sdr_entries
  listStartId : Nat             -- `record_id = 0`
  deriving Repr, DecidableEq, Inhabited

def XferShape.expected : XferShape :=
  ⟨0, [2, 1, 1, 1], 5, 1, .eq, 0, .gt, .ge, true, .repo, .dev, .repo, .dev, 0⟩

abbrev Xport (σ : Type) := σ → Req → σ × Rsp

section
variable {σ : Type} (K : Consts) (XK : XConsts) (v : Variant) (x : Xport σ)

/-- `send_message_with_name('Reserve…')` + `check_rsp_completion_code` + `rsp.reservation_id`. -/
def reserve (s : Store) (st : σ) : σ × Outcome Nat :=
  match x st (.reserve s) with
  | (st', .reserved id) => (st', .ok id)
  | (st', .err c) => (st', if c = K.ccOk then .decodingError else .ccError c)
  | (st', .data _ _) => (st', .pyError "unmodelled:response-kind")

/-- `send_fn(req)` for a Get (Device) SDR request whose reservation id is `res`; the codec keeps
16 bits of the ids and 8 bits of offset and count. -/
def sendGet (s : Store) (id off cnt : Nat) (st : σ) (res : Nat) : σ × Outcome (Nat × (Nat × List Nat)) :=
  match x st (.get s (res % 65536) (id % 65536) (off % 256) (cnt % 256)) with
  | (st', .data nx b) => (st', .ok (K.ccOk, (nx, b)))
  | (st', .err c) => (st', .ok (c, (0, [])))
  | (st', .reserved _) => (st', .pyError "unmodelled:response-kind")

/-- `_get_sdr_chunk(reservation_id, record_id, offset, length)` → `(next_record_id, record_data)`. -/
def getChunk (s : Store) (st : σ) (res id off cnt : Nat) : σ × Outcome (Nat × List Nat) :=
  chunkLoop K (sendGet K x s id off cnt) (reserve K x (v.renew s)) K.chunkRetryDefault st res

/-- `get_fn(reservation_id, record_id, offset, length)` as get_sdr_data_helper experiences it: what
the chunk reader returns or raises, and the reservation id the helper holds afterwards - its own
(as shipped), or the one the reader's request ended up with (third element of the result /
`reservation_id` attribute of a CompletionCodeError). -/
def getFn (s : Store) (id : Nat) (st : σ) (res off cnt : Nat) : (σ × Outcome (Nat × List Nat)) × Nat :=
  (getChunk K v x s st res id off cnt,
   if v.staleRes then res
   else chunkRes K (sendGet K x s id off cnt) (reserve K x (v.renew s)) K.chunkRetryDefault st res)

/-- `pop_unsigned_int(2)` on the header. -/
def hdrId (d : List Nat) : Nat := d.getD 0 0 + 256 * d.getD 1 0

/-- The chunk loop of get_sdr_data_helper.  `retry` is Python's counter before the decrement,
`m` is `max_req_len`, `res` is `reservation_id`, `acc` is `record_data`, `next`/`last` are the
values `next_id` / `data` still hold from the previous successful read.  `get st res off len` is
`get_fn(reservation_id, record_id, offset, length)` with the value `reservation_id` has afterwards
(`getFn`); the result carries the final `reservation_id` (what `with_reservation=True` returns).

```
retry -= 1
if retry == 0: raise RetryError()
length = max_req_len
if (offset + length) > record_length: length = record_length - offset
try: (next_id, data[, reservation_id]) = get_fn(reservation_id, record_id, offset, length)
except CompletionCodeError as e:
    if e.cc == CC_CANT_RET_NUM_REQ_BYTES:
        max_req_len -= 4
        if max_req_len <= 0: raise RetryError() # as shipped (816fdee): retry = 0
        [reservation_id = getattr(e, 'reservation_id', reservation_id)]     # staleRes = false only
        continue                                # as shipped (816fdee): missing (falls through to the append)
    else: raise CompletionCodeError(e.cc)
record_data.extend(data[:]); offset = len(record_data)
if len(record_data) >= record_length: break
```
As shipped, `retry = 0` was followed by `retry -= 1` and never raised; that corner (request size
shrunk to ≤ 0) needs five refusals in a row, which a device with a fixed limit that served the
5-byte header cannot produce; it is outside the as-shipped model (`unmodelled`). -/
def dataLoop (get : σ → Nat → Nat → Nat → (σ × Outcome (Nat × List Nat)) × Nat) (recLen : Nat) :
    Nat → Nat → σ → Nat → List Nat → Nat → List Nat → σ × Outcome ((Nat × List Nat) × Nat)
  | 0, _, st, _, _, _, _ => (st, .pyError "unmodelled:retry<1")
  | r + 1, m, st, res, acc, next, last =>
    if r = 0 then (st, .retryError) else
    let off := acc.length
    let len := if off + m > recLen then recLen - off else m
    match get st res off len with
    | ((st1, .ok (nx, d)), res1) =>
      let acc' := acc ++ d
      if acc'.length ≥ recLen then (st1, .ok ((nx, acc'), res1))
      else dataLoop get recLen r m st1 res1 acc' nx d
    | ((st1, .ccError c), res1) =>
      if c = XK.cantReturn then
        if m ≤ XK.reqLenDec then
          (st1, if v.fallThrough then .pyError "unmodelled:max_req_len<=0" else .retryError)
        else if v.fallThrough then
          let acc' := acc ++ last
          if acc'.length ≥ recLen then (st1, .ok ((next, acc'), res1))
          else dataLoop get recLen r (m - XK.reqLenDec) st1 res1 acc' next last
        else dataLoop get recLen r (m - XK.reqLenDec) st1 res1 acc next last
      else (st1, .ccError c)
    | ((st1, e), _) => (st1, recast e)

/-- get_sdr_data_helper after `reservation_id` is settled: the 5-byte header read, then the chunk
loop for the length the header announces, addressed by the id found in the header; the result
carries the `reservation_id` the helper ended with (the header read is outside any `try`: an
exception there leaves the helper). -/
def getSdrDataWith (s : Store) (st : σ) (id res : Nat) : σ × Outcome ((Nat × List Nat) × Nat) :=
  match getFn K v x s id st res 0 XK.hdrLen with
  | ((st1, .ok (nx, d)), res1) =>
    if d.length < 5 then (st1, .decodingError)   -- the five header pops run out of data
    else
      dataLoop XK v (getFn K v x s (hdrId d)) (d.getD 4 0 + 5) XK.dataRetry XK.maxReqLen st1 res1 d nx d
  | ((st1, e), _) => (st1, recast e)

/-- get_sdr_data_helper(reserve_fn, get_fn, record_id, reservation_id, with_reservation=True) for
store `s`: `if reservation_id is None: reservation_id = reserve_fn()`, then the read. -/
def getSdrDataR (s : Store) (st : σ) (id : Nat) (res? : Option Nat) : σ × Outcome ((Nat × List Nat) × Nat) :=
  match res? with
  | some r => getSdrDataWith K XK v x s st id r
  | none =>
    match reserve K x s st with
    | (st0, .ok res) => getSdrDataWith K XK v x s st0 id res
    | (st0, e) => (st0, recast e)

/-- forget the reservation id of a result -/
def dropRes {α : Type} : Outcome (α × Nat) → Outcome α
  | .ok p => .ok p.1
  | e => recast e

/-- get_repository_sdr / get_device_sdr (up to the parse of the record): `(next_id, record_data)`. -/
def getSdrData (s : Store) (st : σ) (id : Nat) (res? : Option Nat) : σ × Outcome (Nat × List Nat) :=
  ((getSdrDataR K XK v x s st id res?).1, dropRes (getSdrDataR K XK v x s st id res?).2)

/-- The body of sdr_repository_entries / device_sdr_entries: read record `id`, keep its bytes,
follow `next_id` until 0xffff.  Python has no bound here; `fuel` counts records (`Hang` when it
runs out — a theorem shows it does not for a well-formed store).
`SdrCommon.__init__` sets `.next_id` only `if next_id:` — a successor id of 0 makes the
generator's `s.next_id` raise AttributeError.
As shipped the generator keeps the reservation it took at the start for every record; intended:
`(s, reservation_id) = self._get_repository_sdr(record_id, reservation_id)` - it goes on with the
id the read of the previous record ended with. -/
def entries (s : Store) : Nat → σ → Nat → Nat → List (List Nat) → σ × Outcome (List (List Nat))
  | 0, st, _, _, _ => (st, .pyError "Hang")
  | f + 1, st, res, id, acc =>
    match getSdrDataR K XK v x s st id (some res) with
    | (st1, .ok ((nx, d), res1)) =>
      if nx = 0 then (st1, .pyError "AttributeError")
      else if nx = XK.lastId then (st1, .ok (acc ++ [d]))
      else entries s f st1 (if v.staleRes then res else res1) nx (acc ++ [d])
    | (st1, e) => (st1, recast e)

/-- get_repository_sdr_list / get_device_sdr_list: one reservation up front, then `entries` from 0. -/
def sdrList (s : Store) (fuel : Nat) (st : σ) : σ × Outcome (List (List Nat)) :=
  match reserve K x s st with
  | (st0, .ok res) => entries K XK v x s fuel st0 res 0 []
  | (st0, e) => (st0, recast e)

end

/-- The same transport, also recording every exchange (request, response), oldest first. -/
def traced {σ : Type} (x : Xport σ) : Xport (σ × List (Req × Rsp)) :=
  fun st r => (((x st.1 r).1, st.2 ++ [(r, (x st.1 r).2)]), (x st.1 r).2)

/-! ### scripted transport (C13): the device's behaviour is an outcome sequence -/

/-- A device whose answers to Get (Device) SDR follow an outcome script (`Retry.Script`: a finite
prefix of letters, then one letter for ever): a letter with completion code 0 serves the requested
bytes of its records, any other letter is answered with its code.  Reserve always succeeds and
grants consecutive ids (so a stale id is visible in the trace); both stores share script, records
and counter. -/
structure ScriptDev where
  script : Script
  lastRes : Nat
  recs : List (List Nat)
  deriving Repr, Inhabited

def scriptX : Xport ScriptDev := fun d r =>
  match r with
  | .reserve _ => ({ d with lastRes := d.lastRes + 1 }, .reserved (d.lastRes + 1))
  | .get _ _ id off cnt =>
    let d' := { d with script := d.script.next.2 }
    if d.script.next.1.code = 0 then
      match PyIpmi.Spec.Sdr.lookup d.recs id with
      | some (rec, nx) => (d', .data nx ((rec.drop off).take cnt))
      | none => (d', .err PyIpmi.Spec.Sdr.ccNotPresent)
    else (d', .err d.script.next.1.code)
  | _ => (d, .err PyIpmi.Spec.Sdr.ccInvalidCmd)

end PyIpmi.Model.SdrXfer
