/-
  Model/SdrXfer.lean — executable model that MIRRORS the SDR retrieval code (C11):

    * `reserve`     = Sdr.reserve_sdr_repository / Sensor.reserve_device_sdr_repository
    * `getChunk`    = Sdr._get_sdr_chunk / Sensor._get_device_sdr_chunk  (over Retry.chunkLoop =
                      helper.get_sdr_chunk_helper, budget 5)
    * `getSdrData`  = helper.get_sdr_data_helper  (header first, then the chunk loop with the
                      shrinking request size, budget 20)
    * `sdrList`     = Sdr.sdr_repository_entries / Sensor.device_sdr_entries collected into a list

  The model talks to a transport `x : σ → Req → σ × Rsp` on decoded messages; the truncation the
  message codec applies to request fields (16-bit ids, 8-bit offset and count) is modelled where
  the request is built.  Two places where the pinned source (commit 816fdee) differed from what the
  property needs are a `Variant`: the model runs either way; the translator reads the variant from
  the working tree on every run (`Gen.Loops11.variantRead`) and the check also probes the real code.
  The tree as repaired by 01f2987 / 91e28cb is `Variant.intended`.
  Core Lean only.
-/
import PyIpmi.Model.Retry
import PyIpmi.Spec.SdrDevice
namespace PyIpmi.Model.SdrXfer
open PyIpmi PyIpmi.Model.Retry
open PyIpmi.Spec.Sdr (Store Req Rsp)

/-- Constants of get_sdr_data_helper / the entries generators (from `Gen/Loops11.lean`). -/
structure XConsts where
  hdrLen : Nat        -- bytes of the first read
  dataRetry : Nat     -- `retry = 20`
  maxReqLen : Nat     -- `max_req_len = 20`
  reqLenDec : Nat     -- `max_req_len -= 4`
  cantReturn : Nat    -- the completion code that shrinks the request
  lastId : Nat        -- 0xffff ends the listing
  deriving Repr, DecidableEq, Inhabited

structure Variant where
  /-- after "cannot return number of requested bytes" the loop body goes on and appends the
  previous chunk again (as shipped) instead of repeating the read with the smaller size -/
  fallThrough : Bool
  /-- store whose reservation command `Sdr._get_sdr_chunk` hands to the chunk helper -/
  repoRenew : Store
  /-- same for `Sensor._get_device_sdr_chunk` -/
  devRenew : Store
  deriving Repr, DecidableEq, Inhabited

def Variant.asShipped : Variant := ⟨true, .dev, .dev⟩
def Variant.intended : Variant := ⟨false, .repo, .dev⟩

def Variant.renew (v : Variant) : Store → Store
  | .repo => v.repoRenew
  | .dev => v.devRenew

/-- Control-flow and call-site facts of get_sdr_data_helper and its callers that the definitions
below hard-wire; read from the source on every run (`Props.C11.source_shape`). -/
structure XferShape where
  headerOffset : Nat            -- first read: `get_fn(reservation_id, record_id, 0, 5)`
  headerPops : List Nat         -- `pop_unsigned_int` sizes: id 2, version 1, type 1, payload length 1
  recordLengthAdd : Nat         -- `record_length = record_payload_length + 5`
  dataDecr : Nat                -- `retry -= 1`
  dataExhaustCmp : Cmp          -- `if retry == 0: raise RetryError()`
  dataExhaustAt : Nat
  dataClampCmp : Cmp            -- `if (offset + length) > record_length:`
  dataBreakCmp : Cmp            -- `if len(record_data) >= record_length: break`
  dataOtherCodeReraises : Bool  -- `else: raise CompletionCodeError(e.cc)`
  repoDataReserve : Store       -- reserve_fn given to get_sdr_data_helper by get_repository_sdr
  devDataReserve : Store        -- … by get_device_sdr
  repoListReserve : Store       -- reservation taken by sdr_repository_entries
  devListReserve : Store        -- … by device_sdr_entries
  listStartId : Nat             -- `record_id = 0`
  deriving Repr, DecidableEq, Inhabited

def XferShape.expected : XferShape :=
  ⟨0, [2, 1, 1, 1], 5, 1, .eq, 0, .gt, .ge, true, .repo, .dev, .repo, .dev, 0⟩

abbrev Xport (σ : Type) := σ → Req → σ × Rsp

section
variable {σ : Type} (K : Consts) (XK : XConsts) (v : Variant) (x : Xport σ)

/-- `send_message_with_name('Reserve…')` + `check_rsp_completion_code` + `rsp.reservation_id`. -/
def reserve (s : Store) (st : σ) : σ × Outcome Nat :=
  match x st (.reserve s) with
  | (st', .reserved id) => (st', .ok id)
  | (st', .err c) => (st', if c = K.ccOk then .decodingError else .ccError c)
  | (st', .data _ _) => (st', .pyError "unmodelled:response-kind")

/-- `send_fn(req)` for a Get (Device) SDR request whose reservation id is `res`; the codec keeps
16 bits of the ids and 8 bits of offset and count. -/
def sendGet (s : Store) (id off cnt : Nat) (st : σ) (res : Nat) : σ × Outcome (Nat × (Nat × List Nat)) :=
  match x st (.get s (res % 65536) (id % 65536) (off % 256) (cnt % 256)) with
  | (st', .data nx b) => (st', .ok (K.ccOk, (nx, b)))
  | (st', .err c) => (st', .ok (c, (0, [])))
  | (st', .reserved _) => (st', .pyError "unmodelled:response-kind")

/-- `_get_sdr_chunk(reservation_id, record_id, offset, length)` → `(next_record_id, record_data)`. -/
def getChunk (s : Store) (st : σ) (res id off cnt : Nat) : σ × Outcome (Nat × List Nat) :=
  chunkLoop K (sendGet K x s id off cnt) (reserve K x (v.renew s)) K.chunkRetryDefault st res

/-- `pop_unsigned_int(2)` on the header. -/
def hdrId (d : List Nat) : Nat := d.getD 0 0 + 256 * d.getD 1 0

/-- The chunk loop of get_sdr_data_helper.  `retry` is Python's counter before the decrement,
`m` is `max_req_len`, `acc` is `record_data`, `next`/`last` are the values `next_id` / `data` still
hold from the previous successful read.

```
retry -= 1
if retry == 0: raise RetryError()
length = max_req_len
if (offset + length) > record_length: length = record_length - offset
try: (next_id, data) = get_fn(reservation_id, record_id, offset, length)
except CompletionCodeError as e:
    if e.cc == CC_CANT_RET_NUM_REQ_BYTES:
        max_req_len -= 4
        if max_req_len <= 0: raise RetryError() # as shipped (816fdee): retry = 0
        continue                                # as shipped: missing (falls through to the append)
    else: raise CompletionCodeError(e.cc)
record_data.extend(data[:]); offset = len(record_data)
if len(record_data) >= record_length: break
```
As shipped, `retry = 0` was followed by `retry -= 1` and never raised; that corner (request size
shrunk to ≤ 0) needs five refusals in a row, which a device with a fixed limit that served the
5-byte header cannot produce; it is outside the as-shipped model (`unmodelled`). -/
def dataLoop (get : σ → Nat → Nat → σ × Outcome (Nat × List Nat)) (recLen : Nat) :
    Nat → Nat → σ → List Nat → Nat → List Nat → σ × Outcome (Nat × List Nat)
  | 0, _, st, _, _, _ => (st, .pyError "unmodelled:retry<1")
  | r + 1, m, st, acc, next, last =>
    if r = 0 then (st, .retryError) else
    let off := acc.length
    let len := if off + m > recLen then recLen - off else m
    match get st off len with
    | (st1, .ok (nx, d)) =>
      let acc' := acc ++ d
      if acc'.length ≥ recLen then (st1, .ok (nx, acc'))
      else dataLoop get recLen r m st1 acc' nx d
    | (st1, .ccError c) =>
      if c = XK.cantReturn then
        if m ≤ XK.reqLenDec then
          (st1, if v.fallThrough then .pyError "unmodelled:max_req_len<=0" else .retryError)
        else if v.fallThrough then
          let acc' := acc ++ last
          if acc'.length ≥ recLen then (st1, .ok (next, acc'))
          else dataLoop get recLen r (m - XK.reqLenDec) st1 acc' next last
        else dataLoop get recLen r (m - XK.reqLenDec) st1 acc next last
      else (st1, .ccError c)
    | (st1, e) => (st1, recast e)

/-- get_sdr_data_helper after `reservation_id` is settled: the 5-byte header read, then the chunk
loop for the length the header announces, addressed by the id found in the header. -/
def getSdrDataWith (s : Store) (st : σ) (id res : Nat) : σ × Outcome (Nat × List Nat) :=
  match getChunk K v x s st res id 0 XK.hdrLen with
  | (st1, .ok (nx, d)) =>
    if d.length < 5 then (st1, .decodingError)   -- the five header pops run out of data
    else
      dataLoop XK v (fun st off len => getChunk K v x s st res (hdrId d) off len)
        (d.getD 4 0 + 5) XK.dataRetry XK.maxReqLen st1 d nx d
  | (st1, e) => (st1, recast e)

/-- get_sdr_data_helper(reserve_fn, get_fn, record_id, reservation_id) for store `s`:
`if reservation_id is None: reservation_id = reserve_fn()`, then the read. -/
def getSdrData (s : Store) (st : σ) (id : Nat) (res? : Option Nat) : σ × Outcome (Nat × List Nat) :=
  match res? with
  | some r => getSdrDataWith K XK v x s st id r
  | none =>
    match reserve K x s st with
    | (st0, .ok res) => getSdrDataWith K XK v x s st0 id res
    | (st0, e) => (st0, recast e)

/-- The body of sdr_repository_entries / device_sdr_entries: read record `id`, keep its bytes,
follow `next_id` until 0xffff.  Python has no bound here; `fuel` counts records (`Hang` when it
runs out — a theorem shows it does not for a well-formed store).
`SdrCommon.__init__` sets `.next_id` only `if next_id:` — a successor id of 0 makes the
generator's `s.next_id` raise AttributeError. -/
def entries (s : Store) : Nat → σ → Nat → Nat → List (List Nat) → σ × Outcome (List (List Nat))
  | 0, st, _, _, _ => (st, .pyError "Hang")
  | f + 1, st, res, id, acc =>
    match getSdrData K XK v x s st id (some res) with
    | (st1, .ok (nx, d)) =>
      if nx = 0 then (st1, .pyError "AttributeError")
      else if nx = XK.lastId then (st1, .ok (acc ++ [d]))
      else entries s f st1 res nx (acc ++ [d])
    | (st1, e) => (st1, recast e)

/-- get_repository_sdr_list / get_device_sdr_list: one reservation up front, then `entries` from 0. -/
def sdrList (s : Store) (fuel : Nat) (st : σ) : σ × Outcome (List (List Nat)) :=
  match reserve K x s st with
  | (st0, .ok res) => entries K XK v x s fuel st0 res 0 []
  | (st0, e) => (st0, recast e)

end

/-- The same transport, also recording every exchange (request, response), oldest first. -/
def traced {σ : Type} (x : Xport σ) : Xport (σ × List (Req × Rsp)) :=
  fun st r => (((x st.1 r).1, st.2 ++ [(r, (x st.1 r).2)]), (x st.1 r).2)

end PyIpmi.Model.SdrXfer
