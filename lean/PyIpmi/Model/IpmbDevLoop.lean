/-
  Model/IpmbDevLoop.lean — `IpmbDev._send_and_receive` / `_receive_raw`
  (pyipmi/interfaces/ipmbdev.py) and `Aardvark._send_and_receive` / `_receive_raw`
  (pyipmi/interfaces/aardvark.py).  The two are the same loop up to framing
  (ipmb-dev prefixes a length byte and asserts it; Aardvark splits off the address byte).

    _send_and_receive:  retries = 0
                        while retries < max_retries: send; try receive → break
                                                     except IpmiTimeoutError / IOError: retries += 1; sleep
                        else: raise IpmiTimeoutError
    _receive_raw:       start = now
                        loop: timeout = self.timeout − (now − start)
                              timeout <= 0 or polled-nothing-last-time → IpmiTimeoutError
                              select/poll (timeout) → nothing → remember, continue
                              read a frame; rx_filter(header, frame) → return it / go round again

  There is no receive queue: nothing but `next_sequence_number` survives a request.
  `is_ipmc_accessible` (one exchange without the retry loop, `i2cProbe`) is a request too.

  These transports do not bridge: they write the request straight to `target.ipmb_address` on the local
  bus.  `I2cCfg.refuseRouted = true` is the repaired source (fixes/C09-2.diff): a target whose routing has
  more than one hop is REFUSED — NotSupportedError as the very first statement of `_send_and_receive` /
  `is_ipmc_accessible`, before the sequence number is advanced and before anything is written;
  `refuseRouted = false` is the source as shipped, which ignored `Target.routing` and put the un-bridged
  request on the local bus (property C09).

  `Shape.*` at the end of this file are the four Python functions, statement by statement, each
  annotated with the definition here that mirrors it; the translator regenerates the same values
  from the working tree and `Props.C04.source_shape_ipmbdev` / `source_shape_aardvark` demand equality.

  Time is a virtual clock carried by the events (`dt` ticks pass before the frame is
  readable); the model needs only the time elapsed since `start`.  Adversarial on purpose:
  a frame event may claim more ticks than the timeout that was asked for (a late wake-up);
  the code accepts such a frame if it matches, and so does the model.
-/
import PyIpmi.Model.RmcpLoop
namespace PyIpmi.Loops
open PyIpmi

inductive I2cEvent where
  | frame (dt : Nat) (bs : Frame)     -- readable after dt ticks, full IPMB frame (rqSA first)
  | badLen (dt : Nat) (bs : Frame)    -- ipmb-dev only: length prefix does not match
  | rdError (dt : Nat)                -- readable, the read raises OSError/IOError
  | idle                              -- nothing arrives within the timeout
  deriving Repr, DecidableEq

structure I2cCfg where
  /-- ticks -/
  timeout : Nat
  /-- number of attempts (`while retries < max_retries`) -/
  attempts : Nat
  /-- ipmb-dev: `assert rx_data[0] == len(rx_data) - 1` -/
  lenByte : Bool
  slaveAddr : Nat := 0x20
  /-- repaired source (fixes/C09-2.diff): `if target.routing and len(target.routing) > 1: raise
  NotSupportedError` in front of everything else; `false` = as shipped (`Target.routing` ignored) -/
  refuseRouted : Bool := true
  deriving Repr, DecidableEq

def I2cCfg.ipmbdev : I2cCfg :=
  { timeout := Gen.Loops04.ipmbdevTimeoutTicks,
    attempts := Gen.Loops04.ipmbdevMaxRetries + Gen.Loops04.ipmbdevAttemptsExtra, lenByte := true }

def I2cCfg.aardvark : I2cCfg :=
  { timeout := Gen.Loops04.aardvarkTimeoutTicks,
    attempts := Gen.Loops04.aardvarkMaxRetries + Gen.Loops04.aardvarkAttemptsExtra, lenByte := false }

inductive I2cRecv where
  | got (f : Frame) (rest : List I2cEvent)
  | timeout (rest : List I2cEvent)          -- IpmiTimeoutError
  | ioError (rest : List I2cEvent)          -- IOError from the read
  | abort (e : Outcome Frame) (rest : List I2cEvent)

/-- What one received frame does to `_receive_raw`. -/
def i2cFrame (h : Hdr) (bs : Frame) : Cls :=
  if bs.length < 6 then .err (.pyError "IndexError")
  else if rxFilter true h bs then .hit bs else .noise bs

/-- `_receive_raw`; `el` = ticks elapsed since `start_time`. -/
def recvRaw (cfg : I2cCfg) (h : Hdr) : Nat → List I2cEvent → I2cRecv
  | _, [] => .timeout []
  | el, ev :: rest =>
    if cfg.timeout ≤ el then .timeout (ev :: rest)
    else
      match ev with
      | .idle => .timeout rest
      | .rdError _ => .ioError rest
      | .badLen dt bs =>
        if cfg.lenByte then .abort (.pyError "AssertionError") rest
        else
          match i2cFrame h bs with
          | .hit g => .got g rest
          | .noise _ => recvRaw cfg h (el + dt) rest
          | .ack => recvRaw cfg h (el + dt) rest
          | .err e => .abort e rest
      | .frame dt bs =>
        match i2cFrame h bs with
        | .hit g => .got g rest
        | .noise _ => recvRaw cfg h (el + dt) rest
        | .ack => recvRaw cfg h (el + dt) rest
        | .err e => .abort e rest

structure I2cResult where
  out : Outcome Frame
  rest : List I2cEvent
  sends : Nat
  deriving Repr

/-- the `while retries < self.max_retries … else: raise IpmiTimeoutError` loop; `n` attempts left -/
def i2cAttempts (cfg : I2cCfg) (h : Hdr) : Nat → List I2cEvent → Nat → I2cResult
  | 0, evs, s => ⟨.timeoutError, evs, s⟩
  | n + 1, evs, s =>
    match recvRaw cfg h 0 evs with
    | .got f rest => ⟨.ok (pySlice 6 1 f), rest, s + 1⟩      -- rx_data[1:] then [5:-1]
    | .timeout rest => i2cAttempts cfg h n rest (s + 1)
    | .ioError rest => i2cAttempts cfg h n rest (s + 1)
    | .abort e rest => ⟨e, rest, s + 1⟩

structure I2cStep where
  nextSeq : Nat
  out : Outcome Frame
  tx : List Frame
  rest : List I2cEvent
  deriving Repr

/-- `_inc_sequence_number` of ipmbdev.py / aardvark.py (same rule; the translator extracts
each and `Props.C04.gen_seq_rules_agree` checks they coincide). -/
def i2cIncSeq (s : Nat) : Nat := (s + Gen.Loops04.ipmbdevSeqInc) % Gen.Loops04.ipmbdevSeqMod

/-- `if target.routing and len(target.routing) > 1: raise NotSupportedError(…)` — the guard of the
repaired source: these transports cannot bridge, so a target that is reachable only through a bridge is
refused (`Target.routing` is `None` / a list: `[]` stands for both) -/
def i2cRefuses (cfg : I2cCfg) (routing : List Hop) : Bool := cfg.refuseRouted && decide (1 < routing.length)

/-- what a refused request leaves behind: NotSupportedError, the sequence number NOT advanced, nothing
written, nothing read -/
def i2cRefused (nextSeq : Nat) (evs : List I2cEvent) : I2cStep :=
  { nextSeq := nextSeq, out := .notSupported, tx := [], rest := evs }

/-- One `_send_and_receive` on ipmb-dev / Aardvark.  The request goes straight to `target.ipmb_address`
(`req.rsSa`) from `slave_address`; of `Target.routing` only its length is looked at (the guard). -/
def i2cRequest (cfg : I2cCfg) (nextSeq : Nat) (req : Req) (evs : List I2cEvent) : I2cStep :=
  if i2cRefuses cfg req.routing then i2cRefused nextSeq evs
  else
    let seq := i2cIncSeq nextSeq
    let h := mkHdr cfg.slaveAddr req seq
    let r := i2cAttempts cfg h cfg.attempts evs 0
    { nextSeq := seq, out := r.out, tx := List.replicate r.sends (encodeIpmbMsg h req.payload), rest := r.rest }

/-- The request `is_ipmc_accessible(target)` puts on the bus: Get Device ID (netFn App, command 01h)
to LUN 0 of the target, no data. -/
def probeReq (rsSa : Nat) : Req := { rsSa := rsSa, netfn := 6, lun := 0, cmd := 1 }

/-- `IpmbDev.is_ipmc_accessible` / `Aardvark.is_ipmc_accessible`: ONE request/response exchange
(send once, `_receive_raw` once; an IpmiTimeoutError / IOError goes to the caller, who polls).
`inc = true` is the repaired source (fixes/C04-4.diff): the probe advances the sequence number like
every other request; `inc = false` is the source as shipped: it goes out with the number of the
request before it.  `out = .ok []` stands for `return True`.  `routing` = `target.routing`: the same
guard as in `_send_and_receive` comes first (`i2cRefuses`). -/
def i2cProbe (cfg : I2cCfg) (inc : Bool) (nextSeq : Nat) (rsSa : Nat) (evs : List I2cEvent)
    (routing : List Hop := []) : I2cStep :=
  if i2cRefuses cfg routing then i2cRefused nextSeq evs
  else
    let seq := if inc then i2cIncSeq nextSeq else nextSeq
    let h := mkHdr cfg.slaveAddr (probeReq rsSa) seq
    let tx := [encodeIpmbMsg h []]
    match recvRaw cfg h 0 evs with
    | .got _ rest => { nextSeq := seq, out := .ok [], tx := tx, rest := rest }
    | .timeout rest => { nextSeq := seq, out := .timeoutError, tx := tx, rest := rest }
    | .ioError rest => { nextSeq := seq, out := .pyError "OSError", tx := tx, rest := rest }
    | .abort e rest => { nextSeq := seq, out := e, tx := tx, rest := rest }

def i2cFramesOf : List I2cEvent → List Frame
  | [] => []
  | .frame _ bs :: r => bs :: i2cFramesOf r
  | .badLen _ bs :: r => bs :: i2cFramesOf r
  | _ :: r => i2cFramesOf r

/-! ## What the functions above hard-wire, as the source states it

The four Python functions in the syntax of Model/LoopAst.lean.  The translator writes the same
functions, re-read from the working tree, to `Gen.Loops04.{ipmbdev,aardvark}{SendAndReceive,ReceiveRaw}`
on every run; `Props.C04.source_shape_ipmbdev` / `source_shape_aardvark` state that they are
EQUAL to the values below.  Each statement is annotated with the place of this file that
mirrors it. -/
namespace Shape
open PyIpmi.LoopAst

/-- `if target.routing and len(target.routing) > 1: raise NotSupportedError(…)` (`target` is parameter 0 of
all four functions that carry it): `i2cRefuses` -/
def routedGuard : S :=
  .ite (.and_ (.attr (.var 0) .routing) (.cmp .gt (.call (.glob .len) args[.attr (.var 0) .routing]) (.num 1))) py[
    .raise (.glob .NotSupportedError)] py[]

/-- `_send_and_receive` of ipmb-dev and Aardvark up to the `return` statement `last`.
variables: 0=target, 1=lun, 2=netfn, 3=cmdid, 4=payload (parameters), 5=header, 6=retries, 7=rx_data -/
def i2cSendAndReceive (last : S) : Fun :=
  { params := 5, body := py[
    -- `i2cRefuses cfg req.routing` → `i2cRefused`: the guard comes FIRST — a target behind a bridge is refused
    -- before the sequence number is advanced and before anything is written (`refuseRouted = true`; the
    -- pinned source had no such statement: `Target.routing` was ignored, property C09)
    routedGuard,
    -- `i2cRequest`: `seq := i2cIncSeq nextSeq` comes next and on every other path (`nextSeq := seq` whatever the outcome)
    .expr (.call (.attr .self_ .u_inc_sequence_number) args[]),
    -- `mkHdr cfg.slaveAddr req seq`; rq_seq is the number just advanced
    .assign (.var 5) (.call (.glob .IpmbHeaderReq) args[]),
    .assign (.attr (.var 5) .netfn) (.var 2),
    .assign (.attr (.var 5) .rs_lun) (.var 1),
    .assign (.attr (.var 5) .rs_sa) (.attr (.var 0) .ipmb_address),
    .assign (.attr (.var 5) .rq_seq) (.attr .self_ .next_sequence_number),
    .assign (.attr (.var 5) .rq_lun) (.num 0),
    .assign (.attr (.var 5) .rq_sa) (.attr .self_ .slave_address),
    .assign (.attr (.var 5) .cmdid) (.var 3),
    -- `i2cAttempts cfg h cfg.attempts evs 0`: counter from 0 while `< max_retries` (Gen.…AttemptsExtra = 0)
    .assign (.var 6) (.num 0),
    .while_ (.cmp .lt (.var 6) (.attr .self_ .max_retries)) py[
      .try_ py[
        -- every attempt writes the same request once (`s + 1`, `List.replicate r.sends (encodeIpmbMsg h …)`)
        .expr (.call (.attr .self_ .u_send_raw) args[.var 5, .var 4]),
        -- `recvRaw cfg h 0 evs`: the clock restarts with every attempt; rx_data is assigned ONLY by a
        -- `_receive_raw` that returned (`I2cRecv.got`), i.e. by a frame that passed rx_filter
        .assign (.var 7) (.call (.attr .self_ .u_receive_raw) args[.var 5]),
        .brk]
        -- `I2cRecv.timeout` and `I2cRecv.ioError` → next attempt; anything else (`I2cRecv.abort`) leaves
        (.cons (.glob .IpmiTimeoutError) py[
        .pass_] (.cons (.glob .IOError) py[
        .pass_] .nil)),
      .aug .add (.var 6) (.num 1),
      -- the sleep schedule (0.2 s × attempt) is compared by the harness, not part of the model
      .expr (.call (.attr (.glob .time) .sleep) args[.bin .mul (.var 6) (.frac 1 5)])] py[
      -- `i2cAttempts 0` → IpmiTimeoutError: the loop's `else`, reached only without `break`
      .raise (.glob .IpmiTimeoutError)],
    -- `I2cRecv.got f` → `.ok (pySlice 6 1 f)` (see `last`)
    last] }

/-- ipmb-dev returns `rx_data[5:-1]` of the frame WITHOUT its first byte (`_receive_raw` below cuts
it off): `pySlice 6 1` of the full frame. -/
def ipmbdevSendAndReceive : Fun :=
  i2cSendAndReceive (.ret (.slice (.var 7) (.num 5) (.neg 1)))

/-- Aardvark: the same through `py3_array_tobytes`; its `_receive_raw` returns the frame as read
from the adapter, which lacks the first byte (the address the adapter reports separately). -/
def aardvarkSendAndReceive : Fun :=
  i2cSendAndReceive (.ret (.slice (.call (.glob .py3_array_tobytes) args[.var 7]) (.num 5) (.neg 1)))

/-- `IpmbDev._receive_raw`.  variables: 0=header (parameter), 1=start_time, 2=rsp_received,
3=poll_returned_no_data, 4=timeout, 5=r, 6=w, 7=e, 8=rx_data -/
def ipmbdevReceiveRaw : Fun :=
  { params := 1, body := py[
    -- `recvRaw cfg h 0 …`: `el` is the time since this point
    .assign (.var 1) (.call (.attr (.glob .time) .time) args[]),
    .assign (.var 2) .ff,
    .assign (.var 3) .ff,
    -- `recvRaw` recurses until a frame passes the filter (`.hit g => .got g rest`)
    .while_ (.not_ (.var 2)) py[
      -- `if cfg.timeout ≤ el then .timeout …` and `.idle => .timeout rest` (an empty poll is
      -- remembered and raises on the next round, before anything else is read)
      .assign (.var 4) (.bin .sub (.attr .self_ .timeout) (.bin .sub (.call (.attr (.glob .time) .time) args[]) (.var 1))),
      .ite (.or_ (.cmp .le (.var 4) (.num 0)) (.var 3)) py[
        .raise (.glob .IpmiTimeoutError)] py[],
      .assign (.tuple args[.var 5, .var 6, .var 7]) (.call (.attr (.glob .select) .select) args[.list args[.attr .self_ .u_dev], .list args[], .list args[], .var 4]),
      .ite (.cmp .notIn (.attr .self_ .u_dev) (.var 5)) py[
        .assign (.var 3) .tt,
        .cont] py[],
      -- `.rdError _ => .ioError rest`: the read raises
      .assign (.var 8) (.call (.attr (.glob .os) .read) args[.attr .self_ .u_dev, .num 256]),
      -- `.badLen … => if cfg.lenByte then .abort AssertionError` (`I2cCfg.ipmbdev.lenByte = true`)
      .assert_ (.cmp .eq (.index (.var 8) (.num 0)) (.bin .sub (.call (.glob .len) args[.var 8]) (.num 1))),
      .assign (.var 8) (.slice (.var 8) (.num 1) .none),
      .assign (.var 8) (.call (.glob .array) args[.chr 66, .var 8]),
      -- `i2cFrame`: IndexError on a short frame (here byte 3, then inside rx_filter)
      .log args[.index (.var 8) (.num 3)],
      -- `i2cFrame`: `rxFilter true h bs` — all default checks, sequence number always compared;
      -- `.noise _ => recvRaw cfg h (el + dt) rest`: an unmatched frame is dropped, only time passes
      .assign (.var 2) (.call (.glob .rx_filter) args[.var 0, .var 8]),
      -- the first byte (rqSA) is cut off after filtering: what is returned is the frame from byte 1
      .assign (.var 8) (.slice (.var 8) (.num 1) .none)] py[],
    .ret (.var 8)] }

/-- `Aardvark._receive_raw`.  variables: 0=header (parameter), 1=start_time, 2=rsp_received,
3=poll_returned_no_data, 4=timeout, 5=ret, 6=i2c_addr, 7=rx_data, 8=rq_sa -/
def aardvarkReceiveRaw : Fun :=
  { params := 1, body := py[
    .assign (.var 1) (.call (.attr (.glob .time) .time) args[]),
    .assign (.var 2) .ff,
    .assign (.var 3) .ff,
    .while_ (.not_ (.var 2)) py[
      -- as in ipmb-dev: timeout test first, an empty poll raises on the next round
      .assign (.var 4) (.bin .sub (.attr .self_ .timeout) (.bin .sub (.call (.attr (.glob .time) .time) args[]) (.var 1))),
      .ite (.or_ (.cmp .le (.var 4) (.num 0)) (.var 3)) py[
        .raise (.glob .IpmiTimeoutError)] py[],
      .assign (.var 5) (.call (.attr (.attr .self_ .u_dev) .poll) args[.call (.glob .int) args[.bin .mul (.var 4) (.num 1000)]]),
      .ite (.not_ (.var 5)) py[
        .assign (.var 3) .tt,
        .cont] py[],
      -- no length prefix (`I2cCfg.aardvark.lenByte = false`): `.badLen` is treated like `.frame`
      .assign (.tuple args[.var 6, .var 7]) (.call (.attr (.attr .self_ .u_dev) .i2c_slave_read) args[]),
      .assign (.var 7) (.call (.glob .array) args[.chr 66, .var 7]),
      .log args[],
      -- the filter sees address byte + data = the full frame (`i2cFrame h bs`); rx_data stays without it
      .assign (.var 8) (.call (.glob .array) args[.chr 66, .list args[.bin .shl (.var 6) (.num 1)]]),
      .assign (.var 2) (.call (.glob .rx_filter) args[.var 0, .bin .add (.var 8) (.var 7)])] py[],
    .ret (.var 7)] }

/-- `is_ipmc_accessible` of ipmb-dev and Aardvark (the two are the same text).
variables: 0=target (parameter), 1=header -/
def isIpmcAccessible : Fun :=
  { params := 1, body := py[
    -- `i2cRefuses cfg routing` → `i2cRefused`: the guard comes FIRST — a target behind a bridge is refused
    -- before the sequence number is advanced and before anything is written (`refuseRouted = true`; the
    -- pinned source had no such statement: `Target.routing` was ignored, property C09)
    routedGuard,
    -- `i2cProbe … inc = true`: the probe is a request like any other — it takes the NEXT sequence number
    -- (the pinned source lacked this statement: `inc = false`, the probe repeated the previous number)
    .expr (.call (.attr .self_ .u_inc_sequence_number) args[]),
    -- `mkHdr cfg.slaveAddr (probeReq target) seq`: Get Device ID, netFn 6, command 1, LUN 0
    .assign (.var 1) (.call (.glob .IpmbHeaderReq) args[]),
    .assign (.attr (.var 1) .netfn) (.num 6),
    .assign (.attr (.var 1) .rs_lun) (.num 0),
    .assign (.attr (.var 1) .rs_sa) (.attr (.var 0) .ipmb_address),
    .assign (.attr (.var 1) .rq_seq) (.attr .self_ .next_sequence_number),
    .assign (.attr (.var 1) .rq_lun) (.num 0),
    .assign (.attr (.var 1) .rq_sa) (.attr .self_ .slave_address),
    .assign (.attr (.var 1) .cmdid) (.num 1),
    -- one frame written, one `recvRaw cfg h 0 evs`; no retry loop: exceptions go to the caller
    .expr (.call (.attr .self_ .u_send_raw) args[.var 1, .none]),
    .expr (.call (.attr .self_ .u_receive_raw) args[.var 1]),
    .ret .tt] }

end Shape

end PyIpmi.Loops
