/-
  Model/IpmbDevLoop.lean — `IpmbDev._send_and_receive` / `_receive_raw`
  (pyipmi/interfaces/ipmbdev.py) and `Aardvark._send_and_receive` / `_receive_raw`
  (pyipmi/interfaces/aardvark.py).  The two are the same loop up to framing
  (ipmb-dev prefixes a length byte and asserts it; Aardvark splits off the address byte).

    _send_and_receive:  retries = 0
                        while retries < max_retries: send; try receive → break
                                                     except IpmiTimeoutError / IOError: retries += 1; sleep
                        else: raise IpmiTimeoutError
    _receive_raw:       start = now
                        loop: timeout = self.timeout − (now − start)
                              timeout <= 0 or polled-nothing-last-time → IpmiTimeoutError
                              select/poll (timeout) → nothing → remember, continue
                              read a frame; rx_filter(header, frame) → return it / go round again

  There is no receive queue: nothing but `next_sequence_number` survives a request.

  Time is a virtual clock carried by the events (`dt` ticks pass before the frame is
  readable); the model needs only the time elapsed since `start`.  Adversarial on purpose:
  a frame event may claim more ticks than the timeout that was asked for (a late wake-up);
  the code accepts such a frame if it matches, and so does the model.
-/
import PyIpmi.Model.RmcpLoop
namespace PyIpmi.Loops
open PyIpmi

inductive I2cEvent where
  | frame (dt : Nat) (bs : Frame)     -- readable after dt ticks, full IPMB frame (rqSA first)
  | badLen (dt : Nat) (bs : Frame)    -- ipmb-dev only: length prefix does not match
  | rdError (dt : Nat)                -- readable, the read raises OSError/IOError
  | idle                              -- nothing arrives within the timeout
  deriving Repr, DecidableEq

structure I2cCfg where
  /-- ticks -/
  timeout : Nat
  /-- number of attempts (`while retries < max_retries`) -/
  attempts : Nat
  /-- ipmb-dev: `assert rx_data[0] == len(rx_data) - 1` -/
  lenByte : Bool
  slaveAddr : Nat := 0x20
  deriving Repr, DecidableEq

def I2cCfg.ipmbdev : I2cCfg :=
  { timeout := Gen.Loops04.ipmbdevTimeoutTicks,
    attempts := Gen.Loops04.ipmbdevMaxRetries + Gen.Loops04.ipmbdevAttemptsExtra, lenByte := true }

def I2cCfg.aardvark : I2cCfg :=
  { timeout := Gen.Loops04.aardvarkTimeoutTicks,
    attempts := Gen.Loops04.aardvarkMaxRetries + Gen.Loops04.aardvarkAttemptsExtra, lenByte := false }

inductive I2cRecv where
  | got (f : Frame) (rest : List I2cEvent)
  | timeout (rest : List I2cEvent)          -- IpmiTimeoutError
  | ioError (rest : List I2cEvent)          -- IOError from the read
  | abort (e : Outcome Frame) (rest : List I2cEvent)

/-- What one received frame does to `_receive_raw`. -/
def i2cFrame (h : Hdr) (bs : Frame) : Cls :=
  if bs.length < 6 then .err (.pyError "IndexError")
  else if rxFilter true h bs then .hit bs else .noise bs

/-- `_receive_raw`; `el` = ticks elapsed since `start_time`. -/
def recvRaw (cfg : I2cCfg) (h : Hdr) : Nat → List I2cEvent → I2cRecv
  | _, [] => .timeout []
  | el, ev :: rest =>
    if cfg.timeout ≤ el then .timeout (ev :: rest)
    else
      match ev with
      | .idle => .timeout rest
      | .rdError _ => .ioError rest
      | .badLen dt bs =>
        if cfg.lenByte then .abort (.pyError "AssertionError") rest
        else
          match i2cFrame h bs with
          | .hit g => .got g rest
          | .noise _ => recvRaw cfg h (el + dt) rest
          | .ack => recvRaw cfg h (el + dt) rest
          | .err e => .abort e rest
      | .frame dt bs =>
        match i2cFrame h bs with
        | .hit g => .got g rest
        | .noise _ => recvRaw cfg h (el + dt) rest
        | .ack => recvRaw cfg h (el + dt) rest
        | .err e => .abort e rest

structure I2cResult where
  out : Outcome Frame
  rest : List I2cEvent
  sends : Nat
  deriving Repr

/-- the `while retries < self.max_retries … else: raise IpmiTimeoutError` loop; `n` attempts left -/
def i2cAttempts (cfg : I2cCfg) (h : Hdr) : Nat → List I2cEvent → Nat → I2cResult
  | 0, evs, s => ⟨.timeoutError, evs, s⟩
  | n + 1, evs, s =>
    match recvRaw cfg h 0 evs with
    | .got f rest => ⟨.ok (pySlice 6 1 f), rest, s + 1⟩      -- rx_data[1:] then [5:-1]
    | .timeout rest => i2cAttempts cfg h n rest (s + 1)
    | .ioError rest => i2cAttempts cfg h n rest (s + 1)
    | .abort e rest => ⟨e, rest, s + 1⟩

structure I2cStep where
  nextSeq : Nat
  out : Outcome Frame
  tx : List Frame
  rest : List I2cEvent
  deriving Repr

/-- `_inc_sequence_number` of ipmbdev.py / aardvark.py (same rule; the translator extracts
each and `Props.C04.gen_seq_rules_agree` checks they coincide). -/
def i2cIncSeq (s : Nat) : Nat := (s + Gen.Loops04.ipmbdevSeqInc) % Gen.Loops04.ipmbdevSeqMod

/-- One `_send_and_receive` on ipmb-dev / Aardvark (routing is ignored by these transports). -/
def i2cRequest (cfg : I2cCfg) (nextSeq : Nat) (req : Req) (evs : List I2cEvent) : I2cStep :=
  let seq := i2cIncSeq nextSeq
  let h := mkHdr cfg.slaveAddr req seq
  let r := i2cAttempts cfg h cfg.attempts evs 0
  { nextSeq := seq, out := r.out, tx := List.replicate r.sends (encodeIpmbMsg h req.payload), rest := r.rest }

def i2cFramesOf : List I2cEvent → List Frame
  | [] => []
  | .frame _ bs :: r => bs :: i2cFramesOf r
  | .badLen _ bs :: r => bs :: i2cFramesOf r
  | _ :: r => i2cFramesOf r

end PyIpmi.Loops
