/-
  Model of the FRU inventory parser: pyipmi/fru.py `FruInventory._from_data` and everything
  below it (`InventoryCommonHeader`, `CommonInfoArea`, `Inventory{Chassis,Board,Product}InfoArea`,
  `_decode_custom_fields`, `InventoryMultiRecordArea`, `FruDataMultiRecord`, `FruPicmgRecord`,
  `FruPicmgPowerModuleCapabilityRecord`), pyipmi/fields.py `TypeLengthString._from_data`,
  `_unpack6bitascii`, pyipmi/utils.py `bcd_decode`.

  It MIRRORS the Python, including its laxness:
  * an empty image parses to an inventory without header; an area whose offset lies behind the end
    of the data becomes an object without attributes (`FruData.__init__: if data:`)       -> `Slot.empty`
  * the header's format version is read but not checked; its checksum is
  * an info area is handed `data[offset:]` (everything up to the END OF THE IMAGE); the checksum
    is over `data[:length]`, a clamped slice (length 0 -> empty sum -> accepted; a length behind
    the end of the data -> sum over what is there) – as shipped (`areaLenLax`)
  * fields are read with running offsets (`offset += field.length + 1`) – here: the remaining
    bytes are dropped; a read behind the end is `IndexError`
  * `raw = data[offset+1:offset+1+length]` is clamped
  * the fields and the C1h marker are looked for in the WHOLE rest of the image, not in the area
    whose length was just verified – as shipped (`fieldsLax`); repaired: `CommonInfoArea._from_data`
    returns `data[:length - 1]`, the sub-classes decode from that, `FruTypeLengthString` and
    `_decode_custom_fields` raise DecodingError when a field / the marker lies outside the data
  * nothing compares the extent of an area with the offsets of the others – as shipped
    (`overlapLax`, device path `devOverlapLax`); repaired: `_check_area_layout(header, fru)` at the
    end of `FruInventory._from_data` and of `Fru.get_fru_inventory`
  * BCD+ text is `self.raw.decode('bcd+')`: exists only on `bytes` (AttributeError on array / list)
    – as shipped; invalid nibbles -> ValueError
  * 6-bit text: groups of 3 bytes -> 4 characters; a shorter last group raises IndexError – as shipped
  * custom fields are read until a byte C1h is found (IndexError when there is none)
  * records: type C0h is parsed as PICMG record whatever the manufacturer id says; the record
    object is built twice; `raw = data[5:5+length]` is clamped; PICMG fields are read from fixed
    positions even when the record is shorter (the tail of the image must have 10 / 12 bytes)
    – as shipped (`picmgTypeOnly`)

  `Variant` carries the repaired behaviours (DESIGN §2.4): `asShipped` is the pinned tree,
  `intended` the tree after fixes/C15-1.diff (BCD+ on non-bytes, partial 6-bit group),
  fixes/C15-2.diff (info-area length byte validated: not 0, inside the data – in
  `CommonInfoArea._from_data` and, for the device path, in `Fru._read_fru_area`) and
  fixes/C15-3.diff (a C0h record is a PICMG record only if its own data are long enough and start
  with the PICMG manufacturer id; PICMG fields are read only from inside the record),
  fixes/C15-4.diff (fields confined to the area) and fixes/C15-5.diff (areas disjoint).  The harness
  PROBES every flag on the tree under test.  Byte-level bit expressions whose constants come from
  the source are evaluated from `Gen/FruTables.lean`.  Core only.
-/
import PyIpmi.Base.Outcome
import PyIpmi.Base.Bytes
import PyIpmi.Spec.FruFormat
import PyIpmi.Gen.FruTables
namespace PyIpmi.Fru
open PyIpmi PyIpmi.Gen

structure Variant where
  bcdBytesOnly : Bool     -- BCD+ text decodes only when the image is a `bytes` object
  sixStrict : Bool        -- a 6-bit group shorter than 3 bytes raises IndexError
  areaLenLax : Bool       -- CommonInfoArea._from_data: area length 0 / behind the end of the data is not
                          --   rejected, the checksum is summed over a clamped (possibly empty) slice
  devLenLax : Bool        -- Fru._read_fru_area: area length 0 reads nothing -> attribute-less area object
  picmgTypeOnly : Bool    -- every C0h record is a PICMG record; the length guards look at the rest of
                          --   the image instead of the record's own length
  fieldsLax : Bool        -- the fields / the C1h marker of an info area are read from everything behind the
                          --   area offset (clamped raw, IndexError at the end of the data), not from the area
  overlapLax : Bool       -- FruInventory._from_data: no check that the areas are disjoint
  devOverlapLax : Bool    -- Fru.get_fru_inventory: no check that the areas are disjoint
  deriving Repr, DecidableEq, Inhabited

def Variant.asShipped : Variant := ⟨true, true, true, true, true, true, true, true⟩
def Variant.intended : Variant := ⟨false, false, false, false, false, false, false, false⟩
/-- the pinned tree after fixes/C15-1.diff only (the tree the FRU audit looked at) -/
def Variant.afterC15_1 : Variant := ⟨false, false, true, true, true, true, true, true⟩
/-- the pinned tree after fixes/C15-1..3.diff (the tree the second FRU audit looked at) -/
def Variant.afterC15_3 : Variant := ⟨false, false, false, false, false, true, true, true⟩

/-- Python type of the image object handed to `FruInventory` -/
inductive InputKind where
  | bytes
  | array
  | list
  deriving Repr, DecidableEq, Inhabited

/-! ### utils.bcd_decode -/

def bcdDecode : List Nat → Option (List Nat)
  | [] => some []
  | x :: xs => do
    let hi ← FruTables.bcdMap[(x >>> FruTables.bcdHiShift) &&& FruTables.bcdHiMask]?
    let lo ← FruTables.bcdMap[x &&& FruTables.bcdLoMask]?
    let rest ← bcdDecode xs
    some (hi :: lo :: rest)

/-! ### fields._unpack6bitascii -/

abbrev SixTerm := Nat × Nat × Nat
abbrev SixDesc := SixTerm × SixTerm

def sixTerm (d : List Nat) (t : SixTerm) (left : Bool) : Option Nat :=
  (d[t.1]?).map fun x => if left then (x &&& t.2.1) <<< t.2.2 else (x &&& t.2.1) >>> t.2.2

def sixChar (d : List Nat) (c : SixDesc) : Option Nat := do
  let a ← sixTerm d c.1 false
  if c.2.2.1 = 0 then some (FruTables.sixBase + a)
  else do
    let b ← sixTerm d c.2 true
    some (FruTables.sixBase + (a ||| b))

/-- highest byte index the character reads -/
def sixNeed (c : SixDesc) : Nat := if c.2.2.1 = 0 then c.1.1 else max c.1.1 c.2.1

/-- one group `d = data[i:i+3]`.  strict: all four characters are computed (IndexError = none
when a byte is missing); otherwise only those whose bytes exist (`if len(d) > k`). -/
def sixGroup (strict : Bool) (d : List Nat) : Option (List Nat) :=
  (FruTables.sixChars.filter fun c => strict || decide (sixNeed c < d.length)).mapM (sixChar d)

def unpack6 (strict : Bool) : List Nat → Option (List Nat)
  | [] => some []
  | a :: b :: c :: rest => do
    let g ← sixGroup strict [a, b, c]
    let r ← unpack6 strict rest
    some (g ++ r)
  | d => sixGroup strict d

/-! ### fields.TypeLengthString._from_data (argument: `data[offset:]`) -/

/-- mask of the guard `offset + 1 + (data[offset] & MASK) > len(data)` in the repaired
`FruTypeLengthString.__init__` (a tree without the guard is the `fieldsLax` variant, which does not
use it – the default is the storage definition's) -/
def fieldGuardMask : Nat := FruTables.fieldLenMask.getD 0x3f

def tlString (v : Variant) (k : InputKind) (data : List Nat) : Outcome FieldView :=
  match data with
  | [] => if v.fieldsLax then .pyError "IndexError" else .decodingError
  | tl :: rest =>
    let ftype := (tl >>> FruTables.typeShift) &&& FruTables.typeMask
    let len := tl &&& FruTables.lenMask
    let raw := rest.take len
    -- FruTypeLengthString.__init__ (repaired): `offset + 1 + (data[offset] & 0x3f) > len(data)`
    if !v.fieldsLax && decide (rest.length < tl &&& fieldGuardMask) then .decodingError
    else if ftype = FruTables.typeBcd then
      if v.bcdBytesOnly && k != .bytes then .pyError "AttributeError"
      else match bcdDecode raw with
        | some s => .ok ⟨ftype, len, raw, s⟩
        | none => .pyError "ValueError"
    else if ftype = FruTables.typeSix then
      match unpack6 v.sixStrict raw with
      | some s => .ok ⟨ftype, len, raw, s⟩
      | none => .pyError "IndexError"
    else .ok ⟨ftype, len, raw, raw⟩

/-- `n` consecutive predefined fields; returns the views and the remaining bytes -/
def parseFields (v : Variant) (k : InputKind) : Nat → List Nat → Outcome (List FieldView × List Nat)
  | 0, d => .ok ([], d)
  | n + 1, d =>
    (tlString v k d).bind fun f =>
    (parseFields v k n (d.drop (f.length + 1))).bind fun r =>
    .ok (f :: r.1, r.2)

/-- fru._decode_custom_fields.  Every iteration consumes at least one byte; `fuel` = number of
bytes + 1 never runs out. -/
def customFields (v : Variant) (k : InputKind) : Nat → List Nat → Outcome (List FieldView)
  | 0, _ => .pyError "unreachable"
  | fuel + 1, d =>
    match d with
    | [] => if v.fieldsLax then .pyError "IndexError" else .decodingError
    | b :: _ =>
      if b = FruTables.customFieldEnd then .ok []
      else
        (tlString v k d).bind fun f =>
        (customFields v k fuel (d.drop (f.length + 1))).bind fun fs =>
        .ok (f :: fs)

/-! ### info areas -/

inductive AreaKind where
  | chassis
  | board
  | product
  deriving Repr, DecidableEq, Inhabited

def AreaKind.nFields : AreaKind → Nat
  | .chassis => 2
  | .board => 5
  | .product => 7

/-- bytes read at fixed positions before the first field: offset of the first field and the
minutes value (board: `data[5] << 16 | data[4] << 8 | data[3]`) -/
def areaFixed (kind : AreaKind) (d : List Nat) : Option (Nat × Nat) :=
  match kind with
  | .board =>
    match d[5]?, d[4]?, d[3]? with
    | some a, some b, some c => some (6, a * 65536 + b * 256 + c)
    | _, _, _ => none
  | _ => some (3, 0)

/-- the bytes the sub-class decodes: as shipped everything it was handed; repaired
`data[:self.length - 1]` (Python slice: a length of 0 – possible only without the length
validation – makes that `data[:-1]`) -/
def areaData (v : Variant) (b1 : Nat) (d : List Nat) : List Nat :=
  if v.fieldsLax then d else if b1 * 8 = 0 then d.dropLast else d.take (b1 * 8 - 1)

/-- Inventory{Chassis,Board,Product}InfoArea._from_data behind CommonInfoArea._from_data -/
def areaBody (v : Variant) (k : InputKind) (kind : AreaKind) (b0 b1 : Nat) (dd : List Nat) :
    Outcome (Slot AreaView) :=
  match dd[2]? with
  | none => .pyError "IndexError"
  | some b2 =>
    match areaFixed kind dd with
    | none => .pyError "IndexError"
    | some (off, minutes) =>
      (parseFields v k kind.nFields (dd.drop off)).bind fun r =>
      (customFields v k (r.2.length + 1) r.2).bind fun cs =>
      .ok (.parsed ⟨b0 % 16, b1 * 8, b2, minutes, r.1, cs⟩)

def parseArea (v : Variant) (k : InputKind) (kind : AreaKind) (d : List Nat) : Outcome (Slot AreaView) :=
  match d with
  | [] => .ok .empty
  | b0 :: _ =>
    if b0 % 16 ≠ 1 then .decodingError
    else match d[1]? with
      | none => .pyError "IndexError"
      | some b1 =>
        if !v.areaLenLax && (b1 * 8 == 0 || decide (d.length < b1 * 8)) then .decodingError
        else if (d.take (b1 * 8)).sum % 256 ≠ 0 then .decodingError
        else areaBody v k kind b0 b1 (areaData v b1 d)

/-! ### multi-record area -/

structure RecBase where
  typeId : Nat
  version : Nat
  eol : Bool
  length : Nat
  raw : List Nat
  deriving Repr, DecidableEq, Inhabited

/-- FruDataMultiRecord._from_data -/
def baseRecord (d : List Nat) : Outcome RecBase :=
  if d.length < FruTables.minRecord then .decodingError
  else if (d.take 5).sum % 256 ≠ 0 then .decodingError
  else if (((d.drop 5).take (d.getD 2 0)).sum + d.getD 3 0) % 256 ≠ 0 then .decodingError
  else .ok ⟨d.getD 0 0, d.getD 1 0 % 16, d.getD 1 0 / 128 % 2 == 1, d.getD 2 0,
            (d.drop 5).take (d.getD 2 0)⟩

structure PicmgRec where
  base : RecBase
  mfgId : Nat
  picmgId : Nat
  version : Nat
  deriving Repr, DecidableEq, Inhabited

/-- `data[5] | data[6] << 8 | data[7] << 16` -/
def mfgOf (d : List Nat) : Nat := d.getD 5 0 + d.getD 6 0 * 256 + d.getD 7 0 * 65536

/-! Constants of the repaired dispatch and guards (fixes/C15-3.diff), taken from the source when it
has them (`Gen/FruTables`: `some …`); a tree without them is the `picmgTypeOnly` variant, which
does not use them – the defaults are the storage definition's. -/
def picmgMfg : Nat := FruTables.picmgMfgId.getD picmgMfgId
def dispMinData : Nat := FruTables.dispatchMinData.getD 10
def dispMinLen : Nat := FruTables.dispatchMinLen.getD 5
def picmgMinLen : Nat := FruTables.picmgMinLen.getD 5
def powerMinLen : Nat := FruTables.powerMinLen.getD 7

/-- FruPicmgRecord._from_data -/
def picmgRecord (v : Variant) (d : List Nat) : Outcome PicmgRec :=
  if d.length < FruTables.minPicmg then .decodingError
  else (baseRecord d).bind fun b =>
    if !v.picmgTypeOnly && decide (b.length < picmgMinLen) then .decodingError
    else .ok ⟨b, mfgOf d, d.getD 8 0, d.getD 9 0⟩

/-- the test of `create_from_record_id` behind `data[0] == TYPE_OEM_PICMG`:
repaired `len(data) >= 10 and data[2] >= 5 and (data[5] | data[6] << 8 | data[7] << 16) == PICMG_MANUFACTURER_ID` -/
def isPicmgRec (v : Variant) (d : List Nat) : Bool :=
  v.picmgTypeOnly ||
    (decide (dispMinData ≤ d.length) && decide (dispMinLen ≤ d.getD 2 0) && mfgOf d == picmgMfg)

/-- FruDataMultiRecord.create_from_record_id (argument: `data[offset:]`) -/
def parseRecord (v : Variant) (d : List Nat) : Outcome RecView :=
  match d with
  | [] => .pyError "IndexError"
  | t :: _ =>
    if t = FruTables.picmgRecordType ∧ isPicmgRec v d = true then
      (picmgRecord v d).bind fun p =>
      if p.picmgId = FruTables.powerModuleId then
        if d.length < FruTables.minPower then .decodingError
        else (picmgRecord v d).bind fun q =>
          if !v.picmgTypeOnly && decide (q.base.length < powerMinLen) then .decodingError
          else
          .ok (.power q.base.typeId q.base.eol q.base.length q.base.raw q.mfgId q.picmgId q.version
                (d.getD 10 0 + d.getD 11 0 * 256))
      else (picmgRecord v d).bind fun q =>
        .ok (.picmg q.base.typeId q.base.eol q.base.length q.base.raw q.mfgId q.picmgId q.version)
    else (baseRecord d).bind fun b => .ok (.unknown b.typeId b.version b.eol b.length b.raw)

def RecView.eol : RecView → Bool
  | .unknown _ _ e _ _ => e
  | .picmg _ e _ _ _ _ _ => e
  | .power _ e _ _ _ _ _ _ => e

def RecView.length : RecView → Nat
  | .unknown _ _ _ l _ => l
  | .picmg _ _ l _ _ _ _ => l
  | .power _ _ l _ _ _ _ _ => l

/-- InventoryMultiRecordArea._from_data; every record consumes ≥ 5 bytes, `fuel` = number of bytes -/
def multiLoop (v : Variant) : Nat → List Nat → Outcome (List RecView)
  | 0, _ => .pyError "unreachable"
  | fuel + 1, d =>
    (parseRecord v d).bind fun r =>
    if r.eol then .ok [r]
    else (multiLoop v fuel (d.drop (r.length + 5))).bind fun rs => .ok (r :: rs)

def parseMulti (v : Variant) (d : List Nat) : Outcome (Slot (List RecView)) :=
  match d with
  | [] => .ok .empty
  | _ => (multiLoop v d.length d).bind fun rs => .ok (.parsed rs)

/-! ### header and inventory -/

/-- InventoryCommonHeader._from_data -/
def parseHeader (d : List Nat) : Outcome HeaderView :=
  if d.length ≠ FruTables.headerLen then .decodingError
  else if d.sum % 256 ≠ 0 then .decodingError
  else .ok ⟨d.getD 0 0 % 16, d.getD 1 0 * 8, d.getD 2 0 * 8, d.getD 3 0 * 8, d.getD 4 0 * 8,
            d.getD 5 0 * 8⟩

/-- `if offset: area = Cls(data[offset:])` -/
def slotStep {α : Type} (off : Nat) (bs : List Nat) (p : List Nat → Outcome (Slot α)) :
    Outcome (Slot α) :=
  if off = 0 then .ok .absent else p (bs.drop off)

/-! ### `_check_area_layout(header, fru)` (fixes/C15-5.diff)

    starts  = the five offsets of the common header (None for an absent area)
    lengths = 0, chassis.length, board.length, product.length, sum(record.length + 5)
              (`getattr(area, 'length', 0)`: an absent area or an area object without attributes counts 0)
    for i, start / for j, other: `i != j and start and other and start <= other < start + lengths[i]` -> DecodingError -/

def areaLen : Slot AreaView → Nat
  | .parsed a => a.length
  | _ => 0

def multiLenOf : Slot (List RecView) → Nat
  | .parsed rs => (rs.map fun r => r.length + 5).sum
  | _ => 0

def hdrStart (h : HeaderView) : Nat → Nat
  | 1 => h.internalOff
  | 2 => h.chassisOff
  | 3 => h.boardOff
  | 4 => h.productOff
  | 5 => h.multiOff
  | _ => 0

def slotLens (c b p : Slot AreaView) (m : Slot (List RecView)) : Nat → Nat
  | 2 => areaLen c
  | 3 => areaLen b
  | 4 => areaLen p
  | 5 => multiLenOf m
  | _ => 0

def layoutClash (h : HeaderView) (c b p : Slot AreaView) (m : Slot (List RecView)) : Bool :=
  [1, 2, 3, 4, 5].any fun i => [1, 2, 3, 4, 5].any fun j =>
    i != j && hdrStart h i != 0 && hdrStart h j != 0 &&
      decide (hdrStart h i ≤ hdrStart h j) && decide (hdrStart h j < hdrStart h i + slotLens c b p m i)

/-- FruInventory(data) -/
def parseFru (v : Variant) (k : InputKind) (bs : List Nat) : Outcome FruView :=
  match bs with
  | [] => .ok ⟨none, .absent, .absent, .absent, .absent⟩
  | _ =>
    (parseHeader (bs.take 8)).bind fun h =>
    (slotStep h.chassisOff bs (parseArea v k .chassis)).bind fun c =>
    (slotStep h.boardOff bs (parseArea v k .board)).bind fun b =>
    (slotStep h.productOff bs (parseArea v k .product)).bind fun p =>
    (slotStep h.multiOff bs (parseMulti v)).bind fun m =>
    if !v.overlapLax && layoutClash h c b p m then .decodingError
    else .ok ⟨some h, c, b, p, m⟩

end PyIpmi.Fru
