/-
  `AsfPong.pack` (pyipmi/interfaces/rmcp.py) - the presence pong the library BUILDS (pyipmi/emulation.py answers
  every presence ping with it).  Kept apart from Model/RmcpWire.lean, which C06 and C14 import as well.
-/
import PyIpmi.Model.RmcpWire
namespace PyIpmi.RmcpWire
open PyIpmi PyIpmi.Gen.RmcpFormats

/-- What `AsfPong.pack` returns: as shipped only the 16 data bytes (it overrides `AsfMsg.pack` and never writes the
8-byte ASF header; `tag` is not even an attribute of a fresh object); intended is the ASF header - enterprise
number 4542, type 40h, message tag, reserved, data length - followed by the data (fixes/C05-3.diff). -/
inductive PongPack where
  | asShipped
  | intended
  deriving Repr, DecidableEq

/-- `AsfPong.pack()` of an object with these attributes -/
def pongPackV (v : PongPack) (tag oemIana oemDefined entities interactions : Nat) : Outcome (List Nat) := do
  let data ← structPack pongData [.int oemIana, .int oemDefined, .int entities, .int interactions]
  match v with
  | .asShipped => pure data
  | .intended => asfPack asfPong tag data

end PyIpmi.RmcpWire
