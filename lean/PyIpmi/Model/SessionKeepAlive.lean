/-
  C06 — which keep-alive threads exist on an `Rmcp` interface over a history of
  `establish_session()` / `close_session()` calls (pyipmi/interfaces/rmcp.py).

    establish_session … (handshake) … if self.keep_alive_interval:
                                           self._stop_keep_alive = call_repeatedly(interval, self._get_device_id)
    close_session       if self._stop_keep_alive: self._stop_keep_alive()      -- first statement
                        …Close Session…

  `call_repeatedly` starts a thread that sends Get Device ID every `interval` seconds until the
  stopper it returns is called (the stopper also joins the thread, so nothing of it is under way
  afterwards — that part is C14's).  The interface remembers ONE stopper.  What this model tracks is
  only the bookkeeping: which threads have not been stopped, and which one the remembered stopper
  would stop.  A thread that is running sends datagrams with whatever `self._session` is at that
  moment: nothing of it may be on the wire after Close Session, nor while / after a later handshake
  runs (it would be sent outside a session, under the temporary id, or as a second keep-alive of
  the new session that `close_session` then does not know about).

  Variant flag (probed on the real code):
  * `stopFirst` — intended: `establish_session` begins with `if self._stop_keep_alive:
                  self._stop_keep_alive(); self._stop_keep_alive = None`; as shipped: it does not,
                  and a second successful `establish_session` without a `close_session` in between
                  overwrites the stopper of the first thread, which can then never be stopped.
-/
namespace PyIpmi.Session.KeepAlive

structure KA where
  next : Nat                -- number of threads created so far = id of the next one
  stopper : Option Nat      -- `self._stop_keep_alive`: the thread it stops (`none`: the attribute is None)
  running : List Nat        -- threads that have been started and not stopped
  deriving Repr, DecidableEq

def init : KA := ⟨0, none, []⟩

/-- a call on the interface, as far as the keep-alive is concerned -/
inductive Ev where
  /-- `establish_session`; `started`: the handshake succeeded (and `keep_alive_interval ≠ 0`), so
  `call_repeatedly` was reached — a handshake that fails raises before that line -/
  | establish (started : Bool)
  /-- `close_session`, whether or not its Close Session exchange then succeeds: the stopper is
  called before anything else -/
  | close
  deriving Repr, DecidableEq

/-- `if self._stop_keep_alive: self._stop_keep_alive()` (calling a stopper again is harmless) -/
def stop (k : KA) : KA :=
  match k.stopper with
  | none => k
  | some t => { k with running := k.running.erase t }

/-- the state in which the handshake of an `establish_session` runs -/
def enter (stopFirst : Bool) (k : KA) : KA :=
  if stopFirst then { stop k with stopper := none } else k

def step (stopFirst : Bool) (k : KA) : Ev → KA
  | .establish started =>
    let k1 := enter stopFirst k
    if started then { next := k1.next + 1, stopper := some k1.next, running := k1.next :: k1.running } else k1
  | .close => stop k

def run (stopFirst : Bool) : KA → List Ev → KA
  | k, [] => k
  | k, e :: es => run stopFirst (step stopFirst k e) es

/-- every thread that is running is the one the remembered stopper stops (so there is at most one) -/
def Tidy (k : KA) : Prop := k.running = [] ∨ ∃ t, k.stopper = some t ∧ k.running = [t]

theorem stop_tidy {k : KA} (h : Tidy k) : (stop k).running = [] := by
  rcases h with h | ⟨t, h1, h2⟩
  · unfold stop; split
    · exact h
    · simp [h]
  · simp [stop, h1, h2]

theorem step_tidy {k : KA} (h : Tidy k) (e : Ev) : Tidy (step true k e) := by
  cases e with
  | establish started =>
    have h0 : (enter true k).running = [] := by simpa [enter] using stop_tidy h
    cases started
    · exact Or.inl (by simpa [step] using h0)
    · exact Or.inr ⟨(enter true k).next, by simp [step], by simp [step, h0]⟩
  | close => exact Or.inl (stop_tidy h)

theorem run_tidy (es : List Ev) : ∀ {k : KA}, Tidy k → Tidy (run true k es) := by
  induction es with
  | nil => intro k h; exact h
  | cons e es ih => intro k h; exact ih (step_tidy h e)

theorem run_append (sf : Bool) (es fs : List Ev) : ∀ k, run sf k (es ++ fs) = run sf (run sf k es) fs := by
  induction es with
  | nil => intro k; rfl
  | cons e es ih => intro k; exact ih _

end PyIpmi.Session.KeepAlive
